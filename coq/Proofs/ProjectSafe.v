(* ProjectSafe.v — C01: the scanner-safety theorems, which ScanTotal / StackSafe / EventSafe prove for
   one file, LIFTED TO WHOLE PROJECTS: whatever the file system, the oracle and the include tree,
   scanProject never ends in one of the scanner's impossible states - dispatch to a missing step
   function, a step function falling off its end, a pop of the empty return-state stack, a pop of the
   empty lexeme-event stack, a lexeme event without a lexeme type, a shift off the empty event queue.
   The lifting is generic: any invariant of scanner configurations that holds initially and is kept
   by Next() holds, at every moment of the run, for the scanner of the current file AND for every
   suspended scanner (each relative to its own file's content, which never changes once opened). *)
From JS Require Import Base Bytes Scanner ScanRun Directive Core C14Proofs IncludeRoundTrip.
From JS Require ScannerProg IncludeName ScanTotal StackSafe EventSafe FindsSafe.
From Coq Require Import Lia.
Open Scope Z_scope.

Notation P := ScannerProg.prog_table.
Notation NLc := ScannerProg.is_newline_cond.
Notation WSc := ScannerProg.is_whitespace_cond.
Notation I0 := ScannerProg.initial_state.

Lemma attach_panic_is_not_the_scanners fuel : forall f ctx d p,
  attach fuel f ctx d = CPanic p -> forall q, p <> CPScanner q.
Proof.
  induction fuel as [|fuel IH]; intros f ctx d p Hp q; cbn [attach] in Hp; [discriminate|].
  destruct ctx as [pth|].
  - destruct (node_at f pth) as [cur|]; [|injection Hp as <-; discriminate].
    destruct (is_allowed_in (d_kind cur) (d_kind d)).
    + destruct (_ && _ && _)%bool; [destruct (d_explicit cur); discriminate|]. destruct (append_child _ _ _). discriminate.
    + destruct (d_explicit cur); [discriminate|]. exact (IH _ _ _ _ Hp q).
  - destruct (is_allowed_for_root (d_kind d)); discriminate.
Qed.

Lemma process_current_panic_is_not_the_scanners st p : process_current st = CPanic p -> forall q, p <> CPScanner q.
Proof.
  unfold process_current. intros H q. destruct (cs_cur st) as [d|]; [|discriminate].
  destruct (attach _ _ _ d) as [[f c]| |p0|] eqn:Ea; try discriminate.
  injection H as <-. exact (attach_panic_is_not_the_scanners _ _ _ _ _ Ea q).
Qed.

Lemma core_next_panic_is_not_the_scanners st l p : core_next st l = CPanic p -> forall q, p <> CPScanner q.
Proof.
  unfold core_next. intros H q.
  destruct (orphan_lexeme st l) as [r|] eqn:Eo.
  { unfold orphan_lexeme in Eo. destruct (cs_cur st); [discriminate|].
    destruct (lk l); try discriminate; try (injection Eo as <-; discriminate).
    destruct (lex_value st l); injection Eo as <-; [discriminate|]. injection H as <-. discriminate. }
  destruct (lk l).
  - unfold process_keyword in H. destruct (process_current st) as [s1| |p0|] eqn:Ep; try discriminate.
    + destruct (lex_value s1 l); [|injection H as <-; discriminate]. destruct (_ && _)%bool; [discriminate|].
      destruct (new_directive_type _); [|discriminate]. destruct (directive_tracer s1). discriminate.
    + injection H as <-. exact (process_current_panic_is_not_the_scanners _ _ Ep q).
  - unfold process_parameter in H. destruct (cs_cur st); [|injection H as <-; discriminate].
    destruct (lex_value st l); [|injection H as <-; discriminate]. destruct (append_parameter _ _); discriminate.
  - unfold process_annotation in H. destruct (cs_cur st); [|injection H as <-; discriminate].
    destruct (lex_value st l); [discriminate|]. injection H as <-. discriminate.
  - unfold process_body in H. destruct (cs_cur st); [discriminate|]. injection H as <-. discriminate.
  - unfold process_body in H. destruct (cs_cur st); [discriminate|]. injection H as <-. discriminate.
  - unfold process_body in H. destruct (cs_cur st); [discriminate|]. injection H as <-. discriminate.
  - unfold process_context_begin in H. destruct (cs_cur st); [discriminate|]. injection H as <-. discriminate.
  - unfold process_context_end in H. destruct (process_current st) as [s1| |p0|] eqn:Ep; try discriminate.
    + destruct (close_explicit _ _ _); discriminate.
    + injection H as <-. exact (process_current_panic_is_not_the_scanners _ _ Ep q).
  - unfold process_body in H. destruct (cs_cur st); [discriminate|]. injection H as <-. discriminate.
Qed.

Lemma process_eof_panic_is_not_the_scanners st p : process_eof st = CPanic p -> forall q, p <> CPScanner q.
Proof.
  unfold process_eof. intros H q. destruct (process_current st) as [s1| |p0|] eqn:Ep; try discriminate.
  - destruct (has_unclosed _ _ _); discriminate.
  - injection H as <-. exact (process_current_panic_is_not_the_scanners _ _ Ep q).
Qed.

Section Lift.
  Variable fs : fsmap.
  Variable olen : bytes -> okind -> Z -> olen_res.
  (* an invariant of the scanner configuration of a file with this content, and the panics it excludes *)
  Variable Iv : bytes -> conf -> Prop.
  Variable bad : panic -> Prop.
  Hypothesis Iv_init : forall data, Iv data (init_conf I0).
  Hypothesis Iv_next : forall data ol cf, Iv data cf ->
    match next P NLc WSc data ol cf with
    | ROk (_, cf') => Iv data cf'
    | RPanic p => ~ bad p
    | _ => True
    end.

  Notation pinc := (process_include P NLc WSc fs olen I0).
  Notation snext := (scan_next P NLc WSc olen).
  Notation sproj := (scan_project P NLc WSc fs olen I0).

  Definition all_scanners (st : cstate) : Prop :=
    Iv (file_content st (cs_file st)) (cs_conf st) /\
    Forall (fun it => Iv (file_content st (si_file it)) (si_conf it)) (cs_stack st) /\
    valid_ids st.

  Lemma snext_keeps st : all_scanners st ->
    match snext st with
    | ROk (_, cf) => all_scanners (set_conf st cf)
    | RPanic p => ~ bad p
    | _ => True
    end.
  Proof.
    intros [A [B C]]. unfold scan_next.
    pose proof (Iv_next (file_content st (cs_file st)) (olen (file_name st (cs_file st))) (cs_conf st) A) as N.
    destruct (next P NLc WSc _ _ (cs_conf st)) as [[ol cf]| |p|]; auto.
    split; [exact N|]. split; [exact B|exact C].
  Qed.

  Lemma all_same st st' :
    cs_file st' = cs_file st -> cs_stack st' = cs_stack st -> cs_files st' = cs_files st -> cs_conf st' = cs_conf st ->
    all_scanners st -> all_scanners st'.
  Proof.
    intros F S L Cf [A [B C]]. unfold all_scanners, file_content, valid_ids in *. rewrite F, S, L, Cf. auto.
  Qed.

  Lemma content_stable (files more : list (bytes * bytes)) id :
    (N.to_nat id < List.length files)%nat ->
    match nth_error (files ++ more) (N.to_nat id) with Some (_, c) => c | None => [] end =
    match nth_error files (N.to_nat id) with Some (_, c) => c | None => [] end.
  Proof. intros H. rewrite nth_error_app1 by exact H. reflexivity. Qed.

  Lemma include_keeps st kw stI x : all_scanners st -> pinc st kw = (COk stI, x) -> all_scanners stI.
  Proof.
    intros AS H. pose proof (snext_keeps st AS) as NK.
    destruct (process_include_spec _ _ _ _ _ _ _ _ _ _ H) as [pl [cf [content [pth [Hs [_ [_ [_ [_ [Sk [Fl [Fi Cf]]]]]]]]]]]].
    rewrite Hs in NK. destruct NK as [A [B [Vc Vs]]]. cbn [cs_conf cs_file cs_files cs_stack set_conf] in A, B, Vc, Vs.
    unfold all_scanners, file_content, valid_ids. rewrite Sk, Fl, Fi, Cf.
    assert (Hnew : nth_error (cs_files st ++ [(pth, content)]) (N.to_nat (N.of_nat (List.length (cs_files st)))) = Some (pth, content)).
    { rewrite Nat2N.id. rewrite nth_error_app2 by lia. rewrite Nat.sub_diag. reflexivity. }
    rewrite Forall_forall in Vs.
    split; [rewrite Hnew; apply Iv_init|]. split.
    - constructor.
      + cbn [si_file si_conf]. rewrite content_stable by exact Vc. exact A.
      + unfold file_content in B. rewrite Forall_forall in B |- *. intros it Hit.
        rewrite content_stable by (apply Vs; exact Hit). exact (B it Hit).
    - rewrite app_length. cbn [List.length]. split.
      + rewrite Nat2N.id. lia.
      + constructor; [cbn [si_file]; lia|]. rewrite Forall_forall. intros it Hit. specialize (Vs it Hit). lia.
  Qed.

  Lemma include_panic st kw p x : all_scanners st -> pinc st kw = (CPanic p, x) -> forall q, p = CPScanner q -> ~ bad q.
  Proof.
    intros AS H q E. pose proof (snext_keeps st AS) as NK. unfold process_include in H.
    destruct (snext st) as [[ol cf]|e0|p0|]; try discriminate.
    2:{ injection H as <- _. injection E as <-. exact NK. }
    destruct ol as [pl|]; [|discriminate].
    destruct (lk pl); try discriminate.
    destruct (lex_value (set_conf st cf) pl) as [raw|]; [|injection H as <- _; discriminate].
    destruct (beq (unquote raw) []); [discriminate|].
    destruct (validate_include IncludeName.include_checks (unquote raw)) as [[m|]|]; try discriminate.
    2:{ injection H as <- _. discriminate. }
    cbn zeta in H.
    match type of H with context [stat_path fs ?pp] => destruct (stat_path fs pp) end; try discriminate.
    match type of H with (if ?c then _ else _) = _ => destruct c end; discriminate.
  Qed.

  Theorem project_scanner_panics_are_not_bad :
    forall fuel st p stx, all_scanners st -> sproj fuel st = SPanic (CPScanner p) stx -> ~ bad p.
  Proof.
    induction fuel as [|fuel IH]; intros st p stx AS H; cbn [scan_project] in H; [discriminate|].
    pose proof (snext_keeps st AS) as NK.
    destruct (snext st) as [[[l|] cf]|e0|p0|] eqn:Es; try discriminate.
    - destruct (is_include (set_conf st cf) l).
      + destruct (pinc (set_conf st cf) l) as [[sI|e1|p1|] st2] eqn:Ei; try discriminate.
        * eapply IH; [|exact H]. eapply include_keeps; [exact NK|exact Ei].
        * injection H as -> _. eapply include_panic; [exact NK|exact Ei|reflexivity].
      + unfold lift in H. destruct (core_next (set_conf st cf) l) as [s1|e1|p1|] eqn:En; try discriminate.
        * destruct (core_next_frame _ _ _ En) as [F [S [L Cf]]].
          eapply IH; [|exact H]. exact (all_same _ _ F S L Cf NK).
        * injection H as -> _. exfalso. exact (core_next_panic_is_not_the_scanners _ _ _ En p eq_refl).
    - unfold lift in H. destruct (process_eof (set_conf st cf)) as [stE|e1|p1|] eqn:Ee; try discriminate.
      + destruct (cs_stack stE) as [|it rest] eqn:Ek; [discriminate|].
        eapply IH; [|exact H].
        pose proof (process_eof_is_process_current _ _ Ee) as Ec.
        destruct (process_current_frame _ _ Ec) as [[F [S [L Cf]]] _].
        pose proof (all_same _ _ F S L Cf NK) as [A [B [Vc Vs]]].
        rewrite Ek in B, Vs. unfold all_scanners, resume, file_content, valid_ids in *. cbn [cs_file cs_conf cs_stack cs_files].
        pose proof (Forall_inv B) as B1. pose proof (Forall_inv_tail B) as B2.
        pose proof (Forall_inv Vs) as V1. pose proof (Forall_inv_tail Vs) as V2.
        split; [exact B1|]. split; [exact B2|]. split; [exact V1|exact V2].
      + injection H as -> _. exfalso. exact (process_eof_panic_is_not_the_scanners _ _ Ee p eq_refl).
    - injection H as <- _. exact NK.
  Qed.

  (* whatever processInclude answers, the state it hands back is the includer with the scanner
     configuration after the parameter (and a longer access log) *)
  Lemma include_other_state st kw r x : all_scanners st -> pinc st kw = (r, x) ->
    (forall sI, r <> COk sI) -> all_scanners x.
  Proof.
    intros AS H NOK. pose proof (snext_keeps st AS) as NK. unfold process_include in H.
    destruct (snext st) as [[ol cf]|e0|p0|]; try (injection H as _ <-; exact AS).
    destruct ol as [pl|]; [|injection H as _ <-; exact NK].
    destruct (lk pl); try (injection H as _ <-; exact NK).
    destruct (lex_value (set_conf st cf) pl) as [raw|]; [|injection H as _ <-; exact NK].
    destruct (beq (unquote raw) []); [injection H as _ <-; exact NK|].
    destruct (validate_include IncludeName.include_checks (unquote raw)) as [[m|]|]; try (injection H as _ <-; exact NK).
    cbn zeta in H.
    assert (LG : forall w pth, all_scanners (add_log (set_conf st cf) w pth)).
    { intros w pth. exact (all_same _ _ eq_refl eq_refl eq_refl eq_refl NK). }
    match type of H with context [stat_path fs ?pp] => destruct (stat_path fs pp) end;
      try (injection H as _ <-; apply LG).
    match type of H with (if ?c then _ else _) = _ => destruct c end.
    - injection H as _ <-. exact (all_same _ _ eq_refl eq_refl eq_refl eq_refl (LG _ _)).
    - injection H as <- _. exfalso. eapply NOK. reflexivity.
  Qed.

  (* the state the run stops in (with a forest, an error or a panic value) satisfies the invariant *)
  Theorem final_state_scanners :
    forall fuel st, all_scanners st ->
      match sproj fuel st with
      | SDone stx | SErr _ stx | SPanic _ stx => all_scanners stx
      | SFuel => True
      end.
  Proof.
    induction fuel as [|fuel IH]; intros st AS; cbn [scan_project]; [exact I|].
    pose proof (snext_keeps st AS) as NK.
    destruct (snext st) as [[[l|] cf]|e0|p0|] eqn:Es; try exact AS; try exact I.
    - destruct (is_include (set_conf st cf) l).
      + destruct (pinc (set_conf st cf) l) as [r st2] eqn:Ei.
        destruct r as [sI|e1|p1|].
        * apply IH. eapply include_keeps; [exact NK|exact Ei].
        * eapply include_other_state; [exact NK|exact Ei|discriminate].
        * eapply include_other_state; [exact NK|exact Ei|discriminate].
        * exact I.
      + unfold lift. destruct (core_next (set_conf st cf) l) as [s1|e1|p1|] eqn:En; try exact NK; try exact I.
        destruct (core_next_frame _ _ _ En) as [F [S [L Cf]]].
        apply IH. exact (all_same _ _ F S L Cf NK).
    - unfold lift. destruct (process_eof (set_conf st cf)) as [stE|e1|p1|] eqn:Ee; try exact NK; try exact I.
      pose proof (process_eof_is_process_current _ _ Ee) as Ec.
      destruct (process_current_frame _ _ Ec) as [[F [S [L Cf]]] _].
      pose proof (all_same _ _ F S L Cf NK) as ASE.
      destruct (cs_stack stE) as [|it rest] eqn:Ek; [exact ASE|].
      apply IH. destruct ASE as [A [B [Vc Vs]]].
      rewrite Ek in B, Vs. unfold all_scanners, resume, file_content, valid_ids in *. cbn [cs_file cs_conf cs_stack cs_files].
      pose proof (Forall_inv B) as B1. pose proof (Forall_inv_tail B) as B2.
      pose proof (Forall_inv Vs) as V1. pose proof (Forall_inv_tail Vs) as V2.
      split; [exact B1|]. split; [exact B2|]. split; [exact V1|exact V2].
  Qed.

  (* every state on which Next() is invoked during the run (the loop's own calls and the one
     processInclude makes for the file name) *)
  Fixpoint next_calls (fuel : nat) (st : cstate) : list cstate :=
    match fuel with
    | O => []
    | S f =>
        st ::
        match snext st with
        | ROk (Some l, cf) =>
            let st' := set_conf st cf in
            if is_include st' l then
              st' :: match pinc st' l with (COk sI, _) => next_calls f sI | _ => [] end
            else match core_next st' l with COk s1 => next_calls f s1 | _ => [] end
        | ROk (None, cf) =>
            match process_eof (set_conf st cf) with
            | COk stE => match cs_stack stE with [] => [] | it :: rest => next_calls f (resume stE it rest) end
            | _ => []
            end
        | _ => []
        end
    end.

  Theorem every_next_call_is_made_under_the_invariant :
    forall fuel st, all_scanners st -> Forall all_scanners (next_calls fuel st).
  Proof.
    induction fuel as [|fuel IH]; intros st AS; cbn [next_calls]; [constructor|].
    constructor; [exact AS|].
    pose proof (snext_keeps st AS) as NK.
    destruct (snext st) as [[[l|] cf]|e0|p0|] eqn:Es; try constructor.
    - destruct (is_include (set_conf st cf) l).
      + constructor; [exact NK|].
        destruct (pinc (set_conf st cf) l) as [[sI|e1|p1|] st2] eqn:Ei; try constructor.
        apply IH. eapply include_keeps; [exact NK|exact Ei].
      + destruct (core_next (set_conf st cf) l) as [s1|e1|p1|] eqn:En; try constructor.
        destruct (core_next_frame _ _ _ En) as [F [S [L Cf]]].
        apply IH. exact (all_same _ _ F S L Cf NK).
    - destruct (process_eof (set_conf st cf)) as [stE|e1|p1|] eqn:Ee; try constructor.
      pose proof (process_eof_is_process_current _ _ Ee) as Ec.
      destruct (process_current_frame _ _ Ec) as [[F [S [L Cf]]] _].
      pose proof (all_same _ _ F S L Cf NK) as ASE.
      destruct (cs_stack stE) as [|it rest] eqn:Ek; [constructor|].
      apply IH. destruct ASE as [A [B [Vc Vs]]].
      rewrite Ek in B, Vs. unfold all_scanners, resume, file_content, valid_ids in *. cbn [cs_file cs_conf cs_stack cs_files].
      pose proof (Forall_inv B) as B1. pose proof (Forall_inv_tail B) as B2.
      pose proof (Forall_inv Vs) as V1. pose proof (Forall_inv_tail Vs) as V2.
      split; [exact B1|]. split; [exact B2|]. split; [exact V1|exact V2].
  Qed.

  Lemma initial_all rn rc : all_scanners (initial_cstate I0 rn rc).
  Proof.
    unfold all_scanners, initial_cstate, file_content, valid_ids. cbn [cs_conf cs_file cs_files cs_stack List.length N.to_nat nth_error].
    split; [apply Iv_init|]. split; [constructor|]. split; [lia|constructor].
  Qed.
End Lift.

(* the three instances *)
Theorem project_scan_never_reaches_an_impossible_scanner_state :
  forall fs olen root_name root_content fuel p stx,
    scan_project P NLc WSc fs olen I0 fuel (initial_cstate I0 root_name root_content) = SPanic (CPScanner p) stx ->
    p <> PNoState /\ p <> PFallthrough /\ p <> PStepStackEmpty /\ p <> PEventStackEmpty /\ p <> PLexemeType /\ p <> PFindsEmpty.
Proof.
  intros fs olen rn rc fuel p stx H.
  assert (A : ~ (p = PNoState \/ p = PFallthrough)).
  { eapply (project_scanner_panics_are_not_bad fs olen (fun _ cf => ScanTotal.conf_ok P cf) (fun q => q = PNoState \/ q = PFallthrough));
      [| |apply initial_all|exact H].
    - intros data. split; [vm_compute; reflexivity|constructor].
    - intros data ol cf Hc. pose proof (ScanTotal.next_ok P NLc WSc data ol ScanTotal.prog_wf_ok cf Hc) as N.
      destruct (next P NLc WSc data ol cf) as [[o cf']| |q|]; cbn [ScanTotal.good snd] in N; auto.
      intros [-> | ->]; exact N.
    - intros data. split; [vm_compute; reflexivity|constructor]. }
  assert (B : ~ (p = PStepStackEmpty)).
  { eapply (project_scanner_panics_are_not_bad fs olen (fun _ cf => StackSafe.Inv StackSafe.inferredL cf) (fun q => q = PStepStackEmpty));
      [| |apply initial_all|exact H].
    - intros data. split; [vm_compute; discriminate|exact I].
    - intros data ol cf Hc. pose proof (StackSafe.next_fine P NLc WSc data ol StackSafe.inferredL StackSafe.inferred_ok cf Hc) as N.
      destruct (next P NLc WSc data ol cf) as [[o cf']| |q|]; cbn [StackSafe.fine snd] in N; auto.
      intros ->. exact N.
    - intros data. split; [vm_compute; discriminate|exact I]. }
  assert (C : ~ (p = PEventStackEmpty \/ p = PLexemeType)).
  { eapply (project_scanner_panics_are_not_bad fs olen (fun data cf => EventSafe.Inv2 data EventSafe.inferredSg cf) (fun q => q = PEventStackEmpty \/ q = PLexemeType));
      [| |apply initial_all|exact H].
    - intros data. exists []. split; [reflexivity|split; [constructor|left; vm_compute; reflexivity]].
    - intros data ol cf Hc. pose proof (EventSafe.next_events P NLc WSc data ol EventSafe.inferredSg EventSafe.inferred_ok cf Hc) as N.
      destruct (next P NLc WSc data ol cf) as [[o cf']| |q|]; cbn [EventSafe.fineE snd] in N; auto.
      intros [-> | ->]; exact N.
    - intros data. exists []. split; [reflexivity|split; [constructor|left; vm_compute; reflexivity]]. }
  assert (D : ~ (p = PFindsEmpty)).
  { eapply (project_scanner_panics_are_not_bad fs olen (fun _ _ => True) (fun q => q = PFindsEmpty));
      [| |apply initial_all|exact H].
    - intros data. exact Logic.I.
    - intros data ol cf _. pose proof (FindsSafe.next_never_shifts_an_empty_queue P NLc WSc data ol cf) as N.
      destruct (next P NLc WSc data ol cf) as [[o cf']| |q|]; auto. intros ->. apply N. reflexivity.
    - intros data. exact Logic.I. }
  repeat split; intros E; subst p; tauto.
Qed.

(* C07 for whole projects: wherever the run of scanProject stops - in the root file or in any
   included file, after any number of suspensions and resumptions - an error Next() raises there
   points into the file being scanned (0 <= index <= length of THAT file) *)
From JS Require ErrInFile.
Theorem project_scanner_errors_point_into_their_file :
  forall fs olen root_name root_content fuel,
    match scan_project P NLc WSc fs olen I0 fuel (initial_cstate I0 root_name root_content) with
    | SDone stx | SErr _ stx | SPanic _ stx =>
        forall e0, scan_next P NLc WSc olen stx = RErr e0 -> ErrInFile.in_file (file_content stx (cs_file stx)) e0
    | SFuel => True
    end.
Proof.
  intros fs olen rn rc fuel.
  set (Iv := fun data cf => EventSafe.Inv2 data EventSafe.inferredSg cf).
  assert (II : forall data, Iv data (init_conf I0)).
  { intros data. exists []. split; [reflexivity|split; [constructor|left; vm_compute; reflexivity]]. }
  assert (NX : forall data ol cf, Iv data cf ->
            match next P NLc WSc data ol cf with ROk (_, cf') => Iv data cf' | RPanic _ => ~ False | _ => True end).
  { intros data ol cf Hc. pose proof (EventSafe.next_events P NLc WSc data ol EventSafe.inferredSg EventSafe.inferred_ok cf Hc) as N.
    destruct (next P NLc WSc data ol cf) as [[o cf']| |q|]; cbn [EventSafe.fineE snd] in N; auto. }
  pose proof (final_state_scanners fs olen Iv (fun _ => False) II NX fuel _ (initial_all Iv II rn rc)) as F.
  assert (G : forall stx, all_scanners Iv stx ->
            forall e0, scan_next P NLc WSc olen stx = RErr e0 -> ErrInFile.in_file (file_content stx (cs_file stx)) e0).
  { intros stx [A _] e0 He. unfold scan_next in He.
    pose proof (ErrInFile.next_errs (file_content stx (cs_file stx)) (olen (file_name stx (cs_file stx))) (cs_conf stx) A) as NE.
    rewrite He in NE. exact NE. }
  destruct (scan_project P NLc WSc fs olen I0 fuel (initial_cstate I0 rn rc)); try exact I; apply G; exact F.
Qed.

(* C12 for whole projects: every lexeme Next() delivers during a run of scanProject - in the root
   file or any included file, including the INCLUDE keyword and its file name - has a well-formed
   extent (begin <= end + 1), and no call of Next() made during the run ends in one of the five
   impossible scanner states *)
From JS Require ExtentSafe.
Theorem project_lexeme_extents_are_never_inverted :
  forall fs olen root_name root_content fuel,
    Forall (fun st => match scan_next P NLc WSc olen st with
                      | ROk (Some l, _) => lb l <= le l + 1
                      | _ => True
                      end)
           (next_calls fs olen fuel (initial_cstate I0 root_name root_content)).
Proof.
  intros fs olen rn rc fuel.
  set (Iv := fun data cf => ExtentSafe.Inv2 data ExtentSafe.inferredSg cf).
  assert (II : forall data, Iv data (init_conf I0)).
  { intros data. exists []. split; [reflexivity|split; [constructor|left]]. exists []. split; [vm_compute; reflexivity|constructor]. }
  assert (NX : forall data ol cf, Iv data cf ->
            match next P NLc WSc data ol cf with ROk (_, cf') => Iv data cf' | RPanic _ => ~ False | _ => True end).
  { intros data ol cf Hc. pose proof (ExtentSafe.next_extents P NLc WSc data ol ExtentSafe.inferredSg ExtentSafe.inferred_ok cf Hc) as N.
    destruct (next P NLc WSc data ol cf) as [[o cf']| |q|]; cbn [ExtentSafe.fineL] in N; auto. exact (proj1 N). }
  pose proof (every_next_call_is_made_under_the_invariant fs olen Iv (fun _ => False) II NX fuel _ (initial_all Iv II rn rc)) as F.
  eapply Forall_impl; [|exact F].
  intros st [A _]. unfold scan_next.
  pose proof (ExtentSafe.next_extents P NLc WSc (file_content st (cs_file st)) (olen (file_name st (cs_file st)))
                ExtentSafe.inferredSg ExtentSafe.inferred_ok (cs_conf st) A) as N.
  destruct (next P NLc WSc _ _ (cs_conf st)) as [[[l|] cf']| |q|]; cbn [ExtentSafe.fineL] in N; auto.
  exact (proj2 N).
Qed.
