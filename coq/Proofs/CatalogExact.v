(* CatalogExact.v — the interactions of a built catalog are EXACTLY the method directives of the
   forest, in document order: nothing missing, nothing invented, nothing reordered.  For every
   forest, ban list and body text: the list of interaction ids of the catalog equals the list of
   ids of the HTTP-method and JSON-RPC Method directives met in a pre-order walk of the forest. *)
From JS Require Import Base Bytes Scanner Directive Core Expand Catalog C05Proofs C02Proofs CatalogOrder.
From JS Require DirectiveTables ErrConsts.
Open Scope Z_scope.

(* the interaction a directive stands for, if any *)
Definition own_ids (d : dir) (anc : list dir) : list bytes :=
  if is_method (d_kind d) then match http_id d anc with inl (id, _, _) => [id] | inr _ => [] end
  else if N.eqb (d_kind d) DirectiveTables.dir_Method then match rpc_id d anc with inl (id, _, _) => [id] | inr _ => [] end
  else [].

Fixpoint tree_ids (fuel : nat) (d : dir) (anc : list dir) : list bytes :=
  match fuel with
  | O => []
  | S f => own_ids d anc ++ flat_map (fun c => tree_ids f c (d :: anc)) (d_children d)
  end.
Definition forest_ids (fuel : nat) (ds : list dir) : list bytes := flat_map (fun d => tree_ids fuel d []) ds.

Lemma own_nil d anc : is_method (d_kind d) = false -> N.eqb (d_kind d) DirectiveTables.dir_Method = false -> own_ids d anc = [].
Proof. intros A B. unfold own_ids. rewrite A, B. reflexivity. Qed.

(* a directive of a kind that is neither an HTTP method nor Method *)
Ltac other_kind :=
  apply own_nil;
  first
    [ assumption
    | repeat match goal with
             | E : (false || _)%bool = true |- _ => cbn [orb] in E
             end;
      match goal with
      | E : N.eqb (d_kind _) ?k = true |- _ => apply N.eqb_eq in E; rewrite E; vm_compute; reflexivity
      | E : (N.eqb (d_kind _) _ || N.eqb (d_kind _) _)%bool = true |- _ =>
          apply orb_prop in E; destruct E as [E|E]; apply N.eqb_eq in E; rewrite E; vm_compute; reflexivity
      end ].

Ltac same_ids :=
  repeat (first [rewrite upd_http_ids by keeps_id | rewrite upd_rpc_ids by keeps_id]);
  try reflexivity.

Lemma add_request_ids c d anc c' : add_request c d anc = COk c' -> ids c' = ids c.
Proof. unfold add_request. intros H. crush H. all: errs H. all: injection H as <-. all: same_ids. Qed.
Lemma add_response_ids c d anc c' : add_response c d anc = COk c' -> ids c' = ids c.
Proof. unfold add_response. intros H. crush H. all: errs H. all: injection H as <-. all: same_ids. Qed.
Lemma add_description_ids c d anc body c' : add_description c d anc body = COk c' -> ids c' = ids c.
Proof. unfold add_description. intros H. crush H. all: errs H. all: injection H as <-. all: same_ids. Qed.

Theorem add_directive_exact banned c d anc c' :
  add_directive banned c d anc = COk c' -> ids c' = ids c ++ own_ids d anc.
Proof.
  unfold add_directive. intros H.
  crush H.
  all: errs H.
  all: try (apply add_request_ids in H; match goal with |- _ = _ ++ own_ids ?dd ?aa => assert (N0 : own_ids dd aa = []) by other_kind; rewrite N0, app_nil_r end; exact H).
  all: try (apply add_response_ids in H; match goal with |- _ = _ ++ own_ids ?dd ?aa => assert (N0 : own_ids dd aa = []) by other_kind; rewrite N0, app_nil_r end; exact H).
  all: try (injection H as <-).
  all: try (match goal with |- _ = _ ++ own_ids ?dd ?aa => assert (N0 : own_ids dd aa = []) by other_kind; rewrite N0, app_nil_r end; same_ids; fail).
  - (* URL *) match goal with |- _ = _ ++ own_ids ?dd ?aa => assert (N0 : own_ids dd aa = []) by other_kind; rewrite N0, app_nil_r end. unfold ids. cbn [c_inters].
    match goal with E : check_paths _ _ _ = inl _ |- _ => exact (check_paths_ids _ _ _ _ _ E) end.
  - (* an HTTP method *)
    match goal with E : check_paths _ _ _ = inl _ |- _ => pose proof (check_paths_ids _ _ _ _ _ E) as Hc end.
    rewrite ids_app, Hc. unfold own_ids.
    match goal with E : is_method _ = true |- _ => rewrite E end.
    match goal with E : http_id _ _ = inl _ |- _ => rewrite E end. reflexivity.
  - (* a JSON-RPC method *)
    rewrite ids_app. unfold own_ids.
    match goal with E : is_method _ = false |- _ => rewrite E end.
    match goal with E : N.eqb _ DirectiveTables.dir_Method = true |- _ => rewrite E end.
    match goal with E : rpc_id _ _ = inl _ |- _ => rewrite E end. reflexivity.
Qed.

Section Lift.
  Variable read_body : coords -> bytes.
  Variable banned : list N.

  Lemma add_branch_exact fuel : forall c d anc c',
    add_branch read_body banned fuel c d anc = COk c' -> ids c' = ids c ++ tree_ids fuel d anc.
  Proof.
    induction fuel as [|fuel IH]; intros c d anc c' H; cbn [add_branch] in H; [discriminate|].
    match type of H with match ?r with _ => _ end = _ => destruct r as [c1| | |] eqn:R; try discriminate end.
    assert (S1 : ids c1 = ids c ++ own_ids d anc).
    { destruct (existsb (N.eqb (d_kind d)) banned); [eapply add_directive_exact; exact R|].
      destruct (N.eqb (d_kind d) DirectiveTables.dir_Description) eqn:K; [|eapply add_directive_exact; exact R].
      rewrite (add_description_ids _ _ _ _ _ R). apply N.eqb_eq in K.
      rewrite own_nil; [rewrite app_nil_r; reflexivity|rewrite K; reflexivity|rewrite K; reflexivity]. }
    cbn [tree_ids]. rewrite app_assoc, <- S1. clear R S1.
    revert c1 H. generalize (d_children d) as cs.
    induction cs as [|x rest IHc]; intros c1 H; cbn [flat_map].
    - injection H as <-. rewrite app_nil_r. reflexivity.
    - destruct (add_branch read_body banned fuel c1 x (d :: anc)) as [c2| | |] eqn:B; try discriminate.
      rewrite (IHc _ H), (IH _ _ _ _ B), app_assoc. reflexivity.
  Qed.

  Lemma add_all_exact fuel ds : forall c c',
    add_all read_body banned fuel c ds = COk c' -> ids c' = ids c ++ forest_ids fuel ds.
  Proof.
    unfold forest_ids. induction ds as [|d ds IH]; intros c c' H; cbn [add_all flat_map] in *.
    - injection H as <-. rewrite app_nil_r. reflexivity.
    - destruct (add_branch read_body banned fuel c d []) as [c1| | |] eqn:B; try discriminate.
      rewrite (IH _ _ H), (add_branch_exact _ _ _ _ _ B), app_assoc. reflexivity.
  Qed.

  Lemma collect_tags_ids ds : forall e c0, collect_tags e ds = COk c0 -> ids c0 = ids e.
  Proof.
    induction ds as [|d ds IH]; intros e c0 T; cbn [collect_tags] in T.
    - injection T as <-. reflexivity.
    - destruct (N.eqb (d_kind d) DirectiveTables.dir_TAG); [|apply IH; exact T].
      destruct (beq (named d KTagName) []); [unfold required, kerr in T; discriminate|].
      destruct (find_tag (c_tags e) (named d KTagName)); [unfold kerr in T; discriminate|].
      rewrite (IH _ _ T). reflexivity.
  Qed.

  (* C02: the interactions of a built catalog are exactly the method directives of the forest *)
  Theorem built_catalog_interactions_are_exactly_the_method_directives fuel forest c :
    build_catalog read_body banned fuel forest = COk c -> ids c = forest_ids fuel forest.
  Proof.
    unfold build_catalog. intros H.
    destruct (collect_tags empty_catalog forest) as [c0| | |] eqn:T; try discriminate.
    destruct (dup_type_error [] forest); [discriminate|].
    destruct (type_without_body forest); [discriminate|].
    destruct (collect_paths fuel forest [] None); [|discriminate].
    destruct (missed_path_errors forest); [discriminate|].
    pose proof (collect_tags_ids _ _ _ T) as I0. cbn in I0.
    destruct (negb _).
    - destruct forest; [injection H as <-; exact I0|unfold kerr1, kerr in H; discriminate].
    - destruct (add_all read_body banned fuel c0 forest) as [c1| | |] eqn:A; try discriminate.
      destruct (validate c1); [discriminate|]. injection H as <-.
      rewrite (add_all_exact _ _ _ _ A), I0. reflexivity.
  Qed.
End Lift.

Print Assumptions built_catalog_interactions_are_exactly_the_method_directives.
