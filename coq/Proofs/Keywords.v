(* Keywords.v — the keyword-recognising part of the scanner, for an arbitrary program:
   classification of the per-byte behaviour of a state, the trie walk, the checker that
   explores every branch over the full 256-byte alphabet, and the bridge from the walk to
   Scanner.next.  The theorems here are generic in the program; Props/C13.v instantiates
   them with the regenerated program by evaluating the checkers. *)
From JS Require Import Base Bytes Scanner ExecLemmas.
From JS Require LexemeEvents.
From Coq Require Import Lia.
Open Scope Z_scope.

Definition all_bytes : list N := List.map N.of_nat (List.seq 0 256).

Lemma in_all_bytes c : (c < 256)%N -> In c all_bytes.
Proof.
  intros H. unfold all_bytes. apply in_map_iff. exists (N.to_nat c). split.
  - apply N2Nat.id.
  - apply in_seq. lia.
Qed.

Section KW.
  Variable prog : list (string * stmt).
  Variable nl_cond ws_cond : cond.
  Variable ek : state.   (* stateExpectKeyword *)
  Variable poa : state.  (* stateParameterOrAnnotation *)

  Inductive kwt :=
  | KStart (st : state)        (* found(KeywordBegin); step = st; return nil *)
  | KGoto (st : state)         (* step = st; return nil *)
  | KAccept (x : state)        (* found(KeywordEnd); Push(x); step = poa; return nil *)
  | KReject (w e : string)     (* return japiErrorUnexpectedChar(w, e) *)
  | KOther.

  Definition classify (l : option (list stmt)) : kwt :=
    match l with
    | Some [SFound KeywordBegin off; SSetStep st'; SRetNil] =>
        if off =? 0 then KStart st' else KOther
    | Some [SSetStep st'; SRetNil] => KGoto st'
    | Some [SFound KeywordEnd off; SPush x; SSetStep p; SRetNil] =>
        if (off =? 0) && N.eqb p poa then KAccept x else KOther
    | Some [SRetErr w e] => KReject w e
    | _ => KOther
    end.

  Definition kw_trans (st : state) (c : byte) : kwt :=
    match body_of prog st with
    | Some b => classify (flat nl_cond ws_cond c b)
    | None => KOther
    end.

  (* walk the bytes of [w] from state [st]; Some x: all of w consumed and the last byte
     completed a keyword, pushing x *)
  Fixpoint kw_acc (st : state) (w : list N) : option state :=
    match w with
    | [] => None
    | c :: w' =>
        match kw_trans st c with
        | KGoto st' => kw_acc st' w'
        | KAccept x => match w' with [] => Some x | _ => None end
        | _ => None
        end
    end.

  Definition kw_acc_start (w : list N) : option state :=
    match w with
    | [] => None
    | c :: w' =>
        match kw_trans ek c with
        | KStart st1 => kw_acc st1 w'
        | _ => None
        end
    end.

  Inductive kwres :=
  | RunAccept (k : nat) (x : state)     (* the first k bytes form a keyword *)
  | RunReject (k : nat) (w e : string)  (* byte number k (from 0) is refused *)
  | RunMore (st : state)                (* input exhausted inside a keyword *)
  | RunOther.

  Fixpoint kw_run (st : state) (w : list N) (k : nat) : kwres :=
    match w with
    | [] => RunMore st
    | c :: w' =>
        match kw_trans st c with
        | KGoto st' => kw_run st' w' (S k)
        | KAccept x => RunAccept (S k) x
        | KReject a b => RunReject k a b
        | _ => RunOther
        end
    end.

  Definition kw_run_start (w : list N) : kwres :=
    match w with
    | [] => RunMore ek
    | c :: w' =>
        match kw_trans ek c with
        | KStart st1 => kw_run st1 w' 1
        | _ => RunOther
        end
    end.

  (* ------------------------------------------------------------------------------ *)
  (* checker B: explore every branch; every completed word must be expected; every
     state on the way must be total (no KOther) and live (some word completes below it).
     Some n: n words complete below [st]. *)
  Variable expected : list (list N).

  Definition mem_word (w : list N) : bool := existsb (N_eqb_list w) expected.

  Fixpoint explore (fuel : nat) (st : state) (p : list N) : option nat :=
    match fuel with
    | O => None
    | S f =>
        fold_right
          (fun c acc =>
             match acc with
             | None => None
             | Some n =>
                 match kw_trans st c with
                 | KGoto st' =>
                     match explore f st' (p ++ [c]) with
                     | Some (S m) => Some (n + S m)%nat
                     | _ => None
                     end
                 | KAccept _ => if mem_word (p ++ [c]) then Some (S n) else None
                 | KReject _ _ => Some n
                 | _ => None
                 end
             end)
          (Some O) all_bytes
    end.

  Definition explore_start (fuel : nat) : option nat :=
    fold_right
      (fun c acc =>
         match acc with
         | None => None
         | Some n =>
             match kw_trans ek c with
             | KStart st1 =>
                 match explore fuel st1 [c] with
                 | Some (S m) => Some (n + S m)%nat
                 | _ => None
                 end
             | KGoto _ | KAccept _ => None
             | _ => Some n
             end
         end)
      (Some O) all_bytes.

  Lemma N_eqb_list_eq a b : N_eqb_list a b = true -> a = b.
  Proof.
    revert b; induction a as [|x a IH]; intros [|y b] H; cbn in H; try discriminate; auto.
    apply andb_prop in H as [H1 H2]. apply N.eqb_eq in H1. f_equal; auto.
  Qed.

  Lemma N_eqb_list_refl a : N_eqb_list a a = true.
  Proof. induction a as [|x a IH]; cbn; auto. rewrite N.eqb_refl. exact IH. Qed.

  Lemma mem_word_in w : mem_word w = true -> In w expected.
  Proof.
    unfold mem_word. intros H. apply existsb_exists in H as [v [Hv E]].
    apply N_eqb_list_eq in E. subst; exact Hv.
  Qed.

  (* a fold of the shape used by [explore]: success means every element succeeded *)
  Lemma fold_some {A} (f : A -> nat -> option nat) (l : list A) n :
    fold_right (fun c acc => match acc with None => None | Some n => f c n end) (Some O) l = Some n ->
    forall c, In c l -> exists m m', f c m = Some m'.
  Proof.
    revert n; induction l as [|x l IH]; intros n H c Hc; [destruct Hc|].
    cbn in H.
    destruct (fold_right _ _ l) as [m|] eqn:E; [|discriminate].
    destruct Hc as [<-|Hc].
    - exists m, n. exact H.
    - eapply IH; eauto.
  Qed.

  Lemma explore_sound fuel :
    forall st p n, explore fuel st p = Some n ->
    forall w x, Forall (fun b => (b < 256)%N) w -> kw_acc st w = Some x -> In (p ++ w) expected.
  Proof.
    induction fuel as [|f IH]; intros st p n H w x Hw Hacc; [discriminate|].
    destruct w as [|c w']; [discriminate|].
    inversion Hw as [|? ? Hc Hw']; subst.
    cbn [explore] in H.
    pose proof (fold_some _ _ _ H c (in_all_bytes c Hc)) as [m [m' Hf]].
    cbn [kw_acc] in Hacc.
    destruct (kw_trans st c) as [s1|s1|x1|a b|] eqn:T; try discriminate.
    - (* KGoto *)
      match type of Hf with context [explore ?a ?b ?d] => destruct (explore a b d) as [[|k]|] eqn:E end; try discriminate.
      replace (p ++ c :: w') with ((p ++ [c]) ++ w') by (rewrite <- app_assoc; reflexivity).
      exact (IH _ _ _ E _ _ Hw' Hacc).
    - (* KAccept *)
      destruct w'; [|discriminate].
      match type of Hf with context [mem_word ?a] => destruct (mem_word a) eqn:M end; [|discriminate].
      apply mem_word_in; exact M.
  Qed.

  Lemma explore_start_sound fuel n :
    explore_start fuel = Some n ->
    forall w x, Forall (fun b => (b < 256)%N) w -> kw_acc_start w = Some x -> In w expected.
  Proof.
    intros H w x Hw Hacc. destruct w as [|c w']; [discriminate|].
    inversion Hw as [|? ? Hc Hw']; subst.
    unfold explore_start in H.
    pose proof (fold_some _ _ _ H c (in_all_bytes c Hc)) as [m [m' Hf]].
    cbn [kw_acc_start] in Hacc.
    destruct (kw_trans ek c) as [s1|s1|x1|a b|] eqn:T; try discriminate.
    match type of Hf with context [explore ?a ?b ?d] => destruct (explore a b d) as [[|k]|] eqn:E end; try discriminate.
    change (c :: w') with ([c] ++ w'). exact (explore_sound _ _ _ _ E _ _ Hw' Hacc).
  Qed.

  (* liveness: below every explored state some word completes *)
  Lemma explore_live fuel :
    forall st p n, explore fuel st p = Some (S n) ->
    exists u x, kw_acc st u = Some x.
  Proof.
    induction fuel as [|f IH]; intros st p n H; [discriminate|].
    cbn [explore] in H.
    assert (G : forall l k,
      fold_right
        (fun c acc =>
           match acc with
           | None => None
           | Some n =>
               match kw_trans st c with
               | KGoto st' =>
                   match explore f st' (p ++ [c]) with
                   | Some (S m) => Some (n + S m)%nat
                   | _ => None
                   end
               | KAccept _ => if mem_word (p ++ [c]) then Some (S n) else None
               | KReject _ _ => Some n
               | _ => None
               end
           end) (Some O) l = Some (S k) -> exists u x, kw_acc st u = Some x).
    { induction l as [|c l IHl]; intros k Hk; [discriminate|].
      cbn [fold_right] in Hk.
      destruct (fold_right _ _ l) as [m|] eqn:E; [|discriminate].
      destruct (kw_trans st c) as [s1|s1|x1|a b|] eqn:T; try discriminate.
      - destruct (explore f s1 (p ++ [c])) as [[|j]|] eqn:E2; try discriminate.
        destruct (IH _ _ _ E2) as [u [x Hu]].
        exists (c :: u), x. cbn [kw_acc]. rewrite T. exact Hu.
      - exists [c], x1. cbn [kw_acc]. rewrite T. reflexivity.
      - injection Hk as ->. eapply IHl; eauto. }
    eapply G; eauto.
  Qed.

  (* every state the explorer visits is total: Goto, Accept or Reject on every byte *)
  Lemma explore_total fuel :
    forall st p n, explore fuel st p = Some n ->
    forall c, (c < 256)%N ->
      match kw_trans st c with
      | KGoto st' => exists m, explore (pred fuel) st' (p ++ [c]) = Some (S m)
      | KAccept _ => In (p ++ [c]) expected
      | KReject _ _ => True
      | _ => False
      end.
  Proof.
    destruct fuel as [|f]; intros st p n H c Hc; [discriminate|].
    cbn [explore] in H.
    pose proof (fold_some _ _ _ H c (in_all_bytes c Hc)) as [m [m' Hf]].
    destruct (kw_trans st c) as [s1|s1|x1|a b|]; try discriminate; auto.
    - cbn [pred]. match type of Hf with context [explore ?a ?b ?d] => destruct (explore a b d) as [[|k]|] eqn:E end; try discriminate. eauto.
    - match type of Hf with context [mem_word ?a] => destruct (mem_word a) eqn:M end; [|discriminate]. apply mem_word_in; exact M.
  Qed.

  (* checker A: every expected word is accepted *)
  Definition accepts_all : bool :=
    forallb (fun w => match kw_acc_start w with Some _ => true | None => false end) expected.

  Lemma accepts_all_sound :
    accepts_all = true -> forall w, In w expected -> exists x, kw_acc_start w = Some x.
  Proof.
    unfold accepts_all. intros H w Hw. rewrite forallb_forall in H. specialize (H w Hw).
    destruct (kw_acc_start w) as [x|]; [eauto|discriminate].
  Qed.

  (* kw_acc and kw_run agree *)
  Lemma kw_acc_run st w x :
    kw_acc st w = Some x -> forall k, kw_run st w k = RunAccept (k + List.length w) x.
  Proof.
    revert st; induction w as [|c w IH]; intros st H k; [discriminate|].
    cbn [kw_acc] in H. cbn [kw_run List.length].
    destruct (kw_trans st c) as [s1|s1|x1|a b|]; try discriminate.
    - rewrite (IH _ H). f_equal. lia.
    - destruct w; [|discriminate]. injection H as ->. f_equal. cbn. lia.
  Qed.

  Lemma kw_run_acc st w k0 k x :
    kw_run st w k0 = RunAccept k x ->
    (k0 < k <= k0 + List.length w)%nat /\ kw_acc st (firstn (k - k0) w) = Some x.
  Proof.
    revert st k0; induction w as [|c w IH]; intros st k0 H; [discriminate|].
    cbn [kw_run] in H.
    destruct (kw_trans st c) as [s1|s1|x1|a b|] eqn:T; try discriminate.
    - destruct (IH _ _ H) as [Hk Ha]. split; [cbn [List.length]; lia|].
      replace (k - k0)%nat with (S (k - S k0)) by lia. cbn [firstn kw_acc]. rewrite T. exact Ha.
    - injection H as <- <-. split; [cbn [List.length]; lia|].
      replace (S k0 - k0)%nat with 1%nat by lia. cbn [firstn kw_acc]. rewrite T. reflexivity.
  Qed.

  (* determinism: a word that completes cannot have a prefix that is refused *)
  Lemma kw_acc_no_reject st v x :
    kw_acc st v = Some x ->
    forall p k0 k a b, is_prefix p v = true -> kw_run st p k0 <> RunReject k a b.
  Proof.
    revert st; induction v as [|c v IH]; intros st H p k0 k a b Hp; [discriminate|].
    destruct p as [|d p]; [cbn; discriminate|].
    cbn [is_prefix] in Hp. apply andb_prop in Hp as [Hd Hp]. apply N.eqb_eq in Hd. subst d.
    cbn [kw_acc] in H. cbn [kw_run].
    destruct (kw_trans st c) as [s1|s1|x1|a0 b0|]; try discriminate.
    - eapply IH; eauto.
  Qed.

  Lemma kw_acc_start_no_reject v x :
    kw_acc_start v = Some x ->
    forall p k a b, is_prefix p v = true -> kw_run_start p <> RunReject k a b.
  Proof.
    intros H p k a b Hp. destruct v as [|c v]; [discriminate|].
    destruct p as [|d p]; [cbn; discriminate|].
    cbn [is_prefix] in Hp. apply andb_prop in Hp as [Hd Hp]. apply N.eqb_eq in Hd. subst d.
    cbn [kw_acc_start] in H. cbn [kw_run_start].
    destruct (kw_trans ek c) as [s1|s1|x1|a0 b0|]; try discriminate.
    eapply kw_acc_no_reject; eauto.
  Qed.

  Lemma kw_run_start_acc w k x :
    kw_run_start w = RunAccept k x ->
    (1 <= k <= List.length w)%nat /\ kw_acc_start (firstn k w) = Some x.
  Proof.
    destruct w as [|c w]; [discriminate|]. cbn [kw_run_start].
    destruct (kw_trans ek c) as [s1|s1|x1|a0 b0|] eqn:T; try discriminate.
    intros H. apply kw_run_acc in H as [Hk Ha]. split; [cbn [List.length]; lia|].
    destruct k as [|k]; [lia|]. cbn [firstn kw_acc_start]. rewrite T.
    replace (S k - 1)%nat with k in Ha by lia. exact Ha.
  Qed.

  Lemma kw_run_firstn st w k0 k a b :
    kw_run st w k0 = RunReject k a b ->
    kw_run st (firstn (S (k - k0)) w) k0 = RunReject k a b.
  Proof.
    revert st k0; induction w as [|c w IH]; intros st k0 H; [discriminate|].
    cbn [kw_run] in H. cbn [firstn kw_run].
    destruct (kw_trans st c) as [s1|s1|x1|a0 b0|] eqn:T; try discriminate.
    - assert (S k0 <= k)%nat.
      { clear - H. revert s1 k0 H. induction w as [|d w IHw]; intros s1 k0 H; [discriminate|].
        cbn [kw_run] in H. destruct (kw_trans s1 d); try discriminate.
        - apply IHw in H. lia.
        - injection H as <- _ _. lia. }
      replace (k - k0)%nat with (S (k - S k0)) by lia. apply IH. exact H.
    - exact H.
  Qed.

  Lemma kw_run_start_firstn w k a b :
    kw_run_start w = RunReject k a b ->
    kw_run_start (firstn (S k) w) = RunReject k a b.
  Proof.
    destruct w as [|c w]; [discriminate|]. cbn [kw_run_start firstn].
    destruct (kw_trans ek c) as [s1|s1|x1|a0 b0|] eqn:T; try discriminate.
    intros H. pose proof (kw_run_firstn _ _ _ _ _ _ H) as G.
    assert (1 <= k)%nat.
    { clear - H. revert s1 H. generalize 1%nat as k0. induction w as [|d w IHw]; intros k0 s1 H; [discriminate|].
      cbn [kw_run] in H. destruct (kw_trans s1 d); try discriminate.
      - apply IHw in H. lia.
      - injection H as <- _ _. lia. }
    replace k with (S (k - 1)) at 1 by lia. exact G.
  Qed.

  (* straight-line code that cannot fail when the step stack holds at least [depth] entries *)
  Fixpoint straight_ok (depth : nat) (l : list stmt) : bool :=
    match l with
    | [SRetNil] => true
    | SSetStep _ :: r => straight_ok depth r
    | SPush _ :: r => straight_ok (S depth) r
    | SPushCur :: r => straight_ok (S depth) r
    | SPop :: r => match depth with O => false | S d => straight_ok d r end
    | SFound _ _ :: r => straight_ok depth r
    | SAddCur _ :: r => straight_ok depth r
    | _ => false
    end.

End KW.

