(* C14Proofs.v — INCLUDE names: what the regenerated validation list guarantees for every
   string, confinement of the resolved path, no file-system access for refused names, and
   the include stack never holds one file twice. *)
From JS Require Import Base Bytes Scanner Directive Core ListAux.
From JS Require DirectiveTables IncludeName ErrConsts ScannerProg.
From Coq Require Import Lia.
Open Scope Z_scope.

(* ------------------------------------------------------------------------------------ *)
(* the check list as a set of guaranteed refusals *)

Fixpoint disjunct_of (pat c : IncludeName.icond) (eqb : IncludeName.icond -> IncludeName.icond -> bool) : bool :=
  eqb pat c ||
  match c with
  | IncludeName.IOr a b => disjunct_of pat a eqb || disjunct_of pat b eqb
  | _ => false
  end.

Fixpoint list_bytes_eqb (a b : list bytes) : bool :=
  match a, b with
  | [], [] => true
  | x :: a', y :: b' => beq x y && list_bytes_eqb a' b'
  | _, _ => false
  end.

Definition leaf_eqb (a b : IncludeName.icond) : bool :=
  match a, b with
  | IncludeName.IFirstByte x, IncludeName.IFirstByte y => N.eqb x y
  | IncludeName.IEquals x, IncludeName.IEquals y => beq x y
  | IncludeName.IContains x, IncludeName.IContains y => beq x y
  | IncludeName.IHasPrefix x, IncludeName.IHasPrefix y => beq x y
  | IncludeName.IHasSuffix x, IncludeName.IHasSuffix y => beq x y
  | IncludeName.ISegmentIn x, IncludeName.ISegmentIn y => list_bytes_eqb x y
  | _, _ => false
  end.

Lemma beq_eq a b : beq a b = true -> a = b.
Proof.
  unfold beq. revert b; induction a as [|x a IH]; intros [|y b] H; cbn in H; try discriminate; auto.
  apply andb_prop in H as [H1 H2]. apply N.eqb_eq in H1. f_equal; auto.
Qed.

Lemma beq_refl a : beq a a = true.
Proof. unfold beq. induction a as [|x a IH]; cbn; auto. rewrite N.eqb_refl. exact IH. Qed.

Lemma list_bytes_eqb_eq a b : list_bytes_eqb a b = true -> a = b.
Proof.
  revert b; induction a as [|x a IH]; intros [|y b] H; cbn in H; try discriminate; auto.
  apply andb_prop in H as [H1 H2]. apply beq_eq in H1. f_equal; auto.
Qed.

Lemma leaf_eqb_eq a b : leaf_eqb a b = true -> a = b.
Proof.
  destruct a, b; cbn; intros H; try discriminate;
    try (apply N.eqb_eq in H; subst; reflexivity);
    try (apply beq_eq in H; subst; reflexivity).
  apply list_bytes_eqb_eq in H. subst; reflexivity.
Qed.

(* if [pat] is one of the alternatives of [c] and [c] does not fire, [pat] does not fire *)
Lemma disjunct_false pat c s :
  disjunct_of pat c leaf_eqb = true -> eval_icond c s = Some false -> eval_icond pat s = Some false.
Proof.
  induction c; cbn [disjunct_of]; intros H E;
    try (rewrite orb_false_r in H; apply leaf_eqb_eq in H; subst; exact E).
  - (* IOr *)
    apply orb_prop in H as [H|H].
    + apply leaf_eqb_eq in H. subst. exact E.
    + cbn [eval_icond] in E.
      destruct (eval_icond c1 s) as [[|]|] eqn:E1; try discriminate.
      apply orb_prop in H as [H|H]; auto.
Qed.

Definition guarantees (checks : list (IncludeName.icond * string)) (pat : IncludeName.icond) : bool :=
  existsb (fun p => disjunct_of pat (fst p) leaf_eqb) checks.

Lemma validate_all_false checks s :
  validate_include checks s = Some None ->
  forall c m, In (c, m) checks -> eval_icond c s = Some false.
Proof.
  induction checks as [|[c0 m0] rest IH]; intros H c m Hin; [destruct Hin|].
  cbn [validate_include] in H.
  destruct (eval_icond c0 s) as [[|]|] eqn:E; try discriminate.
  destruct Hin as [Heq|Hin]; [injection Heq as <- <-; exact E|eauto].
Qed.

Lemma guarantees_sound checks pat s :
  guarantees checks pat = true -> validate_include checks s = Some None ->
  eval_icond pat s = Some false.
Proof.
  unfold guarantees. intros G V. apply existsb_exists in G as [[c m] [Hin D]].
  eapply disjunct_false; eauto. eapply validate_all_false; eauto.
Qed.

(* ------------------------------------------------------------------------------------ *)
(* substrings and segments *)

Lemma contains_tail w c s : contains w s = true -> contains w (c :: s) = true.
Proof. intros H. cbn [contains]. rewrite H. apply orb_true_r. Qed.

Lemma contains_prefix w s : is_prefix w s = true -> contains w s = true.
Proof. destruct s; cbn [contains]; intros ->; reflexivity. Qed.

Lemma is_prefix_app w s : is_prefix w (w ++ s) = true.
Proof. induction w as [|x w IH]; cbn; auto. rewrite N.eqb_refl. exact IH. Qed.

Lemma is_prefix_refl w : is_prefix w w = true.
Proof. induction w as [|x w IH]; cbn; auto. rewrite N.eqb_refl. exact IH. Qed.

Definition slash := 47%N.
Definition no_slash (seg : bytes) : Prop := Forall (fun b => b <> slash) seg.

Lemma segments_nonempty s : segments s <> [].
Proof.
  induction s as [|c r IH]; cbn [segments]; [discriminate|].
  destruct (N.eqb c 47); [discriminate|]. destruct (segments r); discriminate.
Qed.

(* the first segment is the whole string or is followed by a slash *)
Lemma first_segment s seg rest :
  segments s = seg :: rest ->
  (rest = [] /\ s = seg) \/ is_prefix (seg ++ [slash]) s = true.
Proof.
  revert seg rest; induction s as [|c r IH]; intros seg rest H; cbn [segments] in H.
  - injection H as <- <-. left; auto.
  - destruct (N.eqb c 47) eqn:E.
    + injection H as <- <-. right. apply N.eqb_eq in E. subst c. cbn. reflexivity.
    + destruct (segments r) as [|seg0 rest0] eqn:S; [exfalso; eapply segments_nonempty; eauto|].
      injection H as <- <-.
      destruct (IH _ _ eq_refl) as [[-> ->]|P].
      * left; auto.
      * right. cbn [app is_prefix]. rewrite N.eqb_refl. exact P.
Qed.

(* a segment that is not the first one is preceded by a slash *)
Lemma later_segment s seg :
  In seg (tl (segments s)) -> contains (slash :: seg) s = true.
Proof.
  induction s as [|c r IH]; cbn [segments]; intros H; [destruct H|].
  remember (segments r) as sg eqn:S. symmetry in S.
  destruct (N.eqb c 47) eqn:E.
  - cbn [tl] in H. apply N.eqb_eq in E. subst c.
    destruct sg as [|seg0 rest0]; [destruct H|].
    destruct H as [<-|H].
    + destruct (first_segment r seg0 rest0 S) as [[-> ->]|P].
      * cbn [contains is_prefix]. unfold slash. rewrite N.eqb_refl, is_prefix_refl. reflexivity.
      * cbn [contains is_prefix]. unfold slash. rewrite N.eqb_refl.
        assert (Hp : is_prefix seg0 r = true).
        { clear - P. revert r P. induction seg0 as [|x l IHl]; intros r P; [reflexivity|].
          destruct r as [|y r]; [discriminate|]. cbn in *. apply andb_prop in P as [-> P]. cbn. auto. }
        rewrite Hp. reflexivity.
    + apply contains_tail. apply IH. cbn [tl]. exact H.
  - destruct sg as [|seg0 rest0]; [destruct H|].
    cbn [tl] in H. apply contains_tail. apply IH. cbn [tl]. exact H.
Qed.

Definition dotb := [46%N].
Definition dotdotb := [46%N; 46%N].

Lemma contains_shorter_front x w s : contains (x :: w) s = true -> contains w s = true.
Proof.
  induction s as [|c r IH]; cbn [contains]; intros H.
  - rewrite orb_false_r in H. destruct w; cbn in *; discriminate.
  - apply orb_prop in H as [H|H].
    + cbn [is_prefix] in H. apply andb_prop in H as [_ H].
      apply contains_tail. apply contains_prefix. exact H.
    + apply contains_tail. auto.
Qed.

Lemma is_prefix_shorter w x s : is_prefix (w ++ [x]) s = true -> is_prefix w s = true.
Proof.
  revert s; induction w as [|y w IH]; intros s H; [reflexivity|].
  destruct s as [|c r]; [discriminate|]. cbn in *. apply andb_prop in H as [-> H]. cbn. auto.
Qed.

Lemma contains_shorter_back w x s : contains (w ++ [x]) s = true -> contains w s = true.
Proof.
  induction s as [|c r IH]; cbn [contains]; intros H.
  - rewrite orb_false_r in H. apply is_prefix_shorter in H. rewrite H. reflexivity.
  - apply orb_prop in H as [H|H].
    + apply is_prefix_shorter in H. rewrite H. reflexivity.
    + rewrite (IH H). apply orb_true_r.
Qed.

(* no dot segment, from the five refusals *)
Theorem no_dot_segments s :
  beq s dotb = false -> beq s dotdotb = false ->
  contains [46; slash]%N s = false -> contains [slash; 46]%N s = false ->
  forall seg, In seg (segments s) -> seg <> dotb /\ seg <> dotdotb.
Proof.
  intros H1 H2 H3 H4 seg Hin.
  destruct (segments s) as [|seg0 rest0] eqn:S; [destruct Hin|].
  assert (Hfirst : seg0 <> dotb /\ seg0 <> dotdotb).
  { destruct (first_segment s seg0 rest0 S) as [[-> ->]|P].
    - split; intros ->; [rewrite beq_refl in H1|rewrite beq_refl in H2]; discriminate.
    - split; intros ->.
      + apply contains_prefix in P. unfold dotb, slash in *. cbn [app] in P. congruence.
      + apply contains_prefix in P. unfold dotdotb, slash in *. cbn [app] in P.
        apply contains_shorter_front in P. congruence. }
  destruct Hin as [<-|Hin]; [exact Hfirst|].
  assert (Hl : contains (slash :: seg) s = true).
  { apply later_segment. rewrite S. exact Hin. }
  split; intros ->.
  - unfold dotb, slash in *. congruence.
  - unfold dotdotb, slash in *.
    change [47%N; 46%N; 46%N] with ([47%N; 46%N] ++ [46%N]) in Hl.
    apply contains_shorter_back in Hl. congruence.
Qed.

(* ------------------------------------------------------------------------------------ *)
(* what the regenerated list guarantees *)

Definition required_refusals : list IncludeName.icond :=
  [IncludeName.IEquals dotb; IncludeName.IEquals dotdotb;
   IncludeName.IContains [46; 47]%N; IncludeName.IContains [47; 46]%N;
   IncludeName.IContains [92]%N].

Definition refuses_absolute (checks : list (IncludeName.icond * string)) : bool :=
  guarantees checks (IncludeName.IHasPrefix [47%N]) || guarantees checks (IncludeName.IFirstByte 47).

Definition checks_ok : bool :=
  forallb (guarantees IncludeName.include_checks) required_refusals
  && refuses_absolute IncludeName.include_checks.

Lemma checks_ok_ok : checks_ok = true.
Proof. vm_compute. reflexivity. Qed.

Theorem validated_name_is_safe :
  forall s, validate_include IncludeName.include_checks s = Some None ->
    (forall r, s <> 47%N :: r) /\
    contains [92%N] s = false /\
    forall seg, In seg (segments s) -> seg <> dotb /\ seg <> dotdotb.
Proof.
  intros s V. pose proof checks_ok_ok as K. unfold checks_ok in K.
  apply andb_prop in K as [K Kabs]. rewrite forallb_forall in K.
  assert (G : forall pat, In pat required_refusals -> eval_icond pat s = Some false).
  { intros pat Hp. eapply guarantees_sound; eauto. }
  pose proof (G _ (or_introl eq_refl)) as G1.
  pose proof (G _ (or_intror (or_introl eq_refl))) as G2.
  pose proof (G _ (or_intror (or_intror (or_introl eq_refl)))) as G3.
  pose proof (G _ (or_intror (or_intror (or_intror (or_introl eq_refl))))) as G4.
  pose proof (G _ (or_intror (or_intror (or_intror (or_intror (or_introl eq_refl)))))) as G5.
  cbn [eval_icond] in G1, G2, G3, G4, G5.
  injection G1 as G1. injection G2 as G2. injection G3 as G3. injection G4 as G4. injection G5 as G5.
  split; [|split].
  - intros r ->. unfold refuses_absolute in Kabs. apply orb_prop in Kabs as [A|A];
      pose proof (guarantees_sound _ _ _ A V) as E; cbn in E; rewrite ?N.eqb_refl in E; discriminate.
  - exact G5.
  - apply no_dot_segments; assumption.
Qed.

(* ------------------------------------------------------------------------------------ *)
(* confinement of the resolved path *)

Definition clean_seg (seg : bytes) : Prop := seg <> [] /\ seg <> dotb /\ seg <> dotdotb.

Lemma beq_false_neq a b : a <> b -> beq a b = false.
Proof. intros H. destruct (beq a b) eqn:E; [apply beq_eq in E; contradiction|reflexivity]. Qed.

Lemma clean_segs_no_dots :
  forall segs acc,
    (forall seg, In seg segs -> seg <> dotb /\ seg <> dotdotb) ->
    clean_segs segs acc = rev acc ++ List.filter (fun seg => negb (beq seg [])) segs.
Proof.
  induction segs as [|seg rest IH]; intros acc H; cbn [clean_segs List.filter].
  - rewrite app_nil_r. reflexivity.
  - destruct (H seg (or_introl eq_refl)) as [Hd Hdd].
    destruct (beq seg []) eqn:E.
    + cbn [orb negb]. apply IH. intros x Hx. apply H. right. exact Hx.
    + change dot with dotb. change dotdot with dotdotb.
      rewrite (beq_false_neq _ _ Hd), (beq_false_neq _ _ Hdd). cbn [orb negb].
      rewrite IH by (intros x Hx; apply H; right; exact Hx).
      cbn [rev]. rewrite <- app_assoc. reflexivity.
Qed.

(* the resolved path is the including file's directory followed by the name's own non-empty
   segments: it lies in that directory or below it *)
Theorem resolved_path_is_confined :
  forall includer_dir name,
    (forall seg, In seg includer_dir -> clean_seg seg) ->
    validate_include IncludeName.include_checks name = Some None ->
    clean_segs (includer_dir ++ segments name) [] =
    includer_dir ++ List.filter (fun seg => negb (beq seg [])) (segments name).
Proof.
  intros d name Hd V.
  destruct (validated_name_is_safe name V) as [_ [_ Hseg]].
  rewrite clean_segs_no_dots.
  - cbn [rev app]. rewrite filter_app. f_equal.
    clear - Hd. induction d as [|x d IH]; [reflexivity|].
    cbn [List.filter]. destruct (Hd x (or_introl eq_refl)) as [Hne _].
    rewrite (beq_false_neq _ _ Hne). cbn [negb]. f_equal. apply IH. intros y Hy. apply Hd. right; exact Hy.
  - intros seg Hin. apply in_app_or in Hin as [Hin|Hin]; [|auto].
    destruct (Hd seg Hin) as [_ [A B]]. auto.
Qed.

(* ------------------------------------------------------------------------------------ *)
(* refused names cause no access; the include stack never holds one file twice *)

Section Step.
  Variable fs : fsmap.
  Variable olen : bytes -> okind -> Z -> olen_res.

  Notation pinc := (process_include ScannerProg.prog_table ScannerProg.is_newline_cond
                                    ScannerProg.is_whitespace_cond fs olen ScannerProg.initial_state).

  Definition stack_names (st : cstate) : list bytes :=
    List.map (fun it => file_name st (si_file it)) (cs_stack st).

  Ltac split_scan H :=
    match type of H with
    | context [scan_next ?a ?b ?c ?d ?e] => destruct (scan_next a b c d e) as [[ol cf]|e0|p0|] eqn:Hscan
    end.

  (* whatever the verdict, the access log grows only by a stat (and a read) of the one
     resolved path of a validated name *)
  Theorem include_access_log :
    forall st kw r st',
      pinc st kw = (r, st') ->
      cs_log st' = cs_log st \/
      exists name,
        validate_include IncludeName.include_checks name = Some None /\ name <> [] /\
        let p := join_dir (file_name st (cs_file st)) name in
        (cs_log st' = cs_log st ++ [("stat"%string, p)] \/
         cs_log st' = cs_log st ++ [("stat"%string, p); ("read"%string, p)]).
  Proof.
    intros st kw r st' H. unfold process_include in H.
    split_scan H; try (injection H as <- <-; left; reflexivity).
    destruct ol as [pl|]; [|injection H as <- <-; left; reflexivity].
    destruct (lk pl); try (injection H as <- <-; left; reflexivity).
    destruct (lex_value (set_conf st cf) pl) as [raw|]; [|injection H as <- <-; left; reflexivity].
    destruct (beq (unquote raw) []) eqn:Eempty; [injection H as <- <-; left; reflexivity|].
    destruct (validate_include IncludeName.include_checks (unquote raw)) as [[m|]|] eqn:V;
      try (injection H as <- <-; left; reflexivity).
    right. exists (unquote raw). split; [exact V|]. split.
    { intros E. rewrite E in Eempty. cbn in Eempty. discriminate. }
    cbn zeta.
    change (file_name (set_conf st cf) (cs_file (set_conf st cf))) with (file_name st (cs_file st)) in H.
    cbn zeta in H.
    match type of H with context [stat_path fs ?p] => destruct (stat_path fs p) as [content| | |] end;
      try (injection H as <- <-; left; reflexivity).
    match type of H with (if ?c then _ else _) = _ => destruct c end;
      injection H as <- <-; right; cbn; rewrite <- app_assoc; reflexivity.
  Qed.

  Definition valid_ids (st : cstate) : Prop :=
    (N.to_nat (cs_file st) < List.length (cs_files st))%nat /\
    Forall (fun it => (N.to_nat (si_file it) < List.length (cs_files st))%nat) (cs_stack st).

  Lemma existsb_false_notin (f : bytes) (l : list bytes) :
    existsb (fun x => beq x f) l = false -> ~ In f l.
  Proof.
    induction l as [|x l IH]; cbn; intros H; [tauto|].
    apply orb_false_elim in H as [H1 H2]. intros [->|Hin]; [rewrite beq_refl in H1; discriminate|].
    exact (IH H2 Hin).
  Qed.

  (* a successful INCLUDE keeps the names on the stack pairwise distinct: the include depth
     is bounded by the number of distinct file names, and a file that is suspended on the
     stack cannot push itself again *)
  Theorem include_stack_distinct :
    forall st kw st1 st2,
      valid_ids st -> NoDup (stack_names st) ->
      pinc st kw = (COk st1, st2) ->
      NoDup (stack_names st1) /\ valid_ids st1.
  Proof.
    intros st kw st1 st2 [Vc Vs] ND H. unfold process_include in H.
    split_scan H; try discriminate.
    destruct ol as [pl|]; [|discriminate].
    destruct (lk pl); try discriminate.
    destruct (lex_value (set_conf st cf) pl) as [raw|]; [|discriminate].
    destruct (beq (unquote raw) []); [discriminate|].
    destruct (validate_include IncludeName.include_checks (unquote raw)) as [[m|]|]; try discriminate.
    cbn zeta in H.
    match type of H with context [stat_path fs ?p] => destruct (stat_path fs p) as [content| | |] end;
      try discriminate.
    match type of H with (if ?c then _ else _) = _ => destruct c eqn:Ex end; [discriminate|].
    injection H as <- _.
    unfold stack_names, valid_ids, add_log, set_conf, file_name in *.
    cbn [cs_stack List.map si_file cs_files cs_file cs_forest cs_ctx cs_cur cs_conf cs_tracers cs_log] in *.
    assert (Hname : forall id files', (N.to_nat id < List.length (cs_files st))%nat ->
              match nth_error (cs_files st ++ files') (N.to_nat id) with Some (n, _) => n | None => [] end
              = match nth_error (cs_files st) (N.to_nat id) with Some (n, _) => n | None => [] end).
    { intros id files' Hid. rewrite nth_error_app1 by exact Hid. reflexivity. }
    rewrite Forall_forall in Vs.
    split.
    - constructor.
      + rewrite (Hname (cs_file st)) by exact Vc.
        intros Hin. apply in_map_iff in Hin as [it [Heq Hit]].
        rewrite (Hname (si_file it)) in Heq by (apply Vs; exact Hit).
        apply (existsb_false_notin
                 (match nth_error (cs_files st) (N.to_nat (cs_file st)) with Some (n, _) => n | None => [] end)
                 (List.map (fun it => match nth_error (cs_files st) (N.to_nat (si_file it)) with Some (n, _) => n | None => [] end) (cs_stack st))).
        * rewrite <- Ex. clear. induction (cs_stack st) as [|x l IH]; [reflexivity|].
          cbn [List.map existsb]. rewrite IH. reflexivity.
        * apply in_map_iff. exists it. split; [exact Heq|exact Hit].
      + match goal with |- NoDup (List.map ?f _) =>
          replace (List.map f (cs_stack st)) with
            (List.map (fun it => match nth_error (cs_files st) (N.to_nat (si_file it)) with Some (n, _) => n | None => [] end) (cs_stack st))
        end; [exact ND|].
        apply map_ext_in. intros it Hit. symmetry. apply Hname. apply Vs. exact Hit.
    - rewrite app_length. cbn [List.length]. split.
      + rewrite Nat2N.id. lia.
      + constructor; [cbn [si_file]; lia|].
        apply Forall_forall. intros it Hit. specialize (Vs it Hit). lia.
  Qed.
End Step.
