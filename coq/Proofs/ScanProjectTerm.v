(* ScanProjectTerm.v — C01: the scanning phase of a PROJECT terminates.  For every file system,
   oracle, root file and include tree there is a number of steps, computed from the project alone
   (its number of files and the length of its longest file), within which scanProject ends - with a
   forest, an error or a panic value, never by running out of steps; and no call it makes (Next(),
   JApiCore.next, processInclude, the end-of-file handling) runs out of its own fuel.
   Why it ends: inside one file every Next() lowers the scanner's measure (ScanTerm); an INCLUDE
   opens a file that is not suspended (IncludeAcyclic), so the nesting is bounded by the number of
   files; the bound multiplies out (files may be included again and again, so it is exponential in
   the depth - as the real cost is). *)
From JS Require Import Base Bytes Scanner ScanRun Directive Core C14Proofs IncludeRoundTrip IncludeAcyclic ScanTerm ExpandTerm.
From JS Require ScannerProg IncludeName.
From Coq Require Import Lia.
Open Scope Z_scope.

Notation P := ScannerProg.prog_table.
Notation NLc := ScannerProg.is_newline_cond.
Notation WSc := ScannerProg.is_whitespace_cond.
Notation I0 := ScannerProg.initial_state.
Notation SInv := (ScanTerm.Inv iT iU).

Lemma attach_fuel_enough f ctx d : attach (attach_fuel ctx) f ctx d <> CFuel.
Proof. apply attach_no_fuel. unfold attach_fuel. destruct ctx; lia. Qed.

Lemma process_current_no_fuel st : process_current st <> CFuel.
Proof.
  unfold process_current. destruct (cs_cur st) as [d|]; [|discriminate].
  pose proof (attach_fuel_enough (cs_forest st) (cs_ctx st) d) as A.
  destruct (attach _ _ _ d) as [[f c]| | |]; try discriminate. contradiction.
Qed.

Lemma core_next_no_fuel st l : core_next st l <> CFuel.
Proof.
  unfold core_next. destruct (orphan_lexeme st l) as [r|] eqn:Eo.
  { unfold orphan_lexeme in Eo. destruct (cs_cur st); [discriminate|].
    destruct (lk l); try discriminate; try (injection Eo as <-; discriminate).
    destruct (lex_value st l); injection Eo as <-; discriminate. }
  pose proof (process_current_no_fuel st) as NF.
  destruct (lk l).
  - unfold process_keyword. destruct (process_current st) as [s1| | |]; try discriminate; [|contradiction].
    destruct (lex_value s1 l); [|discriminate]. destruct (_ && _)%bool; [discriminate|].
    destruct (new_directive_type _); [|discriminate]. destruct (directive_tracer s1). discriminate.
  - unfold process_parameter. destruct (cs_cur st); [|discriminate]. destruct (lex_value st l); [|discriminate].
    destruct (append_parameter _ _); discriminate.
  - unfold process_annotation. destruct (cs_cur st); [|discriminate]. destruct (lex_value st l); discriminate.
  - unfold process_body. destruct (cs_cur st); discriminate.
  - unfold process_body. destruct (cs_cur st); discriminate.
  - unfold process_body. destruct (cs_cur st); discriminate.
  - unfold process_context_begin. destruct (cs_cur st); discriminate.
  - unfold process_context_end. destruct (process_current st) as [s1| | |]; try discriminate; [|contradiction].
    destruct (close_explicit _ _ _); discriminate.
  - unfold process_body. destruct (cs_cur st); discriminate.
Qed.

Lemma process_eof_no_fuel st : process_eof st <> CFuel.
Proof.
  unfold process_eof. pose proof (process_current_no_fuel st) as NF.
  destruct (process_current st) as [s1| | |]; try discriminate; [|contradiction].
  destruct (has_unclosed _ _ _); discriminate.
Qed.

Section Term.
  Variable fs : fsmap.
  Variable olen : bytes -> okind -> Z -> olen_res.
  Variable root_name root_content : bytes.

  Notation pinc := (process_include P NLc WSc fs olen I0).
  Notation snext := (scan_next P NLc WSc olen).
  Notation sproj := (scan_project P NLc WSc fs olen I0).

  Definition known : list bytes := root_name :: List.map fst fs.
  Definition contents : list bytes :=
    root_content :: flat_map (fun e => match snd e with FFile c => [c] | FDir => [] end) fs.

  (* the scanner's measure at the start of a file, and its maximum over the project *)
  Definition rinit (content : bytes) : Z := K * (data_size content + 1) + Wmax + 1.
  Definition Rmax : Z := fold_right Z.max 0 (List.map rinit contents).

  Lemma Rmax_bound c : In c contents -> rinit c <= Rmax.
  Proof.
    unfold Rmax. induction contents as [|x l IH]; cbn [List.map fold_right]; intros H; [destruct H|].
    destruct H as [->|H]; [apply Z.le_max_l|]. specialize (IH H).
    eapply Z.le_trans; [exact IH|apply Z.le_max_r].
  Qed.

  Lemma Rmax_nonneg : 0 <= Rmax.
  Proof.
    unfold Rmax. induction (List.map rinit contents) as [|x l IH]; cbn [fold_right]; [lia|].
    eapply Z.le_trans; [exact IH|apply Z.le_max_r].
  Qed.

  Definition remz (st : cstate) (cf : conf) : Z := remaining (file_content st (cs_file st)) cf.

  Lemma remz_nonneg st cf : 0 <= remz st cf.
  Proof. unfold remz, remaining, rem, rem1, nfinds. lia. Qed.

  Lemma init_rem content : remaining content (init_conf I0) <= rinit content.
  Proof.
    unfold remaining, rem, rem1, nfinds, Phi, rinit. cbn [init_conf c_cur c_step c_finds List.length].
    pose proof (weights_bounded I0) as [W0 _]. unfold K, data_size in *. change Wmax with 9 in *. lia.
  Qed.

  (* ---------------------------------------------------------------------------------- *)
  (* the invariant of the run *)
  Definition names_known (st : cstate) : Prop :=
    Forall (fun it => In (file_name st (si_file it)) known) (cs_stack st).

  Definition Good (st : cstate) : Prop :=
    SInv (cs_conf st) /\ Forall (fun it => SInv (si_conf it)) (cs_stack st) /\
    stack_ok st /\ names_known st /\ In (file_name st (cs_file st)) known.

  Lemma good_depth st : Good st -> (List.length (cs_stack st) <= List.length known)%nat.
  Proof.
    intros [_ [_ [[_ ND] [NK _]]]].
    assert (L : List.length (cs_stack st) = List.length (stack_names st)) by (unfold stack_names; symmetry; apply map_length).
    rewrite L. apply NoDup_incl_length; [exact ND|].
    intros n Hn. unfold stack_names in Hn. apply in_map_iff in Hn as [it [<- Hit]].
    unfold names_known in NK. rewrite Forall_forall in NK. exact (NK it Hit).
  Qed.

  Lemma good_set_conf st cf : Good st -> SInv cf -> Good (set_conf st cf).
  Proof.
    intros [_ [B [C [D E]]]] HI. unfold Good. split; [exact HI|]. split; [exact B|].
    split; [eapply stack_ok_same; [reflexivity|reflexivity|reflexivity|exact C]|].
    split; [exact D|exact E].
  Qed.

  Lemma good_same st st' :
    cs_file st' = cs_file st -> cs_stack st' = cs_stack st -> cs_files st' = cs_files st -> cs_conf st' = cs_conf st ->
    Good st -> Good st'.
  Proof.
    intros F S L Cf [A [B [C [D E]]]]. unfold Good.
    split; [rewrite Cf; exact A|]. split; [rewrite S; exact B|].
    split; [eapply stack_ok_same; eassumption|].
    unfold names_known, file_name in *. rewrite F, S, L. split; assumption.
  Qed.

  (* Next() under the invariant *)
  Lemma next_good st : Good st ->
    match snext st with
    | RFuel => False
    | ROk (ol, cf) => SInv cf /\ remz st cf <= remz st (cs_conf st) /\ (ol <> None -> remz st cf + 1 <= remz st (cs_conf st))
    | _ => True
    end.
  Proof.
    intros [A _]. unfold scan_next, remz, remaining.
    pose proof (next_fine P NLc WSc (file_content st (cs_file st)) (olen (file_name st (cs_file st)))
                          iT iU iW Wmax inferred_ok weights_bounded (fuel_enough _) (cs_conf st) A) as N.
    destruct (next P NLc WSc _ _ (cs_conf st)) as [[ol cf]| | |]; cbn [fineN] in N; auto.
  Qed.

  Lemma fs_lookup_in name e : fs_lookup fs name = Some e -> In (name, e) fs.
  Proof.
    induction fs as [|[n x] rest IH]; cbn [fs_lookup]; [discriminate|].
    destruct (beq n name) eqn:E.
    - intros H. injection H as <-. left. f_equal. unfold beq in E.
      revert E. clear. revert name. induction n as [|a n IHn]; intros [|b m] E; cbn in E; try discriminate; [reflexivity|].
      apply andb_prop in E as [E1 E2]. apply N.eqb_eq in E1. subst. f_equal. apply IHn. exact E2.
    - intros H. right. exact (IH H).
  Qed.

  (* what an accepted INCLUDE does to the invariant *)
  Lemma include_good st kw stI x :
    Good st -> pinc st kw = (COk stI, x) ->
    Good stI /\ List.length (cs_stack stI) = S (List.length (cs_stack st)) /\
    remz stI (cs_conf stI) <= Rmax /\
    exists cf, cs_stack stI = mkSItem (cs_file st) cf (lb kw) :: cs_stack st /\
               remz st cf + 1 <= remz st (cs_conf st) /\
               exists more, cs_files stI = cs_files st ++ more.
  Proof.
    intros G H. pose proof G as [A [B [C [D E]]]].
    destruct C as [V ND]. destruct (include_stack_distinct fs olen _ _ _ _ V ND H) as [ND' V'].
    pose proof (next_good st G) as NG.
    unfold process_include in H.
    destruct (snext st) as [[ol cf]|e0|p0|] eqn:Hscan; try discriminate.
    destruct ol as [pl|]; [|discriminate].
    destruct NG as [Icf [_ Rcf]]. assert (Hne : Some pl <> None) by discriminate. specialize (Rcf Hne).
    destruct (lk pl); try discriminate.
    destruct (lex_value (set_conf st cf) pl) as [raw|]; [|discriminate].
    destruct (beq (unquote raw) []); [discriminate|].
    destruct (validate_include IncludeName.include_checks (unquote raw)) as [[m|]|]; try discriminate.
    cbn zeta in H.
    match type of H with context [stat_path fs ?p] => set (pth := p) in *; destruct (stat_path fs pth) as [content| | |] eqn:Es end;
      try discriminate.
    match type of H with (if ?c then _ else _) = _ => destruct c end; [discriminate|].
    injection H as <- _.
    assert (Hl : fs_lookup fs pth = Some (FFile content)).
    { unfold stat_path in Es. destruct (fs_lookup fs pth) as [[c|]|]; try discriminate.
      - injection Es as ->. reflexivity.
      - destruct (existsb _ _); discriminate. }
    apply fs_lookup_in in Hl.
    destruct V as [Vc Vs]. rewrite Forall_forall in Vs.
    assert (Hname : forall id, (N.to_nat id < List.length (cs_files st))%nat ->
              match nth_error (cs_files st ++ [(pth, content)]) (N.to_nat id) with Some (n, _) => n | None => [] end
              = match nth_error (cs_files st) (N.to_nat id) with Some (n, _) => n | None => [] end).
    { intros id Hid. rewrite nth_error_app1 by exact Hid. reflexivity. }
    assert (Hnew : nth_error (cs_files st ++ [(pth, content)]) (N.to_nat (N.of_nat (List.length (cs_files st)))) = Some (pth, content)).
    { rewrite Nat2N.id. rewrite nth_error_app2 by lia. rewrite Nat.sub_diag. reflexivity. }
    split; [|split; [|split]].
    - unfold Good. cbn [cs_conf cs_stack cs_file cs_files set_conf add_log].
      split; [exact init_inv|]. split; [constructor; [exact Icf|exact B]|].
      split; [split; [exact V'|exact ND']|].
      split.
      + unfold names_known, file_name in *. cbn [cs_stack cs_files cs_file set_conf add_log si_file].
        constructor.
        * cbn [si_file]. rewrite (Hname (cs_file st) Vc). exact E.
        * rewrite Forall_forall in D |- *. intros it Hit. rewrite (Hname (si_file it) (Vs it Hit)). exact (D it Hit).
      + unfold file_name. cbn [cs_files cs_file set_conf add_log]. rewrite Hnew. right.
        apply in_map_iff. exists (pth, FFile content). split; [reflexivity|exact Hl].
    - reflexivity.
    - unfold remz, file_content. cbn [cs_files cs_file cs_conf set_conf add_log]. rewrite Hnew.
      eapply Z.le_trans; [apply init_rem|]. apply Rmax_bound. right.
      apply in_flat_map. exists (pth, FFile content). split; [exact Hl|left; reflexivity].
    - exists cf. cbn [cs_stack cs_files set_conf add_log cs_file cs_conf]. split; [reflexivity|]. split; [exact Rcf|].
      exists [(pth, content)]. reflexivity.
  Qed.

  Lemma pinc_no_fuel st kw : Good st -> fst (pinc st kw) <> CFuel.
  Proof.
    intros G. pose proof (next_good st G) as NG. unfold process_include.
    destruct (snext st) as [[ol cf]|e0|p0|]; cbn [fst]; try discriminate; [|contradiction].
    destruct ol as [pl|]; [|discriminate].
    destruct (lk pl); try discriminate.
    destruct (lex_value (set_conf st cf) pl) as [raw|]; [|discriminate].
    destruct (beq (unquote raw) []); [discriminate|].
    destruct (validate_include IncludeName.include_checks (unquote raw)) as [[m|]|]; try discriminate.
    cbn zeta.
    match goal with |- context [stat_path fs ?p] => destruct (stat_path fs p) as [content| | |] end; try discriminate.
    match goal with |- context [if ?c then _ else _] => destruct c end; discriminate.
  Qed.

  (* ---------------------------------------------------------------------------------- *)
  (* the budget *)
  Definition Rn : nat := Z.to_nat Rmax.
  Fixpoint V (k : nat) : nat := (Rn + 2) * (1 + match k with O => 0 | S k' => V k' end).
  Definition sub (k : nat) : nat := match k with O => O | S k' => V k' end.
  Definition cost (k r : nat) : nat := (r + 2) * (1 + sub k).

  Lemma V_cost k : V k = cost k Rn.
  Proof. destruct k; reflexivity. Qed.

  Lemma cost_S k r : cost k (S r) = (cost k r + (1 + sub k))%nat.
  Proof. unfold cost. replace (S r + 2)%nat with (S (r + 2)) by lia. rewrite Nat.mul_succ_l. reflexivity. Qed.

  Lemma cost_pos k r : (1 <= cost k r)%nat.
  Proof.
    unfold cost. apply Nat.le_trans with ((r + 2) * 1)%nat; [lia|]. apply Nat.mul_le_mono_l. lia.
  Qed.

  Definition finished (r : sres) : Prop := r <> SFuel.

  (* the current file has been left: its includer goes on where it was suspended *)
  Definition returned (st stR : cstate) : Prop :=
    exists it rest, cs_stack st = it :: rest /\ cs_stack stR = rest /\ cs_file stR = si_file it /\
      cs_conf stR = si_conf it /\ (exists more, cs_files stR = cs_files st ++ more) /\ Good stR.

  Lemma remz_same_file st st' cf :
    cs_file st' = cs_file st -> (exists more, cs_files st' = cs_files st ++ more) ->
    (N.to_nat (cs_file st) < List.length (cs_files st))%nat -> remz st' cf = remz st cf.
  Proof.
    intros F [more L] V. unfold remz, file_content. rewrite F, L. rewrite nth_error_app1 by exact V. reflexivity.
  Qed.

  Lemma good_valid st : Good st -> (N.to_nat (cs_file st) < List.length (cs_files st))%nat.
  Proof. intros [_ [_ [[[V _] _] _]]]. exact V. Qed.

  Lemma visit : forall k r st fuel,
      Good st -> (List.length known - List.length (cs_stack st) = k)%nat ->
      remz st (cs_conf st) <= Z.of_nat r -> (cost k r <= fuel)%nat ->
      finished (sproj fuel st) \/
      exists fuel' stR, (fuel <= fuel' + cost k r)%nat /\ sproj fuel st = sproj fuel' stR /\ returned st stR.
  Proof.
    induction k as [k IHk] using lt_wf_ind.
    induction r as [|r IHr]; intros st fuel G Hk Hr Hf.
    all: destruct fuel as [|fuel0]; [match type of Hf with (cost _ ?rr <= _)%nat => pose proof (cost_pos k rr) end; lia|].
    all: cbn [scan_project]; pose proof (next_good st G) as NG.
    all: destruct (snext st) as [[[l|] cf]|e0|p0|] eqn:Es; try (left; discriminate); try contradiction.
    (* r = 0, a lexeme: impossible, the measure would drop below zero *)
    - exfalso. destruct NG as [_ [_ R2]]. assert (Hne : Some l <> None) by discriminate. specialize (R2 Hne).
      pose proof (remz_nonneg st cf). lia.
    (* r = 0, end of file *)
    - destruct NG as [Icf _]. pose proof (good_set_conf st cf G Icf) as G1.
      unfold lift. pose proof (process_eof_no_fuel (set_conf st cf)) as NF.
      destruct (process_eof (set_conf st cf)) as [stE|e1|p1|] eqn:Ee; try (left; discriminate); [|contradiction].
      pose proof (process_eof_is_process_current _ _ Ee) as Ec.
      destruct (process_current_frame _ _ Ec) as [[F [HS [L Cf]]] _]. cbn in F, HS, L, Cf.
      assert (GE : Good stE) by exact (good_same (set_conf st cf) stE F HS L Cf G1).
      pose proof (proj1 (proj2 (proj2 G))) as SOK.
      rewrite HS. destruct (cs_stack st) as [|it rest] eqn:Ek; [left; discriminate|].
      assert (EkE : cs_stack stE = it :: rest) by exact HS.
      right. exists fuel0, (resume stE it rest). split; [pose proof (cost_pos k 0); lia|]. split; [reflexivity|].
      exists it, rest. split; [exact Ek|]. split; [reflexivity|]. split; [reflexivity|]. split; [reflexivity|].
      split; [exists []; cbn [resume cs_files]; rewrite L, app_nil_r; reflexivity|].
      destruct GE as [A [B [C [D E]]]]. unfold Good, resume, names_known, file_name in *. cbn [cs_conf cs_stack cs_file cs_files] in *.
      rewrite EkE in B, D. pose proof (Forall_inv B) as B1. pose proof (Forall_inv_tail B) as B2.
      pose proof (Forall_inv D) as D1. pose proof (Forall_inv_tail D) as D2. cbn beta in B1, D1.
      split; [exact B1|]. split; [exact B2|].
      split; [exact (run_step_keeps fs olen _ _ (rs_end_of_file fs olen st cf stE it rest Ee EkE) SOK)|].
      split; [exact D2|exact D1].
    (* r = S r, a lexeme *)
    - destruct NG as [Icf [_ R2]]. assert (Hne : Some l <> None) by discriminate. specialize (R2 Hne).
      pose proof (good_set_conf st cf G Icf) as G1.
      rewrite cost_S in Hf.
      destruct (is_include (set_conf st cf) l).
      + (* INCLUDE *)
        pose proof (pinc_no_fuel (set_conf st cf) l G1) as NF.
        destruct (pinc (set_conf st cf) l) as [[sI|e1|p1|] st2] eqn:Ei; cbn [fst] in NF; try (left; discriminate); [|contradiction].
        destruct (include_good _ _ _ _ G1 Ei) as [GI [Len [RI [cf' [Hstack [Rcf' [more Hfiles]]]]]]].
        cbn [cs_stack cs_file cs_files cs_conf set_conf] in Len, Hstack, Rcf', Hfiles.
        pose proof (good_depth sI GI) as Dp. rewrite Len in Dp.
        destruct k as [|k']; [lia|].
        assert (Hk' : (List.length known - List.length (cs_stack sI) = k')%nat) by (rewrite Len; lia).
        assert (HRI : remz sI (cs_conf sI) <= Z.of_nat Rn).
        { unfold Rn. rewrite Z2Nat.id by apply Rmax_nonneg. exact RI. }
        assert (Hc : (cost k' Rn <= fuel0)%nat) by (rewrite <- V_cost; cbn [sub] in Hf; lia).
        destruct (IHk k' (Nat.lt_succ_diag_r k') Rn sI fuel0 GI Hk' HRI Hc) as [Fin|[fuel1 [stR [Hf1 [Eq1 Ret]]]]]; [left; exact Fin|].
        destruct Ret as [it [rest [Hs [HsR [HfR [HcR [[more' HlR] GR]]]]]]].
        rewrite Hstack in Hs. injection Hs as <- <-. cbn [si_file si_conf] in HfR, HcR.
        assert (Vst : (N.to_nat (cs_file st) < List.length (cs_files st))%nat) by exact (good_valid st G).
        assert (RR : remz stR (cs_conf stR) <= Z.of_nat r).
        { rewrite HcR. rewrite (remz_same_file st stR cf' HfR); [|exists (more ++ more'); rewrite HlR, Hfiles, app_assoc; reflexivity|exact Vst].
          assert (E1 : remz (set_conf st cf) cf' = remz st cf') by reflexivity.
          assert (E2 : remz (set_conf st cf) cf = remz st cf) by reflexivity.
          rewrite E1, E2 in Rcf'. lia. }
        assert (HkR : (List.length known - List.length (cs_stack stR) = S k')%nat) by (rewrite HsR; exact Hk).
        assert (HcR2 : (cost (S k') r <= fuel1)%nat) by (rewrite <- V_cost in Hf1; cbn [sub] in Hf; lia).
        destruct (IHr stR fuel1 GR HkR RR HcR2) as [Fin|[fuel2 [stRR [Hf2 [Eq2 Ret2]]]]].
        * left. rewrite Eq1. exact Fin.
        * right. exists fuel2, stRR. split; [rewrite cost_S; rewrite <- V_cost in Hf1; cbn [sub]; lia|].
          split; [rewrite Eq1; exact Eq2|].
          destruct Ret2 as [it2 [rest2 [Hs2 [HsR2 [HfR2 [HcR22 [[more2 HlR2] GR2]]]]]]].
          exists it2, rest2. split; [rewrite <- HsR; exact Hs2|]. split; [exact HsR2|]. split; [exact HfR2|]. split; [exact HcR22|].
          split; [exists ((more ++ more') ++ more2); rewrite HlR2, HlR, Hfiles, !app_assoc; reflexivity|exact GR2].
      + (* any other lexeme *)
        unfold lift. pose proof (core_next_no_fuel (set_conf st cf) l) as NF.
        destruct (core_next (set_conf st cf) l) as [s1|e1|p1|] eqn:En; try (left; discriminate); [|contradiction].
        destruct (core_next_frame _ _ _ En) as [F [HS [L Cf]]]. cbn in F, HS, L, Cf.
        assert (G2 : Good s1) by exact (good_same (set_conf st cf) s1 F HS L Cf G1).
        assert (R1 : remz s1 (cs_conf s1) <= Z.of_nat r).
        { rewrite Cf. rewrite (remz_same_file st s1 cf F); [|exists []; rewrite L, app_nil_r; reflexivity|exact (good_valid st G)]. lia. }
        assert (Hk1 : (List.length known - List.length (cs_stack s1) = k)%nat) by (rewrite HS; exact Hk).
        assert (Hc1 : (cost k r <= fuel0)%nat) by lia.
        destruct (IHr s1 fuel0 G2 Hk1 R1 Hc1) as [Fin|[fuel2 [stRR [Hf2 [Eq2 Ret2]]]]]; [left; exact Fin|].
        right. exists fuel2, stRR. split; [rewrite cost_S; lia|]. split; [exact Eq2|].
        destruct Ret2 as [it2 [rest2 [Hs2 [HsR2 [HfR2 [HcR22 [[more2 HlR2] GR2]]]]]]].
        exists it2, rest2. split; [rewrite <- HS; exact Hs2|]. split; [exact HsR2|]. split; [exact HfR2|]. split; [exact HcR22|].
        split; [exists more2; rewrite HlR2, L; reflexivity|exact GR2].
    (* r = S r, end of file: as above *)
    - destruct NG as [Icf _]. pose proof (good_set_conf st cf G Icf) as G1.
      unfold lift. pose proof (process_eof_no_fuel (set_conf st cf)) as NF.
      destruct (process_eof (set_conf st cf)) as [stE|e1|p1|] eqn:Ee; try (left; discriminate); [|contradiction].
      pose proof (process_eof_is_process_current _ _ Ee) as Ec.
      destruct (process_current_frame _ _ Ec) as [[F [HS [L Cf]]] _]. cbn in F, HS, L, Cf.
      assert (GE : Good stE) by exact (good_same (set_conf st cf) stE F HS L Cf G1).
      pose proof (proj1 (proj2 (proj2 G))) as SOK.
      rewrite HS. destruct (cs_stack st) as [|it rest] eqn:Ek; [left; discriminate|].
      assert (EkE : cs_stack stE = it :: rest) by exact HS.
      right. exists fuel0, (resume stE it rest). split; [pose proof (cost_pos k (S r)); lia|]. split; [reflexivity|].
      exists it, rest. split; [exact Ek|]. split; [reflexivity|]. split; [reflexivity|]. split; [reflexivity|].
      split; [exists []; cbn [resume cs_files]; rewrite L, app_nil_r; reflexivity|].
      destruct GE as [A [B [C [D E]]]]. unfold Good, resume, names_known, file_name in *. cbn [cs_conf cs_stack cs_file cs_files] in *.
      rewrite EkE in B, D. pose proof (Forall_inv B) as B1. pose proof (Forall_inv_tail B) as B2.
      pose proof (Forall_inv D) as D1. pose proof (Forall_inv_tail D) as D2. cbn beta in B1, D1.
      split; [exact B1|]. split; [exact B2|].
      split; [exact (run_step_keeps fs olen _ _ (rs_end_of_file fs olen st cf stE it rest Ee EkE) SOK)|].
      split; [exact D2|exact D1].
  Qed.

  (* ---------------------------------------------------------------------------------- *)
  (* the project *)
  Definition project_bound : nat := V (List.length known).

  Lemma initial_good : Good (initial_cstate I0 root_name root_content).
  Proof.
    unfold Good, initial_cstate, stack_ok, valid_ids, stack_names, names_known, file_name.
    cbn [cs_conf cs_stack cs_file cs_files List.map List.length N.to_nat nth_error].
    split; [exact init_inv|]. split; [constructor|]. split; [split; [split; [lia|constructor]|constructor]|].
    split; [constructor|left; reflexivity].
  Qed.

  Theorem scan_project_terminates :
    forall fuel, (project_bound <= fuel)%nat ->
      sproj fuel (initial_cstate I0 root_name root_content) <> SFuel.
  Proof.
    intros fuel Hf.
    assert (R0 : remz (initial_cstate I0 root_name root_content) (cs_conf (initial_cstate I0 root_name root_content)) <= Z.of_nat Rn).
    { unfold Rn. rewrite Z2Nat.id by apply Rmax_nonneg. unfold remz, file_content, initial_cstate.
      cbn [cs_conf cs_file cs_files N.to_nat nth_error].
      eapply Z.le_trans; [apply init_rem|]. apply Rmax_bound. left. reflexivity. }
    assert (Hc : (cost (List.length known) Rn <= fuel)%nat) by (rewrite <- V_cost; exact Hf).
    destruct (visit (List.length known) Rn _ fuel initial_good (Nat.sub_0_r _) R0 Hc) as [Fin|[fuel' [stR [_ [_ Ret]]]]]; [exact Fin|].
    destruct Ret as [it [rest [Hs _]]]. discriminate Hs.
  Qed.
End Term.

(* the bound of a small project, and what the run ends with *)
Definition sp_root := bytes_of_string "root.jst".
Definition sp_text := bytes_of_string "JSIGHT 0.3
INCLUDE a.jst
INCLUDE a.jst
".
Definition sp_fs : fsmap := [(sp_root, FFile sp_text); (bytes_of_string "a.jst", FFile (bytes_of_string "TAG @t
"))].
Example scan_project_terminates_nonvacuous :
  match scan_project P NLc WSc sp_fs (fun _ _ _ => OLen 0) I0 60 (initial_cstate I0 sp_root sp_text) with
  | SDone st => List.length (cs_forest st) = 3%nat
  | _ => False
  end.
Proof. vm_compute. reflexivity. Qed.
