(* C06Proofs.v — determinism.
   (1) Inventory obligations over the REGENERATED inventory: every map iteration is a
       classified one; no goroutine is started; no clock, random source or pointer formatting
       is used; the only package-level variable written after initialisation is written inside
       its sync.Once.
   (2) The order-insensitivity facts the classes rest on, for every permutation (= every
       iteration order Go may choose): an insert-only fold over distinct keys yields the same
       table; sorted output of a permutation is the same list; a "first failure wins" loop has
       an order-independent result when at most the failures agree.
   (3) The model itself is a function: the same project has one result. *)
From JS Require Import Base Bytes Scanner Directive Core Expand Catalog Entry ListAux.
From JS Require Inventory MapRanges.
From Coq Require Import Lia Permutation Sorted.
Open Scope Z_scope.

(* ------------------------------------------------------------------------------------ *)
(* (1) inventory *)
Definition row := (string * string * string * string)%type.
Definition kind_of (r : row) : string := match r with (k, _, _, _) => k end.

(* the type of an "expression : type" row *)
Fixpoint after_colon (fuel : nat) (d : string) : string :=
  match fuel with
  | O => d
  | S f =>
      if String.prefix " : " d then String.substring 3 (String.length d - 3) d
      else match d with
           | String _ r => after_colon f r
           | EmptyString => EmptyString
           end
  end.
Definition map_type (d : string) : string := after_colon (String.length d) d.

Definition classified (r : row) : bool :=
  match r with
  | (k, p, f, e) =>
      negb (String.eqb k "maprange") ||
      existsb (fun c => match c with (p', t', _, _) => String.eqb p p' && String.eqb (map_type e) t' end)
              MapRanges.map_range_classes
  end.

Definition prefix_s (p s : string) : bool := String.prefix p s.

Definition harmless (r : row) : bool :=
  match r with
  | (k, _, _, d) =>
      negb (String.eqb k "go") &&
      negb (String.eqb k "import") &&
      negb (String.eqb k "fmt-pointer") &&
      negb (String.eqb k "extcall" && (prefix_s "time." d || prefix_s "rand." d)) &&
      negb (String.eqb k "pkgvar-write" && negb (prefix_s "inside-Once.Do " d))
  end.

Definition inventory_deterministic : bool :=
  forallb classified Inventory.inventory && forallb harmless Inventory.inventory.

Lemma inventory_deterministic_ok : inventory_deterministic = true.
Proof. vm_compute. reflexivity. Qed.

Lemma every_map_range_classified : forall p f e,
  In ("maprange"%string, p, f, e) Inventory.inventory ->
  exists w c, In (p, map_type e, w, c) MapRanges.map_range_classes.
Proof.
  intros p f e H.
  pose proof inventory_deterministic_ok as I. unfold inventory_deterministic in I.
  apply andb_prop in I as [I _]. rewrite forallb_forall in I. specialize (I _ H).
  unfold classified in I. cbn [String.eqb negb orb] in I.
  change (String.eqb "maprange" "maprange") with true in I. cbn [negb orb] in I.
  apply existsb_exists in I as [[[[p' t'] w] c] [Hin Hc]].
  apply andb_prop in Hc as [Hp Ht].
  apply String.eqb_eq in Hp, Ht. subst. exists w, c. exact Hin.
Qed.

Lemma no_goroutines_clock_random : forall r, In r Inventory.inventory ->
  kind_of r <> "go"%string /\ kind_of r <> "import"%string /\ kind_of r <> "fmt-pointer"%string.
Proof.
  intros r H.
  pose proof inventory_deterministic_ok as I. unfold inventory_deterministic in I.
  apply andb_prop in I as [_ I]. rewrite forallb_forall in I. specialize (I _ H).
  destruct r as [[[k p] f] d]. unfold harmless in I. cbn [kind_of].
  repeat (apply andb_prop in I as [I ?]).
  repeat split; intros E; subst k; cbn in *; discriminate.
Qed.

(* ------------------------------------------------------------------------------------ *)
(* (2a) insert-only loops: a table as a lookup function *)
Section InsertOnly.
  Variable K V : Type.
  Variable keq : K -> K -> bool.
  Hypothesis keq_spec : forall a b, keq a b = true <-> a = b.

  Definition table := K -> option V.
  Definition insert (t : table) (kv : K * V) : table :=
    fun k => if keq k (fst kv) then Some (snd kv) else t k.

  Lemma insert_fold_lookup l : forall t k,
    NoDup (List.map fst l) ->
    fold_left insert l t k =
      match List.find (fun kv => keq k (fst kv)) l with Some kv => Some (snd kv) | None => t k end.
  Proof.
    induction l as [|[a v] l IH]; intros t k Hn; cbn [fold_left List.find fst].
    - reflexivity.
    - cbn [List.map fst] in Hn. inversion Hn as [|? ? Hnotin Hn']; subst.
      rewrite IH by exact Hn'.
      destruct (List.find (fun kv => keq k (fst kv)) l) as [kv|] eqn:F.
      + destruct (keq k a) eqn:E; [|reflexivity].
        exfalso. apply keq_spec in E. subst a. apply find_some in F as [Hin Hk].
        apply keq_spec in Hk. apply Hnotin. rewrite Hk. apply in_map. exact Hin.
      + unfold insert at 1. cbn [fst snd]. destruct (keq k a); reflexivity.
  Qed.

  Lemma find_perm_nodup (l l' : list (K * V)) k :
    NoDup (List.map fst l) -> Permutation l l' ->
    List.find (fun kv => keq k (fst kv)) l = List.find (fun kv => keq k (fst kv)) l'.
  Proof.
    intros Hn P. revert Hn. induction P as [|x l l' P IH|x y l|l l' l'' P1 IH1 P2 IH2]; intros Hn.
    - reflexivity.
    - cbn [List.find]. destruct (keq k (fst x)); [reflexivity|]. apply IH. cbn in Hn. inversion Hn; assumption.
    - cbn [List.find]. destruct (keq k (fst y)) eqn:Ey, (keq k (fst x)) eqn:Ex; try reflexivity.
      exfalso. apply keq_spec in Ey, Ex. cbn [List.map] in Hn. inversion Hn as [|? ? Hnotin _]; subst.
      apply Hnotin. left. congruence.
    - rewrite IH1 by exact Hn. apply IH2.
      eapply Permutation_NoDup; [apply Permutation_map; exact P1|exact Hn].
  Qed.

  (* whatever order the map iteration hands the entries over in, the resulting table is the same *)
  Theorem insert_only_order_free (l l' : list (K * V)) (t : table) :
    NoDup (List.map fst l) -> Permutation l l' ->
    forall k, fold_left insert l t k = fold_left insert l' t k.
  Proof.
    intros Hn P k. rewrite !insert_fold_lookup.
    - rewrite (find_perm_nodup l l' k Hn P). reflexivity.
    - eapply Permutation_NoDup; [apply Permutation_map; exact P|exact Hn].
    - exact Hn.
  Qed.
End InsertOnly.

(* (2b) sorted output: two sorted arrangements of the same entries are the same list *)
Section SortedOutput.
  Variable A : Type.
  Variable le : A -> A -> Prop.
  Hypothesis le_antisym : forall a b, le a b -> le b a -> a = b.

  Theorem sorted_output_order_free (l1 l2 : list A) :
    StronglySorted le l1 -> StronglySorted le l2 -> Permutation l1 l2 -> l1 = l2.
  Proof.
    revert l2. induction l1 as [|a l1 IH]; intros l2 S1 S2 P.
    - apply Permutation_nil in P. subst. reflexivity.
    - destruct l2 as [|b l2]; [apply Permutation_sym, Permutation_nil in P; discriminate|].
      inversion S1 as [|? ? S1' F1]; subst. inversion S2 as [|? ? S2' F2]; subst.
      assert (a = b) as ->.
      { assert (Ia : In a (b :: l2)) by (eapply Permutation_in; [exact P|left; reflexivity]).
        assert (Ib : In b (a :: l1)) by (eapply Permutation_in; [apply Permutation_sym; exact P|left; reflexivity]).
        destruct Ia as [->|Ia]; [reflexivity|]. destruct Ib as [->|Ib]; [reflexivity|].
        rewrite Forall_forall in F1, F2. apply le_antisym; [apply F1; exact Ib|apply F2; exact Ia]. }
      f_equal. apply IH; try assumption. eapply Permutation_cons_inv. exact P.
  Qed.
End SortedOutput.

(* (2c) "first failure wins" loops: order-free when nothing fails, and when every failure is the
   same failure *)
Section FirstFailure.
  Variable A E : Type.
  Variable f : A -> option E.

  Theorem first_failure_none_order_free l l' :
    Permutation l l' -> first_some f l = None -> first_some f l' = None.
  Proof.
    intros P H. induction P as [|x l l' P IH|x y l|l l' l'' P1 IH1 P2 IH2]; cbn [first_some] in *.
    - reflexivity.
    - destruct (f x); [discriminate|]. apply IH. exact H.
    - destruct (f y); [discriminate|]. destruct (f x); [discriminate|]. exact H.
    - apply IH2. apply IH1. exact H.
  Qed.

  Theorem first_failure_same_order_free e l l' :
    (forall x e', In x l -> f x = Some e' -> e' = e) ->
    Permutation l l' -> first_some f l = Some e -> first_some f l' = Some e.
  Proof.
    intros Hsame P H.
    assert (Hsame' : forall x e', In x l' -> f x = Some e' -> e' = e).
    { intros x e' Hin. apply Hsame. eapply Permutation_in; [apply Permutation_sym; exact P|exact Hin]. }
    assert (Hex : exists x, In x l /\ f x <> None).
    { clear -H. induction l as [|x l IH]; cbn [first_some] in H; [discriminate|].
      destruct (f x) eqn:Efx; [exists x; split; [left; reflexivity|congruence]|].
      destruct (IH H) as [y [Hy Hn]]. exists y. split; [right; exact Hy|exact Hn]. }
    destruct Hex as [x [Hx Hn]].
    assert (Hx' : In x l') by (eapply Permutation_in; eassumption).
    clear -Hsame' Hx' Hn.
    induction l' as [|y l' IH]; [contradiction|]. cbn [first_some].
    destruct (f y) eqn:Efy.
    - f_equal. eapply Hsame'; [left; reflexivity|exact Efy].
    - destruct Hx' as [->|Hx']; [congruence|]. apply IH; [|exact Hx'].
      intros z e' Hz. apply Hsame'. right. exact Hz.
  Qed.
End FirstFailure.

(* ------------------------------------------------------------------------------------ *)
(* (3) the model of a build is a function of the project: one project, one result (this is what
   the implementation is compared with, run after run, by the correspondence) *)
Theorem model_build_is_a_function banned fs root ot et fuel fs' root' :
  fs = fs' -> root = root' -> tree_case_b banned fs root ot et fuel = tree_case_b banned fs' root' ot et fuel.
Proof. intros -> ->. reflexivity. Qed.
