(* OrderSafe.v — lexemes come in text order and do not overlap, for every input: every lexeme
   begins after the end of the one delivered before it, and ends no earlier than one byte before
   its own beginning.  Whether a Begin event is pending and how far behind the cursor the last
   lexeme event lies (a lower bound) are INFERRED per state from the regenerated program, CHECKED
   by symbolic execution of every path of every step function (calls and re-dispatches inlined,
   one branch per state that can be popped - the stack shape proved in ScanTerm.v), and the
   checker is proved sound against the interpreter including the lazily drained event queue. *)
From JS Require Import Base Bytes Scanner ScanRun ScanTerm.
From JS Require ScannerProg LexemeEvents.
From Coq Require Import Lia.
Open Scope Z_scope.

Record octx := mkO { o_step : state; o_known : list state; o_below : list elem; o_open : bool; o_age : Z;
                      o_eq : option N; o_ne : list N; o_moved : bool }.
(* o_eq / o_ne: what is known about the byte under the cursor on this path *)
Definition o_eof (c : octx) : bool := match o_eq c with Some 0%N => true | _ => false end.

(* the condition is certainly not true on this path *)
Fixpoint ocond_false (c : octx) (k : cond) : bool :=
  match k with
  | CByte b => existsb (N.eqb b) (o_ne c) || match o_eq c with Some x => negb (N.eqb x b) | None => false end
  | CAnd a b => ocond_false c a || ocond_false c b
  | COr a b => ocond_false c a && ocond_false c b
  | _ => false
  end.

Definition with_step (c : octx) (st : state) := mkO st (o_known c) (o_below c) (o_open c) (o_age c) (o_eq c) (o_ne c) (o_moved c).
Definition with_stack (c : octx) (st : state) (kn : list state) (bl : list elem) := mkO st kn bl (o_open c) (o_age c) (o_eq c) (o_ne c) (o_moved c).
Definition with_ev (c : octx) (op : bool) (age : Z) := mkO (o_step c) (o_known c) (o_below c) op age (o_eq c) (o_ne c) (o_moved c).
Definition with_moved (c : octx) (age : Z) := mkO (o_step c) (o_known c) (o_below c) (o_open c) age (o_eq c) (o_ne c) true.
Definition with_eq (c : octx) (b : N) := mkO (o_step c) (o_known c) (o_below c) (o_open c) (o_age c) (Some b) (o_ne c) (o_moved c).
Definition with_ne (c : octx) (b : N) := mkO (o_step c) (o_known c) (o_below c) (o_open c) (o_age c) (o_eq c) (b :: o_ne c) (o_moved c).

Inductive oobl :=
| QIn (t : tblid) (st : state) (e : elem)
| QSt (new : state) (open : bool) (age : Z)
| QFalse.

Section Collect.
  Variable prog : list (string * stmt).
  Variable U : state -> list elem.

  Definition obeneath (c : octx) : list elem :=
    match o_known c with k :: _ => [Some k] | [] => o_below c end.

  (* one lexeme event at cursor + off *)
  Definition found (c : octx) (ev : event) (off : Z) : option octx :=
    if LexemeEvents.ev_IsBeginning ev then
      if negb (o_open c) && (1 <=? o_age c + off) then Some (with_ev c true (- off)) else None
    else if LexemeEvents.ev_IsEnding ev then
      if o_open c && (-1 <=? o_age c + off) then Some (with_ev c false (- off)) else None
    else if LexemeEvents.ev_IsSingle ev then
      if negb (o_open c) && (1 <=? o_age c + off) then Some (with_ev c false (- off)) else None
    else None.

  Fixpoint ocollect (fuel calls : nat) (s : stmt) (c : octx) (k : octx -> list oobl) {struct fuel} : list oobl :=
    match fuel with
    | O => [QFalse]
    | S fuel' =>
        match s with
        | SSkip => k c
        | SSeq a b => ocollect fuel' calls a c (fun c' => ocollect fuel' calls b c' k)
        | SIf cnd t e =>
            if ocond_false c cnd then ocollect fuel' calls e c k
            else match cnd with
                 | CByte b => ocollect fuel' calls t (with_eq c b) k ++ ocollect fuel' calls e (with_ne c b) k
                 | _ => ocollect fuel' calls t c k ++ ocollect fuel' calls e c k
                 end
        | SSetStep st => k (with_step c st)
        | SPush st => List.map (QIn TU st) (obeneath c) ++ k (with_stack c (o_step c) (st :: o_known c) (o_below c))
        | SPushCur => List.map (QIn TU (o_step c)) (obeneath c) ++ k (with_stack c (o_step c) (o_step c :: o_known c) (o_below c))
        | SPop =>
            match o_known c with
            | t :: ks => k (with_stack c t ks (o_below c))
            | [] => flat_map (fun o => match o with
                                       | None => []
                                       | Some t => k (with_stack c t [] (U t))
                                       end) (o_below c)
            end
        | SOracle _ => k (with_moved c (o_age c))
        | SFound ev off => match found c ev off with Some c' => k c' | None => [QFalse] end
        | SAddCur dz => k (with_moved c (o_age c + dz))
        | SRetNil => (if o_eof c && negb (o_moved c) then [] else [QSt (o_step c) (o_open c) (o_age c)]) ++ List.map (QIn TT (o_step c)) (obeneath c)
        | SRetErr _ _ | SRetErrBasic _ => []
        | SRetCall st =>
            match calls, nth_error prog (N.to_nat st) with
            | S calls', Some (_, body) => ocollect fuel' calls' body c (fun _ => [QFalse])
            | _, _ => [QFalse]
            end
        | SRetRedispatch =>
            match calls, nth_error prog (N.to_nat (o_step c)) with
            | S calls', Some (_, body) => ocollect fuel' calls' body c (fun _ => [QFalse])
            | _, _ => [QFalse]
            end
        end
    end.

  Definition ocollect_state (T : state -> list elem) (Op : state -> bool) (Ag : state -> Z) (st : state) : list oobl :=
    match nth_error prog (N.to_nat st) with
    | Some (_, body) => ocollect 300 7 body (mkO st [] (T st) (Op st) (Ag st) None [] false) (fun _ => [QFalse])
    | None => [QFalse]
    end.
End Collect.

(* inference of Op (is a Begin pending) and Ag (lower bound of cursor - position of the last event) *)
Definition lookb (l : list (option bool)) (st : state) : bool := match nth (N.to_nat st) l None with Some b => b | None => false end.
Definition known (l : list (option bool)) (st : state) : bool := match nth (N.to_nat st) l None with Some _ => true | None => false end.

Fixpoint set_opt (l : list (option bool)) (i : nat) (b : bool) : list (option bool) :=
  match l, i with
  | [], _ => []
  | x :: r, O => (match x with None => Some b | s => s end) :: r
  | x :: r, S j => x :: set_opt r j b
  end.
Fixpoint set_minz (l : list Z) (i : nat) (v : Z) : list Z :=
  match l, i with
  | [], _ => []
  | x :: r, O => Z.min x v :: r
  | x :: r, S j => x :: set_minz r j v
  end.

Definition oinfer_round (prog : list (string * stmt)) (OA : list (option bool) * list Z) :=
  fold_left (fun acc st =>
    if known (fst acc) st then
      fold_left (fun a o =>
        match o with
        | QSt new open age => (set_opt (fst a) (N.to_nat new) open, set_minz (snd a) (N.to_nat new) (age + 1))
        | _ => a
        end) (ocollect_state prog iU iT (lookb (fst acc)) (lookz (snd acc)) st) acc
    else acc) (all_states prog) OA.

Definition OA0 (prog : list (string * stmt)) (init : state) :=
  (set_opt (List.map (fun _ => None) prog) (N.to_nat init) false, set_minz (List.map (fun _ => 1000) prog) (N.to_nat init) 1).

Definition inferredOA := Eval vm_compute in iterate 30 (oinfer_round ScannerProg.prog_table) (OA0 ScannerProg.prog_table ScannerProg.initial_state).
Definition iOp := lookb (fst inferredOA).
Definition iAg := lookz (snd inferredOA).

Definition oholds (T U : state -> list elem) (Op : state -> bool) (Ag : state -> Z) (o : oobl) : bool :=
  match o with
  | QIn TT st e => mem e (T st)
  | QIn TU st e => mem e (U st)
  | QSt new open age => Bool.eqb open (Op new) && (Ag new <=? age + 1)
  | QFalse => false
  end.

Definition ochk_state (prog : list (string * stmt)) (T U : state -> list elem) (Op : state -> bool) (Ag : state -> Z) (st : state) : bool :=
  match T st with
  | [] => true
  | _ => forallb (oholds T U Op Ag) (ocollect_state prog U T Op Ag st)
  end.

Definition oall_ok : bool := forallb (ochk_state ScannerProg.prog_table iT iU iOp iAg) (all_states ScannerProg.prog_table).

Lemma oall_ok_ok : oall_ok = true.
Proof. vm_compute. reflexivity. Qed.

(* the event queue, replayed from the position of the last delivered event *)
Fixpoint run_q (last : Z) (open : bool) (q : list (event * Z)) : option (Z * bool) :=
  match q with
  | [] => Some (last, open)
  | (ev, pos) :: r =>
      if LexemeEvents.ev_IsBeginning ev then (if negb open && (last <? pos) then run_q pos true r else None)
      else if LexemeEvents.ev_IsEnding ev then (if open && (last - 1 <=? pos) then run_q pos false r else None)
      else if LexemeEvents.ev_IsSingle ev then (if negb open && (last <? pos) then run_q pos false r else None)
      else None
  end.

Lemma run_q_app q : forall last open x, run_q last open (q ++ [x]) =
  match run_q last open q with Some (l, o) => run_q l o [x] | None => None end.
Proof.
  induction q as [|[ev pos] r IH]; intros last open x; [cbn [app run_q]; reflexivity|].
  cbn [app]. cbn [run_q].
  destruct (LexemeEvents.ev_IsBeginning ev); [destruct (negb open && (last <? pos)); [apply IH|reflexivity]|].
  destruct (LexemeEvents.ev_IsEnding ev); [destruct (open && (last - 1 <=? pos)); [apply IH|reflexivity]|].
  destruct (LexemeEvents.ev_IsSingle ev); [destruct (negb open && (last <? pos)); [apply IH|reflexivity]|reflexivity].
Qed.

Definition floor (P : Z) (cf : conf) : Z := match c_estack cf with (_, bp) :: _ => bp | [] => P end.
Definition open0 (cf : conf) : bool := match c_estack cf with [] => false | _ => true end.
Definition estack_ok (P : Z) (cf : conf) : Prop :=
  match c_estack cf with [] => True | [(_, bp)] => P < bp | _ => False end.

(* lexemes in text order, none overlapping the one before, none inverted *)
Fixpoint chain_ok (P : Z) (ls : list lexeme) : Prop :=
  match ls with
  | [] => True
  | l :: r => P < lb l /\ lb l - 1 <= le l /\ chain_ok (le l) r
  end.

(* ------------------------------------------------------------------------------------ *)
Section Sound.
  Variable prog : list (string * stmt).
  Variable nl_cond ws_cond : cond.
  Variable data : bytes.
  Variable olen : okind -> Z -> olen_res.
  Variable T U : state -> list elem.
  Variable Op : state -> bool.
  Variable Ag : state -> Z.
  Hypothesis OK : forall st, ochk_state prog T U Op Ag st = true.

  Notation SInv := (ScanTerm.Inv T U).
  Notation Chain := (ScanTerm.Chain U).

  Definition OInv (P : Z) (cf : conf) : Prop :=
    estack_ok P cf /\ exists last open, run_q (floor P cf) (open0 cf) (c_finds cf) = Some (last, open) /\
      ((SInv cf /\ open = Op (c_step cf) /\ Ag (c_step cf) <= c_cur cf - last) \/ data_size data < c_cur cf).

  Section Body.
    Variable P : Z.
    Variable ch : byte.
    Variable cf0 : conf.
    Hypothesis H0 : ch = 0%N -> data_size data <= c_cur cf0.

    Definition qallh (l : list oobl) : Prop := forallb (oholds T U Op Ag) l = true.

    Definition oknown (c : octx) : Prop :=
      (forall x, o_eq c = Some x -> ch = x) /\ (forall b, In b (o_ne c) -> ch <> b).

    Definition R (cf : conf) (c : octx) : Prop :=
      c_step cf = o_step c /\ Chain (c_sstack cf) /\
      (exists rest, c_sstack cf = o_known c ++ rest /\ nextok (o_below c) rest) /\
      estack_ok P cf /\
      (exists last, run_q (floor P cf) (open0 cf) (c_finds cf) = Some (last, o_open c) /\ o_age c <= c_cur cf - last) /\
      oknown c /\ (o_moved c = false -> c_cur cf = c_cur cf0).

    (* the result of one step invocation, before the cursor advances *)
    Definition Post (cf : conf) : Prop :=
      estack_ok P cf /\ exists last open, run_q (floor P cf) (open0 cf) (c_finds cf) = Some (last, open) /\
        ((SInv cf /\ open = Op (c_step cf) /\ Ag (c_step cf) <= c_cur cf + 1 - last) \/ data_size data <= c_cur cf).

    Lemma qallh_app a b : qallh (a ++ b) -> qallh a /\ qallh b.
    Proof. unfold qallh. rewrite forallb_app. intros H. apply andb_prop in H. exact H. Qed.
    Lemma qallh_map_TT st l : qallh (List.map (QIn TT st) l) -> forallb (fun o => mem o (T st)) l = true.
    Proof. unfold qallh. induction l as [|x r IH]; [reflexivity|]. cbn [List.map forallb oholds]. intros H. apply andb_prop in H as [H1 H2]. rewrite H1, (IH H2). reflexivity. Qed.
    Lemma qallh_map_TU st l : qallh (List.map (QIn TU st) l) -> forallb (fun o => mem o (U st)) l = true.
    Proof. unfold qallh. induction l as [|x r IH]; [reflexivity|]. cbn [List.map forallb oholds]. intros H. apply andb_prop in H as [H1 H2]. rewrite H1, (IH H2). reflexivity. Qed.
    Lemma qallh_flat_map {A} (f : A -> list oobl) l x : qallh (flat_map f l) -> In x l -> qallh (f x).
    Proof.
      unfold qallh. induction l as [|y r IH]; intros H I; [destruct I|]. cbn [flat_map] in H.
      rewrite forallb_app in H. apply andb_prop in H as [H1 H2]. destruct I as [->|I]; [exact H1|apply IH; assumption].
    Qed.

    Lemma obeneath_spec cf c S : R cf c -> forallb (fun o => mem o S) (obeneath c) = true -> nextok S (c_sstack cf).
    Proof.
      intros [_ [_ [[rest [E N]] _]]] F. unfold obeneath in F. rewrite E.
      destruct (o_known c) as [|k ks]; cbn [app].
      - destruct rest as [|t r]; cbn [nextok] in *; eapply mem_sub; eassumption.
      - cbn [forallb] in F. apply andb_prop in F as [F _]. exact F.
    Qed.

    Lemma ocond_false_sound cf c k : oknown c -> ocond_false c k = true ->
      eval_cond nl_cond ws_cond data cf ch k <> Some true.
    Proof.
      intros [K1 K2]. induction k; cbn [ocond_false eval_cond]; intros F; try discriminate.
      - apply orb_prop in F as [F|F].
        + apply existsb_exists in F as [x [Hin E]]. apply N.eqb_eq in E. subst x.
          intros X. injection X as X. apply N.eqb_eq in X. exact (K2 _ Hin X).
        + destruct (o_eq c) as [x|] eqn:E; [|discriminate]. pose proof (K1 _ eq_refl) as ->.
          intros X. injection X as X. rewrite X in F. discriminate.
      - apply orb_prop in F as [F|F].
        + specialize (IHk1 F). destruct (eval_cond nl_cond ws_cond data cf ch k1) as [[|]|]; try discriminate. contradiction.
        + destruct (eval_cond nl_cond ws_cond data cf ch k1) as [[|]|]; try discriminate. apply IHk2. exact F.
      - apply andb_prop in F as [F1 F2]. specialize (IHk1 F1). specialize (IHk2 F2).
        destruct (eval_cond nl_cond ws_cond data cf ch k1) as [[|]|]; try discriminate; [contradiction|exact IHk2].
    Qed.

    (* R only looks at these components *)
    Lemma R_step cf c st : R cf c -> R (set_step cf st) (with_step c st).
    Proof. intros [H1 H2]. split; [reflexivity|exact H2]. Qed.

    Notation exec := (exec nl_cond ws_cond data olen).

    Definition Goal_ (calls : nat) (k : octx -> list oobl) (r : flow) : Prop :=
      match r with
      | FFall cf' => exists c', R cf' c' /\ qallh (k c')
      | FRet KNil cf' => Post cf'
      | FRet (KCall st) cf' =>
          exists calls' name body f c', calls = S calls' /\ nth_error prog (N.to_nat st) = Some (name, body) /\
             qallh (ocollect prog U f calls' body c' (fun _ => [QFalse])) /\ R cf' c'
      | FRet KRedispatch cf' =>
          exists calls' name body f c', calls = S calls' /\ nth_error prog (N.to_nat (c_step cf')) = Some (name, body) /\
             qallh (ocollect prog U f calls' body c' (fun _ => [QFalse])) /\ R cf' c'
      | _ => True
      end.

    Lemma found_sound cf c ev off c' : found c ev off = Some c' -> R cf c ->
      R (set_finds cf (c_finds cf ++ [(ev, c_cur cf + off)])) c'.
    Proof.
      intros F [H1 [H2 [H3 [H4 [[last [Q A]] [H6 H7]]]]]].
      assert (G : forall op, run_q last (o_open c) [(ev, c_cur cf + off)] = Some (c_cur cf + off, op) ->
                  R (set_finds cf (c_finds cf ++ [(ev, c_cur cf + off)])) (with_ev c op (- off))).
      { intros op E. unfold R. cbn [c_step c_sstack c_cur c_finds set_finds with_ev o_step o_known o_below o_open o_age o_eq o_ne o_moved].
        repeat split; try assumption; try apply H6.
        exists (c_cur cf + off). split; [|lia].
        change (floor P (set_finds cf (c_finds cf ++ [(ev, c_cur cf + off)]))) with (floor P cf).
        change (open0 (set_finds cf (c_finds cf ++ [(ev, c_cur cf + off)]))) with (open0 cf).
        rewrite run_q_app, Q. exact E. }
      unfold found in F. cbn [run_q] in G.
      destruct (LexemeEvents.ev_IsBeginning ev).
      { destruct (negb (o_open c) && (1 <=? o_age c + off)) eqn:E; [|discriminate]. injection F as <-.
        apply andb_prop in E as [E1 E2]. apply Z.leb_le in E2. apply G. rewrite E1.
        assert (L : (last <? c_cur cf + off) = true) by (apply Z.ltb_lt; lia). rewrite L. reflexivity. }
      destruct (LexemeEvents.ev_IsEnding ev).
      { destruct (o_open c && (-1 <=? o_age c + off)) eqn:E; [|discriminate]. injection F as <-.
        apply andb_prop in E as [E1 E2]. apply Z.leb_le in E2. apply G. rewrite E1.
        assert (L : (last - 1 <=? c_cur cf + off) = true) by (apply Z.leb_le; lia). rewrite L. reflexivity. }
      destruct (LexemeEvents.ev_IsSingle ev); [|discriminate].
      destruct (negb (o_open c) && (1 <=? o_age c + off)) eqn:E; [|discriminate]. injection F as <-.
      apply andb_prop in E as [E1 E2]. apply Z.leb_le in E2. apply G. rewrite E1.
      assert (L : (last <? c_cur cf + off) = true) by (apply Z.ltb_lt; lia). rewrite L. reflexivity.
    Qed.

    Lemma ocollect_sound fuel : forall calls s c k cf, qallh (ocollect prog U fuel calls s c k) -> R cf c ->
      Goal_ calls k (exec ch s cf).
    Proof.
      induction fuel as [|fuel IH]; intros calls s c k cf C HR; [discriminate|].
      destruct s; cbn [ocollect] in C; cbn [Scanner.exec Goal_].
      - (* SSetStep *) eexists. split; [|exact C]. apply R_step. exact HR.
      - (* SPush *) apply qallh_app in C as [C1 C2]. apply qallh_map_TU in C1.
        pose proof (obeneath_spec cf c _ HR C1) as B.
        eexists. split; [|exact C2]. destruct HR as [H1 [H2 [[rest [E N]] H4]]].
        unfold R. cbn [c_step c_sstack set_sstack with_stack o_step o_known o_below o_open o_age o_eq o_ne o_moved c_cur c_finds ScanTerm.Chain].
        repeat split; try assumption; try apply H4. exists rest. split; [rewrite E; reflexivity|exact N].
      - (* SPushCur *) apply qallh_app in C as [C1 C2]. apply qallh_map_TU in C1.
        pose proof (obeneath_spec cf c _ HR C1) as B.
        eexists. split; [|exact C2]. destruct HR as [H1 [H2 [[rest [E N]] H4]]].
        unfold R. cbn [c_step c_sstack set_sstack with_stack o_step o_known o_below o_open o_age o_eq o_ne o_moved c_cur c_finds ScanTerm.Chain].
        rewrite H1. repeat split; try assumption; try apply H4. exists rest. split; [rewrite E; reflexivity|exact N].
      - (* SPop *) destruct HR as [H1 [H2 [[rest [E N]] H4]]].
        destruct (o_known c) as [|t ks] eqn:EK.
        + cbn [app] in E. rewrite E. destruct rest as [|t r]; [exact I|].
          cbn [nextok] in N. apply mem_In in N.
          pose proof (qallh_flat_map _ _ _ C N) as C'. cbn beta iota in C'.
          eexists. split; [|exact C']. rewrite E in H2. cbn [ScanTerm.Chain] in H2. destruct H2 as [N2 H2].
          unfold R. cbn [c_step c_sstack set_sstack set_step with_stack o_step o_known o_below o_open o_age o_eq o_ne o_moved c_cur c_finds].
          repeat split; try assumption; try apply H4. exists r. split; [reflexivity|exact N2].
        + rewrite E. cbn [app]. eexists. split; [|exact C]. rewrite E in H2. cbn [app ScanTerm.Chain] in H2. destruct H2 as [_ H2].
          unfold R. cbn [c_step c_sstack set_sstack set_step with_stack o_step o_known o_below o_open o_age o_eq o_ne o_moved c_cur c_finds].
          repeat split; try assumption; try apply H4. exists rest. split; [reflexivity|exact N].
      - (* SFound *) destruct (found c ev off) as [c'|] eqn:F; [|discriminate].
        exists c'. split; [|exact C]. eapply found_sound; eassumption.
      - (* SAddCur *) eexists. split; [|exact C]. destruct HR as [H1 [H2 [H3 [H4 [[last [Q A]] [H6 H7]]]]]].
        unfold R. cbn [c_step c_sstack set_cur with_moved o_step o_known o_below o_open o_age o_eq o_ne o_moved c_cur c_finds].
        repeat split; try assumption; try apply H6; [|discriminate]. exists last. split; [exact Q|lia].
      - (* SIf *)
        destruct (ocond_false c c0) eqn:CF.
        { pose proof (ocond_false_sound cf c c0 (proj1 (proj2 (proj2 (proj2 (proj2 (proj2 HR)))))) CF) as NT.
          destruct (eval_cond nl_cond ws_cond data cf ch c0) as [[|]|]; [contradiction|eapply (IH calls s2 c k cf C HR)|exact I]. }
        assert (Gen : forall c1 c2, qallh (ocollect prog U fuel calls s1 c1 k) -> qallh (ocollect prog U fuel calls s2 c2 k) ->
                  (eval_cond nl_cond ws_cond data cf ch c0 = Some true -> R cf c1) ->
                  (eval_cond nl_cond ws_cond data cf ch c0 = Some false -> R cf c2) ->
                  Goal_ calls k (match eval_cond nl_cond ws_cond data cf ch c0 with
                           | None => FPanic PIndexRange
                           | Some true => exec ch s1 cf
                           | Some false => exec ch s2 cf
                           end)).
        { intros c1 c2 C1 C2 R1 R2. destruct (eval_cond nl_cond ws_cond data cf ch c0) as [[|]|]; [|eapply IH; [exact C2|auto]|exact I].
          eapply IH; [exact C1|auto]. }
        destruct c0 as [b| | |kk bb|q|cc|ca cb|ca cb|]; try (apply qallh_app in C as [C1 C2]; apply (Gen c c C1 C2); intros; exact HR).
        apply qallh_app in C as [C1 C2]. apply (Gen _ _ C1 C2).
        + intros EV. cbn [eval_cond] in EV. injection EV as EV. apply N.eqb_eq in EV.
          destruct HR as [H1 [H2 [H3 [H4 [H5 [[K1 K2] H7]]]]]]. unfold R, oknown. cbn [with_eq o_step o_known o_below o_open o_age o_eq o_ne o_moved]. repeat split; try assumption.
          intros x X. injection X as <-. exact EV.
        + intros EV. cbn [eval_cond] in EV. injection EV as EV. apply N.eqb_neq in EV.
          destruct HR as [H1 [H2 [H3 [H4 [H5 [[K1 K2] H7]]]]]]. unfold R, oknown. cbn [with_ne o_step o_known o_below o_open o_age o_eq o_ne o_moved]. repeat split; try assumption.
          intros b0 [<-|Hin]; [exact EV|apply K2; exact Hin].
      - (* SSeq *) pose proof (IH calls s1 c _ cf C HR) as A.
        destruct (Scanner.exec nl_cond ws_cond data olen ch s1 cf) as [cf1|kk cf1|e|p] eqn:E1; try exact A.
        destruct A as [c1 [R1 K1]]. eapply IH; eassumption.
      - (* SSkip *) exists c. split; assumption.
      - (* SOracle *) destruct (olen k0 (c_cur cf)); [|exact I].
        eexists. split; [|exact C]. destruct HR as [H1 [H2 [H3 [H4 [[last [Q A]] [H6 H7]]]]]].
        destruct (0 <? n) eqn:E0.
        + apply Z.ltb_lt in E0. unfold R. cbn [c_step c_sstack set_cur with_moved o_step o_known o_below o_open o_age o_eq o_ne o_moved c_cur c_finds].
          repeat split; try assumption; try apply H6; [|discriminate]. exists last. split; [exact Q|lia].
        + unfold R. cbn [with_moved o_step o_known o_below o_open o_age o_eq o_ne o_moved].
          repeat split; try assumption; try apply H6; [|discriminate]. exists last. split; [exact Q|lia].
      - (* SRetNil *) apply qallh_app in C as [CS C].
        apply qallh_map_TT in C. pose proof (obeneath_spec cf c _ HR C) as B.
        destruct HR as [H1 [H2 [H3 [H4 [[last [Q A]] [[K1 K2] H7]]]]]].
        split; [exact H4|]. exists last, (o_open c). split; [exact Q|].
        destruct (o_eof c && negb (o_moved c)) eqn:EE.
        + right. apply andb_prop in EE as [Ee Em].
          assert (Z0 : ch = 0%N).
          { unfold o_eof in Ee. destruct (o_eq c) as [x|] eqn:E; [|discriminate]. destruct x; [|discriminate]. apply K1. reflexivity. }
          rewrite H7; [apply H0; exact Z0|]. destruct (o_moved c); [discriminate|reflexivity].
        + left. unfold qallh in CS. cbn [forallb oholds] in CS. apply andb_prop in CS as [CS _]. apply andb_prop in CS as [S1 S2].
          apply Bool.eqb_prop in S1. apply Z.leb_le in S2.
          split; [split; [rewrite H1; exact B|exact H2]|]. rewrite H1. split; [exact S1|lia].
      - exact I.
      - exact I.
      - (* SRetCall *) destruct calls as [|calls']; [discriminate|].
        destruct (nth_error prog (N.to_nat st)) as [[name body]|] eqn:E; [|discriminate].
        exists calls', name, body, fuel, c. repeat split; try assumption; apply HR.
      - (* SRetRedispatch *) destruct calls as [|calls']; [discriminate|].
        pose proof HR as HR0. destruct HR as [H1 HR']. rewrite H1.
        destruct (nth_error prog (N.to_nat (o_step c))) as [[name body]|] eqn:E; [|discriminate].
        exists calls', name, body, fuel, c. repeat split; try assumption; try apply HR'.
    Qed.

    Notation run_step := (run_step prog nl_cond ws_cond data olen).

    Definition fineO (r : res conf) : Prop :=
      match r with
      | ROk cf' => Post cf'
      | _ => True
      end.

    Lemma omodeB fuel : forall st cf c f calls name body,
      nth_error prog (N.to_nat st) = Some (name, body) ->
      qallh (ocollect prog U f calls body c (fun _ => [QFalse])) -> R cf c ->
      fineO (run_step fuel st ch cf).
    Proof.
      induction fuel as [|fuel IH]; intros st cf c f calls name body E C HR; [exact I|].
      cbn [Scanner.run_step]. unfold body_of. rewrite E. cbn [option_map snd].
      pose proof (ocollect_sound f calls body c _ cf C HR) as A.
      destruct (Scanner.exec nl_cond ws_cond data olen ch body cf) as [cf1|kk cf1|e|p].
      - exact I.
      - destruct kk as [|st'|]; cbn [Goal_] in A.
        + exact A.
        + destruct A as [calls' [name' [body' [f' [c' [Ec [E' [C' R']]]]]]]]. eapply IH; eassumption.
        + destruct A as [calls' [name' [body' [f' [c' [Ec [E' [C' R']]]]]]]]. eapply IH; eassumption.
      - exact I.
      - exact I.
    Qed.
  End Body.

  (* one invocation of s.step between two steps *)
  Theorem orun_step_fine P fuel ch cf :
    (ch = 0%N -> data_size data <= c_cur cf) ->
    SInv cf -> estack_ok P cf ->
    (exists last, run_q (floor P cf) (open0 cf) (c_finds cf) = Some (last, Op (c_step cf)) /\ Ag (c_step cf) <= c_cur cf - last) ->
    fineO P (run_step prog nl_cond ws_cond data olen fuel (c_step cf) ch cf).
  Proof.
    intros H0 [I1 I2] HE [last [Q A]].
    assert (C : forallb (oholds T U Op Ag) (ocollect_state prog U T Op Ag (c_step cf)) = true).
    { pose proof (OK (c_step cf)) as C. unfold ochk_state in C.
      destruct (T (c_step cf)) as [|x xs] eqn:ET; [|exact C].
      exfalso. destruct (c_sstack cf); discriminate I1. }
    unfold ocollect_state in C.
    destruct (nth_error prog (N.to_nat (c_step cf))) as [[name body]|] eqn:E.
    - eapply (omodeB P ch cf H0 fuel (c_step cf) cf _ 300%nat 7%nat name body); [exact E|exact C|].
      unfold R, oknown. cbn [o_step o_known o_below o_open o_age o_eq o_ne o_moved app]. repeat split; try assumption; try discriminate; try (intros b []).
      + exists (c_sstack cf). split; [reflexivity|exact I1].
      + exists last. split; assumption.
    - destruct fuel; cbn [Scanner.run_step]; [exact I|]. unfold body_of. rewrite E. exact I.
  Qed.
End Sound.

(* ------------------------------------------------------------------------------------ *)
Section Lift.
  Variable prog : list (string * stmt).
  Variable nl_cond ws_cond : cond.
  Variable data : bytes.
  Variable olen : okind -> Z -> olen_res.
  Variable T U : state -> list elem.
  Variable Op : state -> bool.
  Variable Ag : state -> Z.
  Hypothesis OK : forall st, ochk_state prog T U Op Ag st = true.

  Notation OInv := (OInv data T U Op Ag).
  Notation next_loop := (next_loop prog nl_cond ws_cond data olen).
  Notation next := (next prog nl_cond ws_cond data olen).

  (* a delivered lexeme lies after everything delivered before, and the rest stays ordered *)
  Definition fineL (P : Z) (r : res (option lexeme * conf)) : Prop :=
    match r with
    | ROk (Some l, cf') => P < lb l /\ lb l - 1 <= le l /\ OInv (le l) cf'
    | ROk (None, cf') => OInv P cf'
    | _ => True
    end.

  Lemma oinv_same P cf cf' :
    c_step cf' = c_step cf -> c_sstack cf' = c_sstack cf -> c_cur cf' = c_cur cf ->
    c_estack cf' = c_estack cf -> c_finds cf' = c_finds cf -> OInv P cf -> OInv P cf'.
  Proof.
    intros A B C D E. unfold OrderSafe.OInv, estack_ok, floor, open0, ScanTerm.Inv. rewrite A, B, C, D, E. auto.
  Qed.

  Lemma process_event_order P cf ev fs : OInv P cf -> c_finds cf = ev :: fs ->
    fineL P (process_event (set_finds cf fs) ev).
  Proof.
    intros [HE [last [open [Q D]]]] EF. rewrite EF in Q. destruct ev as [t pos]. cbn [run_q] in Q.
    unfold process_event. cbn [c_estack set_finds c_cur].
    unfold estack_ok in HE. unfold floor, open0 in Q.
    destruct (LexemeEvents.ev_IsBeginning t).
    { destruct (c_estack cf) as [|[bt bp] es] eqn:ES; cbn [negb andb] in Q; [|discriminate].
      destruct (P <? pos) eqn:L; [|discriminate]. apply Z.ltb_lt in L.
      cbn [fineL]. split; [unfold estack_ok; cbn [c_estack set_estack set_finds]; try rewrite ES; exact L|].
      exists last, open. unfold floor, open0. cbn [c_estack set_estack set_finds c_finds c_step c_cur]. try rewrite ES.
      split; [exact Q|exact D]. }
    destruct (LexemeEvents.ev_IsEnding t).
    { destruct (c_estack cf) as [|[bt bp] es] eqn:ES; cbn [andb] in Q; [discriminate|].
      destruct es as [|x es']; [|contradiction].
      destruct (bp - 1 <=? pos) eqn:L; [|discriminate]. apply Z.leb_le in L.
      destruct (pair_ok bt t); [|exact I]. destruct (LexemeEvents.ev_ToLexemeType t) as [k|]; [|exact I].
      cbn [fineL lb le]. split; [exact HE|split; [exact L|]].
      split; [unfold estack_ok; cbn [c_estack set_estack set_finds]; exact I|].
      exists last, open. unfold floor, open0. cbn [c_estack set_estack set_finds c_finds c_step c_cur c_sstack].
      split; [exact Q|exact D]. }
    destruct (LexemeEvents.ev_IsSingle t); [|discriminate].
    destruct (c_estack cf) as [|[bt bp] es] eqn:ES; cbn [negb andb] in Q; [|discriminate].
    destruct (P <? pos) eqn:L; [|discriminate]. apply Z.ltb_lt in L.
    destruct (LexemeEvents.ev_ToLexemeType t) as [k|]; [|exact I].
    cbn [fineL lb le]. split; [exact L|split; [lia|]].
    split; [unfold estack_ok; cbn [c_estack set_finds]; try rewrite ES; exact I|].
    exists last, open. unfold floor, open0. cbn [c_estack set_finds c_finds c_step c_cur c_sstack]. try rewrite ES.
    split; [exact Q|exact D].
  Qed.

  Lemma note_lexeme_oinv P cf l : OInv P cf -> OInv P (note_lexeme cf l).
  Proof. intros H. unfold note_lexeme. destruct (lk l); try exact H; (eapply oinv_same; [| | | | |exact H]; reflexivity). Qed.

  Lemma drain_order k : forall P cf, OInv P cf -> fineL P (drain k cf).
  Proof.
    induction k as [|k IH]; intros P cf H; cbn [drain]; [exact H|].
    destruct (c_finds cf) as [|ev fs] eqn:EF; [exact I|].
    pose proof (process_event_order P cf ev fs H EF) as PE.
    destruct (process_event (set_finds cf fs) ev) as [[[l|] cf']| |p|]; cbn [fineL] in *; try exact I.
    - destruct PE as [A [B C]]. split; [exact A|split; [exact B|]]. apply note_lexeme_oinv. exact C.
    - apply IH. exact PE.
  Qed.

  Lemma next_loop_order fuel : forall P cf, OInv P cf -> fineL P (next_loop fuel cf).
  Proof.
    induction fuel as [|fuel IH]; intros P cf H; cbn [Scanner.next_loop]; [exact I|].
    destruct (data_size data <? c_cur cf) eqn:E1; [exact H|].
    destruct (c_cur cf <? 0); [exact I|].
    apply Z.ltb_ge in E1.
    match goal with |- fineL _ (if ?b then _ else _) => destruct b eqn:EZ end; [exact I|].
    destruct H as [HE [last [open [Q D]]]]. destruct D as [[SI [EO EA]]|D]; [|lia].
    match goal with |- context [Scanner.run_step ?p ?a ?b ?d ?o ?f ?st ?c ?cf0] =>
      assert (H0 : c = 0%N -> data_size data <= c_cur cf) end.
    { intros Z0. destruct (c_cur cf =? data_size data) eqn:AE; [apply Z.eqb_eq in AE; lia|].
      cbn [negb andb] in EZ. rewrite Z0 in EZ. discriminate EZ. }
    match goal with |- context [Scanner.run_step ?p ?a ?b ?d ?o ?f ?st ?c ?cf0] =>
      pose proof (orun_step_fine p a b d o T U Op Ag OK P f c cf0 H0 SI HE) as R0;
      destruct (Scanner.run_step p a b d o f st c cf0) as [cf1| |p0|] end; try exact I.
    assert (R1 : Post data T U Op Ag P cf1).
    { apply R0. exists last. split; [rewrite <- EO; exact Q|exact EA]. }
    clear R0. destruct R1 as [HE1 [last1 [open1 [Q1 D1]]]].
    set (cf2 := set_cur cf1 (c_cur cf1 + 1)).
    assert (I2 : OInv P cf2).
    { split; [exact HE1|]. exists last1, open1. split; [exact Q1|].
      destruct D1 as [[S1 [O1 A1]]|D1]; [left|right].
      - subst cf2. cbn [c_step c_cur set_cur]. split; [exact S1|split; [exact O1|lia]].
      - subst cf2. cbn [c_cur set_cur]. lia. }
    pose proof (drain_order (List.length (c_finds cf2)) P cf2 I2) as DR.
    destruct (drain (List.length (c_finds cf2)) cf2) as [[[l|] cf3]| |p0|]; cbn [fineL] in *; try exact I; try exact DR.
    apply IH. exact DR.
  Qed.

  Theorem next_order P cf : OInv P cf -> fineL P (next cf).
  Proof.
    intros H. unfold Scanner.next. destruct (c_finds cf) as [|ev fs] eqn:EF; [apply next_loop_order; exact H|].
    pose proof (process_event_order P cf ev fs H EF) as PE.
    destruct (process_event (set_finds cf fs) ev) as [[[l|] cf']| |p|]; cbn [fineL] in *; try exact I; try exact PE.
    apply next_loop_order. exact PE.
  Qed.
End Lift.

(* ------------------------------------------------------------------------------------ *)
Lemma len_OA : List.length (fst inferredTU) = List.length ScannerProg.prog_table.
Proof. vm_compute. reflexivity. Qed.

Lemma oinferred_ok : forall st, ochk_state ScannerProg.prog_table iT iU iOp iAg st = true.
Proof.
  intros st. destruct (Nat.ltb (N.to_nat st) (List.length ScannerProg.prog_table)) eqn:E.
  - apply Nat.ltb_lt in E. pose proof oall_ok_ok as A. unfold oall_ok in A. rewrite forallb_forall in A. apply A.
    unfold all_states. apply in_map_iff. exists (N.to_nat st). split; [apply N2Nat.id|apply in_seq; lia].
  - apply Nat.ltb_ge in E. unfold ochk_state, iT, look. rewrite nth_overflow; [reflexivity|rewrite len_OA; exact E].
Qed.

Lemma init_oinv data : OInv data iT iU iOp iAg (-1) (init_conf ScannerProg.initial_state).
Proof.
  split; [exact I|]. exists (-1), false. split; [reflexivity|]. left.
  split; [exact init_inv|]. split; vm_compute; [reflexivity|discriminate].
Qed.

(* C12: for EVERY input, every oracle table and any number of Next() calls, the lexemes the
   scanner delivers come in text order without overlap: each begins after the end of the one
   before it (the first at offset >= 0), and none ends more than one byte before it begins *)
Theorem lexemes_are_ordered data tbl : forall fuel P cf,
  OInv data iT iU iOp iAg P cf ->
  let '(ls, _, _) := lex_traj data tbl fuel cf in chain_ok P ls.
Proof.
  induction fuel as [|fuel IH]; intros P cf H; cbn [lex_traj]; [exact I|].
  unfold the_next.
  pose proof (next_order ScannerProg.prog_table ScannerProg.is_newline_cond ScannerProg.is_whitespace_cond data
                         (olen_of_table tbl) iT iU iOp iAg oinferred_ok P cf H) as N.
  destruct (next ScannerProg.prog_table ScannerProg.is_newline_cond ScannerProg.is_whitespace_cond data (olen_of_table tbl) cf)
    as [[[l|] cf']| |p|]; cbn [fineL] in N; try exact I.
  destruct N as [A [B C]]. specialize (IH (le l) cf' C).
  destruct (lex_traj data tbl fuel cf') as [[ls e] tr]. cbn [chain_ok]. auto.
Qed.

Theorem lexemes_of_a_file_are_ordered data tbl :
  let '(ls, _, _) := scan_case data tbl in chain_ok (-1) ls.
Proof. unfold scan_case. apply lexemes_are_ordered. apply init_oinv. Qed.

Print Assumptions lexemes_of_a_file_are_ordered.
