(* ScanPlaced.v — the forest the directive layer builds is nested as the context table
   prescribes, for every lexeme stream, every include graph and every file system: the forest
   changes only by attaching the finished current directive (a leaf) through the context
   resolution.  Consequence: MACRO directives occur only at the top level - no kind admits MACRO
   as a child - which is the premise of the expansion theorem (ExpandPlaced.v). *)
From JS Require Import Base Bytes Scanner Directive Core Expand Catalog ListAux C05Proofs CatalogTotal ExpandPlaced.
From JS Require DirectiveTables IncludeName.
From Coq Require Import Lia.
Open Scope Z_scope.

(* nesting follows the table (MACRO allowed where the table allows it: at the root) *)
Fixpoint placedS (parent : option N) (d : dir) : bool :=
  match d with
  | mkDir k _ _ _ _ _ _ _ _ cs =>
      (match parent with
       | None => is_allowed_for_root k
       | Some p => is_allowed_in p k
       end) &&
      (fix go (l : list dir) : bool := match l with [] => true | x :: r => placedS (Some k) x && go r end) cs
  end.

Lemma placedS_unfold parent d :
  placedS parent d =
  (match parent with None => is_allowed_for_root (d_kind d) | Some p => is_allowed_in p (d_kind d) end) &&
  forallb (placedS (Some (d_kind d))) (d_children d).
Proof. destruct d; reflexivity. Qed.

Definition FPs (par : option N) (f : list dir) : Prop := forallb (placedS par) f = true.

Lemma placedS_with_children par d cs :
  placedS par d = true -> forallb (placedS (Some (d_kind d))) cs = true -> placedS par (with_children d cs) = true.
Proof.
  rewrite !placedS_unfold. rewrite kind_with_children, children_with_children.
  intros H C. apply andb_prop in H as [H _]. rewrite H, C. reflexivity.
Qed.

Lemma FPs_nth par f i d : FPs par f -> nth_error f i = Some d -> placedS par d = true.
Proof. unfold FPs. intros H E. rewrite forallb_forall in H. apply H. eapply nth_error_In. exact E. Qed.

Lemma FPs_update par f : forall i d', FPs par f -> placedS par d' = true -> FPs par (update_nth f i (fun _ => d')).
Proof.
  unfold FPs. induction f as [|x r IH]; intros i d' H P; [reflexivity|].
  cbn [forallb] in H. apply andb_prop in H as [H1 H2].
  destruct i; cbn [update_nth forallb]; [rewrite P, H2; reflexivity|rewrite H1; cbn [andb]; apply IH; assumption].
Qed.

Lemma FPs_app par f d : FPs par f -> placedS par d = true -> FPs par (f ++ [d]).
Proof. unfold FPs. intros H P. rewrite forallb_app. cbn [forallb]. rewrite H, P. reflexivity. Qed.

Lemma append_child_placedS p : forall f par c cur,
  FPs par f -> node_at f p = Some cur -> placedS (Some (d_kind cur)) c = true ->
  FPs par (fst (append_child f p c)).
Proof.
  induction p as [|i rest IH]; intros f par c cur HF HN HC; [discriminate|].
  cbn [node_at] in HN. cbn [append_child].
  destruct (nth_error f i) as [d0|] eqn:E; [|discriminate].
  pose proof (FPs_nth _ _ _ _ HF E) as P0.
  destruct rest as [|j rest'].
  - injection HN as ->. cbn [append_child]. cbn [fst].
    apply FPs_update; [exact HF|]. apply placedS_with_children; [exact P0|].
    rewrite placedS_unfold in P0. apply andb_prop in P0 as [_ PC]. rewrite forallb_app. cbn [forallb]. rewrite PC, HC. reflexivity.
  - assert (PC : FPs (Some (d_kind d0)) (d_children d0)).
    { rewrite placedS_unfold in P0. apply andb_prop in P0 as [_ PC]. exact PC. }
    specialize (IH (d_children d0) (Some (d_kind d0)) c cur PC HN HC).
    destruct (append_child (d_children d0) (j :: rest') c) as [cs idx] eqn:A. cbn [fst] in *.
    apply FPs_update; [exact HF|]. apply placedS_with_children; [exact P0|exact IH].
Qed.

Lemma leaf_placedS par d :
  d_children d = [] ->
  (match par with None => is_allowed_for_root (d_kind d) | Some p => is_allowed_in p (d_kind d) end) = true ->
  placedS par d = true.
Proof. intros C A. rewrite placedS_unfold, C, A. reflexivity. Qed.

Lemma attach_placedS fuel : forall f ctx d f' ctx',
  attach fuel f ctx d = COk (f', ctx') -> FPs None f -> d_children d = [] -> FPs None f'.
Proof.
  induction fuel as [|fuel IH]; intros f ctx d f' ctx' A HF C; cbn [attach] in A; [discriminate|].
  destruct ctx as [p|].
  - destruct (node_at f p) as [cur|] eqn:N; [|discriminate].
    destruct (is_allowed_in (d_kind cur) (d_kind d)) eqn:AL.
    + match type of A with (if ?b then _ else _) = _ => destruct b eqn:B end.
      * destruct (d_explicit cur); [discriminate|]. injection A as <- _.
        apply FPs_app; [exact HF|]. apply leaf_placedS; [exact C|].
        apply andb_prop in B as [B _]. apply andb_prop in B as [B _]. apply method_allowed_at_root. exact B.
      * destruct (append_child f p d) as [f2 idx] eqn:AC. injection A as <- _.
        pose proof (append_child_placedS p f None d cur HF N) as G. rewrite AC in G. cbn [fst] in G.
        apply G. apply leaf_placedS; [exact C|exact AL].
    + destruct (d_explicit cur); [discriminate|]. eapply IH; eassumption.
  - destruct (is_allowed_for_root (d_kind d)) eqn:AR; [|discriminate]. injection A as <- _.
    apply FPs_app; [exact HF|]. apply leaf_placedS; assumption.
Qed.

(* no kind admits MACRO as a child (regenerated table) *)
Lemma macro_is_no_child : forallb (fun p => negb (is_allowed_in (fst p) DirectiveTables.dir_Macro)) DirectiveTables.dir_context_table = true.
Proof. vm_compute. reflexivity. Qed.

Lemma macro_not_allowed_in p : is_allowed_in p DirectiveTables.dir_Macro = false.
Proof.
  destruct (is_allowed_in p DirectiveTables.dir_Macro) eqn:A; [|reflexivity]. exfalso.
  pose proof (allowed_in_key _ _ A) as K. unfold keys in K. apply in_map_iff in K as [[p' cs] [E Hin]]. cbn [fst] in E. subst p'.
  pose proof macro_is_no_child as M. rewrite forallb_forall in M. specialize (M _ Hin). cbn [fst] in M. rewrite A in M. discriminate.
Qed.

(* a tree placed under some parent contains no MACRO *)
Lemma placedS_nmtree : forall d p, placedS (Some p) d = true -> nmtree d = true.
Proof.
  fix IH 1. intros d p H. destruct d as [k kw c nm un an bd ex tr cs].
  cbn [placedS] in H. apply andb_prop in H as [A C]. cbn [nmtree].
  assert (K : N.eqb k DirectiveTables.dir_Macro = false).
  { destruct (N.eqb k DirectiveTables.dir_Macro) eqn:E; [|reflexivity]. apply N.eqb_eq in E. subst k. rewrite macro_not_allowed_in in A. discriminate. }
  rewrite K. cbn [negb andb].
  induction cs as [|x r IHr]; [reflexivity|]. apply andb_prop in C as [C1 C2].
  rewrite (IH x k C1). cbn [andb]. apply IHr. exact C2.
Qed.

Lemma FPs_macros_on_top f : FPs None f -> macros_on_top f = true.
Proof.
  unfold FPs, macros_on_top. intros H. rewrite forallb_forall in *. intros r Hr. specialize (H r Hr).
  rewrite placedS_unfold in H. apply andb_prop in H as [_ C]. rewrite forallb_forall in *. intros x Hx.
  eapply placedS_nmtree. apply C. exact Hx.
Qed.

(* ------------------------------------------------------------------------------------ *)
(* the invariant of the scanning phase *)
Definition SI (st : cstate) : Prop :=
  FPs None (cs_forest st) /\ (forall d, cs_cur st = Some d -> d_children d = []).

Section Inv.
  Variable prog : list (string * stmt).
  Variable nl_cond ws_cond : cond.
  Variable fs : fsmap.
  Variable olen : bytes -> okind -> Z -> olen_res.
  Variable init_st : state.

  Ltac crush H :=
    repeat match type of H with
    | context [match ?x with _ => _ end] => let E := fresh "E" in destruct x eqn:E; try discriminate H
    | context [if ?x then _ else _] => let E := fresh "E" in destruct x eqn:E; try discriminate H
    end.

  Lemma process_current_SI st st1 : SI st -> process_current st = COk st1 -> SI st1 /\ cs_cur st1 = None.
  Proof.
    intros [F C] H. unfold process_current in H. destruct (cs_cur st) as [d|] eqn:E.
    - destruct (attach _ _ _ d) as [[f ctx]| | |] eqn:A; try discriminate. injection H as <-.
      cbn. split; [split|reflexivity]; [|discriminate]. eapply attach_placedS; [exact A|exact F|apply C; reflexivity].
    - injection H as <-. split; [split; [exact F|]|exact E]. rewrite E. discriminate.
  Qed.

  Lemma directive_tracer_keeps st t st2 : directive_tracer st = (t, st2) -> cs_forest st2 = cs_forest st /\ cs_cur st2 = cs_cur st.
  Proof.
    unfold directive_tracer. intros H. destruct (cs_stack st); [injection H as _ <-; auto|].
    destruct (find _ _) as [[? ?]|]; injection H as _ <-; auto.
  Qed.

  Lemma append_parameter_children d v d' : append_parameter d v = inl d' -> d_children d' = d_children d.
  Proof.
    unfold append_parameter. intros H. destruct (append_parameter_kind _ _); [destruct (has_named _ _); [discriminate|]| |discriminate];
    injection H as <-; reflexivity.
  Qed.

  Lemma core_next_SI st l st1 : SI st -> core_next st l = COk st1 -> SI st1.
  Proof.
    intros I H. unfold core_next in H. destruct (orphan_lexeme st l) as [r|] eqn:O.
    { unfold orphan_lexeme in O. subst r. crush O; injection O as O; discriminate O. }
    clear O. destruct I as [F C].
    destruct (lk l).
    all: try (progress unfold process_parameter in H; crush H; injection H as <-; split; cbn; [exact F|]; intros d' D; injection D as <-;
      match goal with E : append_parameter _ _ = inl _ |- _ => rewrite (append_parameter_children _ _ _ E) end; apply C; reflexivity).
    all: try (first [progress unfold process_annotation in H|progress unfold process_body in H|progress unfold process_context_begin in H];
      crush H; injection H as <-; split; cbn; [exact F|]; intros d' D; injection D as <-; cbn; apply C; reflexivity).
    - (* keyword *) unfold process_keyword in H. destruct (process_current st) as [st0| | |] eqn:PC; try discriminate.
      destruct (process_current_SI st st0 (conj F C) PC) as [[F0 _] _].
      crush H. injection H as <-.
      match goal with E : directive_tracer _ = _ |- _ => destruct (directive_tracer_keeps _ _ _ E) as [K1 _] end.
      split; cbn; [rewrite K1; exact F0|]. intros d D. injection D as <-. reflexivity.
    - unfold process_context_end in H. destruct (process_current st) as [st0| | |] eqn:PC; try discriminate.
      destruct (process_current_SI st st0 (conj F C) PC) as [[F0 _] N0].
      crush H. injection H as <-. split; cbn; [exact F0|]. rewrite N0. discriminate.
  Qed.

  Lemma process_eof_SI st st1 : SI st -> process_eof st = COk st1 -> SI st1.
  Proof.
    intros I H. unfold process_eof in H. destruct (process_current st) as [st0| | |] eqn:PC; try discriminate.
    destruct (process_current_SI st st0 I PC) as [I0 _]. crush H. injection H as <-. exact I0.
  Qed.

  Lemma set_conf_SI st cf : SI st -> SI (set_conf st cf).
  Proof. intros I. exact I. Qed.

  Lemma process_include_SI st kw st1 x :
    SI st -> process_include prog nl_cond ws_cond fs olen init_st st kw = (COk st1, x) -> SI st1.
  Proof.
    intros I H. unfold process_include in H.
    crush H; try (injection H as H _; discriminate H).
    injection H as <- _. exact I.
  Qed.

  Theorem scan_project_SI fuel : forall st st1,
    SI st -> scan_project prog nl_cond ws_cond fs olen init_st fuel st = SDone st1 -> SI st1.
  Proof.
    induction fuel as [|fuel IH]; intros st st1 I H; [discriminate|].
    cbn [scan_project] in H.
    destruct (scan_next prog nl_cond ws_cond olen st) as [[[l|] cf]| | |] eqn:SN; try discriminate.
    - destruct (is_include _ l).
      + destruct (process_include _ _ _ _ _ _ _ l) as [[s| | |] x] eqn:PI; try discriminate.
        eapply IH; [|exact H]. eapply process_include_SI; [|exact PI]. apply set_conf_SI. exact I.
      + unfold lift in H. destruct (core_next _ l) as [s| | |] eqn:CN; try discriminate.
        eapply IH; [|exact H]. eapply core_next_SI; [|exact CN]. apply set_conf_SI. exact I.
    - unfold lift in H. destruct (process_eof _) as [s| | |] eqn:PE; try discriminate.
      pose proof (process_eof_SI _ _ (set_conf_SI _ cf I) PE) as I1.
      destruct (cs_stack s) as [|it rest]; [injection H as <-; exact I1|].
      eapply IH; [|exact H]. exact I1.
  Qed.

  Lemma initial_SI rn rc : SI (initial_cstate init_st rn rc).
  Proof. split; [reflexivity|discriminate]. Qed.

  (* every forest the directive layer hands on is nested as the table prescribes, so MACRO
     occurs only at the top level *)
  Theorem scanned_forest_is_nested fuel rn rc st :
    scan_project prog nl_cond ws_cond fs olen init_st fuel (initial_cstate init_st rn rc) = SDone st ->
    forallb (placedS None) (cs_forest st) = true.
  Proof. intros H. exact (proj1 (scan_project_SI fuel _ _ (initial_SI rn rc) H)). Qed.

  Theorem scanned_forest_has_macros_only_on_top fuel rn rc st :
    scan_project prog nl_cond ws_cond fs olen init_st fuel (initial_cstate init_st rn rc) = SDone st ->
    macros_only_on_top (cs_forest st).
  Proof. intros H. apply macros_on_top_spec, FPs_macros_on_top. exact (scanned_forest_is_nested _ _ _ _ H). Qed.
End Inv.
