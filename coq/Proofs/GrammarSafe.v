(* GrammarSafe.v — the lexeme kinds of every scan follow the per-directive bracket grammar
   ( Keyword Parameter* Annotation? ContextOpen* Body? | ContextOpen | ContextClose )*
   for every input: the automaton of Spec/LexGrammar below never gets stuck on the sequence of
   lexemes the scanner delivers.  The automaton states possible after the last lexeme event are
   INFERRED per scanner state from the regenerated program, CHECKED by symbolic execution of every
   path (as in OrderSafe.v), and the checker is proved sound. *)
From JS Require Import Base Bytes Scanner ScanRun ScanTerm.
From JS Require ScannerProg LexemeEvents.
From Coq Require Import Lia.
Open Scope Z_scope.

(* the grammar as an automaton over lexeme kinds *)
Inductive dstate := DN      (* between directives: after a body, a ')' or a free-standing '(' *)
                  | DKP     (* after the keyword or a parameter *)
                  | DA      (* after the annotation *)
                  | DO.     (* after a '(' that follows the directive head *)
Definition dstate_eqb (a b : dstate) : bool :=
  match a, b with DN, DN | DKP, DKP | DA, DA | DO, DO => true | _, _ => false end.
Definition delta (d : dstate) (k : lexkind) : option dstate :=
  match k with
  | LKeyword => Some DKP
  | LParameter => match d with DKP => Some DKP | _ => None end
  | LAnnotation => match d with DKP => Some DA | _ => None end
  | LContextOpen => match d with DN => Some DN | _ => Some DO end
  | LContextClose => Some DN
  | LSchema | LJson | LText | LEnum => match d with DN => None | _ => Some DN end
  end.
Fixpoint dfa_run (d : dstate) (ks : list lexkind) : option dstate :=
  match ks with [] => Some d | k :: r => match delta d k with Some d' => dfa_run d' r | None => None end end.

Record octx := mkO { o_step : state; o_known : list state; o_below : list elem; o_d : dstate;
                      o_eq : option N; o_ne : list N; o_moved : bool }.
(* o_eq / o_ne: what is known about the byte under the cursor on this path *)
Definition o_eof (c : octx) : bool := match o_eq c with Some 0%N => true | _ => false end.

(* the condition is certainly not true on this path *)
Fixpoint ocond_false (c : octx) (k : cond) : bool :=
  match k with
  | CByte b => existsb (N.eqb b) (o_ne c) || match o_eq c with Some x => negb (N.eqb x b) | None => false end
  | CAnd a b => ocond_false c a || ocond_false c b
  | COr a b => ocond_false c a && ocond_false c b
  | _ => false
  end.

Definition with_step (c : octx) (st : state) := mkO st (o_known c) (o_below c) (o_d c) (o_eq c) (o_ne c) (o_moved c).
Definition with_stack (c : octx) (st : state) (kn : list state) (bl : list elem) := mkO st kn bl (o_d c) (o_eq c) (o_ne c) (o_moved c).
Definition with_ev (c : octx) (d : dstate) := mkO (o_step c) (o_known c) (o_below c) d (o_eq c) (o_ne c) (o_moved c).
Definition with_moved (c : octx) := mkO (o_step c) (o_known c) (o_below c) (o_d c) (o_eq c) (o_ne c) true.
Definition with_eq (c : octx) (b : N) := mkO (o_step c) (o_known c) (o_below c) (o_d c) (Some b) (o_ne c) (o_moved c).
Definition with_ne (c : octx) (b : N) := mkO (o_step c) (o_known c) (o_below c) (o_d c) (o_eq c) (b :: o_ne c) (o_moved c).

Inductive oobl :=
| QIn (t : tblid) (st : state) (e : elem)
| QSt (new : state) (top : elem) (d : dstate)
| QFalse.

Section Collect.
  Variable prog : list (string * stmt).
  Variable U : state -> list elem.

  Definition obeneath (c : octx) : list elem :=
    match o_known c with k :: _ => [Some k] | [] => o_below c end.

  (* one lexeme event: End and Single events deliver a lexeme of their kind *)
  Definition found (c : octx) (ev : event) : option octx :=
    if LexemeEvents.ev_IsBeginning ev then Some c
    else match LexemeEvents.ev_ToLexemeType ev with
         | Some k => match delta (o_d c) k with Some d' => Some (with_ev c d') | None => None end
         | None => None
         end.

  Fixpoint ocollect (fuel calls : nat) (s : stmt) (c : octx) (k : octx -> list oobl) {struct fuel} : list oobl :=
    match fuel with
    | O => [QFalse]
    | S fuel' =>
        match s with
        | SSkip => k c
        | SSeq a b => ocollect fuel' calls a c (fun c' => ocollect fuel' calls b c' k)
        | SIf cnd t e =>
            if ocond_false c cnd then ocollect fuel' calls e c k
            else match cnd with
                 | CByte b => ocollect fuel' calls t (with_eq c b) k ++ ocollect fuel' calls e (with_ne c b) k
                 | _ => ocollect fuel' calls t c k ++ ocollect fuel' calls e c k
                 end
        | SSetStep st => k (with_step c st)
        | SPush st => List.map (QIn TU st) (obeneath c) ++ k (with_stack c (o_step c) (st :: o_known c) (o_below c))
        | SPushCur => List.map (QIn TU (o_step c)) (obeneath c) ++ k (with_stack c (o_step c) (o_step c :: o_known c) (o_below c))
        | SPop =>
            match o_known c with
            | t :: ks => k (with_stack c t ks (o_below c))
            | [] => flat_map (fun o => match o with
                                       | None => []
                                       | Some t => k (with_stack c t [] (U t))
                                       end) (o_below c)
            end
        | SOracle _ => k (with_moved c)
        | SFound ev _ => match found c ev with Some c' => k c' | None => [QFalse] end
        | SAddCur _ => k (with_moved c)
        | SRetNil => (if o_eof c && negb (o_moved c) then [] else List.map (fun top => QSt (o_step c) top (o_d c)) (obeneath c)) ++ List.map (QIn TT (o_step c)) (obeneath c)
        | SRetErr _ _ | SRetErrBasic _ => []
        | SRetCall st =>
            match calls, nth_error prog (N.to_nat st) with
            | S calls', Some (_, body) => ocollect fuel' calls' body c (fun _ => [QFalse])
            | _, _ => [QFalse]
            end
        | SRetRedispatch =>
            match calls, nth_error prog (N.to_nat (o_step c)) with
            | S calls', Some (_, body) => ocollect fuel' calls' body c (fun _ => [QFalse])
            | _, _ => [QFalse]
            end
        end
    end.

  Definition ocollect_state (D : state -> list (elem * list dstate)) (st : state) : list oobl :=
    flat_map (fun p =>
      flat_map (fun d =>
        match nth_error prog (N.to_nat st) with
        | Some (_, body) => ocollect 300 7 body (mkO st [] [fst p] d None [] false) (fun _ => [QFalse])
        | None => [QFalse]
        end) (snd p)) (D st).
End Collect.

(* inference of D: the automaton states possible after the last lexeme event, per scanner state
   and top of the return-state stack *)
Definition dmem (d : dstate) (l : list dstate) : bool := existsb (dstate_eqb d) l.
Fixpoint add_assoc (l : list (elem * list dstate)) (top : elem) (d : dstate) : list (elem * list dstate) :=
  match l with
  | [] => [(top, [d])]
  | (t, ds) :: r => if elem_eqb t top then (t, if dmem d ds then ds else ds ++ [d]) :: r else (t, ds) :: add_assoc r top d
  end.
Fixpoint add_d (l : list (list (elem * list dstate))) (i : nat) (top : elem) (d : dstate) :=
  match l, i with
  | [], _ => []
  | x :: r, O => add_assoc x top d :: r
  | x :: r, S j => x :: add_d r j top d
  end.
Definition lookD (D : state -> list (elem * list dstate)) (st : state) (top : elem) : list dstate :=
  match List.find (fun p => elem_eqb (fst p) top) (D st) with Some (_, ds) => ds | None => [] end.

Definition oinfer_round (prog : list (string * stmt)) (D : list (list (elem * list dstate))) :=
  fold_left (fun acc st =>
      fold_left (fun a o =>
        match o with
        | QSt new top d => add_d a (N.to_nat new) top d
        | _ => a
        end) (ocollect_state prog iU (look acc) st) acc) (all_states prog) D.

Definition D0 (prog : list (string * stmt)) (init : state) := add_d (List.map (fun _ => []) prog) (N.to_nat init) None DN.

Definition inferredD := Eval vm_compute in iterate 30 (oinfer_round ScannerProg.prog_table) (D0 ScannerProg.prog_table ScannerProg.initial_state).
Definition iD := look inferredD.

Definition oholds (T U : state -> list elem) (D : state -> list (elem * list dstate)) (o : oobl) : bool :=
  match o with
  | QIn TT st e => mem e (T st)
  | QIn TU st e => mem e (U st)
  | QSt new top d => dmem d (lookD D new top)
  | QFalse => false
  end.

Definition ochk_state (prog : list (string * stmt)) (T U : state -> list elem) (D : state -> list (elem * list dstate)) (st : state) : bool :=
  forallb (oholds T U D) (ocollect_state prog U D st).

Definition oall_ok : bool := forallb (ochk_state ScannerProg.prog_table iT iU iD) (all_states ScannerProg.prog_table).

Lemma oall_ok_ok : oall_ok = true.
Proof. vm_compute. reflexivity. Qed.

(* the event queue as lexeme kinds fed to the automaton *)
Fixpoint run_g (d : dstate) (q : list (event * Z)) : option dstate :=
  match q with
  | [] => Some d
  | (ev, _) :: r =>
      if LexemeEvents.ev_IsBeginning ev then run_g d r
      else match LexemeEvents.ev_ToLexemeType ev with
           | Some k => match delta d k with Some d' => run_g d' r | None => None end
           | None => None
           end
  end.

Lemma run_g_app q : forall d x, run_g d (q ++ [x]) = match run_g d q with Some d' => run_g d' [x] | None => None end.
Proof.
  induction q as [|[ev pos] r IH]; intros d x; [cbn [app run_g]; destruct x as [e p]; reflexivity|].
  cbn [app]. cbn [run_g].
  destruct (LexemeEvents.ev_IsBeginning ev); [apply IH|].
  destruct (LexemeEvents.ev_ToLexemeType ev) as [k|]; [|reflexivity].
  destruct (delta d k); [apply IH|reflexivity].
Qed.

Definition topof (stk : list state) : elem := match stk with [] => None | t :: _ => Some t end.

Lemma dstate_eqb_eq a b : dstate_eqb a b = true -> a = b.
Proof. destruct a, b; cbn; congruence. Qed.

Lemma nextok_topof S stk : nextok S stk -> mem (topof stk) S = true.
Proof. destruct stk; exact (fun H => H). Qed.

(* ------------------------------------------------------------------------------------ *)
Section Sound.
  Variable prog : list (string * stmt).
  Variable nl_cond ws_cond : cond.
  Variable data : bytes.
  Variable olen : okind -> Z -> olen_res.
  Variable T U : state -> list elem.
  Variable D : state -> list (elem * list dstate).
  Hypothesis OK : forall st, ochk_state prog T U D st = true.

  Notation SInv := (ScanTerm.Inv T U).
  Notation Chain := (ScanTerm.Chain U).

  Definition fits (d : dstate) (cf : conf) : Prop := dmem d (lookD D (c_step cf) (topof (c_sstack cf))) = true.

  Definition GInv (d : dstate) (cf : conf) : Prop :=
    exists d', run_g d (c_finds cf) = Some d' /\ ((SInv cf /\ fits d' cf) \/ data_size data < c_cur cf).

  Section Body.
    Variable d0 : dstate.
    Variable ch : byte.
    Variable cf0 : conf.
    Hypothesis H0 : ch = 0%N -> data_size data <= c_cur cf0.

    Definition qallh (l : list oobl) : Prop := forallb (oholds T U D) l = true.

    Definition oknown (c : octx) : Prop :=
      (forall x, o_eq c = Some x -> ch = x) /\ (forall b, In b (o_ne c) -> ch <> b).

    Definition R (cf : conf) (c : octx) : Prop :=
      c_step cf = o_step c /\ Chain (c_sstack cf) /\
      (exists rest, c_sstack cf = o_known c ++ rest /\ nextok (o_below c) rest) /\
      run_g d0 (c_finds cf) = Some (o_d c) /\
      oknown c /\ (o_moved c = false -> c_cur cf = c_cur cf0).

    Definition Post (cf : conf) : Prop :=
      exists d', run_g d0 (c_finds cf) = Some d' /\ ((SInv cf /\ fits d' cf) \/ data_size data <= c_cur cf).

    Lemma qallh_app a b : qallh (a ++ b) -> qallh a /\ qallh b.
    Proof. unfold qallh. rewrite forallb_app. intros H. apply andb_prop in H. exact H. Qed.
    Lemma qallh_map_TT st l : qallh (List.map (QIn TT st) l) -> forallb (fun o => mem o (T st)) l = true.
    Proof. unfold qallh. induction l as [|x r IH]; [reflexivity|]. cbn [List.map forallb oholds]. intros H. apply andb_prop in H as [H1 H2]. rewrite H1, (IH H2). reflexivity. Qed.
    Lemma qallh_map_TU st l : qallh (List.map (QIn TU st) l) -> forallb (fun o => mem o (U st)) l = true.
    Proof. unfold qallh. induction l as [|x r IH]; [reflexivity|]. cbn [List.map forallb oholds]. intros H. apply andb_prop in H as [H1 H2]. rewrite H1, (IH H2). reflexivity. Qed.
    Lemma qallh_map_St st d l : qallh (List.map (fun top => QSt st top d) l) -> forall top, In top l -> dmem d (lookD D st top) = true.
    Proof.
      unfold qallh. induction l as [|x r IH]; intros H top I; [destruct I|]. cbn [List.map forallb oholds] in H.
      apply andb_prop in H as [H1 H2]. destruct I as [<-|I]; [exact H1|apply IH; assumption].
    Qed.
    Lemma qallh_flat_map {A} (f : A -> list oobl) l x : qallh (flat_map f l) -> In x l -> qallh (f x).
    Proof.
      unfold qallh. induction l as [|y r IH]; intros H I; [destruct I|]. cbn [flat_map] in H.
      rewrite forallb_app in H. apply andb_prop in H as [H1 H2]. destruct I as [->|I]; [exact H1|apply IH; assumption].
    Qed.

    Lemma obeneath_spec cf c S : R cf c -> forallb (fun o => mem o S) (obeneath c) = true -> nextok S (c_sstack cf).
    Proof.
      intros [_ [_ [[rest [E N]] _]]] F. unfold obeneath in F. rewrite E.
      destruct (o_known c) as [|k ks]; cbn [app].
      - destruct rest as [|t r]; cbn [nextok] in *; eapply mem_sub; eassumption.
      - cbn [forallb] in F. apply andb_prop in F as [F _]. exact F.
    Qed.

    Lemma topof_in_beneath cf c : R cf c -> In (topof (c_sstack cf)) (obeneath c).
    Proof.
      intros [_ [_ [[rest [E N]] _]]]. unfold obeneath. rewrite E.
      destruct (o_known c) as [|k ks]; cbn [app topof]; [|left; reflexivity].
      apply mem_In. apply nextok_topof. exact N.
    Qed.

    Lemma ocond_false_sound cf c k : oknown c -> ocond_false c k = true ->
      eval_cond nl_cond ws_cond data cf ch k <> Some true.
    Proof.
      intros [K1 K2]. induction k; cbn [ocond_false eval_cond]; intros F; try discriminate.
      - apply orb_prop in F as [F|F].
        + apply existsb_exists in F as [x [Hin E]]. apply N.eqb_eq in E. subst x.
          intros X. injection X as X. apply N.eqb_eq in X. exact (K2 _ Hin X).
        + destruct (o_eq c) as [x|] eqn:E; [|discriminate]. pose proof (K1 _ eq_refl) as ->.
          intros X. injection X as X. rewrite X in F. discriminate.
      - apply orb_prop in F as [F|F].
        + specialize (IHk1 F). destruct (eval_cond nl_cond ws_cond data cf ch k1) as [[|]|]; try discriminate. contradiction.
        + destruct (eval_cond nl_cond ws_cond data cf ch k1) as [[|]|]; try discriminate. apply IHk2. exact F.
      - apply andb_prop in F as [F1 F2]. specialize (IHk1 F1). specialize (IHk2 F2).
        destruct (eval_cond nl_cond ws_cond data cf ch k1) as [[|]|]; try discriminate; [contradiction|exact IHk2].
    Qed.

    Lemma R_step cf c st : R cf c -> R (set_step cf st) (with_step c st).
    Proof. intros [H1 H2]. split; [reflexivity|exact H2]. Qed.

    Notation exec := (exec nl_cond ws_cond data olen).

    Definition Goal_ (calls : nat) (k : octx -> list oobl) (r : flow) : Prop :=
      match r with
      | FFall cf' => exists c', R cf' c' /\ qallh (k c')
      | FRet KNil cf' => Post cf'
      | FRet (KCall st) cf' =>
          exists calls' name body f c', calls = S calls' /\ nth_error prog (N.to_nat st) = Some (name, body) /\
             qallh (ocollect prog U f calls' body c' (fun _ => [QFalse])) /\ R cf' c'
      | FRet KRedispatch cf' =>
          exists calls' name body f c', calls = S calls' /\ nth_error prog (N.to_nat (c_step cf')) = Some (name, body) /\
             qallh (ocollect prog U f calls' body c' (fun _ => [QFalse])) /\ R cf' c'
      | _ => True
      end.

    Lemma found_sound cf c ev pos c' : found c ev = Some c' -> R cf c ->
      R (set_finds cf (c_finds cf ++ [(ev, pos)])) c'.
    Proof.
      intros F [H1 [H2 [H3 [Q [H6 H7]]]]].
      assert (G : forall d, run_g (o_d c) [(ev, pos)] = Some d ->
                  R (set_finds cf (c_finds cf ++ [(ev, pos)])) (with_ev c d)).
      { intros d E. unfold R. cbn [c_step c_sstack c_cur c_finds set_finds with_ev o_step o_known o_below o_d o_eq o_ne o_moved].
        repeat split; try assumption; try apply H6. rewrite run_g_app, Q. exact E. }
      unfold found in F. cbn [run_g] in G.
      destruct (LexemeEvents.ev_IsBeginning ev).
      { injection F as <-. specialize (G (o_d c) eq_refl). destruct c; exact G. }
      destruct (LexemeEvents.ev_ToLexemeType ev) as [k|]; [|discriminate].
      destruct (delta (o_d c) k) as [d'|]; [|discriminate]. injection F as <-. apply G. reflexivity.
    Qed.

    Lemma ocollect_sound fuel : forall calls s c k cf, qallh (ocollect prog U fuel calls s c k) -> R cf c ->
      Goal_ calls k (exec ch s cf).
    Proof.
      induction fuel as [|fuel IH]; intros calls s c k cf C HR; [discriminate|].
      destruct s; cbn [ocollect] in C; cbn [Scanner.exec Goal_].
      - (* SSetStep *) eexists. split; [|exact C]. apply R_step. exact HR.
      - (* SPush *) apply qallh_app in C as [C1 C2]. apply qallh_map_TU in C1.
        pose proof (obeneath_spec cf c _ HR C1) as B.
        eexists. split; [|exact C2]. destruct HR as [H1 [H2 [[rest [E N]] H4]]].
        unfold R. cbn [c_step c_sstack set_sstack with_stack o_step o_known o_below o_d o_eq o_ne o_moved c_cur c_finds ScanTerm.Chain].
        repeat split; try assumption; try apply H4. exists rest. split; [rewrite E; reflexivity|exact N].
      - (* SPushCur *) apply qallh_app in C as [C1 C2]. apply qallh_map_TU in C1.
        pose proof (obeneath_spec cf c _ HR C1) as B.
        eexists. split; [|exact C2]. destruct HR as [H1 [H2 [[rest [E N]] H4]]].
        unfold R. cbn [c_step c_sstack set_sstack with_stack o_step o_known o_below o_d o_eq o_ne o_moved c_cur c_finds ScanTerm.Chain].
        rewrite H1. repeat split; try assumption; try apply H4. exists rest. split; [rewrite E; reflexivity|exact N].
      - (* SPop *) destruct HR as [H1 [H2 [[rest [E N]] H4]]].
        destruct (o_known c) as [|t ks] eqn:EK.
        + cbn [app] in E. rewrite E. destruct rest as [|t r]; [exact I|].
          cbn [nextok] in N. apply mem_In in N.
          pose proof (qallh_flat_map _ _ _ C N) as C'. cbn beta iota in C'.
          eexists. split; [|exact C']. rewrite E in H2. cbn [ScanTerm.Chain] in H2. destruct H2 as [N2 H2].
          unfold R. cbn [c_step c_sstack set_sstack set_step with_stack o_step o_known o_below o_d o_eq o_ne o_moved c_cur c_finds].
          repeat split; try assumption; try apply H4. exists r. split; [reflexivity|exact N2].
        + rewrite E. cbn [app]. eexists. split; [|exact C]. rewrite E in H2. cbn [app ScanTerm.Chain] in H2. destruct H2 as [_ H2].
          unfold R. cbn [c_step c_sstack set_sstack set_step with_stack o_step o_known o_below o_d o_eq o_ne o_moved c_cur c_finds].
          repeat split; try assumption; try apply H4. exists rest. split; [reflexivity|exact N].
      - (* SFound *) destruct (found c ev) as [c'|] eqn:F; [|discriminate].
        exists c'. split; [|exact C]. eapply found_sound; eassumption.
      - (* SAddCur *) eexists. split; [|exact C]. destruct HR as [H1 [H2 [H3 [Q [H6 H7]]]]].
        unfold R. cbn [c_step c_sstack set_cur with_moved o_step o_known o_below o_d o_eq o_ne o_moved c_cur c_finds].
        repeat split; try assumption; try apply H6. discriminate.
      - (* SIf *)
        destruct (ocond_false c c0) eqn:CF.
        { pose proof (ocond_false_sound cf c c0 (proj1 (proj2 (proj2 (proj2 (proj2 HR))))) CF) as NT.
          destruct (eval_cond nl_cond ws_cond data cf ch c0) as [[|]|]; [contradiction|eapply (IH calls s2 c k cf C HR)|exact I]. }
        assert (Gen : forall c1 c2, qallh (ocollect prog U fuel calls s1 c1 k) -> qallh (ocollect prog U fuel calls s2 c2 k) ->
                  (eval_cond nl_cond ws_cond data cf ch c0 = Some true -> R cf c1) ->
                  (eval_cond nl_cond ws_cond data cf ch c0 = Some false -> R cf c2) ->
                  Goal_ calls k (match eval_cond nl_cond ws_cond data cf ch c0 with
                           | None => FPanic PIndexRange
                           | Some true => exec ch s1 cf
                           | Some false => exec ch s2 cf
                           end)).
        { intros c1 c2 C1 C2 R1 R2. destruct (eval_cond nl_cond ws_cond data cf ch c0) as [[|]|]; [|eapply IH; [exact C2|auto]|exact I].
          eapply IH; [exact C1|auto]. }
        destruct c0 as [b| | |kk bb|q|cc|ca cb|ca cb|]; try (apply qallh_app in C as [C1 C2]; apply (Gen c c C1 C2); intros; exact HR).
        apply qallh_app in C as [C1 C2]. apply (Gen _ _ C1 C2).
        + intros EV. cbn [eval_cond] in EV. injection EV as EV. apply N.eqb_eq in EV.
          destruct HR as [H1 [H2 [H3 [H5 [[K1 K2] H7]]]]]. unfold R, oknown. cbn [with_eq o_step o_known o_below o_d o_eq o_ne o_moved]. repeat split; try assumption.
          intros x X. injection X as <-. exact EV.
        + intros EV. cbn [eval_cond] in EV. injection EV as EV. apply N.eqb_neq in EV.
          destruct HR as [H1 [H2 [H3 [H5 [[K1 K2] H7]]]]]. unfold R, oknown. cbn [with_ne o_step o_known o_below o_d o_eq o_ne o_moved]. repeat split; try assumption.
          intros b0 [<-|Hin]; [exact EV|apply K2; exact Hin].
      - (* SSeq *) pose proof (IH calls s1 c _ cf C HR) as A.
        destruct (Scanner.exec nl_cond ws_cond data olen ch s1 cf) as [cf1|kk cf1|e|p] eqn:E1; try exact A.
        destruct A as [c1 [R1 K1]]. eapply IH; eassumption.
      - (* SSkip *) exists c. split; assumption.
      - (* SOracle *) destruct (olen k0 (c_cur cf)); [|exact I].
        eexists. split; [|exact C]. destruct HR as [H1 [H2 [H3 [Q [H6 H7]]]]].
        destruct (0 <? n); unfold R; cbn [c_step c_sstack set_cur with_moved o_step o_known o_below o_d o_eq o_ne o_moved c_cur c_finds];
          repeat split; try assumption; try apply H6; discriminate.
      - (* SRetNil *) apply qallh_app in C as [CS C].
        apply qallh_map_TT in C. pose proof (obeneath_spec cf c _ HR C) as B.
        pose proof (topof_in_beneath cf c HR) as TB.
        destruct HR as [H1 [H2 [H3 [Q [[K1 K2] H7]]]]].
        exists (o_d c). split; [exact Q|].
        destruct (o_eof c && negb (o_moved c)) eqn:EE.
        + right. apply andb_prop in EE as [Ee Em].
          assert (Z0 : ch = 0%N).
          { unfold o_eof in Ee. destruct (o_eq c) as [x|] eqn:E; [|discriminate]. destruct x; [|discriminate]. apply K1. reflexivity. }
          rewrite H7; [apply H0; exact Z0|]. destruct (o_moved c); [discriminate|reflexivity].
        + left. split; [split; [rewrite H1; exact B|exact H2]|].
          unfold fits. rewrite H1. eapply qallh_map_St; eassumption.
      - exact I.
      - exact I.
      - (* SRetCall *) destruct calls as [|calls']; [discriminate|].
        destruct (nth_error prog (N.to_nat st)) as [[name body]|] eqn:E; [|discriminate].
        exists calls', name, body, fuel, c. repeat split; try assumption; apply HR.
      - (* SRetRedispatch *) destruct calls as [|calls']; [discriminate|].
        pose proof HR as HR0. destruct HR as [H1 HR']. rewrite H1.
        destruct (nth_error prog (N.to_nat (o_step c))) as [[name body]|] eqn:E; [|discriminate].
        exists calls', name, body, fuel, c. repeat split; try assumption; try apply HR'.
    Qed.

    Notation run_step := (run_step prog nl_cond ws_cond data olen).

    Definition fineO (r : res conf) : Prop := match r with ROk cf' => Post cf' | _ => True end.

    Lemma omodeB fuel : forall st cf c f calls name body,
      nth_error prog (N.to_nat st) = Some (name, body) ->
      qallh (ocollect prog U f calls body c (fun _ => [QFalse])) -> R cf c ->
      fineO (run_step fuel st ch cf).
    Proof.
      induction fuel as [|fuel IH]; intros st cf c f calls name body E C HR; [exact I|].
      cbn [Scanner.run_step]. unfold body_of. rewrite E. cbn [option_map snd].
      pose proof (ocollect_sound f calls body c _ cf C HR) as A.
      destruct (Scanner.exec nl_cond ws_cond data olen ch body cf) as [cf1|kk cf1|e|p].
      - exact I.
      - destruct kk as [|st'|]; cbn [Goal_] in A.
        + exact A.
        + destruct A as [calls' [name' [body' [f' [c' [Ec [E' [C' R']]]]]]]]. eapply IH; eassumption.
        + destruct A as [calls' [name' [body' [f' [c' [Ec [E' [C' R']]]]]]]]. eapply IH; eassumption.
      - exact I.
      - exact I.
    Qed.
  End Body.

  Lemma lookD_in st top d : dmem d (lookD D st top) = true -> exists p, In p (D st) /\ fst p = top /\ In d (snd p).
  Proof.
    unfold lookD. destruct (find _ (D st)) as [[t ds]|] eqn:F; [|discriminate].
    intros M. apply find_some in F as [I E]. cbn [fst] in E. apply elem_eqb_eq in E.
    exists (t, ds). split; [exact I|split; [exact E|]].
    unfold dmem in M. apply existsb_exists in M as [x [Ix Ex]]. apply dstate_eqb_eq in Ex. subst x. exact Ix.
  Qed.

  Theorem orun_step_fine d0 fuel ch cf d' :
    (ch = 0%N -> data_size data <= c_cur cf) ->
    SInv cf -> run_g d0 (c_finds cf) = Some d' -> fits d' cf ->
    fineO d0 (run_step prog nl_cond ws_cond data olen fuel (c_step cf) ch cf).
  Proof.
    intros H0 [I1 I2] Q F.
    destruct (lookD_in _ _ _ F) as [[top ds] [Ip [Et Id]]]. cbn [fst snd] in *.
    pose proof (OK (c_step cf)) as C. unfold ochk_state, ocollect_state in C.
    pose proof (qallh_flat_map _ _ _ C Ip) as C1. cbn beta in C1.
    pose proof (qallh_flat_map _ _ _ C1 Id) as C2. cbn beta in C2. cbn [fst] in C2.
    destruct (nth_error prog (N.to_nat (c_step cf))) as [[name body]|] eqn:E.
    - eapply (omodeB d0 ch cf H0 fuel (c_step cf) cf _ 300%nat 7%nat name body); [exact E|exact C2|].
      unfold R, oknown. cbn [o_step o_known o_below o_d o_eq o_ne o_moved app]. repeat split; try assumption; try discriminate; try (intros b []).
      exists (c_sstack cf). split; [reflexivity|]. rewrite Et.
      destruct (c_sstack cf); cbn [topof nextok mem existsb elem_eqb]; [reflexivity|rewrite N.eqb_refl; reflexivity].
    - destruct fuel; cbn [Scanner.run_step]; [exact I|]. unfold body_of. rewrite E. exact I.
  Qed.
End Sound.

(* ------------------------------------------------------------------------------------ *)
Section Lift.
  Variable prog : list (string * stmt).
  Variable nl_cond ws_cond : cond.
  Variable data : bytes.
  Variable olen : okind -> Z -> olen_res.
  Variable T U : state -> list elem.
  Variable D : state -> list (elem * list dstate).
  Hypothesis OK : forall st, ochk_state prog T U D st = true.

  Notation GInv := (GInv data T U D).
  Notation next_loop := (next_loop prog nl_cond ws_cond data olen).
  Notation next := (next prog nl_cond ws_cond data olen).

  (* a delivered lexeme is one the automaton accepts, and the rest stays acceptable *)
  Definition fineL (d : dstate) (r : res (option lexeme * conf)) : Prop :=
    match r with
    | ROk (Some l, cf') => exists d1, delta d (lk l) = Some d1 /\ GInv d1 cf'
    | ROk (None, cf') => GInv d cf'
    | _ => True
    end.

  Lemma ginv_same d cf cf' :
    c_step cf' = c_step cf -> c_sstack cf' = c_sstack cf -> c_cur cf' = c_cur cf ->
    c_finds cf' = c_finds cf -> GInv d cf -> GInv d cf'.
  Proof. intros A B C E. unfold GrammarSafe.GInv, fits, ScanTerm.Inv. rewrite A, B, C, E. auto. Qed.

  Lemma process_event_grammar d cf ev fs : GInv d cf -> c_finds cf = ev :: fs ->
    fineL d (process_event (set_finds cf fs) ev).
  Proof.
    intros [d' [Q DD]] EF. rewrite EF in Q. destruct ev as [t pos]. cbn [run_g] in Q.
    unfold process_event. cbn [c_estack set_finds c_cur].
    destruct (LexemeEvents.ev_IsBeginning t).
    { cbn [fineL]. exists d'. split; [exact Q|exact DD]. }
    destruct (LexemeEvents.ev_ToLexemeType t) as [k|]; [|discriminate].
    destruct (delta d k) as [d1|] eqn:DL; [|discriminate].
    destruct (LexemeEvents.ev_IsEnding t).
    { destruct (c_estack cf) as [|[bt bp] es]; [exact I|]. destruct (pair_ok bt t); [|exact I].
      cbn [fineL lk]. exists d1. split; [exact DL|]. exists d'. split; [exact Q|exact DD]. }
    destruct (LexemeEvents.ev_IsSingle t); [|exact I].
    cbn [fineL lk]. exists d1. split; [exact DL|]. exists d'. split; [exact Q|exact DD].
  Qed.

  Lemma note_lexeme_ginv d cf l : GInv d cf -> GInv d (note_lexeme cf l).
  Proof. intros H. unfold note_lexeme. destruct (lk l); try exact H; (eapply ginv_same; [| | | |exact H]; reflexivity). Qed.

  Lemma drain_grammar k : forall d cf, GInv d cf -> fineL d (drain k cf).
  Proof.
    induction k as [|k IH]; intros d cf H; cbn [drain]; [exact H|].
    destruct (c_finds cf) as [|ev fs] eqn:EF; [exact I|].
    pose proof (process_event_grammar d cf ev fs H EF) as PE.
    destruct (process_event (set_finds cf fs) ev) as [[[l|] cf']| |p|]; cbn [fineL] in *; try exact I.
    - destruct PE as [d1 [A C]]. exists d1. split; [|apply note_lexeme_ginv; exact C].
      unfold note_lexeme. destruct (lk l); exact A.
    - apply IH. exact PE.
  Qed.

  Lemma next_loop_grammar fuel : forall d cf, GInv d cf -> fineL d (next_loop fuel cf).
  Proof.
    induction fuel as [|fuel IH]; intros d cf H; cbn [Scanner.next_loop]; [exact I|].
    destruct (data_size data <? c_cur cf) eqn:E1; [exact H|].
    destruct (c_cur cf <? 0); [exact I|].
    apply Z.ltb_ge in E1.
    match goal with |- fineL _ (if ?b then _ else _) => destruct b eqn:EZ end; [exact I|].
    destruct H as [d' [Q DD]]. destruct DD as [[SI FT]|DD]; [|lia].
    match goal with |- context [Scanner.run_step ?p ?a ?b ?d ?o ?f ?st ?c ?cf0] =>
      assert (H0 : c = 0%N -> data_size data <= c_cur cf) end.
    { intros Z0. destruct (c_cur cf =? data_size data) eqn:AE; [apply Z.eqb_eq in AE; lia|].
      cbn [negb andb] in EZ. rewrite Z0 in EZ. discriminate EZ. }
    match goal with |- context [Scanner.run_step ?p ?a ?b ?dd ?o ?f ?st ?c ?cf0] =>
      pose proof (orun_step_fine p a b dd o T U D OK d f c cf0 d' H0 SI Q FT) as R0;
      destruct (Scanner.run_step p a b dd o f st c cf0) as [cf1| |p0|] end; try exact I.
    cbn [fineO] in R0. destruct R0 as [d1 [Q1 D1]].
    set (cf2 := set_cur cf1 (c_cur cf1 + 1)).
    assert (I2 : GInv d cf2).
    { exists d1. split; [exact Q1|]. destruct D1 as [D1|D1]; [left; exact D1|right]. subst cf2. cbn [c_cur set_cur]. lia. }
    pose proof (drain_grammar (List.length (c_finds cf2)) d cf2 I2) as DR.
    destruct (drain (List.length (c_finds cf2)) cf2) as [[[l|] cf3]| |p0|]; cbn [fineL] in *; try exact I; try exact DR.
    apply IH. exact DR.
  Qed.

  Theorem next_grammar d cf : GInv d cf -> fineL d (next cf).
  Proof.
    intros H. unfold Scanner.next. destruct (c_finds cf) as [|ev fs] eqn:EF; [apply next_loop_grammar; exact H|].
    pose proof (process_event_grammar d cf ev fs H EF) as PE.
    destruct (process_event (set_finds cf fs) ev) as [[[l|] cf']| |p|]; cbn [fineL] in *; try exact I; try exact PE.
    apply next_loop_grammar. exact PE.
  Qed.
End Lift.

(* ------------------------------------------------------------------------------------ *)
Lemma len_D : List.length inferredD = List.length ScannerProg.prog_table.
Proof. vm_compute. reflexivity. Qed.

Lemma oinferred_ok : forall st, ochk_state ScannerProg.prog_table iT iU iD st = true.
Proof.
  intros st. destruct (Nat.ltb (N.to_nat st) (List.length ScannerProg.prog_table)) eqn:E.
  - apply Nat.ltb_lt in E. pose proof oall_ok_ok as A. unfold oall_ok in A. rewrite forallb_forall in A. apply A.
    unfold all_states. apply in_map_iff. exists (N.to_nat st). split; [apply N2Nat.id|apply in_seq; lia].
  - apply Nat.ltb_ge in E. unfold ochk_state, ocollect_state, iD, look. rewrite nth_overflow; [reflexivity|rewrite len_D; exact E].
Qed.

Lemma init_ginv data : GInv data iT iU iD DN (init_conf ScannerProg.initial_state).
Proof. exists DN. split; [reflexivity|]. left. split; [exact init_inv|]. vm_compute. reflexivity. Qed.

(* C12: for EVERY input, every oracle table and any number of Next() calls, the kinds of the
   delivered lexemes are a word of the per-directive bracket grammar *)
Theorem lexeme_kinds_follow_the_grammar data tbl : forall fuel d cf,
  GInv data iT iU iD d cf ->
  let '(ls, _, _) := lex_traj data tbl fuel cf in dfa_run d (List.map lk ls) <> None.
Proof.
  induction fuel as [|fuel IH]; intros d cf H; cbn [lex_traj]; [discriminate|].
  unfold the_next.
  pose proof (next_grammar ScannerProg.prog_table ScannerProg.is_newline_cond ScannerProg.is_whitespace_cond data
                           (olen_of_table tbl) iT iU iD oinferred_ok d cf H) as N.
  destruct (next ScannerProg.prog_table ScannerProg.is_newline_cond ScannerProg.is_whitespace_cond data (olen_of_table tbl) cf)
    as [[[l|] cf']| |p|]; cbn [fineL] in N; try discriminate.
  destruct N as [d1 [A C]]. specialize (IH d1 cf' C).
  destruct (lex_traj data tbl fuel cf') as [[ls e] tr]. cbn [List.map dfa_run]. rewrite A. exact IH.
Qed.

Theorem lexeme_kinds_of_a_file_follow_the_grammar data tbl :
  let '(ls, _, _) := scan_case data tbl in dfa_run DN (List.map lk ls) <> None.
Proof. unfold scan_case. apply lexeme_kinds_follow_the_grammar. apply init_ginv. Qed.

Print Assumptions lexeme_kinds_of_a_file_follow_the_grammar.
