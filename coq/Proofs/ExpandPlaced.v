(* ExpandPlaced.v — the forest that MACRO/PASTE expansion hands to the catalog builder is nested
   as the context table prescribes and contains no MACRO, whatever the macro graph: every copied
   directive is re-attached through the same context resolution as a scanned one.  With
   CatalogTotal: the catalog builder never reaches an impossible state on ANY document. *)
From JS Require Import Base Bytes Scanner Directive Core Expand Catalog ListAux C05Proofs CatalogTotal.
From JS Require DirectiveTables.
From Coq Require Import Lia.
Open Scope Z_scope.

Lemma nmtree_unfold d : nmtree d = negb (N.eqb (d_kind d) DirectiveTables.dir_Macro) && forallb nmtree (d_children d).
Proof. destruct d; reflexivity. Qed.

Definition FP (par : option N) (f : list dir) : Prop := forallb (placed par) f = true.

Lemma kind_with_children d cs : d_kind (with_children d cs) = d_kind d.
Proof. reflexivity. Qed.
Lemma children_with_children d cs : d_children (with_children d cs) = cs.
Proof. reflexivity. Qed.

Lemma placed_with_children par d cs :
  placed par d = true -> forallb (placed (Some (d_kind d))) cs = true -> placed par (with_children d cs) = true.
Proof.
  rewrite !placed_unfold. rewrite kind_with_children, children_with_children.
  intros H C. apply andb_prop in H as [H _]. rewrite H, C. reflexivity.
Qed.

Lemma FP_nth par f i d : FP par f -> nth_error f i = Some d -> placed par d = true.
Proof. unfold FP. intros H E. rewrite forallb_forall in H. apply H. eapply nth_error_In. exact E. Qed.

Lemma FP_update par f : forall i d', FP par f -> placed par d' = true -> FP par (update_nth f i (fun _ => d')).
Proof.
  unfold FP. induction f as [|x r IH]; intros i d' H P; [reflexivity|].
  cbn [forallb] in H. apply andb_prop in H as [H1 H2].
  destruct i; cbn [update_nth forallb]; [rewrite P, H2; reflexivity|rewrite H1; cbn [andb]; apply IH; assumption].
Qed.

Lemma FP_app par f d : FP par f -> placed par d = true -> FP par (f ++ [d]).
Proof. unfold FP. intros H P. rewrite forallb_app. cbn [forallb]. rewrite H, P. reflexivity. Qed.

Lemma append_child_placed p : forall f par c cur,
  FP par f -> node_at f p = Some cur -> placed (Some (d_kind cur)) c = true ->
  FP par (fst (append_child f p c)).
Proof.
  induction p as [|i rest IH]; intros f par c cur HF HN HC; [discriminate|].
  cbn [node_at] in HN. cbn [append_child].
  destruct (nth_error f i) as [d0|] eqn:E; [|discriminate].
  pose proof (FP_nth _ _ _ _ HF E) as P0.
  destruct rest as [|j rest'].
  - injection HN as ->. cbn [append_child]. cbn [fst].
    apply FP_update; [exact HF|]. apply placed_with_children; [exact P0|].
    rewrite placed_unfold in P0. apply andb_prop in P0 as [_ PC]. rewrite forallb_app. cbn [forallb]. rewrite PC, HC. reflexivity.
  - assert (PC : FP (Some (d_kind d0)) (d_children d0)).
    { rewrite placed_unfold in P0. apply andb_prop in P0 as [_ PC]. exact PC. }
    specialize (IH (d_children d0) (Some (d_kind d0)) c cur PC HN HC).
    destruct (append_child (d_children d0) (j :: rest') c) as [cs idx] eqn:A. cbn [fst] in *.
    apply FP_update; [exact HF|]. apply placed_with_children; [exact P0|exact IH].
Qed.

Lemma methods_root : forallb is_allowed_for_root DirectiveTables.dir_http_methods = true.
Proof. vm_compute. reflexivity. Qed.

Lemma method_allowed_at_root k : is_http_request_method k = true -> is_allowed_for_root k = true.
Proof.
  unfold is_http_request_method, mem_N. intros H. apply existsb_exists in H as [x [Hin E]]. apply N.eqb_eq in E. subst x.
  pose proof methods_root as M. rewrite forallb_forall in M. apply M. exact Hin.
Qed.

(* a leaf that is not a MACRO is placed wherever its kind is allowed *)
Lemma leaf_placed par d :
  d_children d = [] -> N.eqb (d_kind d) DirectiveTables.dir_Macro = false ->
  (match par with None => is_allowed_for_root (d_kind d) | Some p => is_allowed_in p (d_kind d) end) = true ->
  placed par d = true.
Proof. intros C K A. rewrite placed_unfold, C, K, A. reflexivity. Qed.

Lemma attach_placed fuel : forall f ctx d f' ctx',
  attach fuel f ctx d = COk (f', ctx') -> FP None f ->
  d_children d = [] -> N.eqb (d_kind d) DirectiveTables.dir_Macro = false -> FP None f'.
Proof.
  induction fuel as [|fuel IH]; intros f ctx d f' ctx' A HF C K; cbn [attach] in A; [discriminate|].
  destruct ctx as [p|].
  - destruct (node_at f p) as [cur|] eqn:N; [|discriminate].
    destruct (is_allowed_in (d_kind cur) (d_kind d)) eqn:AL.
    + match type of A with (if ?b then _ else _) = _ => destruct b eqn:B end.
      * destruct (d_explicit cur); [discriminate|]. injection A as <- _.
        apply FP_app; [exact HF|]. apply leaf_placed; [exact C|exact K|].
        apply andb_prop in B as [B _]. apply andb_prop in B as [B _]. apply method_allowed_at_root. exact B.
      * destruct (append_child f p d) as [f2 idx] eqn:AC. injection A as <- _.
        pose proof (append_child_placed p f None d cur HF N) as G. rewrite AC in G. cbn [fst] in G.
        apply G. apply leaf_placed; [exact C|exact K|exact AL].
    + destruct (d_explicit cur); [discriminate|]. eapply IH; eassumption.
  - destruct (is_allowed_for_root (d_kind d)) eqn:AR; [|discriminate]. injection A as <- _.
    apply FP_app; [exact HF|]. apply leaf_placed; assumption.
Qed.

Section Exp.
  Variable enum_check : coords -> option (N * Z).
  Variable ms : macros.
  (* the bodies of the macros contain no MACRO *)
  Hypothesis MS : Forall (fun m => forallb nmtree (d_children (snd m)) = true) ms.

  Lemma build_rule_forest xs d xs' : build_rule enum_check xs d = COk xs' -> x_forest xs' = x_forest xs /\ x_ctx xs' = x_ctx xs.
  Proof.
    unfold build_rule. intros H.
    repeat (match type of H with
            | context [match ?x with _ => _ end] => destruct x; try discriminate H
            | context [if ?x then _ else _] => destruct x; try discriminate H
            end).
    all: injection H as <-; auto.
  Qed.

  Lemma build_rules_forest ds : forall xs xs', build_rules enum_check xs ds = COk xs' -> x_forest xs' = x_forest xs /\ x_ctx xs' = x_ctx xs.
  Proof.
    induction ds as [|d ds IH]; intros xs xs' H; cbn [build_rules] in H; [injection H as <-; auto|].
    destruct (build_rule enum_check xs d) as [xs1| | |] eqn:B; try discriminate.
    destruct (build_rule_forest _ _ _ B) as [A1 A2]. destruct (IH _ _ H) as [B1 B2]. split; congruence.
  Qed.

  Lemma macro_lookup_in name m : macro_lookup ms name = Some m -> exists n, In (n, m) ms.
  Proof.
    clear MS. induction ms as [|[n d] rest IH]; cbn [macro_lookup]; [discriminate|].
    destruct (beq n name); [intros H; injection H as <-; exists n; left; reflexivity|].
    intros H. destruct (IH H) as [n' Hin]. exists n'. right. exact Hin.
  Qed.

  Lemma expand_dir_placed fuel : forall xs d xs',
    expand_dir enum_check ms fuel xs d = COk xs' -> FP None (x_forest xs) -> nmtree d = true -> FP None (x_forest xs').
  Proof.
    induction fuel as [|fuel IH]; intros xs d xs' H HF NM; cbn [expand_dir] in H; [discriminate|].
    set (go := fix go (xs : xstate) (ds : list dir) {struct ds} : cres xstate :=
                 match ds with
                 | [] => COk xs
                 | c :: r => match expand_dir enum_check ms fuel xs c with COk xs' => go xs' r | o => o end
                 end) in H.
    assert (G : forall ds ys ys', go ys ds = COk ys' -> FP None (x_forest ys) -> forallb nmtree ds = true -> FP None (x_forest ys')).
    { induction ds as [|c r IHd]; intros ys ys' E F M; cbn [go] in E; [injection E as <-; exact F|].
      cbn [forallb] in M. apply andb_prop in M as [M1 M2].
      destruct (expand_dir enum_check ms fuel ys c) as [y1| | |] eqn:X; try discriminate.
      eapply IHd; [exact E|eapply IH; eassumption|exact M2]. }
    rewrite nmtree_unfold in NM. apply andb_prop in NM as [NK NC]. apply Bool.negb_true_iff in NK.
    destruct (N.eqb (d_kind d) DirectiveTables.dir_Paste).
    - destruct (negb (beq (d_annot d) [])); [discriminate|].
      destruct (beq (named d KName) []); [discriminate|].
      destruct (macro_lookup ms (named d KName)) as [m|] eqn:L; [|discriminate].
      destruct (build_rules enum_check xs (d_children m)) as [xs1| | |] eqn:B; try discriminate.
      destruct (build_rules_forest _ _ _ B) as [B1 _].
      destruct (go xs1 (d_children m)) as [xs2| | |] eqn:E; try discriminate. injection H as <-.
      eapply G; [exact E|rewrite B1; exact HF|].
      destruct (macro_lookup_in _ _ L) as [n Hin]. rewrite Forall_forall in MS. exact (MS _ Hin).
    - destruct (attach (attach_fuel (x_ctx xs)) (x_forest xs) (x_ctx xs) (with_children d [])) as [[f ctx]| | |] eqn:A; try discriminate.
      pose proof (attach_placed _ _ _ _ _ _ A HF eq_refl NK) as F1.
      destruct (go (mkX f ctx (x_enums xs)) (d_children d)) as [xs2| | |] eqn:E; try discriminate.
      pose proof (G _ _ _ E F1 NC) as F2.
      destruct (d_explicit d); injection H as <-; exact F2.
  Qed.

  Lemma expand_list_placed fuel ds : forall xs xs',
    expand_list enum_check ms fuel xs ds = COk xs' -> FP None (x_forest xs) -> forallb nmtree ds = true -> FP None (x_forest xs').
  Proof.
    induction ds as [|c r IH]; intros xs xs' H F M; cbn [expand_list] in H; [injection H as <-; exact F|].
    cbn [forallb] in M. apply andb_prop in M as [M1 M2].
    destruct (expand_dir enum_check ms fuel xs c) as [y1| | |] eqn:X; try discriminate.
    eapply IH; [exact H|eapply expand_dir_placed; eassumption|exact M2].
  Qed.
End Exp.

(* the scanned forest: MACRO directives only at the top level *)
Definition macros_only_on_top (roots : list dir) : Prop := Forall (fun r => forallb nmtree (d_children r) = true) roots.

Lemma macros_on_top_spec roots : macros_on_top roots = true -> macros_only_on_top roots.
Proof. unfold macros_on_top, macros_only_on_top. intros H. rewrite forallb_forall in H. apply Forall_forall. exact H. Qed.

Lemma collect_macro_nm roots : forall kept ms roots' ms',
  collect_macro roots kept ms = COk (roots', ms') ->
  macros_only_on_top roots -> forallb nmtree kept = true ->
  Forall (fun m => forallb nmtree (d_children (snd m)) = true) ms ->
  forallb nmtree roots' = true /\ Forall (fun m => forallb nmtree (d_children (snd m)) = true) ms'.
Proof.
  induction roots as [|d rest IH]; intros kept ms roots' ms' H T K M; cbn [collect_macro] in H.
  - injection H as <- <-. split; [|exact M].
    rewrite forallb_forall in *. intros x Hx. apply K. apply in_rev. exact Hx.
  - inversion T as [|? ? Td Trest]; subst.
    destruct (N.eqb (d_kind d) DirectiveTables.dir_Macro) eqn:E.
    + destruct (add_macro ms d) as [ms1| | |] eqn:A; try discriminate.
      eapply IH; [exact H|exact Trest|exact K|].
      unfold add_macro in A.
      destruct (negb (beq (d_annot d) [])); [discriminate|].
      destruct (beq (named d KName) []); [discriminate|].
      destruct (d_children d) eqn:C; [discriminate|].
      destruct (macro_lookup ms (named d KName)); [discriminate|]. injection A as <-.
      apply Forall_app. split; [exact M|]. constructor; [|constructor]. cbn [snd]. rewrite C. exact Td.
    + eapply IH; [exact H|exact Trest| |exact M].
      cbn [forallb]. rewrite K, nmtree_unfold, E, Td. reflexivity.
Qed.

(* the expanded forest is nested as the table prescribes and has no MACRO *)
Theorem expanded_forest_is_placed enum_check fuel roots ex :
  macros_only_on_top roots -> compile_macros enum_check fuel roots = XOk ex ->
  forallb (placed None) (ex_forest ex) = true.
Proof.
  intros T H. unfold compile_macros in H.
  destruct (collect_macro roots [] []) as [[roots' ms]| | |] eqn:CM; try discriminate.
  destruct (collect_macro_nm roots [] [] roots' ms CM T eq_refl (Forall_nil _)) as [NR NMs].
  destruct (check_recursion fuel ms); [discriminate|].
  destruct (expand_list enum_check ms fuel (mkX [] None []) roots') as [xs| | |] eqn:E; try discriminate.
  pose proof (expand_list_placed enum_check ms NMs fuel roots' _ _ E eq_refl NR) as F.
  destruct (build_rules enum_check xs roots') as [xs'| | |] eqn:B; try discriminate.
  injection H as <-. cbn [ex_forest]. destruct (build_rules_forest _ _ _ _ B) as [B1 _]. rewrite B1. exact F.
Qed.

(* ... hence, for EVERY scanned forest with MACROs only on top and every macro graph, the
   interaction pass of the catalog builder never reaches an impossible state *)
Theorem catalog_builder_is_total_after_expansion enum_check read_body banned fuel fuel' roots ex c :
  macros_only_on_top roots -> compile_macros enum_check fuel roots = XOk ex ->
  forall pn, add_all read_body banned fuel' c (ex_forest ex) <> CPanic pn.
Proof.
  intros T H. apply add_all_never_panics. eapply expanded_forest_is_placed; eassumption.
Qed.
