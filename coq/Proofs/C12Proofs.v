(* C12Proofs.v — lexeme events: what the regenerated program can emit (syntactic bounds on
   every found/foundAt and cursor adjustment), how Next() pairs events into lexemes, and the
   refutation of full well-formedness on the current tree (finding F2). *)
From JS Require Import Base Bytes Scanner ScanRun ExecLemmas.
From JS Require LexemeEvents ScannerProg.
From Coq Require Import Lia.
Open Scope Z_scope.

(* every found/foundAt is at the cursor, one or two bytes before it; every explicit cursor
   adjustment is a rewind by one or two *)
Fixpoint stmt_offsets_ok (s : stmt) : bool :=
  match s with
  | SFound _ off => (off =? 0) || (off =? -1) || (off =? -2)
  | SAddCur dz => (dz =? -1) || (dz =? -2)
  | SIf _ t e => stmt_offsets_ok t && stmt_offsets_ok e
  | SSeq a b => stmt_offsets_ok a && stmt_offsets_ok b
  | _ => true
  end.

Definition program_offsets_ok (p : list (string * stmt)) : bool :=
  forallb (fun e => stmt_offsets_ok (snd e)) p.

Lemma program_offsets_ok_ok : program_offsets_ok ScannerProg.prog_table = true.
Proof. vm_compute. reflexivity. Qed.

(* how processLexemeEvent makes a lexeme: from a matching begin on the stack and the ending
   event, or from a single event; extents are exactly the two event positions *)
Theorem lexeme_from_events :
  forall cf ev l cf',
    process_event cf ev = ROk (Some l, cf') ->
    (exists b bpos es, c_estack cf = (b, bpos) :: es /\ pair_ok b (fst ev) = true /\
                       lb l = bpos /\ le l = snd ev /\ c_estack cf' = es /\
                       LexemeEvents.ev_ToLexemeType (fst ev) = Some (lk l))
    \/ (LexemeEvents.ev_IsSingle (fst ev) = true /\ lb l = snd ev /\ le l = snd ev /\
        c_estack cf' = c_estack cf /\ LexemeEvents.ev_ToLexemeType (fst ev) = Some (lk l)).
Proof.
  intros cf [t pos] l cf' H. unfold process_event in H.
  destruct (LexemeEvents.ev_IsBeginning t); [discriminate|].
  destruct (LexemeEvents.ev_IsEnding t) eqn:E.
  - destruct (c_estack cf) as [|[bt bpos] es] eqn:S; [discriminate|].
    destruct (pair_ok bt t) eqn:P; [|discriminate].
    destruct (LexemeEvents.ev_ToLexemeType t) as [k|] eqn:K; [|discriminate].
    injection H as <- <-. left. exists bt, bpos, es. cbn. repeat split; auto.
  - destruct (LexemeEvents.ev_IsSingle t) eqn:Sg; [|discriminate].
    destruct (LexemeEvents.ev_ToLexemeType t) as [k|] eqn:K; [|discriminate].
    injection H as <- <-. right. cbn. repeat split; auto.
Qed.

(* the event tables regenerated from lexeme-event.go are a partition into begin / end /
   single, and every kind maps to a lexeme type *)
Definition all_events : list event :=
  [KeywordBegin; KeywordEnd; ParameterBegin; ParameterEnd; AnnotationBegin; AnnotationEnd;
   SchemaBegin; SchemaEnd; TextBegin; TextEnd; ContextOpen; ContextClose; EnumBegin; EnumEnd].

Definition event_tables_ok : bool :=
  forallb (fun e =>
    let b := LexemeEvents.ev_IsBeginning e in
    let n := LexemeEvents.ev_IsEnding e in
    let s := LexemeEvents.ev_IsSingle e in
    (xorb b (xorb n s)) && negb (b && n && s) &&
    match LexemeEvents.ev_ToLexemeType e with Some _ => true | None => false end) all_events
  && forallb (fun e => negb (LexemeEvents.ev_IsEnding e) ||
                       existsb (fun b => LexemeEvents.ev_IsBeginning b && pair_ok b e) all_events) all_events.

Lemma event_tables_ok_ok : event_tables_ok = true.
Proof. vm_compute. reflexivity. Qed.

(* ------------------------------------------------------------------------------------ *)
(* regression for finding F2 (fixed in /repo): "/*/" no longer closes the annotation with its
   own opening star; the input is now an error at the end of the file and every lexeme
   produced before it is well-formed *)
Definition f2_input : bytes := bytes_of_string "GET /a /*/".

Definition well_formed (n : Z) (l : lexeme) : bool :=
  (0 <=? lb l) && (le l <? n) && (lb l <=? le l + 1).

Theorem f2_regression :
  forallb (well_formed (Z.of_nat (List.length f2_input))) (fst (fst (scan_case f2_input []))) = true /\
  match snd (fst (scan_case f2_input [])) with EndErr _ => true | _ => false end = true.
Proof. split; vm_compute; reflexivity. Qed.
