(* C17Proofs.v — shape of the OpenAPI skeleton, for every catalog:
   every HTTP interaction is an operation of its path; the path parameters of a path item are
   exactly the {parameters} of its path; the response keys of an operation are the response
   codes of the interaction; every user type is a component. *)
From JS Require Import Base Bytes Scanner Directive Core Expand Catalog OpenApi ListAux C05Proofs.
From Coq Require Import Lia.
Open Scope N_scope.

Definition has_op (items : list oas_item) (path m : bytes) (o : oas_op) : Prop :=
  exists it, In it items /\ it_path it = path /\ In o (it_ops it) /\ op_method o = m.

Lemma assign_op_in ops o : In o (assign_op ops o).
Proof.
  induction ops as [|x r IH]; cbn [assign_op]; [left; reflexivity|].
  destruct (beq (op_method x) (op_method o)); [left; reflexivity|right; exact IH].
Qed.

Lemma assign_op_keeps ops o x :
  In x ops -> op_method x <> op_method o -> In x (assign_op ops o).
Proof.
  induction ops as [|y r IH]; intros H Hne; [contradiction|]. cbn [assign_op].
  destruct (beq (op_method y) (op_method o)) eqn:E.
  - destruct H as [->|H]; [apply beq_true_eq in E; contradiction|right; exact H].
  - destruct H as [->|H]; [left; reflexivity|right; apply IH; assumption].
Qed.

Lemma assign_op_methods ops o x : In x (assign_op ops o) -> x = o \/ In x ops.
Proof.
  induction ops as [|y r IH]; cbn [assign_op]; intros H.
  - destruct H as [<-|[]]. left; reflexivity.
  - destruct (beq (op_method y) (op_method o)).
    + destruct H as [<-|H]; [left; reflexivity|right; right; exact H].
    + destruct H as [<-|H]; [right; left; reflexivity|]. destruct (IH H) as [->|H']; [left; reflexivity|right; right; exact H'].
Qed.

(* adding an interaction makes it an operation of its path *)
Lemma add_http_has items h : has_op (add_http items h) (hi_path h) (op_method (op_of h)) (op_of h).
Proof.
  induction items as [|it r IH]; cbn [add_http].
  - eexists. split; [left; reflexivity|]. cbn. repeat split. left. reflexivity.
  - destruct (beq (it_path it) (hi_path h)) eqn:E.
    + apply beq_true_eq in E. eexists. split; [left; reflexivity|]. cbn [it_path it_ops]. repeat split; [exact E|apply assign_op_in].
    + destruct IH as [it' [Hin [Hp [Ho Hm]]]]. exists it'. split; [right; exact Hin|]. repeat split; assumption.
Qed.

(* ... and keeps the operations of other (path, method) pairs *)
Lemma add_http_keeps items h path m o :
  has_op items path m o -> (path <> hi_path h \/ m <> op_method (op_of h)) ->
  has_op (add_http items h) path m o.
Proof.
  intros [it [Hin [Hp [Ho Hm]]]] Hne.
  induction items as [|x r IH]; [contradiction|]. cbn [add_http].
  destruct (beq (it_path x) (hi_path h)) eqn:E.
  - destruct Hin as [->|Hin].
    + apply beq_true_eq in E. eexists. split; [left; reflexivity|]. cbn [it_path it_ops]. repeat split; [exact Hp| |exact Hm].
      apply assign_op_keeps; [exact Ho|]. destruct Hne as [Hne|Hne]; [congruence|congruence].
    + exists it. split; [right; exact Hin|]. repeat split; assumption.
  - destruct Hin as [->|Hin].
    + exists it. split; [left; reflexivity|]. repeat split; assumption.
    + destruct (IH Hin) as [it' [Hin' R]]. exists it'. split; [right; exact Hin'|exact R].
Qed.

Definition http_of (i : inter) : option http_inter := match i with IHttp h => Some h | IRpc _ => None end.

(* distinct interactions differ in path or method (their ids are protocol + method + path,
   Props/C05.v): then every HTTP interaction of the catalog is an operation of its path *)
Definition only_one (is : list inter) (h : http_inter) : Prop :=
  forall h', In (IHttp h') is -> hi_path h' = hi_path h -> lower_bytes (hi_method h') = lower_bytes (hi_method h) -> h' = h.

Theorem every_http_interaction_is_an_operation is :
  forall h, In (IHttp h) is -> only_one is h ->
  has_op (fill_paths is) (hi_path h) (lower_bytes (hi_method h)) (op_of h).
Proof.
  unfold fill_paths. intros h.
  assert (G : forall is acc,
             (In (IHttp h) is \/ has_op acc (hi_path h) (lower_bytes (hi_method h)) (op_of h)) ->
             only_one is h ->
             has_op (fold_left (fun acc i => match i with IHttp h => add_http acc h | IRpc _ => acc end) is acc)
                    (hi_path h) (lower_bytes (hi_method h)) (op_of h)).
  { intros is0. induction is0 as [|i is0 IH]; intros acc H D; cbn [fold_left].
    - destruct H as [H|H]; [destruct H|exact H].
    - apply IH.
      + destruct H as [[->|H]|H].
        * right. apply add_http_has.
        * left. exact H.
        * right. destruct i as [h'|r]; [|exact H].
          destruct (beq (hi_path h') (hi_path h)) eqn:Ep.
          -- destruct (beq (lower_bytes (hi_method h')) (lower_bytes (hi_method h))) eqn:Em.
             ++ apply beq_true_eq in Ep, Em.
                rewrite (D h' (or_introl eq_refl) Ep Em). apply add_http_has.
             ++ apply beq_false_ne in Em. apply add_http_keeps; [exact H|right; cbn [op_of op_method]; congruence].
          -- apply beq_false_ne in Ep. apply add_http_keeps; [exact H|left; congruence].
      + intros h' Hin. apply D. right. exact Hin. }
  intros Hin D. apply G; [left; exact Hin|exact D].
Qed.

(* the parameters of a path item are the {parameters} of its path, whatever was added *)
Lemma add_http_params items h :
  Forall (fun it => it_params it = List.map snd (path_params (it_path it))) items ->
  Forall (fun it => it_params it = List.map snd (path_params (it_path it))) (add_http items h).
Proof.
  induction items as [|it r IH]; intros H; cbn [add_http].
  - constructor; [reflexivity|constructor].
  - inversion H as [|? ? Hit Hr]; subst.
    destruct (beq (it_path it) (hi_path h)).
    + constructor; [cbn [it_params it_path]; exact Hit|exact Hr].
    + constructor; [exact Hit|apply IH; exact Hr].
Qed.

Theorem path_item_declares_the_parameters_of_its_path is :
  Forall (fun it => it_params it = List.map snd (path_params (it_path it))) (fill_paths is).
Proof.
  unfold fill_paths.
  assert (G : forall is acc, Forall (fun it => it_params it = List.map snd (path_params (it_path it))) acc ->
             Forall (fun it => it_params it = List.map snd (path_params (it_path it)))
                    (fold_left (fun acc i => match i with IHttp h => add_http acc h | IRpc _ => acc end) is acc)).
  { intros is0. induction is0 as [|i is0 IH]; intros acc H; cbn [fold_left]; [exact H|].
    apply IH. destruct i; [apply add_http_params; exact H|exact H]. }
  apply G. constructor.
Qed.

(* response keys: exactly the codes of the interaction, each once *)
Lemma dedup_in l x : In x (dedup l) <-> In x l.
Proof.
  induction l as [|y r IH]; cbn [dedup]; [tauto|].
  destruct (existsb (beq y) r) eqn:E.
  - rewrite IH. split; [intros H; right; exact H|]. intros [<-|H]; [|exact H].
    apply existsb_exists in E as [z [Hz Ez]]. apply beq_true_eq in Ez. subst. exact Hz.
  - cbn [In]. rewrite IH. tauto.
Qed.

Lemma dedup_nodup l : NoDup (dedup l).
Proof.
  induction l as [|y r IH]; cbn [dedup]; [constructor|].
  destruct (existsb (beq y) r) eqn:E; [exact IH|].
  constructor; [|exact IH]. rewrite dedup_in. intros Hin.
  assert (existsb (beq y) r = true) by (apply existsb_exists; exists y; split; [exact Hin|apply beq_refl']).
  congruence.
Qed.

Theorem response_keys_are_the_codes h :
  hi_responses h <> [] ->
  NoDup (op_responses (op_of h)) /\
  forall k, In k (op_responses (op_of h)) <-> exists r, In r (hi_responses h) /\ rs_code r = k.
Proof.
  intros Hne. cbn [op_of op_responses]. unfold response_keys.
  destruct (hi_responses h) as [|r0 rs] eqn:E; [contradiction|].
  split; [apply dedup_nodup|].
  intros k. rewrite dedup_in. rewrite in_map_iff. split; intros [r [A B]]; exists r; split; assumption.
Qed.

Theorem no_responses_gives_default h :
  hi_responses h = [] -> op_responses (op_of h) = [str "default"].
Proof. intros E. cbn [op_of op_responses]. unfold response_keys. rewrite E. reflexivity. Qed.

(* components: one per user type, in order *)
Theorem every_user_type_is_a_component c :
  oa_components (to_openapi c) = List.map (fun t => schema_name (fst (fst t))) (c_types c).
Proof. reflexivity. Qed.

Corollary path_item_parameters_are_the_braced_segments is :
  Forall (fun it => it_params it =
                    List.map (fun s => removelast (tl s)) (List.filter is_param_seg (path_segments (it_path it))))
         (fill_paths is).
Proof.
  eapply Forall_impl; [|apply path_item_declares_the_parameters_of_its_path].
  intros it H. rewrite H. apply path_params_are_the_braced_segments.
Qed.
