(* CatalogOrder.v — interactions are only ever appended: for every directive, every catalog
   state and every outcome of the schema oracles, adding the directive leaves the list of
   interaction ids unchanged or appends exactly one id that was not there; lifted to whole
   branches and whole forests: the ids after building extend the ids before, in document order,
   nothing is removed, reordered or duplicated. *)
From JS Require Import Base Bytes Scanner Directive Core Expand Catalog ListAux C05Proofs C02Proofs.
From JS Require DirectiveTables.
From Coq Require Import Lia Permutation.
Open Scope Z_scope.

Definition ids (c : catalog) : list bytes := List.map inter_id (c_inters c).

(* one step: same ids, or one fresh id appended *)
Definition step_ok (c c' : catalog) : Prop :=
  ids c' = ids c \/ exists id, ids c' = ids c ++ [id] /\ ~ In id (ids c).

(* many steps *)
Definition ext (c c' : catalog) : Prop :=
  exists l, ids c' = ids c ++ l /\ (NoDup (ids c) -> NoDup (ids c')).

Lemma ext_refl c : ext c c.
Proof. exists []. rewrite app_nil_r. split; [reflexivity|auto]. Qed.

Lemma ext_trans a b c : ext a b -> ext b c -> ext a c.
Proof.
  intros [l1 [H1 N1]] [l2 [H2 N2]]. exists (l1 ++ l2). split; [rewrite H2, H1, app_assoc; reflexivity|auto].
Qed.

Lemma step_ext c c' : step_ok c c' -> ext c c'.
Proof.
  intros [H|[id [H Hn]]].
  - exists []. rewrite app_nil_r. split; [exact H|rewrite H; auto].
  - exists [id]. split; [exact H|]. intros N. rewrite H.
    eapply Permutation_NoDup; [apply Permutation_cons_append|]. constructor; assumption.
Qed.

Lemma upd_http_ids c id f : (forall h, hi_id (f h) = hi_id h) -> ids (upd_http c id f) = ids c.
Proof.
  intros Hf. unfold ids, upd_http. cbn [c_inters set_inters]. apply update_keeps_order.
  intros [h|r]; cbn [inter_id]; [apply Hf|reflexivity].
Qed.

Lemma upd_rpc_ids c id f : (forall h, ri_id (f h) = ri_id h) -> ids (upd_rpc c id f) = ids c.
Proof.
  intros Hf. unfold ids, upd_rpc. cbn [c_inters set_inters]. apply update_keeps_order.
  intros [h|r]; cbn [inter_id]; [reflexivity|apply Hf].
Qed.

Lemma check_paths_ids c d anc c1 p : check_paths c d anc = inl (c1, p) -> ids c1 = ids c.
Proof.
  unfold check_paths. destruct (dir_path d anc); [|discriminate].
  destruct (path_params_error b); [discriminate|].
  destruct (check_similar _ _); [|discriminate]. intros H. injection H as <- _. reflexivity.
Qed.

Lemma ids_app c0 ts i : ids (set_inters (set_tags c0 ts) (c_inters c0 ++ [i])) = ids c0 ++ [inter_id i].
Proof. unfold ids. cbn [c_inters set_inters]. rewrite map_app. reflexivity. Qed.

Ltac crush H :=
  repeat (match type of H with
          | context [match ?x with _ => _ end] => let E := fresh "E" in destruct x eqn:E; try discriminate H
          | context [if ?x then _ else _] => let E := fresh "E" in destruct x eqn:E; try discriminate H
          end).

Ltac keeps_id :=
  intros ?h; cbn [hi_id ri_id];
  repeat (match goal with |- context [match ?x with _ => _ end] => destruct x end; cbn [hi_id ri_id]);
  reflexivity.

Ltac ids_same :=
  left;
  repeat (first [rewrite upd_http_ids by keeps_id | rewrite upd_rpc_ids by keeps_id]);
  try reflexivity.

Ltac errs H := unfold kerr1, kerr, not_found, required in H; try discriminate H.

Lemma add_request_step c d anc c' : add_request c d anc = COk c' -> step_ok c c'.
Proof. unfold add_request. intros H. crush H. all: errs H. all: injection H as <-. all: ids_same. Qed.

Lemma add_response_step c d anc c' : add_response c d anc = COk c' -> step_ok c c'.
Proof. unfold add_response. intros H. crush H. all: errs H. all: injection H as <-. all: ids_same. Qed.

Lemma add_description_step c d anc body c' : add_description c d anc body = COk c' -> step_ok c c'.
Proof. unfold add_description. intros H. crush H. all: errs H. all: injection H as <-. all: ids_same. Qed.

Theorem add_directive_step banned c d anc c' : add_directive banned c d anc = COk c' -> step_ok c c'.
Proof.
  unfold add_directive. intros H.
  crush H.
  all: errs H.
  all: try (apply add_request_step in H; exact H).
  all: try (apply add_response_step in H; exact H).
  all: try (injection H as <-).
  all: try (ids_same; fail).
  - left. unfold ids. cbn [c_inters].
    match goal with E : check_paths _ _ _ = inl _ |- _ => exact (check_paths_ids _ _ _ _ _ E) end.
  - match goal with E : check_paths _ _ _ = inl _ |- _ => pose proof (check_paths_ids _ _ _ _ _ E) as Hc end.
    right. eexists. rewrite ids_app, Hc. split; [reflexivity|]. rewrite <- Hc. cbn [inter_id hi_id].
    apply find_inter_none_notin. assumption.
  - right. eexists. rewrite ids_app. split; [reflexivity|]. cbn [inter_id ri_id].
    apply find_inter_none_notin. assumption.
Qed.

Section Lift.
  Variable read_body : coords -> bytes.
  Variable banned : list N.

  Lemma add_branch_ext fuel : forall c d anc c', add_branch read_body banned fuel c d anc = COk c' -> ext c c'.
  Proof.
    induction fuel as [|fuel IH]; intros c d anc c' H; cbn [add_branch] in H; [discriminate|].
    match type of H with match ?r with _ => _ end = _ => destruct r as [c1| | |] eqn:R; try discriminate end.
    assert (S1 : ext c c1).
    { apply step_ext.
      destruct (existsb (N.eqb (d_kind d)) banned); [eapply add_directive_step; exact R|].
      destruct (N.eqb (d_kind d) DirectiveTables.dir_Description);
        [eapply add_description_step; exact R|eapply add_directive_step; exact R]. }
    eapply ext_trans; [exact S1|]. clear R S1.
    revert c1 H. generalize (d_children d) as cs.
    induction cs as [|x rest IHc]; intros c1 H.
    - injection H as <-. apply ext_refl.
    - destruct (add_branch read_body banned fuel c1 x (d :: anc)) as [c2| | |] eqn:B; try discriminate.
      eapply ext_trans; [eapply IH; exact B|]. apply IHc. exact H.
  Qed.

  Theorem add_all_ext fuel ds : forall c c', add_all read_body banned fuel c ds = COk c' -> ext c c'.
  Proof.
    induction ds as [|d ds IH]; intros c c' H; cbn [add_all] in H.
    - injection H as <-. apply ext_refl.
    - destruct (add_branch read_body banned fuel c d []) as [c1| | |] eqn:B; try discriminate.
      eapply ext_trans; [eapply add_branch_ext; exact B|]. apply IH. exact H.
  Qed.

  (* a built catalog lists every interaction id once *)
  Corollary built_catalog_ids_distinct fuel forest c :
    build_catalog read_body banned fuel forest = COk c -> NoDup (ids c).
  Proof.
    unfold build_catalog. intros H.
    destruct (collect_tags empty_catalog forest) as [c0| | |] eqn:T; try discriminate.
    destruct (dup_type_error [] forest); [discriminate|].
    destruct (type_without_body forest); [discriminate|].
    destruct (collect_paths fuel forest [] None); [|discriminate].
    destruct (missed_path_errors forest); [discriminate|].
    assert (E0 : ids c0 = []).
    { clear H.
      assert (G : forall ds e c0, collect_tags e ds = COk c0 -> c_inters c0 = c_inters e).
      { clear. induction ds as [|d ds IH]; intros e c0 T; cbn [collect_tags] in T.
        - injection T as <-. reflexivity.
        - destruct (N.eqb (d_kind d) DirectiveTables.dir_TAG).
          + destruct (beq (named d KTagName) []); [unfold required in T; discriminate|].
            destruct (find_tag (c_tags e) (named d KTagName)); [unfold kerr in T; discriminate|].
            rewrite (IH _ _ T). reflexivity.
          + apply IH. exact T. }
      unfold ids. rewrite (G _ _ _ T). reflexivity. }
    destruct (negb _).
    - destruct forest; [injection H as <-; rewrite E0; constructor|unfold kerr1, kerr in H; discriminate].
    - destruct (add_all read_body banned fuel c0 forest) as [c1| | |] eqn:A; try discriminate.
      destruct (validate c1); [discriminate|]. injection H as <-.
      destruct (add_all_ext _ _ _ _ A) as [l [_ N]]. apply N. rewrite E0. constructor.
  Qed.
End Lift.
