(* BuildErrLoc.v — C07 / C03 for the catalog builder of the model: every error the builder's passes
   over the expanded forest raise (collectTags, the TYPE passes, collectPaths, the missed-path pass,
   JSIGHT-first, addDirectives) is located ON A DIRECTIVE OF THAT FOREST — at its keyword, with the
   include trace recorded when it was scanned — or at the first byte of that directive's body (the
   Description text errors); for every forest, catalog state, ban list, body text and fuel.
   validateCatalog's errors sit on directives stored in the catalog and are outside this
   statement (they are named as the third alternative). *)
From JS Require Import Base Bytes Scanner Directive Core Expand Catalog Ban BanBuild.
From JS Require DirectiveTables ErrConsts.
Open Scope Z_scope.

Definition on_dir (e : cerr) (x : dir) : Prop := e = dir_error x (e_msg e).
Definition in_body_of (e : cerr) (x : dir) : Prop :=
  exists b, d_body x = Some b /\ e_file e = co_file b /\ e_index e = co_begin b /\ e_trace e = d_trace x.
Definition on_or_in (e : cerr) (x : dir) : Prop := on_dir e x \/ in_body_of e x.

Lemma on_dir_intro x m : on_dir (dir_error x m) x.
Proof. reflexivity. Qed.

(* the directive itself, one of its children, its parent, or one of the parent's children *)
Definition near (d : dir) (anc : list dir) (x : dir) : Prop :=
  x = d \/ In x (d_children d) \/ exists p rest, anc = p :: rest /\ (x = p \/ In x (d_children p)).

Definition placed_near (d : dir) (anc : list dir) (e : cerr) : Prop := exists x, near d anc x /\ on_or_in e x.

Lemma here d anc m : placed_near d anc (dir_error d m).
Proof. exists d. split; [left; reflexivity|left; reflexivity]. Qed.

Lemma at_parent d p rest m : placed_near d (p :: rest) (dir_error p m).
Proof. exists p. split; [right; right; exists p, rest; split; [reflexivity|left; reflexivity]|left; reflexivity]. Qed.

Ltac crush H :=
  repeat (match type of H with
          | context [match ?x with _ => _ end] => let E := fresh "E" in destruct x eqn:E; try discriminate H
          | context [if ?x then _ else _] => let E := fresh "E" in destruct x eqn:E; try discriminate H
          end).
Ltac errs H := unfold kerr1, kerr, not_found, required in H; try discriminate H.

Lemma find_in {A} (f : A -> bool) l x : List.find f l = Some x -> In x l.
Proof. intros H. apply find_some in H. tauto. Qed.

Lemma check_paths_err c d anc e : check_paths c d anc = inr e -> placed_near d anc e.
Proof. unfold check_paths. intros H. crush H; injection H as <-; apply here. Qed.

Lemma url_children_err d anc e : url_children_compatible d = Some e -> placed_near d anc e.
Proof.
  unfold url_children_compatible. destruct (d_children d) as [|base rest] eqn:Ec; [discriminate|].
  destruct (List.find _ rest) as [x|] eqn:Ef; [|discriminate]. intros H. injection H as <-.
  exists x. split; [|left; reflexivity]. right. left. rewrite Ec. right. eapply find_in. exact Ef.
Qed.

Lemma tags_child_in d td : tags_child d = Some td -> In td (d_children d).
Proof. unfold tags_child. apply find_in. Qed.

Lemma interaction_tags_err c d anc http id path e :
  interaction_tags c d anc http id path = inr e -> placed_near d anc e.
Proof.
  unfold interaction_tags. intros H.
  destruct (tags_child d) as [td|] eqn:Et.
  - assert (N : near d anc td) by (right; left; apply tags_child_in; exact Et).
    crush H; injection H as <-; (exists td; split; [exact N|left; reflexivity]).
  - destruct anc as [|p rest]; [crush H|].
    destruct (N.eqb (d_kind p) DirectiveTables.dir_URL); [|crush H].
    destruct (tags_child p) as [td|] eqn:Ep; [|crush H].
    assert (N : near d (p :: rest) td).
    { right. right. exists p, rest. split; [reflexivity|right; apply tags_child_in; exact Ep]. }
    crush H; injection H as <-; (exists td; split; [exact N|left; reflexivity]).
Qed.

Lemma add_request_err c d anc e : add_request c d anc = CErr e -> placed_near d anc e.
Proof. unfold add_request. intros H. crush H. all: errs H. all: injection H as <-; apply here. Qed.

Lemma add_response_err c d anc e : add_response c d anc = CErr e -> placed_near d anc e.
Proof. unfold add_response. intros H. crush H. all: errs H. all: injection H as <-; apply here. Qed.

Lemma add_description_err c d anc body e : add_description c d anc body = CErr e -> placed_near d anc e.
Proof.
  unfold add_description. intros H.
  destruct (has_annot d); [errs H; injection H as <-; apply here|].
  destruct (negb (has_body d)) eqn:Hb; [errs H; injection H as <-; apply here|].
  destruct (description body) as [text|e0].
  - crush H. all: errs H. all: injection H as <-; apply here.
  - injection H as <-. exists d. split; [left; reflexivity|right].
    unfold in_body_of. unfold has_body in Hb. destruct (d_body d) as [b|]; [|discriminate].
    exists b. repeat split.
Qed.

Ltac fin H :=
  first
    [ exact (add_request_err _ _ _ _ H)
    | exact (add_response_err _ _ _ _ H)
    | injection H as <-;
      first
        [ apply here
        | apply at_parent
        | match goal with E : check_paths _ _ _ = inr _ |- _ => exact (check_paths_err _ _ _ _ E) end
        | match goal with E : url_children_compatible _ = Some _ |- _ => exact (url_children_err _ _ _ E) end
        | match goal with E : interaction_tags _ _ _ _ _ _ = inr _ |- _ => exact (interaction_tags_err _ _ _ _ _ _ _ E) end ] ].

Theorem add_directive_err banned c d anc e : add_directive banned c d anc = CErr e -> placed_near d anc e.
Proof.
  unfold add_directive. intros H. cbv zeta in H.
  crush H.
  all: errs H.
  all: fin H.
Qed.

(* ------------------------------------------------------------------------------------ *)
(* lifting to trees and forests *)

Definition placed_in_tree (d : dir) (anc : list dir) (e : cerr) : Prop :=
  exists x, (within x d \/ exists p rest, anc = p :: rest /\ (x = p \/ In x (d_children p))) /\ on_or_in e x.

Lemma near_to_tree d anc e : placed_near d anc e -> placed_in_tree d anc e.
Proof.
  intros [x [[Hx|[Hc|Hp]] O]]; exists x; (split; [|exact O]).
  - left. rewrite Hx. constructor.
  - left. eapply within_child; [exact Hc|constructor].
  - right. exact Hp.
Qed.

Section Lift.
  Variable read_body : coords -> bytes.
  Variable banned : list N.

  Lemma head_err c d anc e : head read_body banned c d anc = CErr e -> placed_near d anc e.
  Proof.
    unfold head. destruct (existsb _ banned); [apply add_directive_err|].
    destruct (N.eqb (d_kind d) DirectiveTables.dir_Description); [apply add_description_err|apply add_directive_err].
  Qed.

  Lemma add_branch_err : forall fuel c d anc e,
    add_branch read_body banned fuel c d anc = CErr e -> placed_in_tree d anc e.
  Proof.
    induction fuel as [|fuel IH]; intros c d anc e H; [discriminate|].
    rewrite add_branch_S in H.
    destruct (head read_body banned c d anc) as [c1|e1|p1|] eqn:Eh; try discriminate.
    - (* an error below *)
      assert (K : forall cs c1, (forall x, In x cs -> In x (d_children d)) ->
                go_children read_body banned fuel d anc c1 cs = CErr e -> placed_in_tree d anc e).
      { clear c1 Eh H. induction cs as [|x rest IHc]; intros c1 Hsub Hg; [discriminate|].
        cbn [go_children] in Hg.
        destruct (add_branch read_body banned fuel c1 x (d :: anc)) as [c2|e2|p2|] eqn:Ea; try discriminate.
        - apply (IHc c2); [intros y Hy; apply Hsub; right; exact Hy|exact Hg].
        - injection Hg as <-. destruct (IH _ _ _ _ Ea) as [y [[W|[p [rest' [Ep Hy]]]] O]]; exists y; (split; [|exact O]); left.
          + eapply within_child; [apply Hsub; left; reflexivity|exact W].
          + injection Ep as <- <-. destruct Hy as [->|Hy]; [constructor|eapply within_child; [exact Hy|constructor]]. }
      exact (K (d_children d) c1 (fun x Hx => Hx) H).
    - injection H as <-. apply near_to_tree. exact (head_err _ _ _ _ Eh).
  Qed.

  Definition placed_in_forest (forest : list dir) (e : cerr) : Prop :=
    exists x, within_forest x forest /\ on_or_in e x.

  Lemma add_all_err fuel : forall ds c e,
    add_all read_body banned fuel c ds = CErr e -> placed_in_forest ds e.
  Proof.
    induction ds as [|d rest IH]; intros c e H; [discriminate|]. cbn [add_all] in H.
    destruct (add_branch read_body banned fuel c d []) as [c2|e2|p2|] eqn:Ea; try discriminate.
    - destruct (IH _ _ H) as [x [[r [Hin W]] O]]. exists x. split; [exists r; split; [right; exact Hin|exact W]|exact O].
    - injection H as <-. destruct (add_branch_err _ _ _ _ _ Ea) as [x [[W|[p [rest' [Ep _]]]] O]]; [|discriminate Ep].
      exists x. split; [exists d; split; [left; reflexivity|exact W]|exact O].
  Qed.

  Lemma top_level_placed forest d m : In d forest -> placed_in_forest forest (dir_error d m).
  Proof. intros H. exists d. split; [exists d; split; [exact H|constructor]|left; reflexivity]. Qed.

  Lemma collect_tags_err : forall ds c e forest,
    (forall x, In x ds -> In x forest) -> collect_tags c ds = CErr e -> placed_in_forest forest e.
  Proof.
    induction ds as [|d rest IH]; intros c e forest Hsub H; [discriminate|]. cbn [collect_tags] in H.
    assert (Hd : In d forest) by (apply Hsub; left; reflexivity).
    assert (Hr : forall x, In x rest -> In x forest) by (intros x Hx; apply Hsub; right; exact Hx).
    destruct (N.eqb (d_kind d) DirectiveTables.dir_TAG).
    - destruct (beq (named d KTagName) []); [errs H; injection H as <-; apply top_level_placed; exact Hd|].
      destruct (find_tag (c_tags c) (named d KTagName)); [errs H; injection H as <-; apply top_level_placed; exact Hd|].
      eapply IH; [exact Hr|exact H].
    - eapply IH; [exact Hr|exact H].
  Qed.

  Lemma dup_type_err : forall ds seen e forest, (forall x, In x ds -> In x forest) ->
    dup_type_error seen ds = Some e -> placed_in_forest forest e.
  Proof.
    induction ds as [|d rest IH]; intros seen e forest Hsub H; [discriminate|]. cbn [dup_type_error] in H.
    assert (Hd : In d forest) by (apply Hsub; left; reflexivity).
    assert (Hr : forall x, In x rest -> In x forest) by (intros x Hx; apply Hsub; right; exact Hx).
    destruct (N.eqb (d_kind d) DirectiveTables.dir_Type).
    - destruct (negb _ && existsb _ seen)%bool; [injection H as <-; apply top_level_placed; exact Hd|].
      eapply IH; [exact Hr|exact H].
    - eapply IH; [exact Hr|exact H].
  Qed.

  Lemma first_some_witness {A B} (f : A -> option B) l b :
    first_some f l = Some b -> exists a, In a l /\ f a = Some b.
  Proof.
    induction l as [|a l IH]; cbn [first_some]; [discriminate|].
    destruct (f a) as [b'|] eqn:E.
    - intros H. injection H as <-. exists a. split; [left; reflexivity|exact E].
    - intros H. destruct (IH H) as [a' [Hin Ha]]. exists a'. split; [right; exact Hin|exact Ha].
  Qed.

  Lemma type_without_body_err forest e : type_without_body forest = Some e -> placed_in_forest forest e.
  Proof.
    unfold type_without_body. intros H. apply first_some_witness in H as [n [_ H]].
    destruct (List.find _ (rev _)) as [d|] eqn:Ef; [|discriminate].
    apply find_in in Ef. apply in_rev in Ef. apply filter_In in Ef as [Hd _].
    destruct (_ && negb (has_body d))%bool; [|discriminate]. injection H as <-. apply top_level_placed. exact Hd.
  Qed.

  Lemma missed_path_err forest e : missed_path_errors forest = Some e -> placed_in_forest forest e.
  Proof.
    unfold missed_path_errors. intros H. apply first_some_witness in H as [d [Hd H]].
    destruct (_ && negb _)%bool; [|discriminate].
    destruct (dir_path d []) as [p|e0].
    - destruct (path_params_error p); [|discriminate]. injection H as <-. apply top_level_placed. exact Hd.
    - injection H as <-. apply top_level_placed. exact Hd.
  Qed.

  (* collectPaths: the Path directives anywhere in the trees *)
  Lemma collect_paths_err : forall fuel ds anc prev e,
    collect_paths fuel ds anc prev = inr e ->
    exists x, (exists r, In r ds /\ within x r) /\ on_or_in e x.
  Proof.
    induction fuel as [|fuel IH]; intros ds anc prev e H; [discriminate|].
    cbn [collect_paths] in H.
    revert prev H. induction ds as [|d rest IHd]; intros prev H; [discriminate|].
    destruct (N.eqb (d_kind d) DirectiveTables.dir_Macro).
    - destruct (IHd _ H) as [x [[r [Hin W]] O]]. exists x. split; [exists r; split; [right; exact Hin|exact W]|exact O].
    - match type of H with context [match ?here with inr e0 => inr e0 | inl p1 => _ end] => destruct here as [prev1|e1] eqn:Eh end.
      + destruct (collect_paths fuel (d_children d) (d :: anc) prev1) as [prev2|e2] eqn:Ec.
        * destruct (IHd _ H) as [x [[r [Hin W]] O]]. exists x. split; [exists r; split; [right; exact Hin|exact W]|exact O].
        * injection H as <-. destruct (IH _ _ _ _ Ec) as [x [[r [Hin W]] O]].
          exists x. split; [exists d; split; [left; reflexivity|eapply within_child; [exact Hin|exact W]]|exact O].
      + injection H as <-.
        assert (Hx : on_or_in e1 d).
        { left. clear -Eh. crush Eh; injection Eh as <-; reflexivity. }
        exists d. split; [exists d; split; [left; reflexivity|constructor]|exact Hx].
  Qed.

  Theorem build_errors_are_located_on_a_directive_of_the_forest :
    forall fuel forest e,
      build_catalog read_body banned fuel forest = CErr e ->
      placed_in_forest forest e \/
      (exists c0 c, add_all read_body banned fuel c0 forest = COk c /\ validate c = Some e).
  Proof.
    intros fuel forest e H. unfold build_catalog in H.
    destruct (collect_tags empty_catalog forest) as [c0|e0|p0|] eqn:Et; try discriminate.
    2:{ injection H as <-. left. eapply collect_tags_err; [|exact Et]. auto. }
    destruct (dup_type_error [] forest) as [e1|] eqn:Ed.
    { injection H as <-. left. eapply dup_type_err; [|exact Ed]. auto. }
    destruct (type_without_body forest) as [e1|] eqn:Ew.
    { injection H as <-. left. apply type_without_body_err. exact Ew. }
    destruct (collect_paths fuel forest [] None) as [pv|e1] eqn:Ep.
    2:{ injection H as <-. left. destruct (collect_paths_err _ _ _ _ _ Ep) as [x [W O]]. exists x. split; [exact W|exact O]. }
    destruct (missed_path_errors forest) as [e1|] eqn:Em.
    { injection H as <-. left. apply missed_path_err. exact Em. }
    match type of H with (if ?b then _ else _) = _ => destruct b end.
    - destruct forest as [|d rest]; [discriminate|]. errs H. injection H as <-. left. apply top_level_placed. left. reflexivity.
    - destruct (add_all read_body banned fuel c0 forest) as [c|e1|p1|] eqn:Ea; try discriminate.
      + destruct (validate c) as [e1|] eqn:Ev; [|discriminate]. injection H as <-. right. exists c0, c. split; [exact Ea|exact Ev].
      + injection H as <-. left. eapply add_all_err. exact Ea.
  Qed.
End Lift.

(* the hypothesis is met: a Query without a body below GET /a is refused, and the error sits on
   that Query directive, two levels down *)
Definition be_js := mkDir DirectiveTables.dir_Jsight (str "JSIGHT") (mkCoords 0 0 5) [(KVersion, str "0.3")] [] [] None false [] [].
Definition be_q := mkDir DirectiveTables.dir_Query (str "Query") (mkCoords 0 20 24) [] [] [] None false [] [].
Definition be_get := mkDir DirectiveTables.dir_Get (str "GET") (mkCoords 0 11 13) [(KPath, str "/a")] [] [] None false [] [be_q].
Example build_error_nonvacuous :
  exists e, build_catalog (fun _ => []) [] 10 [be_js; be_get] = CErr e /\ e_index e = 20 /\ on_dir e be_q.
Proof. eexists. split; [vm_compute; reflexivity|]. split; reflexivity. Qed.
