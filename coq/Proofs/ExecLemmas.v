(* ExecLemmas.v — generic facts about the action-language interpreter, valid for every
   program: static evaluation of byte-only conditions, flattening of a step function's body
   for a fixed input byte, truncation after the first return. *)
From JS Require Import Base Bytes Scanner.
From Coq Require Import Lia.
Open Scope Z_scope.

Section Lemmas.
  Variable prog : list (string * stmt).
  Variable nl_cond ws_cond : cond.
  Variable data : bytes.
  Variable olen : okind -> Z -> olen_res.

  Notation exec := (exec nl_cond ws_cond data olen).
  Notation eval_cond := (eval_cond nl_cond ws_cond data).

  (* conditions whose value depends on the byte only *)
  Fixpoint cond_static (c : byte) (k : cond) : option bool :=
    match k with
    | CByte b => Some (N.eqb c b)
    | CNewLine => eval_cond_simple c nl_cond
    | CWhitespace => eval_cond_simple c ws_cond
    | CPrevByte _ _ => None
    | CCtx _ => None
    | CNot a => option_map negb (cond_static c a)
    | CAnd a b =>
        match cond_static c a with
        | Some true => cond_static c b
        | Some false => Some false
        | None => None
        end
    | COr a b =>
        match cond_static c a with
        | Some false => cond_static c b
        | Some true => Some true
        | None => None
        end
    | CTrue => Some true
    end.

  Lemma cond_static_sound c k b :
    cond_static c k = Some b -> forall cf, eval_cond cf c k = Some b.
  Proof.
    revert b; induction k as [x| | |d x|q|a IHa|a IHa b0 IHb|a IHa b0 IHb|]; intros b H cf;
      cbn [cond_static] in H; cbn [Scanner.eval_cond]; try congruence.
    - destruct (cond_static c a) as [x|] eqn:E; cbn in H; [|discriminate].
      rewrite (IHa _ eq_refl cf). exact H.
    - destruct (cond_static c a) as [[|]|] eqn:E; try discriminate.
      + rewrite (IHa _ eq_refl cf). apply IHb; exact H.
      + rewrite (IHa _ eq_refl cf). exact H.
    - destruct (cond_static c a) as [[|]|] eqn:E; try discriminate.
      + rewrite (IHa _ eq_refl cf). exact H.
      + rewrite (IHa _ eq_refl cf). apply IHb; exact H.
  Qed.

  (* the primitive statements executed for byte [c], when every condition on the way is
     static; None otherwise *)
  Fixpoint flatten (c : byte) (s : stmt) : option (list stmt) :=
    match s with
    | SSkip => Some []
    | SSeq a b =>
        match flatten c a, flatten c b with
        | Some x, Some y => Some (x ++ y)
        | _, _ => None
        end
    | SIf k t e =>
        match cond_static c k with
        | Some true => flatten c t
        | Some false => flatten c e
        | None => None
        end
    | x => Some [x]
    end.

  Lemma exec_block_app c l1 l2 cf :
    exec c (block (l1 ++ l2)) cf =
    match exec c (block l1) cf with
    | FFall cf' => exec c (block l2) cf'
    | o => o
    end.
  Proof.
    revert cf; induction l1 as [|x l1 IH]; intros cf; cbn [app block fold_right Scanner.exec].
    - reflexivity.
    - fold (block (l1 ++ l2)). fold (block l1).
      destruct (exec c x cf); try reflexivity. apply IH.
  Qed.

  Lemma exec_block_single c x cf :
    exec c (block [x]) cf = exec c x cf.
  Proof.
    cbn [block fold_right Scanner.exec]. destruct (exec c x cf); reflexivity.
  Qed.

  Lemma flatten_sound c s l :
    flatten c s = Some l -> forall cf, exec c s cf = exec c (block l) cf.
  Proof.
    revert l;
      induction s as [st|st| | |ev off|dz|k t IHt e IHe|a IHa b IHb| |ok| |w e|m|st| ];
      intros l H cf; cbn [flatten] in H;
      try (injection H as <-; rewrite exec_block_single; reflexivity).
    - (* SIf *)
      destruct (cond_static c k) as [[|]|] eqn:E; try discriminate;
        cbn [Scanner.exec]; rewrite (cond_static_sound _ _ _ E cf); auto.
    - (* SSeq *)
      destruct (flatten c a) as [x|] eqn:E1; [|discriminate].
      destruct (flatten c b) as [y|] eqn:E2; [|discriminate].
      injection H as <-. rewrite exec_block_app. cbn [Scanner.exec].
      rewrite (IHa _ eq_refl cf). destruct (exec c (block x) cf); try reflexivity.
      apply IHb; reflexivity.
    - (* SSkip *)
      injection H as <-. reflexivity.
  Qed.

  Definition is_ret (s : stmt) : bool :=
    match s with
    | SRetNil | SRetErr _ _ | SRetErrBasic _ | SRetCall _ | SRetRedispatch => true
    | _ => false
    end.

  (* cut a straight-line list after its first return statement *)
  Fixpoint trunc (l : list stmt) : list stmt :=
    match l with
    | [] => []
    | x :: r => if is_ret x then [x] else x :: trunc r
    end.

  Lemma trunc_sound c l cf : exec c (block (trunc l)) cf = exec c (block l) cf.
  Proof.
    revert cf; induction l as [|x r IH]; intros cf; cbn [trunc]; [reflexivity|].
    destruct (is_ret x) eqn:R.
    - destruct x; try discriminate; reflexivity.
    - cbn [block fold_right Scanner.exec]. fold (block (trunc r)). fold (block r).
      destruct (exec c x cf); try reflexivity. apply IH.
  Qed.

  Definition flat (c : byte) (s : stmt) : option (list stmt) :=
    option_map trunc (flatten c s).

  Lemma flat_sound c s l :
    flat c s = Some l -> forall cf, exec c s cf = exec c (block l) cf.
  Proof.
    unfold flat. destruct (flatten c s) as [l0|] eqn:E; cbn; [|discriminate].
    intros H cf. injection H as <-. rewrite trunc_sound. apply flatten_sound; exact E.
  Qed.

End Lemmas.
