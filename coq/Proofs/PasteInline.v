(* PasteInline.v — PASTE is transparent: whenever MACRO/PASTE expansion succeeds, the expanded
   forest is exactly the forest obtained from the document in which every PASTE is replaced by
   the children of the named MACRO, recursively (a PASTE-free document), for every macro table,
   every forest and every state.  MACRO definitions themselves contribute nothing: they are
   removed by collect_macro (C10Proofs.v). *)
From JS Require Import Base Bytes Scanner Directive Core Expand.
From JS Require DirectiveTables.
From Coq Require Import Lia.
Open Scope Z_scope.

Section Inline.
  Variable enum_check : coords -> option (N * Z).
  Variable ms : macros.

  Notation expand_dir := (expand_dir enum_check ms).
  Notation expand_list := (expand_list enum_check ms).

  (* the document with the macro bodies written in place *)
  Fixpoint inline (fuel : nat) (d : dir) : list dir :=
    match fuel with
    | O => []
    | S f =>
        if N.eqb (d_kind d) DirectiveTables.dir_Paste then
          match macro_lookup ms (named d KName) with
          | Some m => flat_map (inline f) (d_children m)
          | None => []
          end
        else [with_children d (flat_map (inline f) (d_children d))]
    end.

  Fixpoint no_paste (d : dir) : bool :=
    match d with
    | mkDir k _ _ _ _ _ _ _ _ cs =>
        negb (N.eqb k DirectiveTables.dir_Paste) &&
        (fix go (l : list dir) : bool := match l with [] => true | x :: r => no_paste x && go r end) cs
    end.
  Lemma no_paste_unfold d : no_paste d = negb (N.eqb (d_kind d) DirectiveTables.dir_Paste) && forallb no_paste (d_children d).
  Proof. destruct d; reflexivity. Qed.

  (* forest and context only: the ENUM bookkeeping is not part of the forest *)
  Definition rel (a b : xstate) : Prop := x_forest a = x_forest b /\ x_ctx a = x_ctx b.

  Lemma rel_refl a : rel a a. Proof. split; reflexivity. Qed.
  Lemma rel_trans a b c : rel a b -> rel b c -> rel a c.
  Proof. intros [A1 A2] [B1 B2]. split; congruence. Qed.

  (* the nested loop of expand_dir is expand_list *)
  Lemma expand_dir_S f xs d :
    expand_dir (S f) xs d =
    if N.eqb (d_kind d) DirectiveTables.dir_Paste then
      match (if negb (beq (d_annot d) [])
             then CErr (dir_error d (msg1 ErrConsts.jerr_AnnotationIsForbiddenForTheDirective))
             else if beq (named d KName) [] then CErr (required_name d)
             else match macro_lookup ms (named d KName) with
                  | None => CErr (dir_error d (msg1 ErrConsts.jerr_MacroNotFound))
                  | Some m => match build_rules enum_check xs (d_children m) with
                              | COk xs1 => expand_list f xs1 (d_children m)
                              | r => r
                              end
                  end) with
      | CErr e => CErr (wrap_error d e)
      | r => r
      end
    else
      match attach (attach_fuel (x_ctx xs)) (x_forest xs) (x_ctx xs) (with_children d []) with
      | COk (f0, ctx) =>
          match expand_list f (mkX f0 ctx (x_enums xs)) (d_children d) with
          | COk xs2 => if d_explicit d then COk (mkX (x_forest xs2) (match ctx with Some p => parent_path p | None => None end) (x_enums xs2)) else COk xs2
          | r => r
          end
      | CErr e => CErr e
      | CPanic p => CPanic p
      | CFuel => CFuel
      end.
  Proof.
    cbn [Expand.expand_dir].
    set (go := fix go (xs : xstate) (ds : list dir) {struct ds} : cres xstate :=
                 match ds with
                 | [] => COk xs
                 | c :: r => match expand_dir f xs c with COk xs' => go xs' r | o => o end
                 end).
    assert (G : forall ds ys, go ys ds = expand_list f ys ds).
    { induction ds as [|c r IH]; intros ys; cbn [go Expand.expand_list]; [reflexivity|].
      destruct (expand_dir f ys c); try reflexivity. apply IH. }
    destruct (N.eqb (d_kind d) DirectiveTables.dir_Paste).
    - destruct (negb (beq (d_annot d) [])); [reflexivity|].
      destruct (beq (named d KName) []); [reflexivity|].
      destruct (macro_lookup ms (named d KName)); [|reflexivity].
      destruct (build_rules enum_check xs (d_children d0)); try reflexivity. rewrite G. destruct (expand_list f a (d_children d0)); reflexivity.
    - destruct (attach _ _ _ _) as [[f0 ctx]| | |]; try reflexivity. rewrite G. reflexivity.
  Qed.

  Lemma expand_list_app f a : forall b xs,
    expand_list f xs (a ++ b) = match expand_list f xs a with COk x1 => expand_list f x1 b | o => o end.
  Proof.
    induction a as [|c r IH]; intros b xs; cbn [app Expand.expand_list]; [reflexivity|].
    destruct (expand_dir f xs c); try reflexivity. apply IH.
  Qed.

  (* more fuel never changes a successful expansion *)
  Lemma expand_mono f : (forall xs d r, expand_dir f xs d = COk r -> expand_dir (S f) xs d = COk r) /\
                        (forall ds xs r, expand_list f xs ds = COk r -> expand_list (S f) xs ds = COk r).
  Proof.
    induction f as [|f [IHd IHl]].
    - assert (D : forall xs d r, expand_dir 0 xs d = COk r -> expand_dir 1 xs d = COk r) by (intros xs d r H; discriminate H).
      split; [exact D|].
      induction ds as [|c rest IH]; intros xs r H; cbn [Expand.expand_list] in *; [exact H|]. discriminate H.
    - assert (D : forall xs d r, expand_dir (S f) xs d = COk r -> expand_dir (S (S f)) xs d = COk r).
      { intros xs d r H. rewrite expand_dir_S in H. rewrite expand_dir_S.
        destruct (N.eqb (d_kind d) DirectiveTables.dir_Paste).
        - destruct (negb (beq (d_annot d) [])); [discriminate|].
          destruct (beq (named d KName) []); [discriminate|].
          destruct (macro_lookup ms (named d KName)) as [m|]; [|discriminate].
          destruct (build_rules enum_check xs (d_children m)) as [xs1| | |]; try discriminate.
          destruct (expand_list f xs1 (d_children m)) as [x2| | |] eqn:E; try discriminate.
          rewrite (IHl _ _ _ E). exact H.
        - destruct (attach _ _ _ _) as [[f0 ctx]| | |]; try discriminate.
          destruct (expand_list f (mkX f0 ctx (x_enums xs)) (d_children d)) as [x2| | |] eqn:E; try discriminate.
          rewrite (IHl _ _ _ E). exact H. }
      split; [exact D|].
      induction ds as [|c rest IH]; intros xs r H; cbn [Expand.expand_list] in *; [exact H|].
      destruct (expand_dir (S f) xs c) as [x1| | |] eqn:E; try discriminate.
      rewrite (D _ _ _ E). apply IH. exact H.
  Qed.

  Lemma build_rule_rel xs d xs' : build_rule enum_check xs d = COk xs' -> rel xs' xs.
  Proof.
    unfold build_rule. intros H.
    repeat (match type of H with
            | context [match ?x with _ => _ end] => destruct x; try discriminate H
            | context [if ?x then _ else _] => destruct x; try discriminate H
            end).
    all: injection H as <-; split; reflexivity.
  Qed.

  Lemma build_rules_rel ds : forall xs xs', build_rules enum_check xs ds = COk xs' -> rel xs' xs.
  Proof.
    induction ds as [|d ds IH]; intros xs xs' H; cbn [build_rules] in H; [injection H as <-; apply rel_refl|].
    destruct (build_rule enum_check xs d) as [xs1| | |] eqn:B; try discriminate.
    eapply rel_trans; [eapply IH; exact H|eapply build_rule_rel; exact B].
  Qed.

  Lemma with_children_twice d a : with_children (with_children d a) [] = with_children d [].
  Proof. destruct d; reflexivity. Qed.
  Lemma kind_wc d a : d_kind (with_children d a) = d_kind d. Proof. destruct d; reflexivity. Qed.
  Lemma explicit_wc d a : d_explicit (with_children d a) = d_explicit d. Proof. destruct d; reflexivity. Qed.
  Lemma children_wc d a : d_children (with_children d a) = a. Proof. destruct d; reflexivity. Qed.

  (* main lemma: a successful expansion is the expansion of the inlined directive *)
  Lemma expand_is_inline f :
    (forall xs d xs' ys, expand_dir f xs d = COk xs' -> rel xs ys ->
       exists ys', expand_list f ys (inline f d) = COk ys' /\ rel xs' ys') /\
    (forall ds xs xs' ys, expand_list f xs ds = COk xs' -> rel xs ys ->
       exists ys', expand_list f ys (flat_map (inline f) ds) = COk ys' /\ rel xs' ys').
  Proof.
    induction f as [|f [IHd IHl]].
    - split; [intros xs d xs' ys H; discriminate H|].
      induction ds as [|c r IH]; intros xs xs' ys H R; cbn [Expand.expand_list] in H; [|discriminate H].
      injection H as <-. exists ys. split; [reflexivity|exact R].
    - assert (D : forall xs d xs' ys, expand_dir (S f) xs d = COk xs' -> rel xs ys ->
                    exists ys', expand_list (S f) ys (inline (S f) d) = COk ys' /\ rel xs' ys').
      { intros xs d xs' ys H R. rewrite expand_dir_S in H. cbn [inline].
        destruct (N.eqb (d_kind d) DirectiveTables.dir_Paste) eqn:K.
        - destruct (negb (beq (d_annot d) [])); [discriminate|].
          destruct (beq (named d KName) []); [discriminate|].
          destruct (macro_lookup ms (named d KName)) as [m|]; [|discriminate].
          destruct (build_rules enum_check xs (d_children m)) as [xs1| | |] eqn:B; try discriminate.
          destruct (expand_list f xs1 (d_children m)) as [x2| | |] eqn:E; try discriminate. injection H as <-.
          pose proof (build_rules_rel _ _ _ B) as R1.
          destruct (IHl _ _ _ ys E (rel_trans _ _ _ R1 R)) as [ys' [E' R']].
          exists ys'. split; [apply (proj2 (expand_mono f)); exact E'|exact R'].
        - destruct (attach (attach_fuel (x_ctx xs)) (x_forest xs) (x_ctx xs) (with_children d [])) as [[f0 ctx]| | |] eqn:A; try discriminate.
          destruct (expand_list f (mkX f0 ctx (x_enums xs)) (d_children d)) as [x2| | |] eqn:E; try discriminate.
          assert (R0 : rel (mkX f0 ctx (x_enums xs)) (mkX f0 ctx (x_enums ys))) by (split; reflexivity).
          destruct (IHl _ _ _ _ E R0) as [w2 [E2 R2]].
          cbn [Expand.expand_list]. rewrite expand_dir_S. rewrite kind_wc, K, with_children_twice, explicit_wc, children_wc.
          destruct R as [RF RC]. rewrite <- RF, <- RC, A, E2.
          destruct (d_explicit d); injection H as <-; eexists; (split; [reflexivity|]).
          + destruct R2 as [R2 _]. split; [exact R2|reflexivity].
          + exact R2. }
      split; [exact D|].
      induction ds as [|c r IH]; intros xs xs' ys H R; cbn [Expand.expand_list flat_map] in *.
      + injection H as <-. exists ys. split; [reflexivity|exact R].
      + destruct (expand_dir (S f) xs c) as [x1| | |] eqn:E; try discriminate.
        destruct (D _ _ _ _ E R) as [y1 [E1 R1]]. destruct (IH _ _ _ H R1) as [y2 [E2 R2]].
        exists y2. split; [|exact R2]. rewrite expand_list_app, E1. exact E2.
  Qed.

  Lemma inline_no_paste f : forall d, forallb no_paste (inline f d) = true.
  Proof.
    induction f as [|f IH]; intros d; cbn [inline]; [reflexivity|].
    assert (L : forall ds, forallb no_paste (flat_map (inline f) ds) = true).
    { induction ds as [|c r IHr]; cbn [flat_map]; [reflexivity|]. rewrite forallb_app, IH, IHr. reflexivity. }
    destruct (N.eqb (d_kind d) DirectiveTables.dir_Paste) eqn:K.
    - destruct (macro_lookup ms (named d KName)) as [m|]; [apply L|reflexivity].
    - cbn [forallb]. rewrite no_paste_unfold, kind_wc, K, children_wc, L. reflexivity.
  Qed.

  (* on a PASTE-free forest the expansion never consults the macro table's rules: the ENUM
     bookkeeping stays as it was *)
  Lemma expand_no_paste_enums f :
    (forall xs d xs', no_paste d = true -> expand_dir f xs d = COk xs' -> x_enums xs' = x_enums xs) /\
    (forall ds xs xs', forallb no_paste ds = true -> expand_list f xs ds = COk xs' -> x_enums xs' = x_enums xs).
  Proof.
    induction f as [|f [IHd IHl]].
    - split; [intros xs d xs' _ H; discriminate H|].
      induction ds as [|c r IH]; intros xs xs' _ H; cbn [Expand.expand_list] in H; [injection H as <-; reflexivity|discriminate H].
    - assert (D : forall xs d xs', no_paste d = true -> expand_dir (S f) xs d = COk xs' -> x_enums xs' = x_enums xs).
      { intros xs d xs' NP H. rewrite expand_dir_S in H. rewrite no_paste_unfold in NP. apply andb_prop in NP as [NK NC].
        apply Bool.negb_true_iff in NK. rewrite NK in H.
        destruct (attach _ _ _ _) as [[f0 ctx]| | |]; try discriminate.
        destruct (expand_list f (mkX f0 ctx (x_enums xs)) (d_children d)) as [x2| | |] eqn:E; try discriminate.
        pose proof (IHl _ _ _ NC E) as E2. cbn [x_enums] in E2.
        destruct (d_explicit d); injection H as <-; exact E2. }
      split; [exact D|].
      induction ds as [|c r IH]; intros xs xs' NP H; cbn [Expand.expand_list forallb] in *; [injection H as <-; reflexivity|].
      apply andb_prop in NP as [N1 N2].
      destruct (expand_dir (S f) xs c) as [x1| | |] eqn:E; try discriminate.
      rewrite (IH _ _ N2 H). exact (D _ _ _ N1 E).
  Qed.
End Inline.

(* C10: whenever the MACRO/PASTE phase succeeds, its result is the forest of the PASTE-free
   document in which every PASTE is replaced by the body of the named MACRO, recursively *)
Theorem expanded_forest_is_the_inlined_document enum_check fuel roots ex :
  compile_macros enum_check fuel roots = XOk ex ->
  let doc := flat_map (inline (ex_macros ex) fuel) (ex_roots ex) in
  forallb no_paste doc = true /\
  exists ys, expand_list enum_check (ex_macros ex) fuel (mkX [] None []) doc = COk ys /\
             x_forest ys = ex_forest ex /\ x_enums ys = [].
Proof.
  unfold compile_macros. intros H.
  destruct (collect_macro roots [] []) as [[roots' ms]| | |]; try discriminate.
  destruct (check_recursion fuel ms); [discriminate|].
  destruct (expand_list enum_check ms fuel (mkX [] None []) roots') as [xs| | |] eqn:E; try discriminate.
  destruct (build_rules enum_check xs roots') as [xs'| | |] eqn:B; try discriminate.
  injection H as <-. cbn [ex_macros ex_roots ex_forest].
  assert (NP : forallb no_paste (flat_map (inline ms fuel) roots') = true).
  { induction roots' as [|c r IH]; cbn [flat_map]; [reflexivity|]. rewrite forallb_app, inline_no_paste.
    clear -r. induction r as [|c' r' IH']; cbn [flat_map]; [reflexivity|]. rewrite forallb_app, inline_no_paste. exact IH'. }
  split; [exact NP|].
  destruct (proj2 (expand_is_inline enum_check ms fuel) _ _ _ (mkX [] None []) E (rel_refl _)) as [ys [EY [RF RC]]].
  exists ys. split; [exact EY|]. split.
  - rewrite <- RF. symmetry. exact (proj1 (build_rules_rel enum_check _ _ _ B)).
  - exact (proj2 (expand_no_paste_enums enum_check ms fuel) _ _ _ NP EY).
Qed.

Print Assumptions expanded_forest_is_the_inlined_document.
