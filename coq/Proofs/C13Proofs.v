(* C13Proofs.v — the keyword theorems instantiated with the regenerated scanner program.
   The only lemmas that look at the program are the `…_ok` lemmas, closed by vm_compute;
   everything else follows from the generic lemmas of Keywords.v / KeywordsNext.v. *)
From JS Require Import Base Bytes Scanner Directive ListAux ExecLemmas Keywords KeywordsNext.
From JS Require ScannerProg DirectiveTables.
From Coq Require Import Lia.
Open Scope Z_scope.

Definition P := ScannerProg.prog_table.
Definition NL := ScannerProg.is_newline_cond.
Definition WS := ScannerProg.is_whitespace_cond.
Definition EK := ScannerProg.st_stateExpectKeyword.
Definition POA := ScannerProg.st_stateParameterOrAnnotation.

Definition digit_bytes : list N := [48; 49; 50; 51; 52; 53; 54; 55; 56; 57]%N.
Definition response_codes : list bytes :=
  flat_map (fun a => flat_map (fun b => List.map (fun c => [a; b; c]) digit_bytes) digit_bytes)
           [49; 50; 51; 52; 53]%N.

(* the 30 keywords of the directive table (every entry but the response-code pseudo entry)
   and the response codes 100–599 *)
Definition expected_words : list bytes := real_keywords ++ response_codes.

Definition terminators : list N := [32; 9; 10; 13; 0; 35; 47]%N.

Definition explore_fuel : nat := 16.

Definition explored_count : nat :=
  Eval vm_compute in
    match explore_start P NL WS EK POA expected_words explore_fuel with Some n => n | None => O end.

Lemma explore_ok : explore_start P NL WS EK POA expected_words explore_fuel = Some explored_count.
Proof. vm_compute. reflexivity. Qed.

Lemma accepts_all_ok : accepts_all P NL WS EK POA expected_words = true.
Proof. vm_compute. reflexivity. Qed.

Definition term_check : bool :=
  forallb (fun c => match after_kw P NL WS POA c with
                    | Some b => Bool.eqb b (existsb (N.eqb c) terminators)
                    | None => false
                    end) all_bytes.

Lemma term_check_ok : term_check = true.
Proof. vm_compute. reflexivity. Qed.

Definition known_check : bool :=
  forallb (fun w => match new_directive_type w with Some _ => true | None => false end) expected_words.
Definition codes_check : bool :=
  forallb (fun w => match new_directive_type w with
                    | Some k => N.eqb k DirectiveTables.dir_HTTPResponseCode
                    | None => false end) response_codes.
Definition words_check : bool :=
  forallb (fun w => match new_directive_type w with
                    | Some k => negb (N.eqb k DirectiveTables.dir_HTTPResponseCode)
                    | None => false end) real_keywords.
Definition count_check : bool :=
  Nat.eqb (List.length real_keywords) 30 && Nat.eqb (List.length response_codes) 500.
Definition nonzero_check : bool :=
  forallb (forallb (fun b => negb (N.eqb b 0))) expected_words.

Lemma known_check_ok : known_check = true.
Proof. vm_compute. reflexivity. Qed.
Lemma codes_check_ok : codes_check = true.
Proof. vm_compute. reflexivity. Qed.
Lemma words_check_ok : words_check = true.
Proof. vm_compute. reflexivity. Qed.
Lemma count_check_ok : count_check = true.
Proof. vm_compute. reflexivity. Qed.
Lemma nonzero_check_ok : nonzero_check = true.
Proof. vm_compute. reflexivity. Qed.

Section WithData.
  Variable data : bytes.
  Variable olen : okind -> Z -> olen_res.

  Notation next := (next P NL WS data olen).
  Notation run_step := (run_step P NL WS data olen).

  (* [w] occupies data[i .. i+|w|) *)
  Definition occurs_at (i : nat) (w : bytes) : Prop :=
    firstn (List.length w) (skipn i data) = w.

  Lemma occurs_at_pos i w :
    occurs_at i w -> Forall (fun b => b <> 0%N) w -> at_pos data i w.
  Proof.
    unfold occurs_at, at_pos, presents. intros H Hnz k c Hk. left. split.
    - rewrite <- H in Hk.
      assert (k < List.length w)%nat.
      { apply nth_error_Some. rewrite <- H at 1. congruence. }
      rewrite nth_error_firstn_lt in Hk by lia.
      rewrite nth_error_skipn' in Hk. exact Hk.
    - rewrite Forall_forall in Hnz. apply Hnz. eapply nth_error_In; eauto.
  Qed.

  Lemma expected_nonzero w : In w expected_words -> Forall (fun b => b <> 0%N) w.
  Proof.
    intros H. pose proof nonzero_check_ok as K. unfold nonzero_check in K.
    rewrite forallb_forall in K. specialize (K w H). rewrite forallb_forall in K.
    apply Forall_forall. intros b Hb. specialize (K b Hb).
    apply negb_true_iff in K. apply N.eqb_neq in K. exact K.
  Qed.

  (* (1) every keyword / response code at a directive start is returned as a Keyword lexeme
     with exact extent, and the scanner then expects parameters *)
  Theorem keyword_accepted :
    forall w i cf,
      In w expected_words -> occurs_at i w ->
      c_step cf = EK -> c_finds cf = [] -> c_cur cf = Z.of_nat i ->
      exists x,
        next cf = ROk (Some (mkLex LKeyword (Z.of_nat i) (Z.of_nat (i + List.length w) - 1)),
                       mkConf POA (x :: c_sstack cf) [] (c_estack cf) [] (Z.of_nat (i + List.length w))).
  Proof.
    intros w i cf Hin Hocc Hs Hf Hc.
    destruct (accepts_all_sound _ _ _ _ _ _ accepts_all_ok w Hin) as [x Hx].
    exists x. apply (next_keyword_accept P NL WS EK POA); auto.
    apply occurs_at_pos; auto. apply expected_nonzero; exact Hin.
  Qed.

  (* (2) nothing else is a keyword: whatever bytes are presented at a directive start, if
     the walk completes a keyword after k bytes then those k bytes are one of the expected
     words *)
  Theorem only_keywords_accepted :
    forall w k x, Forall (fun b => (b < 256)%N) w ->
      kw_run_start P NL WS EK POA w = RunAccept k x -> In (firstn k w) expected_words.
  Proof.
    intros w k x Hw H. apply kw_run_start_acc in H as [Hk Ha].
    eapply (explore_start_sound _ _ _ _ _ _ _ _ explore_ok); eauto.
    apply Forall_forall. intros b Hb. rewrite Forall_forall in Hw. apply Hw.
    eapply In_firstn; eauto.
  Qed.

  (* (3) a refused byte is an error exactly there, and it is the first deviating byte: no
     expected word starts with the bytes up to and including it *)
  Theorem deviation_is_error :
    forall w i k a b cf,
      at_pos data i w -> (List.length w <= List.length data + 1)%nat ->
      kw_run_start P NL WS EK POA w = RunReject k a b ->
      c_step cf = EK -> c_finds cf = [] -> c_cur cf = Z.of_nat i ->
      next cf = RErr (EUnexpected a b (Z.of_nat (i + k)) (eof_flag data (i + k)))
      /\ forall v, In v expected_words -> is_prefix (firstn (S k) w) v = false.
  Proof.
    intros w i k a b cf Hpos Hlen Hrun Hs Hf Hc. split.
    - apply (next_keyword_reject P NL WS EK POA data olen w); auto.
    - intros v Hv. destruct (is_prefix (firstn (S k) w) v) eqn:E; [|reflexivity].
      exfalso.
      destruct (accepts_all_sound _ _ _ _ _ _ accepts_all_ok v Hv) as [x Hx].
      apply (kw_acc_start_no_reject _ _ _ _ _ _ _ Hx (firstn (S k) w) k a b E).
      apply kw_run_start_firstn; exact Hrun.
  Qed.

  (* (4) after a keyword the next byte must be a terminator *)
  Theorem terminator_required :
    forall c cf f, (c < 256)%N -> c_sstack cf <> [] ->
      (existsb (N.eqb c) terminators = true -> exists cf', run_step (S f) POA c cf = ROk cf') /\
      (existsb (N.eqb c) terminators = false ->
         exists a b, run_step (S f) POA c cf = RErr (mk_unexpected data cf a b)).
  Proof.
    intros c cf f Hc Hs.
    pose proof term_check_ok as T. unfold term_check in T. rewrite forallb_forall in T.
    specialize (T c (in_all_bytes c Hc)).
    destruct (after_kw P NL WS POA c) as [b|] eqn:A; [|discriminate].
    apply Bool.eqb_prop in T. subst b. split; intros E; rewrite E in A.
    - eapply after_kw_true; eauto.
    - eapply after_kw_false; eauto.
  Qed.

End WithData.

(* (5) the scanner's keywords and the directive table agree *)
Theorem keywords_known :
  forall w, In w expected_words -> exists k, new_directive_type w = Some k.
Proof.
  intros w H. pose proof known_check_ok as K. unfold known_check in K.
  rewrite forallb_forall in K. specialize (K w H).
  destruct (new_directive_type w); [eauto|discriminate].
Qed.

Theorem response_codes_known :
  forall w, In w response_codes -> new_directive_type w = Some DirectiveTables.dir_HTTPResponseCode.
Proof.
  intros w H. pose proof codes_check_ok as K. unfold codes_check in K.
  rewrite forallb_forall in K. specialize (K w H).
  destruct (new_directive_type w) as [k|]; [|discriminate].
  apply N.eqb_eq in K. subst. reflexivity.
Qed.

Theorem expected_words_count :
  List.length real_keywords = 30%nat /\ List.length response_codes = 500%nat.
Proof.
  pose proof count_check_ok as K. unfold count_check in K.
  apply andb_prop in K as [K1 K2]. split; apply Nat.eqb_eq; assumption.
Qed.
