(* InFile.v — every lexeme lies inside the file, for every input: 0 <= Begin and End <= size - 1
   (with ExtentSafe: Begin <= End + 1, hence Lexeme.Value() never slices outside the file).
   No inferred table is needed: every event position found by a step function is checked on
   every path against what the path knows: the cursor is inside [0, size] when a step starts, it
   is below size when the byte under it is known not to be the end-of-file byte, explicit
   cursor moves are rewinds, and the schema-length oracle never reads past the end of the file
   (ORACLE CONTRACT, hypothesis of the theorems: olen k p = OLen n -> 0 < n -> p + n <= size). *)
From JS Require Import Base Bytes Scanner ScanRun.
From JS Require ScannerProg LexemeEvents.
From Coq Require Import Lia.
Open Scope Z_scope.

Record actx := mkCtx { a_lo : Z; a_eq : option N; a_ne : list N; a_nz : bool; a_moved : bool }.

Definition known_nonzero (c : actx) : bool :=
  a_nz c || existsb (N.eqb 0) (a_ne c) || match a_eq c with Some x => negb (N.eqb x 0) | None => false end.

Fixpoint cond_false (c : actx) (k : cond) : bool :=
  match k with
  | CByte b => existsb (N.eqb b) (a_ne c) || match a_eq c with Some x => negb (N.eqb x b) | None => false end
  | CAnd a b => cond_false c a || cond_false c b
  | COr a b => cond_false c a && cond_false c b
  | _ => false
  end.

(* if the condition holds, the byte is certainly not 0 *)
Fixpoint implies_nonzero (k : cond) : bool :=
  match k with
  | CByte b => negb (N.eqb b 0)
  | COr a b => implies_nonzero a && implies_nonzero b
  | CAnd a b => implies_nonzero a || implies_nonzero b
  | _ => false
  end.

(* what a path learns when the condition is true / false *)
Fixpoint learn (pos : bool) (c : actx) (k : cond) : actx :=
  match k, pos with
  | CByte b, true => mkCtx (a_lo c) (Some b) (a_ne c) (a_nz c) (a_moved c)
  | CByte b, false => mkCtx (a_lo c) (a_eq c) (b :: a_ne c) (a_nz c) (a_moved c)
  | CNot a, _ => learn (negb pos) c a
  | CAnd a b, true => learn true (learn true c a) b
  | COr a b, false => learn false (learn false c a) b
  | COr a b, true => if implies_nonzero k then mkCtx (a_lo c) (a_eq c) (a_ne c) true (a_moved c) else c
  | _, _ => c
  end.

Definition found_ok (c : actx) (ev : event) (off : Z) : bool :=
  if LexemeEvents.ev_IsBeginning ev then 0 <=? a_lo c + off
  else ((off <=? -1) || ((off <=? 0) && known_nonzero c)) &&
       (LexemeEvents.ev_IsEnding ev || (0 <=? a_lo c + off)).

Section Chk.
  Variable prog : list (string * stmt).

  Fixpoint chk (fuel : nat) (s : stmt) (c : actx) (k : actx -> bool) {struct fuel} : bool :=
    match fuel with
    | O => false
    | S fuel' =>
        match s with
        | SSkip => k c
        | SSeq a b => chk fuel' a c (fun c' => chk fuel' b c' k)
        | SIf cnd t e =>
            if cond_false c cnd then chk fuel' e (learn false c cnd) k
            else chk fuel' t (learn true c cnd) k && chk fuel' e (learn false c cnd) k
        | SSetStep _ | SPush _ | SPushCur | SPop => k c
        | SFound ev off => found_ok c ev off && k c
        | SAddCur dz => (dz <=? 0) && k (mkCtx (a_lo c + dz) (a_eq c) (a_ne c) (a_nz c) true)
        | SOracle _ => k (mkCtx (a_lo c) (a_eq c) (a_ne c) (a_nz c) true)
        | SRetNil => true
        | SRetRedispatch => negb (a_moved c)
        | SRetErr _ _ | SRetErrBasic _ => true
        | SRetCall st =>
            match nth_error prog (N.to_nat st) with
            | Some (_, body) => chk fuel' body c (fun _ => false)
            | None => false
            end
        end
    end.
End Chk.

Definition chk_state (prog : list (string * stmt)) (st : state) : bool :=
  match nth_error prog (N.to_nat st) with
  | Some (_, body) => chk prog 200 body (mkCtx 0 None [] false false) (fun _ => false)
  | None => false
  end.

Definition all_ok : bool :=
  forallb (fun i => chk_state ScannerProg.prog_table (N.of_nat i)) (seq 0 (List.length ScannerProg.prog_table)).

Lemma all_ok_ok : all_ok = true.
Proof. vm_compute. reflexivity. Qed.

(* ------------------------------------------------------------------------------------ *)
Section Sound.
  Variable prog : list (string * stmt).
  Variable nl_cond ws_cond : cond.
  Variable data : bytes.
  Variable olen : okind -> Z -> olen_res.
  Hypothesis OK : forall st name body, nth_error prog (N.to_nat st) = Some (name, body) -> chk_state prog st = true.
  (* ORACLE CONTRACT: the schema-length oracle never reads past the end of the file *)
  Hypothesis ORACLE : forall k p n, olen k p = OLen n -> 0 < n -> p + n <= data_size data.

  Definition pos_ok (e : event * Z) : Prop :=
    if LexemeEvents.ev_IsBeginning (fst e) then 0 <= snd e
    else snd e <= data_size data - 1 /\ (LexemeEvents.ev_IsEnding (fst e) = false -> 0 <= snd e).

  Definition InvP (cf : conf) : Prop := Forall pos_ok (c_finds cf) /\ Forall pos_ok (c_estack cf).

  Section Body.
    Variable ch : byte.
    Variable cf0 : conf.
    Hypothesis E1 : 0 <= c_cur cf0.

    Definition known (c : actx) : Prop :=
      (forall x, a_eq c = Some x -> ch = x) /\ (forall b, In b (a_ne c) -> ch <> b) /\ (a_nz c = true -> ch <> 0%N).

    Definition R (cf : conf) (c : actx) : Prop :=
      InvP cf /\ known c /\
      c_cur cf <= data_size data /\ (ch <> 0%N -> c_cur cf <= data_size data - 1) /\
      c_cur cf0 + a_lo c <= c_cur cf /\ (a_moved c = false -> c_cur cf = c_cur cf0).

    Lemma known_nonzero_sound c : known c -> known_nonzero c = true -> ch <> 0%N.
    Proof.
      intros [K1 [K2 K3]] H. unfold known_nonzero in H.
      apply orb_prop in H as [H|H]; [apply orb_prop in H as [H|H]|].
      - apply K3. exact H.
      - apply existsb_exists in H as [x [Hin E]]. apply N.eqb_eq in E. subst x. apply K2. exact Hin.
      - destruct (a_eq c) as [x|] eqn:E; [|discriminate]. rewrite (K1 _ eq_refl).
        intros ->. discriminate.
    Qed.

    Lemma cond_false_sound cf c k : known c -> cond_false c k = true ->
      eval_cond nl_cond ws_cond data cf ch k <> Some true.
    Proof.
      intros [K1 [K2 _]]. induction k; cbn [cond_false eval_cond]; intros F; try discriminate.
      - apply orb_prop in F as [F|F].
        + apply existsb_exists in F as [x [Hin E]]. apply N.eqb_eq in E. subst x.
          intros X. injection X as X. apply N.eqb_eq in X. exact (K2 _ Hin X).
        + destruct (a_eq c) as [x|] eqn:E; [|discriminate]. pose proof (K1 _ eq_refl) as ->.
          intros X. injection X as X. rewrite X in F. discriminate.
      - apply orb_prop in F as [F|F].
        + specialize (IHk1 F). destruct (eval_cond nl_cond ws_cond data cf ch k1) as [[|]|]; try discriminate. contradiction.
        + destruct (eval_cond nl_cond ws_cond data cf ch k1) as [[|]|]; try discriminate. apply IHk2. exact F.
      - apply andb_prop in F as [F1 F2]. specialize (IHk1 F1). specialize (IHk2 F2).
        destruct (eval_cond nl_cond ws_cond data cf ch k1) as [[|]|]; try discriminate; [contradiction|exact IHk2].
    Qed.

    Lemma implies_nonzero_sound cf k : implies_nonzero k = true ->
      eval_cond nl_cond ws_cond data cf ch k = Some true -> ch <> 0%N.
    Proof.
      induction k; cbn [implies_nonzero eval_cond]; intros F X; try discriminate.
      - injection X as X. apply N.eqb_eq in X. subst. intros ->. cbn in F. discriminate.
      - apply orb_prop in F as [F|F];
          destruct (eval_cond nl_cond ws_cond data cf ch k1) as [[|]|] eqn:A; try discriminate; eauto.
      - apply andb_prop in F as [F1 F2].
        destruct (eval_cond nl_cond ws_cond data cf ch k1) as [[|]|] eqn:A; try discriminate; eauto.
    Qed.

    Lemma learn_lo pos c k : a_lo (learn pos c k) = a_lo c /\ a_moved (learn pos c k) = a_moved c.
    Proof.
      revert pos c. induction k as [b| | |kk bb|q|k IHk|k1 IHk1 k2 IHk2|k1 IHk1 k2 IHk2|]; intros pos c; cbn [learn].
      - destruct pos; cbn [a_lo a_moved]; split; reflexivity.
      - destruct pos; split; reflexivity.
      - destruct pos; split; reflexivity.
      - destruct pos; split; reflexivity.
      - destruct pos; split; reflexivity.
      - apply IHk.
      - destruct pos; [|split; reflexivity]. destruct (IHk2 true (learn true c k1)) as [A B]. destruct (IHk1 true c) as [C D]. rewrite A, B. auto.
      - destruct pos.
        + destruct (implies_nonzero (COr k1 k2)); cbn [a_lo a_moved]; split; reflexivity.
        + destruct (IHk2 false (learn false c k1)) as [A B]. destruct (IHk1 false c) as [C D]. rewrite A, B. auto.
      - destruct pos; split; reflexivity.
    Qed.

    Lemma learn_known cf k : forall pos c, known c ->
      eval_cond nl_cond ws_cond data cf ch k = Some pos -> known (learn pos c k).
    Proof.
      induction k as [b| | |kk bb|q|k IHk|k1 IHk1 k2 IHk2|k1 IHk1 k2 IHk2|]; intros pos c K X; cbn [learn].
      - cbn [eval_cond] in X. injection X as X. destruct K as [K1 [K2 K3]]. destruct pos; unfold known; cbn [a_eq a_ne a_nz].
        + apply N.eqb_eq in X. repeat split; auto. intros x E. injection E as <-. exact X.
        + apply N.eqb_neq in X. repeat split; auto. intros b0 [<-|Hin]; [exact X|auto].
      - destruct pos; exact K.
      - destruct pos; exact K.
      - destruct pos; exact K.
      - destruct pos; exact K.
      - cbn [eval_cond] in X. destruct (eval_cond nl_cond ws_cond data cf ch k) as [b|] eqn:A; [|discriminate].
        cbn in X. injection X as <-. apply IHk; [exact K|]. rewrite Bool.negb_involutive. reflexivity.
      - cbn [eval_cond] in X. destruct pos; [|exact K].
        destruct (eval_cond nl_cond ws_cond data cf ch k1) as [[|]|] eqn:A; try discriminate.
        apply IHk2; [apply IHk1; [exact K|reflexivity]|exact X].
      - destruct pos.
        + destruct (implies_nonzero (COr k1 k2)) eqn:F; [|exact K].
          destruct K as [K1 [K2 K3]]. unfold known. cbn [a_eq a_ne a_nz]. repeat split; auto.
          intros _. eapply (implies_nonzero_sound cf (COr k1 k2)); eassumption.
        + cbn [eval_cond] in X. destruct (eval_cond nl_cond ws_cond data cf ch k1) as [[|]|] eqn:A; try discriminate.
          apply IHk2; [apply IHk1; [exact K|reflexivity]|exact X].
      - destruct pos; exact K.
    Qed.

    Notation exec := (exec nl_cond ws_cond data olen).

    Definition Goal_ (k : actx -> bool) (r : flow) : Prop :=
      match r with
      | FFall cf' => exists c', R cf' c' /\ k c' = true
      | FRet KNil cf' => InvP cf'
      | FRet KRedispatch cf' => InvP cf' /\ c_cur cf' = c_cur cf0
      | FRet (KCall st) cf' =>
          exists name body f c', nth_error prog (N.to_nat st) = Some (name, body) /\
                                 chk prog f body c' (fun _ => false) = true /\ R cf' c'
      | _ => True
      end.

    Lemma R_same cf cf' c :
      c_finds cf' = c_finds cf -> c_estack cf' = c_estack cf -> c_cur cf' = c_cur cf -> R cf c -> R cf' c.
    Proof. unfold R, InvP. intros -> -> ->. auto. Qed.

    Lemma R_learn cf c pos k : R cf c -> eval_cond nl_cond ws_cond data cf ch k = Some pos -> R cf (learn pos c k).
    Proof.
      intros [I [K [H1 [H2 [H3 H4]]]]] X. destruct (learn_lo pos c k) as [A B].
      pose proof (learn_known cf k pos c K X) as K'.
      unfold R. rewrite A, B. split; [exact I|split; [exact K'|split; [exact H1|split; [exact H2|split; [exact H3|exact H4]]]]].
    Qed.

    Lemma chk_sound fuel : forall s c k cf, chk prog fuel s c k = true -> R cf c -> Goal_ k (exec ch s cf).
    Proof.
      induction fuel as [|fuel IH]; intros s c k cf C HR; [discriminate|].
      destruct s; cbn [chk] in C; cbn [Scanner.exec Goal_].
      - exists c. split; [eapply R_same; [| | |exact HR]; reflexivity|exact C].
      - exists c. split; [eapply R_same; [| | |exact HR]; reflexivity|exact C].
      - exists c. split; [eapply R_same; [| | |exact HR]; reflexivity|exact C].
      - destruct (c_sstack cf); [exact I|]. exists c. split; [eapply R_same; [| | |exact HR]; reflexivity|exact C].
      - (* SFound *) apply andb_prop in C as [C1 C2].
        exists c. split; [|exact C2].
        destruct HR as [[If Ie] [K [H1 [H2 [H3 H4]]]]]. unfold R, InvP. cbn [c_finds c_estack c_cur set_finds].
        refine (conj (conj _ Ie) (conj K (conj H1 (conj H2 (conj H3 H4))))).
        apply Forall_app. split; [exact If|]. constructor; [|constructor].
        unfold pos_ok, found_ok in *. cbn [fst snd].
        destruct (LexemeEvents.ev_IsBeginning ev).
        + apply Z.leb_le in C1. lia.
        + apply andb_prop in C1 as [C1 C3]. split.
          * apply orb_prop in C1 as [C1|C1]; [apply Z.leb_le in C1; lia|].
            apply andb_prop in C1 as [C1 C4]. apply Z.leb_le in C1.
            pose proof (H2 (known_nonzero_sound c K C4)). lia.
          * intros NE. rewrite NE in C3. cbn [orb] in C3. apply Z.leb_le in C3. lia.
      - (* SAddCur *) apply andb_prop in C as [C1 C2]. apply Z.leb_le in C1.
        eexists. split; [|exact C2]. destruct HR as [[If Ie] [K [H1 [H2 [H3 H4]]]]].
        unfold R, InvP. cbn [a_lo a_eq a_ne a_nz a_moved c_finds c_estack c_cur set_cur].
        refine (conj (conj If Ie) (conj K (conj _ (conj _ (conj _ _))))); try lia; try discriminate; try (intros NZ; specialize (H2 NZ); lia).
      - (* SIf *)
        destruct (cond_false c c0) eqn:CF.
        { pose proof (cond_false_sound cf c c0 (proj1 (proj2 HR)) CF) as NT.
          destruct (eval_cond nl_cond ws_cond data cf ch c0) as [[|]|] eqn:EV; [contradiction| |exact I].
          eapply (IH s2 _ k cf C). eapply R_learn; eassumption. }
        apply andb_prop in C as [C1 C2].
        destruct (eval_cond nl_cond ws_cond data cf ch c0) as [[|]|] eqn:EV; [| |exact I].
        + eapply (IH s1 _ k cf C1). eapply R_learn; eassumption.
        + eapply (IH s2 _ k cf C2). eapply R_learn; eassumption.
      - (* SSeq *) pose proof (IH s1 c _ cf C HR) as A. unfold Goal_ in A.
        destruct (Scanner.exec nl_cond ws_cond data olen ch s1 cf) as [cf1|kk cf1|e|p] eqn:Ex1; try exact A.
        destruct A as [c1 [R1 K1]]. eapply IH; eassumption.
      - exists c. split; assumption.
      - (* SOracle *) destruct (olen k0 (c_cur cf)) as [n|] eqn:O; [|exact I].
        eexists. split; [|exact C]. destruct HR as [[If Ie] [K [H1 [H2 [H3 H4]]]]].
        unfold R, InvP. cbn [a_lo a_eq a_ne a_nz a_moved].
        destruct (0 <? n) eqn:Pn.
        + apply Z.ltb_lt in Pn. pose proof (ORACLE _ _ _ O Pn) as B. cbn [c_finds c_estack c_cur set_cur].
          refine (conj (conj If Ie) (conj K (conj _ (conj _ (conj _ _))))); try lia; try discriminate; try (intros _; lia).
        + refine (conj (conj If Ie) (conj K (conj H1 (conj H2 (conj H3 _))))). discriminate.
      - (* SRetNil *) exact (proj1 HR).
      - exact I.
      - exact I.
      - destruct (nth_error prog (N.to_nat st)) as [[name body]|] eqn:E; [|discriminate].
        exists name, body, fuel, c. split; [reflexivity|split; [exact C|exact HR]].
      - (* SRetRedispatch *) split; [exact (proj1 HR)|].
        destruct HR as [_ [_ [_ [_ [_ H4]]]]]. apply H4. destruct (a_moved c); [discriminate|reflexivity].
    Qed.
  End Body.

  Notation run_step := (run_step prog nl_cond ws_cond data olen).
  Definition fineE {A} (r : res A) (P : A -> Prop) : Prop := match r with ROk a => P a | _ => True end.

  Definition entry_ok (ch : byte) (cf : conf) : Prop :=
    0 <= c_cur cf /\ c_cur cf <= data_size data /\ (ch <> 0%N -> c_cur cf <= data_size data - 1).

  Definition modeB (fuel : nat) : Prop :=
    forall st ch cf cf0 c f name body,
      entry_ok ch cf0 ->
      nth_error prog (N.to_nat st) = Some (name, body) ->
      chk prog f body c (fun _ => false) = true -> R ch cf0 cf c ->
      fineE (run_step fuel st ch cf) InvP.

  Lemma modeA_from_B fuel : modeB fuel -> forall ch cf, InvP cf -> entry_ok ch cf ->
    fineE (run_step fuel (c_step cf) ch cf) InvP.
  Proof.
    intros B ch cf HI [E1 [E2 E3]].
    destruct (nth_error prog (N.to_nat (c_step cf))) as [[name body]|] eqn:E.
    - pose proof (OK _ _ _ E) as C. unfold chk_state in C. rewrite E in C.
      eapply (B (c_step cf) ch cf cf (mkCtx 0 None [] false false)); [repeat split; assumption|exact E|exact C|].
      unfold R, known. cbn [a_lo a_eq a_ne a_nz a_moved].
      refine (conj HI (conj (conj _ (conj _ _)) (conj E2 (conj E3 (conj _ _))))); try discriminate; try lia; try reflexivity.
      intros b [].
    - destruct fuel; cbn [Scanner.run_step]; [exact I|]. unfold body_of. rewrite E. exact I.
  Qed.

  Lemma modeB_all fuel : modeB fuel.
  Proof.
    induction fuel as [|fuel IH]; intros st ch cf cf0 c f name body H0 E C HR; cbn [Scanner.run_step]; [exact I|].
    unfold body_of. rewrite E. cbn [option_map snd].
    pose proof (chk_sound ch cf0 (proj1 H0) f body c _ cf C HR) as A. unfold Goal_ in A.
    destruct (Scanner.exec nl_cond ws_cond data olen ch body cf) as [cf1|kk cf1|e|p] eqn:X.
    - exact I.
    - destruct kk as [|st'|].
      + exact A.
      + destruct A as [name' [body' [f' [c' [E' [C' R']]]]]]. eapply IH; eassumption.
      + destruct A as [A Hcur]. apply modeA_from_B; [exact IH|exact A|].
        destruct H0 as [Z1 [Z2 Z3]]. unfold entry_ok. rewrite Hcur. auto.
    - exact I.
    - exact I.
  Qed.

  Theorem run_step_infile fuel ch cf : InvP cf -> entry_ok ch cf -> fineE (run_step fuel (c_step cf) ch cf) InvP.
  Proof. apply modeA_from_B. apply modeB_all. Qed.

  Definition lex_in (o : option lexeme) : Prop :=
    match o with Some l => 0 <= lb l /\ le l <= data_size data - 1 | None => True end.

  Lemma process_event_infile cf ev fs :
    c_finds cf = ev :: fs -> InvP cf ->
    match process_event (set_finds cf fs) ev with
    | ROk (o, cf') => InvP cf' /\ lex_in o /\ c_step cf' = c_step cf /\ c_cur cf' = c_cur cf
    | _ => True
    end.
  Proof.
    intros Ef [If Ie]. rewrite Ef in If. inversion If as [|? ? Pev Pfs]; subst.
    destruct ev as [t pos]. unfold Scanner.process_event. unfold pos_ok in Pev. cbn [fst snd] in Pev.
    destruct (LexemeEvents.ev_IsBeginning t) eqn:B.
    - unfold InvP. cbn [c_finds c_estack set_estack set_finds lex_in c_step c_cur].
      repeat split; try assumption. constructor; [|exact Ie]. unfold pos_ok. cbn [fst snd]. rewrite B. exact Pev.
    - destruct (LexemeEvents.ev_IsEnding t) eqn:En.
      + cbn [c_estack set_finds]. destruct (c_estack cf) as [|[bt bpos] es] eqn:Es; [exact I|].
        destruct (pair_ok bt t) eqn:PK; [|exact I].
        destruct (LexemeEvents.ev_ToLexemeType t); [|exact I].
        inversion Ie as [|? ? Pb Pes]; subst. unfold pos_ok in Pb. cbn [fst snd] in Pb.
        assert (Bb : LexemeEvents.ev_IsBeginning bt = true).
        { destruct bt, t; cbn in PK; try discriminate; reflexivity. }
        rewrite Bb in Pb.
        unfold InvP. cbn [c_finds c_estack set_estack set_finds lex_in lb le c_step c_cur].
        repeat split; try assumption. exact (proj1 Pev).
      + destruct (LexemeEvents.ev_IsSingle t); [|exact I].
        destruct (LexemeEvents.ev_ToLexemeType t); [|exact I].
        unfold InvP. cbn [c_finds c_estack set_finds lex_in lb le c_step c_cur].
        repeat split; try assumption; [apply (proj2 Pev); reflexivity|exact (proj1 Pev)].
  Qed.
End Sound.

Section Lift.
  Variable prog : list (string * stmt).
  Variable nl_cond ws_cond : cond.
  Variable data : bytes.
  Variable olen : okind -> Z -> olen_res.
  Hypothesis OK : forall st name body, nth_error prog (N.to_nat st) = Some (name, body) -> chk_state prog st = true.
  Hypothesis ORACLE : forall k p n, olen k p = OLen n -> 0 < n -> p + n <= data_size data.

  Notation InvP := (InvP data).
  Notation lex_in := (lex_in data).
  Notation next_loop := (next_loop prog nl_cond ws_cond data olen).
  Notation next := (next prog nl_cond ws_cond data olen).

  Definition fineL (r : res (option lexeme * conf)) : Prop :=
    match r with ROk (o, cf) => InvP cf /\ lex_in o | _ => True end.

  Lemma note_lexeme_inv cf l : InvP cf -> InvP (note_lexeme cf l).
  Proof. intros H. unfold note_lexeme. destruct (lk l); exact H. Qed.

  Lemma drain_infile k : forall cf, InvP cf -> fineL (drain k cf).
  Proof.
    induction k as [|k IH]; intros cf H; cbn [Scanner.drain fineL]; [split; [exact H|exact I]|].
    destruct (c_finds cf) as [|ev fs] eqn:Ef; [exact I|].
    pose proof (process_event_infile data cf ev fs Ef H) as P.
    destruct (Scanner.process_event (set_finds cf fs) ev) as [[[l|] cf']| |p|]; cbn [fineL]; try exact I.
    - destruct P as [P1 [P2 _]]. split; [apply note_lexeme_inv; exact P1|exact P2].
    - apply IH. exact (proj1 P).
  Qed.

  Lemma next_loop_infile fuel : forall cf, InvP cf -> fineL (next_loop fuel cf).
  Proof.
    induction fuel as [|fuel IH]; intros cf H; cbn [Scanner.next_loop]; [exact I|].
    destruct (data_size data <? c_cur cf) eqn:Fin; [split; [exact H|exact I]|].
    destruct (c_cur cf <? 0) eqn:Neg; [exact I|].
    apply Z.ltb_ge in Fin. apply Z.ltb_ge in Neg.
    assert (Step : forall ch, (ch <> 0%N -> c_cur cf <= data_size data - 1) ->
              fineL (match Scanner.run_step prog nl_cond ws_cond data olen step_fuel (c_step cf) ch cf with
                     | ROk cf1 =>
                         let cf2 := set_cur cf1 (c_cur cf1 + 1) in
                         match drain (List.length (c_finds cf2)) cf2 with
                         | ROk (None, cf3) => next_loop fuel cf3
                         | r => r
                         end
                     | RErr e => RErr e
                     | RPanic p => RPanic p
                     | RFuel => RFuel
                     end)).
    { intros ch H3.
      pose proof (run_step_infile prog nl_cond ws_cond data olen OK ORACLE step_fuel ch cf H (conj Neg (conj Fin H3))) as Rn.
      destruct (Scanner.run_step prog nl_cond ws_cond data olen step_fuel (c_step cf) ch cf) as [cf1| |p0|]; cbn [fineE] in *; try exact I.
      assert (H2 : InvP (set_cur cf1 (c_cur cf1 + 1))) by exact Rn.
      pose proof (drain_infile (List.length (c_finds (set_cur cf1 (c_cur cf1 + 1)))) _ H2) as D.
      destruct (Scanner.drain _ _) as [[[l|] cf3]| |p0|]; cbn [fineL] in *; try exact I; try exact D.
      apply IH. exact (proj1 D). }
    destruct (c_cur cf =? data_size data) eqn:AtEnd.
    - cbn [negb andb]. apply Step. intros NZ. exfalso. apply NZ. reflexivity.
    - cbn [negb andb]. apply Z.eqb_neq in AtEnd.
      destruct (byte_at data (c_cur cf)) as [b|] eqn:Bt.
      + destruct (N.eqb b 0) eqn:Zb; [exact I|]. apply Step. intros _. lia.
      + cbn [N.eqb]. exact I.
  Qed.

  Theorem next_infile cf : InvP cf -> fineL (next cf).
  Proof.
    intros H. unfold Scanner.next. destruct (c_finds cf) as [|ev fs] eqn:Ef; [apply next_loop_infile; exact H|].
    pose proof (process_event_infile data cf ev fs Ef H) as P.
    destruct (Scanner.process_event (set_finds cf fs) ev) as [[[l|] cf']| |p|]; cbn [fineL]; try exact I.
    - destruct P as [P1 [P2 _]]. split; assumption.
    - apply next_loop_infile. exact (proj1 P).
  Qed.
End Lift.

Lemma prog_ok : forall st name body,
  nth_error ScannerProg.prog_table (N.to_nat st) = Some (name, body) -> chk_state ScannerProg.prog_table st = true.
Proof.
  intros st name body E.
  pose proof all_ok_ok as A. unfold all_ok in A. rewrite forallb_forall in A.
  assert (Hlt : (N.to_nat st < List.length ScannerProg.prog_table)%nat) by (apply nth_error_Some; congruence).
  specialize (A (N.to_nat st)). rewrite N2Nat.id in A. apply A. apply in_seq. lia.
Qed.

(* the oracle contract for a recorded answer table *)
Definition table_in_file (data : bytes) (tbl : list (okind * Z * olen_res)) : Prop :=
  forall k p n, olen_of_table tbl k p = OLen n -> 0 < n -> p + n <= data_size data.

(* the regenerated program, any input, any number of Next() calls, any oracle table that does not
   claim a schema longer than the rest of the file: every lexeme lies inside the file *)
Theorem lexemes_lie_inside_the_file data tbl fuel :
  table_in_file data tbl ->
  let '(ls, _, _) := lex_traj data tbl fuel (init_conf ScannerProg.initial_state) in
  Forall (fun l => 0 <= lb l /\ le l <= data_size data - 1) ls.
Proof.
  intros TB.
  assert (G : forall fuel cf, InvP data cf ->
              let '(ls, _, _) := lex_traj data tbl fuel cf in Forall (fun l => 0 <= lb l /\ le l <= data_size data - 1) ls).
  { clear fuel. induction fuel as [|fuel IH]; intros cf H; cbn [lex_traj]; [constructor|].
    pose proof (next_infile ScannerProg.prog_table ScannerProg.is_newline_cond ScannerProg.is_whitespace_cond data
                            (olen_of_table tbl) prog_ok TB cf H) as N.
    unfold the_next.
    destruct (next ScannerProg.prog_table ScannerProg.is_newline_cond ScannerProg.is_whitespace_cond data (olen_of_table tbl) cf)
      as [[[l|] cf']| |p|]; cbn [fineL] in N; try constructor.
    destruct N as [N1 N2]. specialize (IH cf' N1). destruct (lex_traj data tbl fuel cf') as [[ls e] tr].
    constructor; [exact N2|exact IH]. }
  apply G. split; constructor.
Qed.
