(* C02Proofs.v — nothing is attached to the wrong interaction: updates of the catalog model
   are local to the interaction whose id is derived from the parent chain, keep the document
   order of interactions, and ids are protocol + method + path of that chain. *)
From JS Require Import Base Bytes Scanner Directive Core Expand Catalog C05Proofs.
From JS Require DirectiveTables.
Open Scope Z_scope.

(* an update addressed to [id] leaves every other interaction exactly as it was *)
Theorem update_is_local is id id' f :
  id' <> id -> (forall i, inter_id (f i) = inter_id i) ->
  find_inter (update_inter is id f) id' = find_inter is id'.
Proof.
  intros Hne Hf. induction is as [|i r IH]; cbn [update_inter find_inter]; [reflexivity|].
  destruct (beq (inter_id i) id) eqn:E.
  - cbn [find_inter]. rewrite Hf.
    apply beq_true_eq in E. rewrite E.
    rewrite (beq_ne_false id id') by congruence. reflexivity.
  - cbn [find_inter]. destruct (beq (inter_id i) id'); [reflexivity|exact IH].
Qed.

(* updates never reorder, add or drop interactions *)
Theorem update_keeps_order is id f :
  (forall i, inter_id (f i) = inter_id i) ->
  List.map inter_id (update_inter is id f) = List.map inter_id is.
Proof.
  intros Hf. induction is as [|i r IH]; cbn [update_inter List.map]; [reflexivity|].
  destruct (beq (inter_id i) id); cbn [List.map]; [rewrite Hf|rewrite IH]; reflexivity.
Qed.

(* the id of an HTTP interaction: protocol, the method directive's own keyword, and its own
   path or - when it has none - the path of the URL it stands in *)
Theorem method_id_own_path d anc p :
  is_http_request_method (d_kind d) = true -> N.eqb (d_kind d) DirectiveTables.dir_URL = false ->
  named d KPath = 47%N :: p ->
  http_id d anc = inl (str "http " ++ kind_name (d_kind d) ++ sp ++ 47%N :: p, kind_name (d_kind d), 47%N :: p).
Proof.
  intros Hm Hu Hp. unfold http_id.
  destruct anc as [|a rest]; cbn [dir_path dir_method]; unfold is_method; rewrite Hu, Hm, Hp; reflexivity.
Qed.

Theorem method_id_from_url d u rest p :
  is_http_request_method (d_kind d) = true -> N.eqb (d_kind d) DirectiveTables.dir_URL = false ->
  named d KPath = [] ->
  N.eqb (d_kind u) DirectiveTables.dir_URL = true -> named u KPath = 47%N :: p ->
  http_id d (u :: rest) = inl (str "http " ++ kind_name (d_kind d) ++ sp ++ 47%N :: p, kind_name (d_kind d), 47%N :: p).
Proof.
  intros Hm Hu Hp Huu Hup. unfold http_id.
  cbn [dir_path dir_method]. unfold is_method. rewrite Hu, Hm, Hp. cbn [beq N_eqb_list].
  destruct rest; cbn [dir_path]; rewrite Huu, Hup; reflexivity.
Qed.
