(* C16Proofs.v — every accessor returns, after any call history, what it returns on a freshly
   built catalog (model of the lazily computed state, Model/Lazy.v); the two repaired
   behaviours (F9', F16) are refuted as regression witnesses. *)
From JS Require Import Lazy.
From Coq Require Import List Bool Arith Lia.
Import ListNotations.

(* reachable cells *)
Definition cell_ok (d : sdesc) (l : lstate) : Prop :=
  match sd_kind d with
  | KPseudo => True
  | KJsight => l_cell l = LzNone \/ (l_cell l = LzDone /\ sd_fails d = false) \/ (l_cell l = LzErr /\ sd_fails d = true)
  | KRegex => (l_cell l = LzNone /\ l_draws l = 0) \/ (l_cell l = LzDone /\ l_draws l = 1)
  end.
Definition Inv (ds : list sdesc) (st : list lstate) : Prop := Forall2 cell_ok ds st.

(* what marshalling returns, as a function of the catalog alone *)
Fixpoint mspec (i : nat) (ds : list sdesc) (ex : list nat) : option nat * list nat :=
  match ds with
  | [] => (None, ex)
  | d :: ds' =>
      match sd_kind d with
      | KJsight => if sd_fails d then (Some i, ex) else mspec (S i) ds' ex
      | KRegex => mspec (S i) ds' (ex ++ [0])
      | KPseudo => mspec (S i) ds' ex
      end
  end.

Lemma fresh_inv ds : Inv ds (fresh ds).
Proof.
  unfold Inv, fresh. induction ds as [|d ds IH]; cbn [List.map]; constructor; [|exact IH].
  unfold cell_ok. destruct (sd_kind d); cbn; auto.
Qed.

Lemma marshal_all_spec ds : forall st i ex,
  Inv ds st ->
  exists st', marshal_all current i ds st ex [] = (st', (fst (mspec i ds ex), snd (mspec i ds ex), [])) /\ Inv ds st'.
Proof.
  induction ds as [|d ds IH]; intros st i ex H; inversion H as [|? l ? st0 Hd Hrest]; subst.
  - exists []. split; [reflexivity|constructor].
  - cbn [marshal_all mspec]. unfold marshal_one, cell_ok in *.
    destruct (sd_kind d) eqn:K.
    + (* JSight *)
      destruct Hd as [Hc|[[Hc Hf]|[Hc Hf]]]; rewrite Hc.
      * destruct (sd_fails d) eqn:F.
        -- eexists. split; [reflexivity|]. constructor; [|exact Hrest].
           unfold cell_ok. rewrite K. cbn. right. right. split; [reflexivity|exact F].
        -- destruct (IH st0 (S i) ex Hrest) as [st' [E I']]. rewrite E.
           eexists. split; [reflexivity|]. constructor; [|exact I'].
           unfold cell_ok. rewrite K. cbn. right. left. split; [reflexivity|exact F].
      * rewrite Hf. destruct (IH st0 (S i) ex Hrest) as [st' [E I']]. rewrite E.
        eexists. split; [reflexivity|]. constructor; [|exact I'].
        unfold cell_ok. rewrite K. right. left. split; assumption.
      * rewrite Hf. cbn [current keep_error]. eexists. split; [reflexivity|]. constructor; [|exact Hrest].
        unfold cell_ok. rewrite K. right. right. split; assumption.
    + (* regex *)
      destruct Hd as [[Hc Hn]|[Hc Hn]]; rewrite Hc, Hn; cbn [current cache_example Nat.sub].
      * destruct (IH st0 (S i) (ex ++ [0]) Hrest) as [st' [E I']]. rewrite E.
        eexists. split; [reflexivity|]. constructor; [|exact I'].
        unfold cell_ok. rewrite K. cbn. right. split; reflexivity.
      * destruct (IH st0 (S i) (ex ++ [0]) Hrest) as [st' [E I']]. rewrite E.
        eexists. split; [reflexivity|]. constructor; [|exact I'].
        unfold cell_ok. rewrite K. right. split; assumption.
    + (* pseudo *)
      destruct (IH st0 (S i) ex Hrest) as [st' [E I']]. rewrite E.
      eexists. split; [reflexivity|]. constructor; [|exact I'].
      unfold cell_ok. rewrite K. exact I.
Qed.

(* the result of an accessor as a function of the catalog alone *)
Definition spec (ds : list sdesc) (a : acc) : result :=
  match a with
  | AJ => match fst (mspec 0 ds []) with Some i => RErrAt i | None => RJson false (snd (mspec 0 ds [])) end
  | AJI => match fst (mspec 0 ds []) with Some i => RErrAt i | None => RJson true (snd (mspec 0 ds [])) end
  | AO => ROpenApi false
  | AOI => ROpenApi true
  | AT => RTitle
  end.

Lemma call_spec ds st a : Inv ds st ->
  snd (call current ds st a) = spec ds a /\ Inv ds (fst (call current ds st a)).
Proof.
  intros H. destruct a; cbn [call spec]; try (split; [reflexivity|exact H]).
  - destruct (marshal_all_spec ds st 0 [] H) as [st' [E I]]. rewrite E.
    destruct (fst (mspec 0 ds [])); cbn [fst snd]; split; try reflexivity; exact I.
  - destruct (marshal_all_spec ds st 0 [] H) as [st' [E I]]. rewrite E.
    destruct (fst (mspec 0 ds [])); cbn [fst snd]; split; try reflexivity; exact I.
Qed.

Lemma run_inv ds h : forall st, Inv ds st ->
  Inv ds (fst (run current ds st h)) /\ snd (run current ds st h) = List.map (spec ds) h.
Proof.
  induction h as [|a h IH]; intros st H; cbn [run List.map].
  - split; [exact H|reflexivity].
  - destruct (call_spec ds st a H) as [R I].
    destruct (call current ds st a) as [st1 r] eqn:C. cbn [fst snd] in R, I.
    destruct (IH st1 I) as [I2 R2].
    destruct (run current ds st1 h) as [st2 rs] eqn:Rn. cbn [fst snd] in *.
    split; [exact I2|]. rewrite R, R2. reflexivity.
Qed.

(* every call of every history returns what the accessor returns on a fresh catalog *)
Theorem every_call_is_the_fresh_call ds h :
  snd (run current ds (fresh ds) h) = List.map (fun a => snd (call current ds (fresh ds) a)) h.
Proof.
  destruct (run_inv ds h (fresh ds) (fresh_inv ds)) as [_ R]. rewrite R.
  apply map_ext. intros a. symmetry. apply call_spec. apply fresh_inv.
Qed.

(* ... so the result of an accessor does not depend on what was called before *)
Theorem history_independent ds h1 h2 a :
  snd (call current ds (fst (run current ds (fresh ds) h1)) a) =
  snd (call current ds (fst (run current ds (fresh ds) h2)) a).
Proof.
  destruct (run_inv ds h1 (fresh ds) (fresh_inv ds)) as [I1 _].
  destruct (run_inv ds h2 (fresh ds) (fresh_inv ds)) as [I2 _].
  destruct (call_spec ds _ a I1) as [R1 _]. destruct (call_spec ds _ a I2) as [R2 _].
  rewrite R1, R2. reflexivity.
Qed.

(* serialising twice changes nothing more: the lazy state after a ToJson is a fixpoint *)
Theorem to_json_settles ds st :
  Inv ds st ->
  let st1 := fst (call current ds st AJ) in
  fst (call current ds st1 AJ) = st1.
Proof.
  intros H st1. subst st1. cbn [call].
  destruct (marshal_all_spec ds st 0 [] H) as [st' [E I]]. rewrite E.
  assert (Hs : forall ds st i ex ex' st' r, Forall2 cell_ok ds st ->
             marshal_all current i ds st ex [] = (st', r) ->
             exists r', marshal_all current i ds st' ex' [] = (st', r')).
  { clear. induction ds as [|d ds IH]; intros st i ex ex' st' r H M; inversion H as [|? l ? st0 Hd Hrest]; subst.
    - cbn in M. injection M as <- _. eexists. reflexivity.
    - cbn [marshal_all] in M. unfold marshal_one, cell_ok in *.
      destruct (sd_kind d) eqn:K.
      + destruct Hd as [Hc|[[Hc Hf]|[Hc Hf]]]; rewrite Hc in M.
        * destruct (sd_fails d) eqn:F.
          -- injection M as <- _. cbn [marshal_all]. unfold marshal_one. rewrite K. cbn. eexists. reflexivity.
          -- destruct (marshal_all current (S i) ds st0 ex []) as [rest r0] eqn:Mr. injection M as <- _.
             destruct (IH _ _ _ ex' _ _ Hrest Mr) as [r' E']. cbn [marshal_all]. unfold marshal_one. rewrite K. cbn [l_cell].
             rewrite E'. eexists. reflexivity.
        * destruct (marshal_all current (S i) ds st0 ex []) as [rest r0] eqn:Mr. injection M as <- _.
          destruct (IH _ _ _ ex' _ _ Hrest Mr) as [r' E']. cbn [marshal_all]. unfold marshal_one. rewrite K, Hc.
          rewrite E'. eexists. reflexivity.
        * cbn [current keep_error] in M. injection M as <- _. cbn [marshal_all]. unfold marshal_one. rewrite K, Hc. cbn. eexists. reflexivity.
      + destruct Hd as [[Hc Hn]|[Hc Hn]]; rewrite Hc in M; cbn [current cache_example] in M.
        * destruct (marshal_all current (S i) ds st0 (ex ++ [l_draws l]) []) as [rest r0] eqn:Mr. injection M as <- _.
          destruct (IH _ _ _ (ex' ++ [S (l_draws l) - 1]) _ _ Hrest Mr) as [r' E']. cbn [marshal_all]. unfold marshal_one. rewrite K. cbn [l_cell l_draws].
          rewrite E'. eexists. reflexivity.
        * destruct (marshal_all current (S i) ds st0 (ex ++ [l_draws l - 1]) []) as [rest r0] eqn:Mr. injection M as <- _.
          destruct (IH _ _ _ (ex' ++ [l_draws l - 1]) _ _ Hrest Mr) as [r' E']. cbn [marshal_all]. unfold marshal_one. rewrite K, Hc.
          rewrite E'. eexists. reflexivity.
      + destruct (marshal_all current (S i) ds st0 ex []) as [rest r0] eqn:Mr. injection M as <- _.
        destruct (IH _ _ _ ex' _ _ Hrest Mr) as [r' E']. cbn [marshal_all]. unfold marshal_one. rewrite K.
        rewrite E'. eexists. reflexivity. }
  destruct (fst (mspec 0 ds [])) eqn:F; cbn [fst].
  - destruct (Hs ds st 0 [] [] st' _ H E) as [r' E']. rewrite E'. destruct r' as [[e x] nl]. destruct e; [reflexivity|]. destruct nl; reflexivity.
  - destruct (Hs ds st 0 [] [] st' _ H E) as [r' E']. rewrite E'. destruct r' as [[e x] nl]. destruct e; [reflexivity|]. destruct nl; reflexivity.
Qed.

(* the behaviour before the repairs violates the property *)
Theorem old_once_error_refuted :
  exists ds, snd (run (mkSem false true) ds (fresh ds) [AJ; AJ]) = [RErrAt 0; RJsonNull false [] [0]].
Proof. exists [mkSdesc KJsight true]. vm_compute. reflexivity. Qed.

Theorem old_regex_example_refuted :
  exists ds, snd (run (mkSem true false) ds (fresh ds) [AJ; AJ]) = [RJson false [0]; RJson false [1]].
Proof. exists [mkSdesc KRegex false]. vm_compute. reflexivity. Qed.
