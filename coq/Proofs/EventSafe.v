(* EventSafe.v — lexeme events are well bracketed, for every input: processing the queued
   lexeme events never fails (no pop of an empty event stack, no Begin/End mismatch, no event
   without a lexeme type).  The pending-Begin stack of every state is INFERRED from the
   regenerated program, CHECKED by symbolic execution of every path of every step function, and
   the checker is proved sound against the interpreter (including the event queue that Next()
   drains lazily, and the end-of-file steps after which no step runs any more). *)
From JS Require Import Base Bytes Scanner ScanRun.
From JS Require ScannerProg LexemeEvents.
From Coq Require Import Lia.
Open Scope Z_scope.

(* abstract event stack: kinds of the pending Begin events, top first *)
Definition estk := list event.

Definition ev_list_eqb (a b : estk) : bool :=
  (fix go (a b : estk) := match a, b with
     | [], [] => true | x :: a', y :: b' => event_eqb x y && go a' b' | _, _ => false end) a b.

(* effect of one event on the abstract stack; None = mismatch or underflow *)
Definition apply_ev (e : estk) (ev : event) : option estk :=
  if LexemeEvents.ev_IsBeginning ev then Some (ev :: e)
  else if LexemeEvents.ev_IsEnding ev then
    match e with
    | b :: rest => if pair_ok b ev then (match LexemeEvents.ev_ToLexemeType ev with Some _ => Some rest | None => None end) else None
    | [] => None
    end
  else if LexemeEvents.ev_IsSingle ev then (match LexemeEvents.ev_ToLexemeType ev with Some _ => Some e | None => None end)
  else None.

Inductive symstep := SEntry | SKnown (st : state) | SPopped.
Record actx := mkCtx { a_e : estk; a_cs : symstep; a_eof : bool; a_moved : bool }.

Section Chk.
  Variable prog : list (string * stmt).
  Variable Sg : state -> option estk.     (* the event stack whenever s.step = st between steps *)
  Variable entry : state.

  Definition sg_is (st : state) (e : estk) : bool :=
    match Sg st with Some x => ev_list_eqb x e | None => false end.

  Definition step_fits (c : actx) : bool :=
    match a_cs c with
    | SEntry => sg_is entry (a_e c)
    | SKnown t => sg_is t (a_e c)
    | SPopped => ev_list_eqb (a_e c) []
    end.

  Definition cur_sigma_empty (c : actx) : bool :=
    match a_cs c with
    | SEntry => sg_is entry []
    | SKnown t => sg_is t []
    | SPopped => true
    end.

  Fixpoint chk (fuel : nat) (s : stmt) (c : actx) (k : actx -> bool) {struct fuel} : bool :=
    match fuel with
    | O => false
    | S fuel' =>
        match s with
        | SSkip => k c
        | SSeq a b => chk fuel' a c (fun c' => chk fuel' b c' k)
        | SIf (CByte 0) t e => chk fuel' t (mkCtx (a_e c) (a_cs c) true (a_moved c)) k && chk fuel' e c k
        | SIf _ t e => chk fuel' t c k && chk fuel' e c k
        | SSetStep st => k (mkCtx (a_e c) (SKnown st) (a_eof c) (a_moved c))
        | SPush st => sg_is st [] && k c
        | SPushCur => cur_sigma_empty c && k c
        | SPop => ev_list_eqb (a_e c) [] && k (mkCtx (a_e c) SPopped (a_eof c) (a_moved c))
        | SFound ev _ => match apply_ev (a_e c) ev with Some e' => k (mkCtx e' (a_cs c) (a_eof c) (a_moved c)) | None => false end
        | SAddCur _ | SOracle _ => k (mkCtx (a_e c) (a_cs c) (a_eof c) true)
        | SRetNil => step_fits c || (a_eof c && negb (a_moved c))
        | SRetRedispatch => step_fits c && negb (a_moved c)
        | SRetErr _ _ | SRetErrBasic _ => true
        | SRetCall st =>
            match nth_error prog (N.to_nat st) with
            | Some (_, body) => chk fuel' body c (fun _ => false)
            | None => false
            end
        end
    end.
End Chk.

Definition chk_state (prog : list (string * stmt)) (Sg : state -> option estk) (st : state) : bool :=
  match nth_error prog (N.to_nat st), Sg st with
  | Some (_, body), Some e0 => chk prog Sg st 200 body (mkCtx e0 SEntry false false) (fun _ => false)
  | Some _, None => true           (* never reached *)
  | None, _ => false
  end.

(* inference: facts (target state, event stack) at the returns *)
Section Infer.
  Variable prog : list (string * stmt).
  Fixpoint facts (fuel : nat) (s : stmt) (c : actx) (k : actx -> list (state * estk)) : list (state * estk) :=
    match fuel with
    | O => []
    | S fuel' =>
        match s with
        | SSkip => k c
        | SSeq a b => facts fuel' a c (fun c' => facts fuel' b c' k)
        | SIf (CByte 0) t e => facts fuel' t (mkCtx (a_e c) (a_cs c) true (a_moved c)) k ++ facts fuel' e c k
        | SIf _ t e => facts fuel' t c k ++ facts fuel' e c k
        | SSetStep st => k (mkCtx (a_e c) (SKnown st) (a_eof c) (a_moved c))
        | SPush st => (st, []) :: k c
        | SPushCur => k c
        | SPop => k (mkCtx (a_e c) SPopped (a_eof c) (a_moved c))
        | SFound ev _ => match apply_ev (a_e c) ev with Some e' => k (mkCtx e' (a_cs c) (a_eof c) (a_moved c)) | None => [] end
        | SAddCur _ | SOracle _ => k (mkCtx (a_e c) (a_cs c) (a_eof c) true)
        | SRetNil => if a_eof c then [] else match a_cs c with SKnown t => [(t, a_e c)] | _ => [] end
        | SRetRedispatch => match a_cs c with SKnown t => [(t, a_e c)] | _ => [] end
        | SRetErr _ _ | SRetErrBasic _ => []
        | SRetCall st =>
            match nth_error prog (N.to_nat st) with
            | Some (_, body) => facts fuel' body c (fun _ => [])
            | None => []
            end
        end
    end.
End Infer.

Fixpoint set_first {A} (l : list (option A)) (i : nat) (v : A) : list (option A) :=
  match l, i with
  | [], _ => []
  | None :: r, O => Some v :: r
  | x :: r, O => x :: r
  | x :: r, S i' => x :: set_first r i' v
  end.

Definition infer_round (prog : list (string * stmt)) (Sg : list (option estk)) : list (option estk) :=
  fold_left (fun acc p =>
    let '(i, (_, body)) := p in
    match nth i acc None with
    | None => acc
    | Some e0 => fold_left (fun a f => set_first a (N.to_nat (fst f)) (snd f))
                           (facts prog 200 body (mkCtx e0 SEntry false false) (fun _ => [])) acc
    end) (combine (seq 0 (List.length prog)) prog) Sg.

Fixpoint iterate (n : nat) (prog : list (string * stmt)) (Sg : list (option estk)) : list (option estk) :=
  match n with O => Sg | S n' => iterate n' prog (infer_round prog Sg) end.

Definition inferred : list (option estk) :=
  Eval vm_compute in iterate 40 ScannerProg.prog_table
    (set_first (List.map (fun _ => None) ScannerProg.prog_table) (N.to_nat ScannerProg.initial_state) []).
Definition inferredSg (st : state) : option estk := nth (N.to_nat st) inferred None.

Definition all_ok : bool :=
  forallb (fun i => chk_state ScannerProg.prog_table inferredSg (N.of_nat i)) (seq 0 (List.length ScannerProg.prog_table)).

Lemma all_ok_ok : all_ok = true.
Proof. vm_compute. reflexivity. Qed.

(* ------------------------------------------------------------------------------------ *)
Lemma event_eqb_eq a b : event_eqb a b = true -> a = b.
Proof. destruct a, b; cbn; intros H; try discriminate; reflexivity. Qed.

Lemma ev_list_eqb_eq a : forall b, ev_list_eqb a b = true -> a = b.
Proof.
  unfold ev_list_eqb. induction a as [|x a IH]; intros [|y b] H; try discriminate; [reflexivity|].
  apply andb_prop in H as [H1 H2]. apply event_eqb_eq in H1. subst. f_equal. apply IH. exact H2.
Qed.

Fixpoint apply_all (e : estk) (q : list event) : option estk :=
  match q with
  | [] => Some e
  | ev :: r => match apply_ev e ev with Some e' => apply_all e' r | None => None end
  end.

Lemma apply_all_app e q ev : apply_all e (q ++ [ev]) =
  match apply_all e q with Some e' => apply_ev e' ev | None => None end.
Proof.
  revert e. induction q as [|x q IH]; intros e; cbn [apply_all app].
  - destruct (apply_ev e ev); reflexivity.
  - destruct (apply_ev e x); [apply IH|reflexivity].
Qed.

(* the event stack as it will be once the queued events have been processed *)
Definition eff (cf : conf) : option estk :=
  apply_all (List.map fst (c_estack cf)) (List.map fst (c_finds cf)).

Section Sound.
  Variable prog : list (string * stmt).
  Variable nl_cond ws_cond : cond.
  Variable data : bytes.
  Variable olen : okind -> Z -> olen_res.
  Variable Sg : state -> option estk.
  Hypothesis OK : forall st name body, nth_error prog (N.to_nat st) = Some (name, body) -> chk_state prog Sg st = true.

  Definition stack_ok (ss : list state) : Prop := Forall (fun r => Sg r = Some []) ss.

  Section Body.
    Variable entry : state.
    Variable ch : byte.
    Variable cf0 : conf.
    Hypothesis H0 : ch = 0%N -> data_size data <= c_cur cf0.

    Definition R (cf : conf) (c : actx) : Prop :=
      eff cf = Some (a_e c) /\ stack_ok (c_sstack cf) /\
      (match a_cs c with
       | SEntry => c_step cf = entry
       | SKnown t => c_step cf = t
       | SPopped => Sg (c_step cf) = Some []
       end) /\
      (a_eof c = true -> ch = 0%N) /\ (a_moved c = false -> c_cur cf = c_cur cf0).

    Definition Strict (cf : conf) : Prop :=
      exists e, eff cf = Some e /\ stack_ok (c_sstack cf) /\ Sg (c_step cf) = Some e.
    Definition Post (cf : conf) : Prop :=
      exists e, eff cf = Some e /\ stack_ok (c_sstack cf) /\
                (Sg (c_step cf) = Some e \/ (ch = 0%N /\ data_size data <= c_cur cf)).

    Lemma sg_is_eq st e : sg_is Sg st e = true -> Sg st = Some e.
    Proof. unfold sg_is. destruct (Sg st) as [x|]; [|discriminate]. intros H. apply ev_list_eqb_eq in H. subst. reflexivity. Qed.

    Lemma fits_strict cf c : R cf c -> step_fits Sg entry c = true -> Strict cf.
    Proof.
      intros [He [Hs [Hc _]]] F. exists (a_e c). split; [exact He|split; [exact Hs|]].
      unfold step_fits in F. destruct (a_cs c) as [|t|].
      - rewrite Hc. apply sg_is_eq. exact F.
      - rewrite Hc. apply sg_is_eq. exact F.
      - apply ev_list_eqb_eq in F. rewrite F. exact Hc.
    Qed.

    Lemma strict_post cf : Strict cf -> Post cf.
    Proof. intros [e [A [B C]]]. exists e. auto. Qed.

    Notation exec := (exec nl_cond ws_cond data olen).

    Lemma R_same cf cf' c :
      c_step cf' = c_step cf -> c_sstack cf' = c_sstack cf -> c_estack cf' = c_estack cf ->
      c_finds cf' = c_finds cf -> c_cur cf' = c_cur cf -> R cf c -> R cf' c.
    Proof. unfold R, eff. intros -> -> -> -> ->. auto. Qed.

    Lemma chk_sound fuel : forall s c k cf, chk prog Sg entry fuel s c k = true -> R cf c ->
      match exec ch s cf with
      | FFall cf' => exists c', R cf' c' /\ k c' = true
      | FRet KNil cf' => Post cf'
      | FRet KRedispatch cf' => Strict cf' /\ c_cur cf' = c_cur cf0
      | FRet (KCall st) cf' =>
          exists name body f c', nth_error prog (N.to_nat st) = Some (name, body) /\
                                 chk prog Sg entry f body c' (fun _ => false) = true /\ R cf' c'
      | _ => True
      end.
    Proof.
      induction fuel as [|fuel IH]; intros s c k cf C HR; [discriminate|].
      destruct s; cbn [chk] in C; cbn [Scanner.exec].
      - (* SSetStep *) eexists. split; [|exact C]. destruct HR as [He [Hs [_ [Hf Hm]]]]. unfold R. cbn [a_e a_cs a_eof a_moved].
        repeat split; try assumption.
      - (* SPush *) apply andb_prop in C as [C1 C2]. apply sg_is_eq in C1.
        exists c. split; [|exact C2]. destruct HR as [He [Hs [Hc [Hf Hm]]]]. unfold R. repeat split; try assumption.
        cbn [c_sstack set_sstack]. constructor; assumption.
      - (* SPushCur *) apply andb_prop in C as [C1 C2].
        exists c. split; [|exact C2]. destruct HR as [He [Hs [Hc [Hf Hm]]]]. unfold R. repeat split; try assumption.
        cbn [c_sstack set_sstack]. constructor; [|exact Hs].
        unfold cur_sigma_empty in C1. destruct (a_cs c) as [|t|]; [rewrite Hc; apply sg_is_eq; exact C1|rewrite Hc; apply sg_is_eq; exact C1|exact Hc].
      - (* SPop *) apply andb_prop in C as [C1 C2].
        destruct HR as [He [Hs [Hc [Hf Hm]]]].
        destruct (c_sstack cf) as [|r rest] eqn:E; [exact I|].
        eexists. split; [|exact C2]. inversion Hs as [|? ? Hr Hrest]; subst.
        unfold R. cbn [a_e a_cs a_eof a_moved c_sstack set_sstack set_step c_step].
        repeat split; try assumption.
      - (* SFound *) destruct (apply_ev (a_e c) ev) as [e'|] eqn:A; [|discriminate].
        eexists. split; [|exact C]. destruct HR as [He [Hs [Hc [Hf Hm]]]]. unfold R. cbn [a_e a_cs a_eof a_moved].
        repeat split; try assumption.
        unfold eff in *. cbn [c_finds set_finds c_estack]. rewrite map_app. cbn [List.map fst].
        rewrite apply_all_app, He. exact A.
      - (* SAddCur *) eexists. split; [|exact C]. destruct HR as [He [Hs [Hc [Hf Hm]]]]. unfold R. cbn [a_e a_cs a_eof a_moved].
        repeat split; try assumption. discriminate.
      - (* SIf *)
        assert (G : forall c1, chk prog Sg entry fuel s1 c1 k = true -> chk prog Sg entry fuel s2 c k = true ->
                    (R cf c1 \/ True) -> (forall b, eval_cond nl_cond ws_cond data cf ch c0 = Some b -> b = true -> R cf c1) ->
                    match match eval_cond nl_cond ws_cond data cf ch c0 with
                          | None => FPanic PIndexRange
                          | Some true => exec ch s1 cf
                          | Some false => exec ch s2 cf
                          end with
                    | FFall cf' => exists c', R cf' c' /\ k c' = true
                    | FRet KNil cf' => Post cf'
                    | FRet KRedispatch cf' => Strict cf' /\ c_cur cf' = c_cur cf0
                    | FRet (KCall st) cf' =>
                        exists name body f c', nth_error prog (N.to_nat st) = Some (name, body) /\
                                               chk prog Sg entry f body c' (fun _ => false) = true /\ R cf' c'
                    | _ => True
                    end).
        { intros c1 C1 C2 _ HR1. destruct (eval_cond nl_cond ws_cond data cf ch c0) as [[|]|] eqn:EV; [|eapply IH; eassumption|exact I].
          eapply IH; [exact C1|]. eapply HR1; reflexivity. }
        destruct c0 as [b| | |kk bb|q|cc|ca cb|ca cb|]; try (apply andb_prop in C as [C1 C2]; apply (G c C1 C2 (or_intror I)); intros; exact HR).
        destruct b as [|p]; apply andb_prop in C as [C1 C2].
        + apply (G _ C1 C2 (or_intror I)). intros b EV Hb. cbn [eval_cond] in EV. injection EV as EV. subst b.
          destruct HR as [He [Hs [Hc [Hf Hm]]]]. unfold R. cbn [a_e a_cs a_eof a_moved]. repeat split; try assumption.
          intros _. apply N.eqb_eq. exact Hb.
        + apply (G c C1 C2 (or_intror I)). intros; exact HR.
      - (* SSeq *) pose proof (IH s1 c _ cf C HR) as A.
        destruct (Scanner.exec nl_cond ws_cond data olen ch s1 cf) as [cf1|kk cf1|e|p] eqn:E1; try exact A.
        destruct A as [c1 [R1 K1]]. eapply IH; eassumption.
      - (* SSkip *) exists c. split; assumption.
      - (* SOracle *) destruct (olen k0 (c_cur cf)); [|exact I].
        eexists. split; [|exact C]. destruct HR as [He [Hs [Hc [Hf Hm]]]]. unfold R. cbn [a_e a_cs a_eof a_moved].
        destruct (0 <? n); repeat split; try assumption; discriminate.
      - (* SRetNil *) apply orb_prop in C as [C|C].
        + apply strict_post. eapply fits_strict; eassumption.
        + apply andb_prop in C as [Ce Cm]. destruct HR as [He [Hs [Hc [Hf Hm]]]].
          exists (a_e c). split; [exact He|split; [exact Hs|]]. right.
          pose proof (Hf Ce) as Z0. split; [exact Z0|]. rewrite Hm; [apply H0; exact Z0|].
          destruct (a_moved c); [discriminate|reflexivity].
      - exact I.
      - exact I.
      - (* SRetCall *) destruct (nth_error prog (N.to_nat st)) as [[name body]|] eqn:E; [|discriminate].
        exists name, body, fuel, c. split; [reflexivity|split; [exact C|exact HR]].
      - (* SRetRedispatch *) apply andb_prop in C as [C1 C2]. split; [eapply fits_strict; eassumption|].
        destruct HR as [_ [_ [_ [_ Hm]]]]. apply Hm. destruct (a_moved c); [discriminate|reflexivity].
    Qed.
  End Body.

  Notation run_step := (run_step prog nl_cond ws_cond data olen).

  Lemma exec_panics ch s : forall cf p, Scanner.exec nl_cond ws_cond data olen ch s cf = FPanic p ->
    p = PStepStackEmpty \/ p = PIndexRange.
  Proof.
    induction s; intros cf p X; cbn [Scanner.exec] in X; try discriminate.
    - destruct (c_sstack cf); [injection X as <-; left; reflexivity|discriminate].
    - destruct (eval_cond _ _ _ _ _ _); [|injection X as <-; right; reflexivity]. destruct b; eauto.
    - destruct (Scanner.exec nl_cond ws_cond data olen ch s1 cf) eqn:E; try discriminate; eauto.
      injection X as <-. eapply IHs1. exact E.
    - destruct (olen k (c_cur cf)); discriminate.
  Qed.

  Definition fineE {A} (r : res A) (P : A -> Prop) : Prop :=
    match r with
    | ROk a => P a
    | RPanic PEventStackEmpty | RPanic PLexemeType => False
    | _ => True
    end.

  Definition modeB (fuel : nat) : Prop :=
    forall st ch cf cf0 entry c f name body,
      (ch = 0%N -> data_size data <= c_cur cf0) ->
      nth_error prog (N.to_nat st) = Some (name, body) ->
      chk prog Sg entry f body c (fun _ => false) = true -> R entry ch cf0 cf c ->
      fineE (run_step fuel st ch cf) (Post ch).

  Lemma modeA_from_B fuel : modeB fuel -> forall ch cf, Strict cf -> (ch = 0%N -> data_size data <= c_cur cf) ->
    fineE (run_step fuel (c_step cf) ch cf) (Post ch).
  Proof.
    intros B ch cf [e [He [Hs Hg]]] H0.
    destruct (nth_error prog (N.to_nat (c_step cf))) as [[name body]|] eqn:E.
    - pose proof (OK _ _ _ E) as C. unfold chk_state in C. rewrite E, Hg in C.
      eapply (B (c_step cf) ch cf cf (c_step cf) (mkCtx e SEntry false false)); [exact H0|exact E|exact C|].
      unfold R. cbn [a_e a_cs a_eof a_moved]. repeat split; try assumption; try reflexivity. discriminate.
    - destruct fuel; cbn [Scanner.run_step]; [exact I|]. unfold body_of. rewrite E. exact I.
  Qed.

  Lemma modeB_all fuel : modeB fuel.
  Proof.
    induction fuel as [|fuel IH]; intros st ch cf cf0 entry c f name body H0 E C HR; cbn [Scanner.run_step]; [exact I|].
    unfold body_of. rewrite E. cbn [option_map snd].
    pose proof (chk_sound entry ch cf0 H0 f body c _ cf C HR) as A.
    destruct (Scanner.exec nl_cond ws_cond data olen ch body cf) as [cf1|kk cf1|e|p] eqn:X.
    - exact I.
    - destruct kk as [|st'|].
      + exact A.
      + destruct A as [name' [body' [f' [c' [E' [C' R']]]]]]. eapply IH; eassumption.
      + destruct A as [A Hcur]. apply modeA_from_B; [exact IH|exact A|]. intros Z0. rewrite Hcur. apply H0. exact Z0.
    - exact I.
    - destruct (exec_panics _ _ _ _ X) as [-> | ->]; exact I.
  Qed.

  Theorem run_step_events fuel ch cf : Strict cf -> (ch = 0%N -> data_size data <= c_cur cf) ->
    fineE (run_step fuel (c_step cf) ch cf) (Post ch).
  Proof. apply modeA_from_B. apply modeB_all. Qed.

  (* ---- between the steps: the event queue is drained lazily ---- *)
  Definition Inv2 (cf : conf) : Prop :=
    exists e, eff cf = Some e /\ stack_ok (c_sstack cf) /\ (Sg (c_step cf) = Some e \/ data_size data < c_cur cf).

  Lemma process_event_eff cf ev fs e :
    c_finds cf = ev :: fs -> eff cf = Some e ->
    exists o cf', process_event (set_finds cf fs) ev = ROk (o, cf') /\ eff cf' = Some e /\
                  c_step cf' = c_step cf /\ c_sstack cf' = c_sstack cf /\ c_cur cf' = c_cur cf /\ c_finds cf' = fs.
  Proof.
    intros Ef He. unfold eff in He. rewrite Ef in He. cbn [List.map apply_all] in He.
    destruct ev as [t pos]. cbn [fst] in He.
    destruct (apply_ev (List.map fst (c_estack cf)) t) as [e1|] eqn:A; [|discriminate].
    unfold Scanner.process_event. unfold apply_ev in A.
    destruct (LexemeEvents.ev_IsBeginning t).
    - injection A as <-. do 2 eexists. split; [reflexivity|]. unfold eff. cbn [c_estack c_finds set_estack set_finds List.map fst c_step c_sstack c_cur].
      repeat split; try reflexivity. exact He.
    - destruct (LexemeEvents.ev_IsEnding t).
      + destruct (c_estack cf) as [|[bt bpos] es] eqn:Es; cbn [List.map fst] in A; [discriminate|].
        cbn [c_estack set_finds]. rewrite Es.
        destruct (pair_ok bt t); [|discriminate].
        destruct (LexemeEvents.ev_ToLexemeType t); [|discriminate]. injection A as <-.
        do 2 eexists. split; [reflexivity|]. unfold eff. cbn [c_estack c_finds set_estack set_finds c_step c_sstack c_cur].
        repeat split; try reflexivity. exact He.
      + destruct (LexemeEvents.ev_IsSingle t); [|discriminate].
        destruct (LexemeEvents.ev_ToLexemeType t); [|discriminate]. injection A as <-.
        do 2 eexists. split; [reflexivity|]. unfold eff. cbn [c_estack c_finds set_finds c_step c_sstack c_cur].
        repeat split; try reflexivity. exact He.
  Qed.

  Lemma inv2_same cf cf' :
    c_step cf' = c_step cf -> c_sstack cf' = c_sstack cf -> c_cur cf' = c_cur cf -> eff cf' = eff cf -> Inv2 cf -> Inv2 cf'.
  Proof. unfold Inv2. intros -> -> -> ->. auto. Qed.

  Lemma note_lexeme_inv cf l : Inv2 cf -> Inv2 (note_lexeme cf l).
  Proof. intros H. unfold note_lexeme. destruct (lk l); exact H. Qed.

  Lemma drain_events k : forall cf, Inv2 cf -> fineE (drain k cf) (fun r => Inv2 (snd r)).
  Proof.
    induction k as [|k IH]; intros cf H; cbn [Scanner.drain]; [exact H|].
    destruct (c_finds cf) as [|ev fs] eqn:Ef; [exact I|].
    destruct H as [e [He [Hs Hd]]].
    destruct (process_event_eff cf ev fs e Ef He) as [o [cf' [P [He' [S1 [S2 [S3 _]]]]]]].
    rewrite P.
    assert (H' : Inv2 cf') by (exists e; rewrite S1, S2, S3; auto).
    destruct o as [l|]; cbn [fineE snd].
    - apply note_lexeme_inv. exact H'.
    - apply IH. exact H'.
  Qed.
End Sound.

Section Lift.
  Variable prog : list (string * stmt).
  Variable nl_cond ws_cond : cond.
  Variable data : bytes.
  Variable olen : okind -> Z -> olen_res.
  Variable Sg : state -> option estk.
  Hypothesis OK : forall st name body, nth_error prog (N.to_nat st) = Some (name, body) -> chk_state prog Sg st = true.

  Notation Inv2 := (Inv2 data Sg).
  Notation next_loop := (next_loop prog nl_cond ws_cond data olen).
  Notation next := (next prog nl_cond ws_cond data olen).

  Lemma next_loop_events fuel : forall cf, Inv2 cf -> fineE (next_loop fuel cf) (fun r => Inv2 (snd r)).
  Proof.
    induction fuel as [|fuel IH]; intros cf H; cbn [Scanner.next_loop]; [exact I|].
    destruct (data_size data <? c_cur cf) eqn:Fin; [exact H|].
    destruct (c_cur cf <? 0); [exact I|].
    destruct (c_cur cf =? data_size data) eqn:AtEnd.
    - (* at the end: the pseudo byte 0 *)
      cbn [negb andb].
      destruct H as [e [He [Hs Hd]]].
      assert (St : Strict Sg cf).
      { exists e. split; [exact He|split; [exact Hs|]]. destruct Hd as [Hd|Hd]; [exact Hd|]. apply Z.ltb_ge in Fin. lia. }
      pose proof (run_step_events prog nl_cond ws_cond data olen Sg OK step_fuel 0%N cf St) as Rn.
      assert (H0 : 0%N = 0%N -> data_size data <= c_cur cf) by (intros _; apply Z.eqb_eq in AtEnd; lia).
      specialize (Rn H0).
      destruct (Scanner.run_step prog nl_cond ws_cond data olen step_fuel (c_step cf) 0%N cf) as [cf1| |p0|]; cbn [fineE] in *; try exact I; [|exact Rn].
      destruct Rn as [e1 [He1 [Hs1 Hd1]]].
      assert (H2 : Inv2 (set_cur cf1 (c_cur cf1 + 1))).
      { exists e1. split; [exact He1|split; [exact Hs1|]]. cbn [c_step c_cur set_cur].
        destruct Hd1 as [Hd1|[_ Hd1]]; [left; exact Hd1|right; lia]. }
      pose proof (drain_events data Sg (List.length (c_finds (set_cur cf1 (c_cur cf1 + 1)))) _ H2) as D.
      destruct (Scanner.drain _ _) as [[[l|] cf3]| |p0|]; cbn [fineE snd] in *; try exact I; try exact D.
      apply IH. exact D.
    - cbn [negb andb].
      destruct (byte_at data (c_cur cf)) as [b|] eqn:Bt.
      + destruct (N.eqb b 0) eqn:Zb; [exact I|].
        destruct H as [e [He [Hs Hd]]].
        assert (St : Strict Sg cf).
        { exists e. split; [exact He|split; [exact Hs|]]. destruct Hd as [Hd|Hd]; [exact Hd|]. apply Z.ltb_ge in Fin. lia. }
        pose proof (run_step_events prog nl_cond ws_cond data olen Sg OK step_fuel b cf St) as Rn.
        assert (H0 : b = 0%N -> data_size data <= c_cur cf) by (intros ->; discriminate).
        specialize (Rn H0).
        destruct (Scanner.run_step prog nl_cond ws_cond data olen step_fuel (c_step cf) b cf) as [cf1| |p0|]; cbn [fineE] in *; try exact I; [|exact Rn].
        destruct Rn as [e1 [He1 [Hs1 Hd1]]].
        assert (H2 : Inv2 (set_cur cf1 (c_cur cf1 + 1))).
        { exists e1. split; [exact He1|split; [exact Hs1|]]. cbn [c_step c_cur set_cur].
          destruct Hd1 as [Hd1|[Zb' _]]; [left; exact Hd1|subst b; discriminate]. }
        pose proof (drain_events data Sg (List.length (c_finds (set_cur cf1 (c_cur cf1 + 1)))) _ H2) as D.
        destruct (Scanner.drain _ _) as [[[l|] cf3]| |p0|]; cbn [fineE snd] in *; try exact I; try exact D.
        apply IH. exact D.
      + cbn [N.eqb]. exact I.
  Qed.

  Theorem next_events cf : Inv2 cf -> fineE (next cf) (fun r => Inv2 (snd r)).
  Proof.
    intros H. unfold Scanner.next. destruct (c_finds cf) as [|ev fs] eqn:Ef; [apply next_loop_events; exact H|].
    destruct H as [e [He [Hs Hd]]].
    destruct (process_event_eff cf ev fs e Ef He) as [o [cf' [P [He' [S1 [S2 [S3 _]]]]]]].
    rewrite P.
    assert (H' : Inv2 cf') by (exists e; rewrite S1, S2, S3; auto).
    destruct o as [l|]; cbn [fineE snd]; [exact H'|apply next_loop_events; exact H'].
  Qed.
End Lift.

Lemma inferred_ok : forall st name body,
  nth_error ScannerProg.prog_table (N.to_nat st) = Some (name, body) -> chk_state ScannerProg.prog_table inferredSg st = true.
Proof.
  intros st name body E.
  pose proof all_ok_ok as A. unfold all_ok in A. rewrite forallb_forall in A.
  assert (Hlt : (N.to_nat st < List.length ScannerProg.prog_table)%nat) by (apply nth_error_Some; congruence).
  specialize (A (N.to_nat st)). rewrite N2Nat.id in A. apply A. apply in_seq. lia.
Qed.

(* the regenerated program, any input, any oracle table, any number of Next() calls *)
Theorem lexeme_events_are_well_bracketed data tbl fuel :
  let '(_, e, _) := lex_traj data tbl fuel (init_conf ScannerProg.initial_state) in
  e <> EndPanic PEventStackEmpty /\ e <> EndPanic PLexemeType.
Proof.
  assert (G : forall fuel cf, Inv2 data inferredSg cf ->
              let '(_, e, _) := lex_traj data tbl fuel cf in e <> EndPanic PEventStackEmpty /\ e <> EndPanic PLexemeType).
  { clear fuel. induction fuel as [|fuel IH]; intros cf H; cbn [lex_traj]; [split; discriminate|].
    pose proof (next_events ScannerProg.prog_table ScannerProg.is_newline_cond ScannerProg.is_whitespace_cond data
                            (olen_of_table tbl) inferredSg inferred_ok cf H) as N.
    unfold the_next.
    destruct (next ScannerProg.prog_table ScannerProg.is_newline_cond ScannerProg.is_whitespace_cond data (olen_of_table tbl) cf)
      as [[[l|] cf']| |p|]; cbn [fineE snd] in N.
    - specialize (IH cf' N). destruct (lex_traj data tbl fuel cf') as [[ls e] tr]. exact IH.
    - split; discriminate.
    - split; discriminate.
    - destruct p; try contradiction; split; discriminate.
    - split; discriminate. }
  apply G. exists []. split; [reflexivity|split; [constructor|left; vm_compute; reflexivity]].
Qed.
