(* C10Proofs.v — MACRO/PASTE: what the model of compile_core_macro.go / compile_core_paste.go
   guarantees for every input, and the refutation of cycle detection on the current tree. *)
From JS Require Import Base Bytes Scanner Directive Core Expand.
From JS Require DirectiveTables ErrConsts.
From Coq Require Import Lia.
Open Scope Z_scope.

(* MACRO definitions contribute nothing: after collectMacro no root is a MACRO *)
Theorem collect_macro_removes_macros :
  forall roots kept ms roots' ms',
    (forall d, In d kept -> N.eqb (d_kind d) DirectiveTables.dir_Macro = false) ->
    collect_macro roots kept ms = COk (roots', ms') ->
    forall d, In d roots' -> N.eqb (d_kind d) DirectiveTables.dir_Macro = false.
Proof.
  induction roots as [|r roots IH]; intros kept ms roots' ms' Hk H d Hd; cbn [collect_macro] in H.
  - injection H as <- <-. apply in_rev in Hd. auto.
  - destruct (N.eqb (d_kind r) DirectiveTables.dir_Macro) eqn:E.
    + destruct (add_macro ms r) as [ms1|e|p|]; try discriminate. eapply IH; eauto.
    + eapply IH; [|exact H|exact Hd]. intros x [->|Hx]; auto.
Qed.

(* the non-MACRO roots keep their relative order *)
Theorem collect_macro_keeps_order :
  forall roots kept ms roots' ms',
    collect_macro roots kept ms = COk (roots', ms') ->
    roots' = rev kept ++ List.filter (fun d => negb (N.eqb (d_kind d) DirectiveTables.dir_Macro)) roots.
Proof.
  induction roots as [|r roots IH]; intros kept ms roots' ms' H; cbn [collect_macro List.filter] in *.
  - injection H as <- <-. rewrite app_nil_r. reflexivity.
  - destruct (N.eqb (d_kind r) DirectiveTables.dir_Macro) eqn:E; cbn [negb].
    + destruct (add_macro ms r) as [ms1|e|p|]; try discriminate. eapply IH; eauto.
    + rewrite (IH _ _ _ _ H). cbn [rev]. rewrite <- app_assoc. reflexivity.
Qed.

(* a PASTE whose macro is not defined is an error located at that PASTE *)
Definition mk_paste (name : bytes) (pos : Z) : dir :=
  mkDir DirectiveTables.dir_Paste (str "PASTE") (mkCoords 0 pos (pos + 4)) [(KName, name)] [] [] None false [] [].

Lemma named_mk_paste name pos : named (mk_paste name pos) KName = name.
Proof. reflexivity. Qed.

Theorem undefined_macro_is_error :
  forall echeck ms fuel xs name pos,
    name <> [] -> macro_lookup ms name = None ->
    exists e, expand_dir echeck ms (S fuel) xs (mk_paste name pos) = CErr e /\
              e_file e = 0%N /\ e_index e = pos.
Proof.
  intros echeck ms fuel xs name pos Hn Hl. cbn [expand_dir].
  replace (N.eqb (d_kind (mk_paste name pos)) DirectiveTables.dir_Paste) with true by reflexivity.
  replace (d_annot (mk_paste name pos)) with (@nil N) by reflexivity.
  rewrite named_mk_paste.
  replace (negb (beq [] [])) with false by reflexivity.
  destruct (beq name []) eqn:E.
  { destruct name; [congruence|cbn in E; discriminate]. }
  rewrite Hl. eexists. split; [reflexivity|]. split; reflexivity.
Qed.

(* ------------------------------------------------------------------------------------ *)
(* FULL STATEMENT (false of the current code): a macro that reaches itself through any chain
   of PASTEs is rejected with an error instead of being expanded.  Refuted (finding F3): the
   recursion check looks only for a PASTE of the macro's own name, and two macros pasting each
   other are expanded without end — for EVERY amount of fuel the expansion runs out. *)
Definition body_of_paste (name : string) (pos : Z) : list dir := [mk_paste (str name) pos].

Definition macro_a : dir :=
  mkDir DirectiveTables.dir_Macro (str "MACRO") (mkCoords 0 11 15) [(KName, str "@a")] [] [] None true []
        (body_of_paste "@b" 22).
Definition macro_b : dir :=
  mkDir DirectiveTables.dir_Macro (str "MACRO") (mkCoords 0 33 37) [(KName, str "@b")] [] [] None true []
        (body_of_paste "@a" 44).
Definition cyc_macros : macros := [(str "@a", macro_a); (str "@b", macro_b)].

Lemma cycle2_not_detected : check_recursion 10 cyc_macros = [].
Proof. vm_compute. reflexivity. Qed.

(* the divergence does not depend on where the PASTE stands: generalise over the offset *)
Lemma cycle2_diverges echeck :
  forall fuel xs pos,
    expand_dir echeck cyc_macros fuel xs (mk_paste (str "@a") pos) = CFuel /\
    expand_dir echeck cyc_macros fuel xs (mk_paste (str "@b") pos) = CFuel.
Proof.
  induction fuel as [|fuel IH]; intros xs pos; [split; reflexivity|].
  split.
  - cbn [expand_dir].
    replace (N.eqb (d_kind (mk_paste (str "@a") pos)) DirectiveTables.dir_Paste) with true by reflexivity.
    replace (d_annot (mk_paste (str "@a") pos)) with (@nil N) by reflexivity.
    rewrite named_mk_paste.
    replace (negb (beq [] [])) with false by reflexivity.
    replace (beq (str "@a") []) with false by reflexivity.
    replace (macro_lookup cyc_macros (str "@a")) with (Some macro_a) by reflexivity.
    replace (build_rules echeck xs (d_children macro_a)) with (COk (A:=xstate) xs) by reflexivity.
    replace (d_children macro_a) with [mk_paste (str "@b") 22] by reflexivity.
    destruct (IH xs 22) as [_ Hb]. rewrite Hb. reflexivity.
  - cbn [expand_dir].
    replace (N.eqb (d_kind (mk_paste (str "@b") pos)) DirectiveTables.dir_Paste) with true by reflexivity.
    replace (d_annot (mk_paste (str "@b") pos)) with (@nil N) by reflexivity.
    rewrite named_mk_paste.
    replace (negb (beq [] [])) with false by reflexivity.
    replace (beq (str "@b") []) with false by reflexivity.
    replace (macro_lookup cyc_macros (str "@b")) with (Some macro_b) by reflexivity.
    replace (build_rules echeck xs (d_children macro_b)) with (COk (A:=xstate) xs) by reflexivity.
    replace (d_children macro_b) with [mk_paste (str "@a") 44] by reflexivity.
    destruct (IH xs 44) as [Ha _]. rewrite Ha. reflexivity.
Qed.

Theorem cycle_of_length_two_refuted :
  check_recursion 10 cyc_macros = [] /\
  forall echeck fuel xs, expand_dir echeck cyc_macros fuel xs (mk_paste (str "@a") 55) = CFuel.
Proof.
  split; [exact cycle2_not_detected|]. intros echeck fuel xs. apply cycle2_diverges.
Qed.
