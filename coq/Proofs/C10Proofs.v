(* C10Proofs.v — MACRO/PASTE: what the model of compile_core_macro.go / compile_core_paste.go
   guarantees for every input, and the refutation of cycle detection on the current tree. *)
From JS Require Import Base Bytes Scanner Directive Core Expand.
From JS Require DirectiveTables ErrConsts.
From Coq Require Import Lia.
Open Scope Z_scope.

(* MACRO definitions contribute nothing: after collectMacro no root is a MACRO *)
Theorem collect_macro_removes_macros :
  forall roots kept ms roots' ms',
    (forall d, In d kept -> N.eqb (d_kind d) DirectiveTables.dir_Macro = false) ->
    collect_macro roots kept ms = COk (roots', ms') ->
    forall d, In d roots' -> N.eqb (d_kind d) DirectiveTables.dir_Macro = false.
Proof.
  induction roots as [|r roots IH]; intros kept ms roots' ms' Hk H d Hd; cbn [collect_macro] in H.
  - injection H as <- <-. apply in_rev in Hd. auto.
  - destruct (N.eqb (d_kind r) DirectiveTables.dir_Macro) eqn:E.
    + destruct (add_macro ms r) as [ms1|e|p|]; try discriminate. eapply IH; eauto.
    + eapply IH; [|exact H|exact Hd]. intros x [->|Hx]; auto.
Qed.

(* the non-MACRO roots keep their relative order *)
Theorem collect_macro_keeps_order :
  forall roots kept ms roots' ms',
    collect_macro roots kept ms = COk (roots', ms') ->
    roots' = rev kept ++ List.filter (fun d => negb (N.eqb (d_kind d) DirectiveTables.dir_Macro)) roots.
Proof.
  induction roots as [|r roots IH]; intros kept ms roots' ms' H; cbn [collect_macro List.filter] in *.
  - injection H as <- <-. rewrite app_nil_r. reflexivity.
  - destruct (N.eqb (d_kind r) DirectiveTables.dir_Macro) eqn:E; cbn [negb].
    + destruct (add_macro ms r) as [ms1|e|p|]; try discriminate. eapply IH; eauto.
    + rewrite (IH _ _ _ _ H). cbn [rev]. rewrite <- app_assoc. reflexivity.
Qed.

(* a PASTE whose macro is not defined is an error located at that PASTE *)
Definition mk_paste (name : bytes) (pos : Z) : dir :=
  mkDir DirectiveTables.dir_Paste (str "PASTE") (mkCoords 0 pos (pos + 4)) [(KName, name)] [] [] None false [] [].

Lemma named_mk_paste name pos : named (mk_paste name pos) KName = name.
Proof. reflexivity. Qed.

Theorem undefined_macro_is_error :
  forall echeck ms fuel xs name pos,
    name <> [] -> macro_lookup ms name = None ->
    exists e, expand_dir echeck ms (S fuel) xs (mk_paste name pos) = CErr e /\
              e_file e = 0%N /\ e_index e = pos.
Proof.
  intros echeck ms fuel xs name pos Hn Hl. cbn [expand_dir].
  replace (N.eqb (d_kind (mk_paste name pos)) DirectiveTables.dir_Paste) with true by reflexivity.
  replace (d_annot (mk_paste name pos)) with (@nil N) by reflexivity.
  rewrite named_mk_paste.
  replace (negb (beq [] [])) with false by reflexivity.
  destruct (beq name []) eqn:E.
  { destruct name; [congruence|cbn in E; discriminate]. }
  rewrite Hl. eexists. split; [reflexivity|]. split; reflexivity.
Qed.

(* ------------------------------------------------------------------------------------ *)
(* cycles: when the recursion check passes, no PASTE inside any macro names that macro or a
   macro that leads back to it *)
Lemma first_some_none {A B} (f : A -> option B) l :
  first_some f l = None -> forall x, In x l -> f x = None.
Proof.
  induction l as [|y l IH]; intros H x Hx; [destruct Hx|].
  cbn [first_some] in H. destruct (f y) eqn:E; [discriminate|].
  destruct Hx as [->|Hx]; auto.
Qed.

Theorem recursion_check_sound :
  forall depth ms,
    check_recursion depth ms = None ->
    forall name m, In (name, m) ms ->
    forall p, In p (macro_pastes depth m) ->
      named p KName <> [] /\ named p KName <> name /\
      reaches (S (List.length ms)) depth ms (named p KName) name = false.
Proof.
  intros depth ms H name m Hin p Hp. unfold check_recursion in H.
  pose proof (first_some_none _ _ H (name, m) Hin) as F. cbn [fst snd] in F.
  unfold find_paste in F. pose proof (first_some_none _ _ F p Hp) as V.
  unfold paste_verdict in V.
  destruct (beq (named p KName) []) eqn:E1; [discriminate|].
  destruct (beq (named p KName) name) eqn:E2; [discriminate|].
  destruct (reaches (S (List.length ms)) depth ms (named p KName) name) eqn:E3; [discriminate|].
  repeat split; auto.
  - intros E. rewrite E in E1. cbn in E1. discriminate.
  - intros E. rewrite E in E2. unfold beq in E2.
    assert (N_eqb_list name name = true).
    { clear. induction name as [|x l IH]; cbn; auto. rewrite N.eqb_refl. exact IH. }
    congruence.
Qed.

(* the two-macro and three-macro cycles that used to overflow the stack (finding F3, fixed in
   /repo) are now rejected with the recursion error at the PASTE that starts the chain *)
Definition body_of_paste (name : string) (pos : Z) : list dir := [mk_paste (str name) pos].
Definition mk_macro (name target : string) (pos : Z) : bytes * dir :=
  (str name, mkDir DirectiveTables.dir_Macro (str "MACRO") (mkCoords 0 pos (pos + 4)) [(KName, str name)] [] []
                   None true [] (body_of_paste target (pos + 11))).

Definition cyc2 : macros := [mk_macro "@a" "@b" 11; mk_macro "@b" "@a" 33].
Definition cyc3 : macros := [mk_macro "@a" "@b" 11; mk_macro "@b" "@c" 33; mk_macro "@c" "@a" 55].

Definition is_recursion_error_at (r : option cerr) (pos : Z) : bool :=
  match r with
  | Some e => (e_index e =? pos) && beq (List.concat (m_args (e_msg e))) (str ErrConsts.jerr_RecursionIsProhibited)
  | None => false
  end.

Theorem longer_cycles_are_rejected :
  is_recursion_error_at (check_recursion 10 cyc2) 22 = true /\
  is_recursion_error_at (check_recursion 10 cyc3) 22 = true.
Proof. split; vm_compute; reflexivity. Qed.
