(* CatalogIds.v — in every built catalog the id of an HTTP interaction is
   "http " ++ METHOD ++ " " ++ path with METHOD the keyword of an HTTP method directive, so two
   interactions of one catalog that agree on path and (case-insensitively) on method are the same
   interaction.  Discharges the hypothesis of the OpenAPI theorem (Props/C17.v) for built
   catalogs. *)
From JS Require Import Base Bytes Scanner Directive Core Expand Catalog OpenApi ListAux C05Proofs C02Proofs CatalogOrder C17Proofs.
From JS Require DirectiveTables.
From Coq Require Import Lia.
Open Scope Z_scope.

Definition wf_http (h : http_inter) : Prop :=
  exists k, is_method k = true /\ hi_method h = kind_name k /\
            hi_id h = str "http " ++ kind_name k ++ sp ++ hi_path h.
Definition wf_inter (i : inter) : Prop := match i with IHttp h => wf_http h | IRpc _ => True end.
Definition wf_inters (c : catalog) : Prop := Forall wf_inter (c_inters c).

Lemma dir_method_is_method anc : forall d k, dir_method d anc = Some k -> is_method k = true.
Proof.
  induction anc as [|p rest IH]; intros d k H; cbn [dir_method] in H.
  - destruct (is_method (d_kind d)) eqn:E; [injection H as <-; exact E|discriminate].
  - destruct (is_method (d_kind d)) eqn:E; [injection H as <-; exact E|]. eapply IH. exact H.
Qed.

Lemma http_id_wf d anc id m p :
  http_id d anc = inl (id, m, p) ->
  forall a de t q r rs o, wf_http (mkHttp id m p a de t q r rs o).
Proof.
  unfold http_id. destruct (dir_path d anc) as [p0|]; [|discriminate].
  destruct (dir_method d anc) as [k|] eqn:M; [|discriminate].
  intros H. injection H as <- <- <-. intros. exists k. cbn. split; [eapply dir_method_is_method; exact M|split; reflexivity].
Qed.

Definition keeps3 (f : http_inter -> http_inter) : Prop :=
  forall h, hi_id (f h) = hi_id h /\ hi_method (f h) = hi_method h /\ hi_path (f h) = hi_path h.

Lemma update_wf is id f : keeps3 f -> Forall wf_inter is ->
  Forall wf_inter (update_inter is id (fun i => match i with IHttp h => IHttp (f h) | x => x end)).
Proof.
  intros K H. induction H as [|i r Hi Hr IH]; cbn [update_inter]; [constructor|].
  destruct (beq (inter_id i) id).
  - constructor; [|exact Hr]. destruct i as [h|x]; [|exact Hi]. cbn [wf_inter] in *.
    destruct Hi as [k [A [B C]]]. destruct (K h) as [K1 [K2 K3]]. exists k. rewrite K1, K2, K3. auto.
  - constructor; assumption.
Qed.

Lemma upd_http_wf c id f : keeps3 f -> wf_inters c -> wf_inters (upd_http c id f).
Proof. intros K H. unfold wf_inters, upd_http. cbn [c_inters set_inters]. apply update_wf; assumption. Qed.

Lemma upd_rpc_wf c id f : wf_inters c -> wf_inters (upd_rpc c id f).
Proof.
  intros H. unfold wf_inters, upd_rpc. cbn [c_inters set_inters].
  induction H as [|i r Hi Hr IH]; cbn [update_inter]; [constructor|].
  destruct (beq (inter_id i) id); constructor; try assumption. destruct i; [exact Hi|exact I].
Qed.

Ltac crush H :=
  repeat (match type of H with
          | context [match ?x with _ => _ end] => let E := fresh "E" in destruct x eqn:E; try discriminate H
          | context [if ?x then _ else _] => let E := fresh "E" in destruct x eqn:E; try discriminate H
          end).
Ltac errs H := unfold kerr1, kerr, not_found, required in H; try discriminate H.
Ltac keeps :=
  intros ?h; cbn [hi_id hi_method hi_path];
  repeat (match goal with |- context [match ?x with _ => _ end] => destruct x end; cbn [hi_id hi_method hi_path]);
  repeat split; reflexivity.
Ltac wf_same W :=
  repeat (first [apply upd_http_wf; [keeps|] | apply upd_rpc_wf]);
  first [exact W | (unfold wf_inters in *; cbn [c_inters set_inters set_tags set_similar] in *; exact W)].

Lemma check_paths_wf c d anc c1 p : check_paths c d anc = inl (c1, p) -> wf_inters c -> wf_inters c1.
Proof.
  unfold check_paths. destruct (dir_path d anc); [|discriminate].
  destruct (path_params_error b); [discriminate|].
  destruct (check_similar _ _); [|discriminate]. intros H W. injection H as <- _. exact W.
Qed.

Lemma add_request_wf c d anc c' : add_request c d anc = COk c' -> wf_inters c -> wf_inters c'.
Proof. unfold add_request. intros H W. crush H. all: errs H. all: injection H as <-. all: wf_same W. Qed.

Lemma add_response_wf c d anc c' : add_response c d anc = COk c' -> wf_inters c -> wf_inters c'.
Proof. unfold add_response. intros H W. crush H. all: errs H. all: injection H as <-. all: wf_same W. Qed.

Lemma add_description_wf c d anc body c' : add_description c d anc body = COk c' -> wf_inters c -> wf_inters c'.
Proof. unfold add_description. intros H W. crush H. all: errs H. all: injection H as <-. all: wf_same W. Qed.

Theorem add_directive_wf banned c d anc c' : add_directive banned c d anc = COk c' -> wf_inters c -> wf_inters c'.
Proof.
  unfold add_directive. intros H W.
  crush H.
  all: errs H.
  all: try (eapply add_request_wf; [exact H|exact W]).
  all: try (eapply add_response_wf; [exact H|exact W]).
  all: try (injection H as <-).
  all: try (wf_same W; fail).
  - match goal with E : check_paths _ _ _ = inl _ |- _ => pose proof (check_paths_wf _ _ _ _ _ E W) as W1 end.
    unfold wf_inters in *. cbn [c_inters]. exact W1.
  - match goal with E : check_paths _ _ _ = inl _ |- _ => pose proof (check_paths_wf _ _ _ _ _ E W) as W1 end.
    unfold wf_inters in *. cbn [c_inters set_inters set_tags]. apply Forall_app. split; [exact W1|].
    constructor; [|constructor]. cbn [wf_inter].
    match goal with E : http_id _ _ = inl _ |- _ => eapply http_id_wf; exact E end.
  - unfold wf_inters in *. cbn [c_inters set_inters set_tags]. apply Forall_app. split; [exact W|].
    constructor; [exact I|constructor].
Qed.

Section LiftWf.
  Variable read_body : coords -> bytes.
  Variable banned : list N.

  Lemma add_branch_wf fuel : forall c d anc c', add_branch read_body banned fuel c d anc = COk c' -> wf_inters c -> wf_inters c'.
  Proof.
    induction fuel as [|fuel IH]; intros c d anc c' H W; cbn [add_branch] in H; [discriminate|].
    match type of H with match ?r with _ => _ end = _ => destruct r as [c1| | |] eqn:R; try discriminate end.
    assert (W1 : wf_inters c1).
    { destruct (existsb (N.eqb (d_kind d)) banned); [eapply add_directive_wf; [exact R|exact W]|].
      destruct (N.eqb (d_kind d) DirectiveTables.dir_Description);
        [eapply add_description_wf; [exact R|exact W]|eapply add_directive_wf; [exact R|exact W]]. }
    clear R W. revert c1 W1 H. generalize (d_children d) as cs.
    induction cs as [|x rest IHc]; intros c1 W1 H.
    - injection H as <-. exact W1.
    - destruct (add_branch read_body banned fuel c1 x (d :: anc)) as [c2| | |] eqn:B; try discriminate.
      eapply IHc; [eapply IH; [exact B|exact W1]|exact H].
  Qed.

  Lemma add_all_wf fuel ds : forall c c', add_all read_body banned fuel c ds = COk c' -> wf_inters c -> wf_inters c'.
  Proof.
    induction ds as [|d ds IH]; intros c c' H W; cbn [add_all] in H.
    - injection H as <-. exact W.
    - destruct (add_branch read_body banned fuel c d []) as [c1| | |] eqn:B; try discriminate.
      eapply IH; [exact H|eapply add_branch_wf; [exact B|exact W]].
  Qed.

  Lemma collect_tags_inters ds : forall e c0, collect_tags e ds = COk c0 -> c_inters c0 = c_inters e.
  Proof.
    induction ds as [|d ds IH]; intros e c0 T; cbn [collect_tags] in T.
    - injection T as <-. reflexivity.
    - destruct (N.eqb (d_kind d) DirectiveTables.dir_TAG).
      + destruct (beq (named d KTagName) []); [unfold required in T; discriminate|].
        destruct (find_tag (c_tags e) (named d KTagName)); [unfold kerr in T; discriminate|].
        rewrite (IH _ _ T). reflexivity.
      + apply IH. exact T.
  Qed.

  Theorem built_catalog_wf fuel forest c :
    build_catalog read_body banned fuel forest = COk c -> wf_inters c.
  Proof.
    unfold build_catalog. intros H.
    destruct (collect_tags empty_catalog forest) as [c0| | |] eqn:T; try discriminate.
    destruct (dup_type_error [] forest); [discriminate|].
    destruct (type_without_body forest); [discriminate|].
    destruct (collect_paths fuel forest [] None); [|discriminate].
    destruct (missed_path_errors forest); [discriminate|].
    assert (W0 : wf_inters c0) by (unfold wf_inters; rewrite (collect_tags_inters _ _ _ T); constructor).
    destruct (negb _).
    - destruct forest; [injection H as <-; exact W0|unfold kerr1, kerr in H; discriminate].
    - destruct (add_all read_body banned fuel c0 forest) as [c1| | |] eqn:A; try discriminate.
      destruct (validate c1); [discriminate|]. injection H as <-.
      eapply add_all_wf; [exact A|exact W0].
  Qed.
End LiftWf.

(* method keywords differ even when case is ignored *)
Definition methods_distinct_check : bool :=
  forallb (fun k => forallb (fun k' => implb (beq (lower_bytes (kind_name k)) (lower_bytes (kind_name k'))) (N.eqb k k'))
                            DirectiveTables.dir_http_methods) DirectiveTables.dir_http_methods.
Lemma methods_distinct_check_ok : methods_distinct_check = true.
Proof. vm_compute. reflexivity. Qed.

Lemma mem_N_In k l : mem_N k l = true -> In k l.
Proof.
  unfold mem_N. intros H. apply existsb_exists in H as [x [Hx E]]. apply N.eqb_eq in E. subst. exact Hx.
Qed.

Lemma methods_distinct k k' :
  is_method k = true -> is_method k' = true ->
  lower_bytes (kind_name k) = lower_bytes (kind_name k') -> k = k'.
Proof.
  unfold is_method, is_http_request_method. intros H H' E.
  apply mem_N_In in H. apply mem_N_In in H'.
  pose proof methods_distinct_check_ok as C. unfold methods_distinct_check in C.
  rewrite forallb_forall in C. specialize (C _ H). rewrite forallb_forall in C. specialize (C _ H').
  rewrite E, beq_refl' in C. cbn [implb] in C. apply N.eqb_eq in C. exact C.
Qed.

Lemma nodup_map_inj {A B} (f : A -> B) (l : list A) x y :
  NoDup (List.map f l) -> In x l -> In y l -> f x = f y -> x = y.
Proof.
  induction l as [|z r IH]; intros N Hx Hy E; [contradiction|].
  cbn [List.map] in N. inversion N as [|? ? Hnotin N']; subst.
  destruct Hx as [->|Hx], Hy as [->|Hy]; auto.
  - exfalso. apply Hnotin. rewrite E. apply in_map. exact Hy.
  - exfalso. apply Hnotin. rewrite <- E. apply in_map. exact Hx.
Qed.

(* in a well-formed catalog with distinct ids, path and method identify the interaction *)
Theorem path_and_method_identify is :
  Forall wf_inter is -> NoDup (List.map inter_id is) ->
  forall h, In (IHttp h) is -> only_one is h.
Proof.
  intros W N h Hin h' Hin' Ep Em.
  rewrite Forall_forall in W.
  destruct (W _ Hin) as [k [Mk [Hm Hid]]]. destruct (W _ Hin') as [k' [Mk' [Hm' Hid']]].
  rewrite Hm, Hm' in Em. pose proof (methods_distinct _ _ Mk' Mk Em) as ->.
  assert (E : inter_id (IHttp h') = inter_id (IHttp h)) by (cbn [inter_id]; rewrite Hid, Hid', Ep; reflexivity).
  pose proof (nodup_map_inj inter_id is _ _ N Hin' Hin E) as X. injection X as ->. reflexivity.
Qed.

(* the OpenAPI theorem without hypotheses, for every catalog the builder produces *)
Theorem built_catalog_exports_every_http_interaction read_body banned fuel forest c :
  build_catalog read_body banned fuel forest = COk c ->
  forall h, In (IHttp h) (c_inters c) ->
  has_op (fill_paths (c_inters c)) (hi_path h) (lower_bytes (hi_method h)) (op_of h).
Proof.
  intros B h Hin. apply every_http_interaction_is_an_operation; [exact Hin|].
  apply path_and_method_identify; [exact (built_catalog_wf _ _ _ _ _ B)|exact (built_catalog_ids_distinct _ _ _ _ _ B)|exact Hin].
Qed.

(* ... and its key is its id: protocol, method keyword, path *)
Theorem built_catalog_http_ids read_body banned fuel forest c :
  build_catalog read_body banned fuel forest = COk c ->
  forall h, In (IHttp h) (c_inters c) ->
  exists k, is_method k = true /\ hi_method h = kind_name k /\ hi_id h = str "http " ++ kind_name k ++ sp ++ hi_path h.
Proof.
  intros B h Hin. pose proof (built_catalog_wf _ _ _ _ _ B) as W. unfold wf_inters in W.
  rewrite Forall_forall in W. exact (W _ Hin).
Qed.
