(* C09Proofs.v — INCLUDE: the file switch leaves the directive being accumulated, the open
   context and the forest untouched; refutation of transparency inside an explicit context. *)
From JS Require Import Base Bytes Scanner Directive Core Expand Entry C14Proofs.
From JS Require ScannerProg IncludeName.
Open Scope Z_scope.

Section Step.
  Variable fs : fsmap.
  Variable olen : bytes -> okind -> Z -> olen_res.
  Notation pinc := (process_include ScannerProg.prog_table ScannerProg.is_newline_cond
                                    ScannerProg.is_whitespace_cond fs olen ScannerProg.initial_state).

  (* switching to the included file does not finalise the pending directive and does not
     move the context: they carry over unchanged; the includer is suspended exactly after
     the INCLUDE parameter *)
  Theorem include_preserves_core_state :
    forall st kw st1 st2,
      pinc st kw = (COk st1, st2) ->
      cs_cur st1 = cs_cur st /\ cs_ctx st1 = cs_ctx st /\ cs_forest st1 = cs_forest st /\
      cs_tracers st1 = cs_tracers st /\
      exists cf rest_item,
        cs_stack st1 = rest_item :: cs_stack st /\ si_file rest_item = cs_file st /\
        si_at rest_item = lb kw /\ si_conf rest_item = cf /\
        c_step (cs_conf st1) = ScannerProg.initial_state /\ c_cur (cs_conf st1) = 0.
  Proof.
    intros st kw st1 st2 H. unfold process_include in H.
    match type of H with
    | context [scan_next ?a ?b ?c ?d ?e] => destruct (scan_next a b c d e) as [[ol cf]|e0|p0|] eqn:Hscan
    end; try discriminate.
    destruct ol as [pl|]; [|discriminate].
    destruct (lk pl); try discriminate.
    destruct (lex_value (set_conf st cf) pl) as [raw|]; [|discriminate].
    destruct (beq (unquote raw) []); [discriminate|].
    destruct (validate_include IncludeName.include_checks (unquote raw)) as [[m|]|]; try discriminate.
    cbn zeta in H.
    match type of H with context [stat_path fs ?p] => destruct (stat_path fs p) as [content| | |] end;
      try discriminate.
    match type of H with (if ?c then _ else _) = _ => destruct c end; [discriminate|].
    injection H as <- _. cbn. repeat split; auto.
    eexists _, _. repeat split; reflexivity.
  Qed.
End Step.

(* ------------------------------------------------------------------------------------ *)
(* FULL STATEMENT (false of the current code): a split project builds like the unsplit
   document.  Refuted (finding F14): processEOF checks for an unclosed explicit context at
   the end of EVERY file, so an INCLUDE standing inside '( )' of the includer is rejected. *)
Definition unsplit_doc : bytes := bytes_of_string "JSIGHT 0.3
URL /a
(
GET
  200 any
)
".
Definition split_root : bytes := bytes_of_string "JSIGHT 0.3
URL /a
(
INCLUDE a.jst
)
".
Definition split_piece : bytes := bytes_of_string "GET
  200 any
".

Definition scan_ok (r : tree_result) : bool :=
  match r with TScanned _ _ _ => true | _ => false end.

Definition root_name := bytes_of_string "root.jst".

Theorem include_in_explicit_context_refuted :
  scan_ok (tree_case [(root_name, FFile unsplit_doc)] root_name [] [] 1000) = true /\
  scan_ok (tree_case [(root_name, FFile split_root); (bytes_of_string "a.jst", FFile split_piece)]
                     root_name [] [] 1000) = false.
Proof. split; vm_compute; reflexivity. Qed.
