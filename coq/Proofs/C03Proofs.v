(* C03Proofs.v — the uniqueness mechanisms behind "a single fault is rejected at the fault":
   a key that is already present is refused, for every state of the model. *)
From JS Require Import Base Bytes Scanner Directive Core Expand Catalog C05Proofs.
From JS Require DirectiveTables ErrConsts.
Open Scope Z_scope.

Section Faults.
  Variable banned : list N.
  Hypothesis not_banned : forall d, existsb (N.eqb (d_kind d)) banned = false.

  Definition is_err_at {A} (r : cres A) (d : dir) (m : string) : Prop :=
    exists e, r = CErr e /\ e_file e = co_file (d_kw d) /\ e_index e = co_begin (d_kw d) /\
              m_fmt (e_msg e) = m.

  (* a second OperationId with a value seen before is refused at that directive, whatever
     else the catalog holds and wherever the directive stands *)
  Theorem duplicate_operation_id c d anc :
    d_kind d = DirectiveTables.dir_OperationID -> d_annot d = [] ->
    named d KOperationId <> [] ->
    In (named d KOperationId) (c_opids c) ->
    is_err_at (add_directive banned c d anc) d ErrConsts.jerr_NotUniqueOperationID.
  Proof.
    intros Hk Ha Hn Hin. unfold add_directive. rewrite not_banned, Hk.
    vm_compute (N.eqb DirectiveTables.dir_OperationID _).
    cbn [orb].
    destruct (beq (named d KOperationId) []) eqn:E; [apply beq_true_eq in E; contradiction|].
    unfold has_annot. rewrite Ha. cbn [beq N_eqb_list negb].
    assert (X : existsb (beq (named d KOperationId)) (c_opids c) = true).
    { apply existsb_exists. exists (named d KOperationId). split; [exact Hin|apply beq_refl']. }
    rewrite X. unfold kerr. eexists. repeat split.
  Qed.

  (* a second server / user type with a name seen before is refused at that directive *)
  Theorem duplicate_server c d anc :
    d_kind d = DirectiveTables.dir_Server -> named d KName <> [] ->
    existsb (fun s => beq (fst (fst s)) (named d KName)) (c_servers c) = true ->
    is_err_at (add_directive banned c d anc) d ErrConsts.jerr_DuplicateNames.
  Proof.
    intros Hk Hn Hin. unfold add_directive. rewrite not_banned, Hk.
    vm_compute (N.eqb DirectiveTables.dir_Server _). cbn [orb].
    destruct (beq (named d KName) []) eqn:E; [apply beq_true_eq in E; contradiction|].
    rewrite Hin. unfold kerr. eexists. repeat split.
  Qed.

  Theorem duplicate_type c d anc :
    d_kind d = DirectiveTables.dir_Type -> named d KName <> [] ->
    existsb (fun s => beq (fst (fst s)) (named d KName)) (c_types c) = true ->
    is_err_at (add_directive banned c d anc) d ErrConsts.jerr_DuplicateNames.
  Proof.
    intros Hk Hn Hin. unfold add_directive. rewrite not_banned, Hk.
    vm_compute (N.eqb DirectiveTables.dir_Type _). cbn [orb].
    destruct (beq (named d KName) []) eqn:E; [apply beq_true_eq in E; contradiction|].
    rewrite Hin. unfold kerr. eexists. repeat split.
  Qed.
End Faults.

(* a repeated JSIGHT, and a document that does not start with JSIGHT *)
Theorem jsight_must_be_first read_body banned fuel d rest :
  N.eqb (d_kind d) DirectiveTables.dir_Jsight = false ->
  forall c0, collect_tags empty_catalog (d :: rest) = COk c0 ->
  dup_type_error [] (d :: rest) = None ->
  type_without_body (d :: rest) = None ->
  (exists x, collect_paths fuel (d :: rest) [] None = inl x) ->
  missed_path_errors (d :: rest) = None ->
  exists e, build_catalog read_body banned fuel (d :: rest) = CErr e /\
            e_index e = co_begin (d_kw d) /\ m_args (e_msg e) = [str ErrConsts.jerr_DirectiveJSIGHTShouldBeTheFirst].
Proof.
  intros Hk c0 Ht Hdt Hty [x Hp] Hm. unfold build_catalog. rewrite Ht, Hdt, Hty, Hp, Hm, Hk. cbn [negb].
  unfold kerr1, kerr. eexists. repeat split.
Qed.
