(* C04Proofs.v — JDoc Exchange shape: every required field of every entity is emitted
   unconditionally by the regenerated struct tags; schema nodes are typed consistently. *)
From Coq Require Import List String Bool ZArith Lia.
Import ListNotations.
Open Scope string_scope.
From JS Require Import Json.
From JS Require JsonTags JDocShape.

Definition field_required (fs : list (string * bool)) (f : string) : bool :=
  existsb (fun x => String.eqb (fst x) f && negb (snd x)) fs.
Definition field_absent (fs : list (string * bool)) (f : string) : bool :=
  negb (existsb (fun x => String.eqb (fst x) f) fs).

(* every struct carrying the anchors of a row satisfies the row, and there is one *)
Definition row_holds (ok : list (string * bool) -> string -> bool) (r : string * list string * list string) : bool :=
  let '(_, anchors, fields) := r in
  match structs_with anchors with
  | [] => false
  | ss => forallb (fun fs => forallb (ok fs) fields) ss
  end.

Definition tags_check : bool :=
  forallb (row_holds field_required) JDocShape.required_fields
  && forallb (row_holds field_absent) JDocShape.forbidden_fields.

Lemma tags_check_ok : tags_check = true.
Proof. vm_compute. reflexivity. Qed.

(* a field that is tagged without omitempty is always in the output *)
Lemma marshal_struct_has fields value f :
  field_required fields f = true ->
  NoDup (List.map fst fields) ->
  lookup (match marshal_struct fields value with JObj fs => fs | _ => [] end) f = Some (value f).
Proof.
  unfold marshal_struct. induction fields as [|[n o] r IH]; cbn [field_required existsb flat_map List.map fst snd]; intros H ND.
  - discriminate.
  - inversion ND as [|? ? Hn ND']; subst.
    destruct (String.eqb n f) eqn:E.
    + apply String.eqb_eq in E. subst n. cbn [andb] in H.
      destruct o; cbn [negb] in H.
      * (* omitempty here: the required witness is further on, impossible by NoDup *)
        cbn [orb] in H. exfalso. apply Hn.
        apply existsb_exists in H as [[n' o'] [Hin Hx]]. cbn [fst snd] in Hx.
        apply andb_prop in Hx as [Hx _]. apply String.eqb_eq in Hx. subst n'.
        apply in_map_iff. exists (f, o'). split; [reflexivity|exact Hin].
      * cbn [andb app lookup]. rewrite String.eqb_refl. reflexivity.
    + cbn [andb orb] in H.
      assert (G : lookup (flat_map (fun f0 => let v := value (fst f0) in if snd f0 && is_empty_value v then [] else [(fst f0, v)]) r) f = Some (value f))
        by (apply IH; auto).
      destruct (o && is_empty_value (value n)); cbn [app lookup]; [exact G|].
      rewrite E. exact G.
Qed.

Lemma marshal_struct_lacks fields value f :
  field_absent fields f = true ->
  lookup (match marshal_struct fields value with JObj fs => fs | _ => [] end) f = None.
Proof.
  unfold marshal_struct, field_absent. induction fields as [|[n o] r IH]; cbn [existsb flat_map fst snd]; intros H; [reflexivity|].
  apply negb_true_iff in H. apply orb_false_elim in H as [E H].
  assert (G : lookup (flat_map (fun f0 => let v := value (fst f0) in if snd f0 && is_empty_value v then [] else [(fst f0, v)]) r) f = None).
  { apply IH. apply negb_true_iff. exact H. }
  destruct (o && is_empty_value (value n)); cbn [app lookup]; [exact G|]. rewrite E. exact G.
Qed.

Definition fields_nodup (fs : list (string * bool)) : bool :=
  (fix nd (l : list string) : bool :=
     match l with [] => true | x :: r => negb (existsb (String.eqb x) r) && nd r end) (List.map fst fs).

Lemma fields_nodup_sound fs : fields_nodup fs = true -> NoDup (List.map fst fs).
Proof.
  unfold fields_nodup. induction (List.map fst fs) as [|x r IH]; intros H; [constructor|].
  apply andb_prop in H as [H1 H2]. constructor; auto.
  intros Hin. apply negb_true_iff in H1. apply not_true_iff_false in H1. apply H1.
  apply existsb_exists. exists x. split; [exact Hin|apply String.eqb_refl].
Qed.

Definition content_tables_check : bool :=
  field_required obj_fields "children" && field_absent obj_fields "scalarValue" &&
  field_required lit_fields "scalarValue" && field_absent lit_fields "children" &&
  existsb (fun x => String.eqb (fst x) "tokenType") obj_fields &&
  existsb (fun x => String.eqb (fst x) "tokenType") lit_fields &&
  fields_nodup obj_fields && fields_nodup lit_fields.

Lemma content_tables_check_ok : content_tables_check = true.
Proof. vm_compute. reflexivity. Qed.

(* tokenType is tagged omitempty: it is present whenever it is not the empty string *)
Lemma marshal_struct_tokentype fields value tk :
  existsb (fun x => String.eqb (fst x) "tokenType") fields = true ->
  NoDup (List.map fst fields) ->
  value "tokenType" = JStr tk -> tk <> "" ->
  lookup (match marshal_struct fields value with JObj fs => fs | _ => [] end) "tokenType" = Some (JStr tk).
Proof.
  unfold marshal_struct. induction fields as [|[n o] r IH]; cbn [existsb flat_map List.map fst snd]; intros H ND Hv Hne.
  - discriminate.
  - inversion ND as [|? ? Hn ND']; subst.
    destruct (String.eqb n "tokenType") eqn:E.
    + apply String.eqb_eq in E. subst n. rewrite Hv.
      replace (is_empty_value (JStr tk)) with false by (destruct tk; [congruence|reflexivity]).
      rewrite andb_false_r. cbn [app lookup]. rewrite String.eqb_refl. reflexivity.
    + cbn [orb] in H.
      destruct (o && is_empty_value (value n)); cbn [app lookup]; [|rewrite E]; apply IH; auto.
Qed.

Fixpoint token_types_nonempty (c : content) : bool :=
  match c with
  | Node tk _ children _ => negb (String.eqb tk "") && forallb token_types_nonempty children
  end.

Lemma content_shape_mono : forall n m j, (n <= m)%nat -> content_shape n j = true -> content_shape m j = true.
Proof.
  induction n as [|n IH]; intros m j Hle H; [discriminate|].
  destruct m as [|m]; [lia|]. cbn [content_shape] in *.
  destruct j; try discriminate.
  destruct (lookup fs "tokenType") as [[| |tk| | |]|]; try discriminate.
  destruct (is_container tk); [|exact H].
  destruct (lookup fs "children") as [[| | | |l|]|]; try discriminate.
  destruct (lookup fs "scalarValue"); [discriminate|].
  rewrite forallb_forall in *. intros x Hx. apply (IH m); [lia|auto].
Qed.

Theorem marshalled_content_is_consistent :
  forall c, token_types_nonempty c = true -> content_shape (cdepth c) (marshal_content c) = true.
Proof.
  pose proof content_tables_check_ok as K. unfold content_tables_check in K.
  repeat (apply andb_prop in K as [K ?]).
  rename K into Kc. rename H into Kns. rename H0 into Kn1. rename H1 into Kt2. rename H2 into Kt1.
  rename H3 into Kac. rename H4 into Krs. rename H5 into Kas.
  apply fields_nodup_sound in Kns. apply fields_nodup_sound in Kn1.
  fix IH 1. intros [tk scalar children other] Hne.
  cbn [token_types_nonempty] in Hne. apply andb_prop in Hne as [Htk Hch].
  apply negb_true_iff in Htk. apply String.eqb_neq in Htk.
  cbn [marshal_content cdepth]. destruct (is_container tk) eqn:C.
  - set (value := fun f : string => if String.eqb f "children" then JArr (List.map marshal_content children)
                                   else if String.eqb f "tokenType" then JStr tk else other f).
    pose proof (marshal_struct_has obj_fields value "children" Kc Kn1) as Hc.
    pose proof (marshal_struct_lacks obj_fields value "scalarValue" Kas) as Hs.
    pose proof (marshal_struct_tokentype obj_fields value tk Kt1 Kn1 eq_refl Htk) as Ht.
    unfold marshal_struct in *. cbn [content_shape]. rewrite Ht, C, Hc, Hs.
    unfold value. rewrite String.eqb_refl.
    clear - IH Hch. induction children as [|x r IHr]; [reflexivity|].
    cbn [forallb List.map fold_right] in *. apply andb_prop in Hch as [Hx Hr].
    rewrite (content_shape_mono (cdepth x) _ _ (Nat.le_max_l _ _) (IH x Hx)). cbn [andb].
    specialize (IHr Hr). rewrite forallb_forall in *. intros y Hy.
    apply (content_shape_mono _ _ _ (Nat.le_max_r (cdepth x) _)). auto.
  - set (value := fun f : string => if String.eqb f "scalarValue" then JStr scalar
                                   else if String.eqb f "tokenType" then JStr tk else other f).
    pose proof (marshal_struct_has lit_fields value "scalarValue" Krs Kns) as Hs.
    pose proof (marshal_struct_lacks lit_fields value "children" Kac) as Hc.
    pose proof (marshal_struct_tokentype lit_fields value tk Kt2 Kns eq_refl Htk) as Ht.
    unfold marshal_struct in *. cbn [content_shape]. rewrite Ht, C, Hc, Hs. reflexivity.
Qed.

(* ------------------------------------------------------------------------------------ *)
(* the dynamic reading of tags_check: for EVERY value a struct of the regenerated tag table may
   hold, the JSON object encoding/json writes for it carries every field the JDoc Exchange shape
   requires of that entity (and a schema node never carries the field of the other kind) *)
Fixpoint nodup_names (l : list string) : bool :=
  match l with
  | [] => true
  | x :: r => negb (existsb (String.eqb x) r) && nodup_names r
  end.

Lemma nodup_names_sound l : nodup_names l = true -> NoDup l.
Proof.
  induction l as [|x r IH]; cbn [nodup_names]; intros H; [constructor|].
  apply andb_prop in H as [H1 H2]. constructor; [|exact (IH H2)].
  intros Hin. apply negb_true_iff in H1.
  assert (E : existsb (String.eqb x) r = true) by (apply existsb_exists; exists x; split; [exact Hin|apply String.eqb_refl]).
  congruence.
Qed.

Lemma struct_field_names_distinct :
  forallb (fun r => nodup_names (List.map fst (snd r))) JsonTags.json_structs = true.
Proof. vm_compute. reflexivity. Qed.

Lemma structs_with_in anchors fs : In fs (structs_with anchors) -> exists n, In (n, fs) JsonTags.json_structs.
Proof.
  unfold structs_with. intros H. apply in_map_iff in H as [[n fs'] [E Hin]]. cbn [snd] in E. subst fs'.
  apply filter_In in Hin as [Hin _]. exists n. exact Hin.
Qed.

Lemma row_holds_in ok e anchors fields fs f :
  row_holds ok (e, anchors, fields) = true -> In fs (structs_with anchors) -> In f fields -> ok fs f = true.
Proof.
  unfold row_holds. generalize (structs_with anchors). intros ss H Hs Hf.
  destruct ss as [|s0 ss]; [destruct Hs|].
  rewrite forallb_forall in H. specialize (H fs Hs). rewrite forallb_forall in H. exact (H f Hf).
Qed.

Lemma required_rows_hold : forallb (row_holds field_required) JDocShape.required_fields = true.
Proof. vm_compute. reflexivity. Qed.
Lemma forbidden_rows_hold : forallb (row_holds field_absent) JDocShape.forbidden_fields = true.
Proof. vm_compute. reflexivity. Qed.

Theorem every_entity_always_carries_its_required_fields :
  forall e anchors fields fs value f,
    In (e, anchors, fields) JDocShape.required_fields -> In fs (structs_with anchors) -> In f fields ->
    lookup (match marshal_struct fs value with JObj o => o | _ => [] end) f = Some (value f).
Proof.
  intros e anchors fields fs value f Hr Hs Hf.
  pose proof required_rows_hold as T. rewrite forallb_forall in T.
  pose proof (row_holds_in _ _ _ _ _ _ (T _ Hr) Hs Hf) as R.
  apply marshal_struct_has; [exact R|].
  destruct (structs_with_in _ _ Hs) as [n Hin].
  pose proof struct_field_names_distinct as D. rewrite forallb_forall in D.
  exact (nodup_names_sound _ (D _ Hin)).
Qed.

Theorem no_schema_node_carries_the_other_kinds_field :
  forall e anchors fields fs value f,
    In (e, anchors, fields) JDocShape.forbidden_fields -> In fs (structs_with anchors) -> In f fields ->
    lookup (match marshal_struct fs value with JObj o => o | _ => [] end) f = None.
Proof.
  intros e anchors fields fs value f Hr Hs Hf.
  pose proof forbidden_rows_hold as T. rewrite forallb_forall in T.
  pose proof (row_holds_in _ _ _ _ _ _ (T _ Hr) Hs Hf) as R.
  apply marshal_struct_lacks. exact R.
Qed.
