(* TagLinks.v — tags and interactions refer to each other, for every catalog the builder
   produces: every tag named by an interaction exists and lists that interaction under the
   interaction's protocol, and every interaction listed by a tag exists, has that protocol and
   names the tag.  An invariant of every add-function, lifted over branches, forests and the
   whole build. *)
From JS Require Import Base Bytes Scanner Directive Core Expand Catalog C05Proofs CatalogIds.
From JS Require DirectiveTables ErrConsts.
Open Scope Z_scope.

Definition tags_of (i : inter) : list bytes := match i with IHttp h => hi_tags h | IRpc r => ri_tags r end.
Definition is_http (i : inter) : bool := match i with IHttp _ => true | IRpc _ => false end.

(* the tag named [n] lists [id] under the protocol / the interaction [id] of that protocol names [n] *)
Definition listed (ts : list tag) (n : bytes) (http : bool) (id : bytes) : Prop :=
  exists t, In t ts /\ tg_name t = n /\ In id (group http t).
Definition naming (is : list inter) (id : bytes) (http : bool) (n : bytes) : Prop :=
  exists i, In i is /\ inter_id i = id /\ is_http i = http /\ In n (tags_of i).

Definition linked (ts : list tag) (is : list inter) : Prop :=
  (forall i, In i is -> forall n, In n (tags_of i) -> listed ts n (is_http i) (inter_id i)) /\
  (forall t, In t ts -> forall http id, In id (group http t) -> naming is id http (tg_name t)).
Definition TagInv (c : catalog) : Prop := linked (c_tags c) (c_inters c).

Lemma taginv_ext c c' : c_tags c' = c_tags c -> c_inters c' = c_inters c -> TagInv c -> TagInv c'.
Proof. unfold TagInv. intros -> ->. auto. Qed.

(* interactions rewritten without touching id, protocol or tag names *)
Definition sim (i i' : inter) : Prop := inter_id i' = inter_id i /\ is_http i' = is_http i /\ tags_of i' = tags_of i.

Lemma linked_sim ts is is' : Forall2 sim is is' -> linked ts is -> linked ts is'.
Proof.
  intros F [L1 L2]. split.
  - intros i' Hi' n Hn.
    assert (exists i, In i is /\ sim i i') as [i [Hi [S1 [S2 S3]]]].
    { clear -F Hi'. induction F as [|a b la lb Hab F IH]; [destruct Hi'|].
      destruct Hi' as [<-|Hi']; [exists a; split; [left; reflexivity|exact Hab]|].
      destruct (IH Hi') as [i [A B]]. exists i. split; [right; exact A|exact B]. }
    rewrite S1, S2. apply L1; [exact Hi|]. rewrite <- S3. exact Hn.
  - intros t Ht http id Hid. destruct (L2 t Ht http id Hid) as [i [Hi [A [B C]]]].
    assert (exists i', In i' is' /\ sim i i') as [i' [Hi' [S1 [S2 S3]]]].
    { clear -F Hi. induction F as [|a b la lb Hab F IH]; [destruct Hi|].
      destruct Hi as [<-|Hi]; [exists b; split; [left; reflexivity|exact Hab]|].
      destruct (IH Hi) as [i' [X Y]]. exists i'. split; [right; exact X|exact Y]. }
    exists i'. split; [exact Hi'|]. rewrite S1, S2, S3. auto.
Qed.

Lemma update_inter_sim is id F : (forall i, sim i (F i)) -> Forall2 sim is (update_inter is id F).
Proof.
  intros S. induction is as [|i r IH]; cbn [update_inter]; [constructor|].
  destruct (beq (inter_id i) id).
  - constructor; [apply S|]. clear. induction r; constructor; [repeat split|assumption].
  - constructor; [repeat split|exact IH].
Qed.

Definition keepsT (f : http_inter -> http_inter) : Prop := forall h, hi_id (f h) = hi_id h /\ hi_tags (f h) = hi_tags h.
Definition keepsR (f : rpc_inter -> rpc_inter) : Prop := forall r, ri_id (f r) = ri_id r /\ ri_tags (f r) = ri_tags r.

Lemma upd_http_inv c id f : keepsT f -> TagInv c -> TagInv (upd_http c id f).
Proof.
  intros K H. unfold TagInv, upd_http. cbn [c_tags c_inters set_inters]. eapply linked_sim; [|exact H].
  apply update_inter_sim. intros [h|r]; [|repeat split]. destruct (K h) as [A B]. repeat split; assumption.
Qed.
Lemma upd_rpc_inv c id f : keepsR f -> TagInv c -> TagInv (upd_rpc c id f).
Proof.
  intros K H. unfold TagInv, upd_rpc. cbn [c_tags c_inters set_inters]. eapply linked_sim; [|exact H].
  apply update_inter_sim. intros [h|r]; [repeat split|]. destruct (K r) as [A B]. repeat split; assumption.
Qed.

(* tags rewritten without touching name or groups *)
Definition simt (t t' : tag) : Prop := tg_name t' = tg_name t /\ tg_http t' = tg_http t /\ tg_rpc t' = tg_rpc t.

Lemma group_simt t t' http : simt t t' -> group http t' = group http t.
Proof. intros [_ [A B]]. destruct http; assumption. Qed.

Lemma linked_simt ts ts' is : Forall2 simt ts ts' -> linked ts is -> linked ts' is.
Proof.
  intros F [L1 L2]. split.
  - intros i Hi n Hn. destruct (L1 i Hi n Hn) as [t [Ht [A B]]].
    assert (exists t', In t' ts' /\ simt t t') as [t' [Ht' S]].
    { clear -F Ht. induction F as [|a b la lb Hab F IH]; [destruct Ht|].
      destruct Ht as [<-|Ht]; [exists b; split; [left; reflexivity|exact Hab]|].
      destruct (IH Ht) as [x [X Y]]. exists x. split; [right; exact X|exact Y]. }
    exists t'. split; [exact Ht'|]. rewrite (group_simt _ _ _ S). destruct S as [S1 _]. rewrite S1. auto.
  - intros t' Ht' http id Hid.
    assert (exists t, In t ts /\ simt t t') as [t [Ht S]].
    { clear -F Ht'. induction F as [|a b la lb Hab F IH]; [destruct Ht'|].
      destruct Ht' as [<-|Ht']; [exists a; split; [left; reflexivity|exact Hab]|].
      destruct (IH Ht') as [x [X Y]]. exists x. split; [right; exact X|exact Y]. }
    rewrite (group_simt _ _ _ S) in Hid. destruct S as [S1 _]. rewrite S1. apply (L2 t Ht http id Hid).
Qed.

Lemma update_tag_simt ts n f : (forall t, simt t (f t)) -> Forall2 simt ts (update_tag ts n f).
Proof.
  intros S. induction ts as [|t r IH]; cbn [update_tag]; [constructor|].
  destruct (beq (tg_name t) n).
  - constructor; [apply S|]. clear. induction r; constructor; [repeat split|assumption].
  - constructor; [repeat split|exact IH].
Qed.

(* ------------------------------------------------------------------------------------ *)
(* registering one interaction under tag names *)
Record reg_spec (http : bool) (id : bytes) (names : list bytes) (ts ts' : list tag) : Prop := {
  rs_keep : forall t, In t ts -> exists t', In t' ts' /\ tg_name t' = tg_name t /\ forall h x, In x (group h t) -> In x (group h t');
  rs_new : forall t', In t' ts' -> forall h x, In x (group h t') ->
             (exists t, In t ts /\ tg_name t = tg_name t' /\ In x (group h t)) \/ (x = id /\ h = http /\ In (tg_name t') names)
}.

Lemma reg_refl http id names ts : reg_spec http id names ts ts.
Proof. constructor; [intros t Ht; exists t; auto|intros t' Ht' h x Hx; left; exists t'; auto]. Qed.

Lemma reg_trans http id names a b c : reg_spec http id names a b -> reg_spec http id names b c -> reg_spec http id names a c.
Proof.
  intros [K1 N1] [K2 N2]. constructor.
  - intros t Ht. destruct (K1 t Ht) as [t1 [H1 [E1 G1]]]. destruct (K2 t1 H1) as [t2 [H2 [E2 G2]]].
    exists t2. split; [exact H2|split; [congruence|auto]].
  - intros t2 H2 h x Hx. destruct (N2 t2 H2 h x Hx) as [[t1 [H1 [E1 G1]]]|R]; [|right; exact R].
    destruct (N1 t1 H1 h x G1) as [[t [H0 [E0 G0]]]|[A [B C]]]; [left; exists t; split; [exact H0|split; [congruence|exact G0]]|].
    right. rewrite <- E1. auto.
Qed.

Lemma group_add http id t h x : In x (group h (add_id_to_tag http id t)) <-> In x (group h t) \/ (x = id /\ h = http).
Proof.
  unfold add_id_to_tag, group. destruct http, h; cbn [tg_http tg_rpc]; rewrite ?in_app_iff; cbn [In]; intuition (subst; auto; try discriminate).
Qed.

Lemma update_tag_reg http id names ts n : In n names -> reg_spec http id names ts (update_tag ts n (add_id_to_tag http id)).
Proof.
  intros Hn. induction ts as [|t r IH]; cbn [update_tag]; [apply reg_refl|].
  destruct (beq (tg_name t) n) eqn:E.
  - apply beq_true_eq in E. constructor.
    + intros t0 [E0|H0]; [subst t0; exists (add_id_to_tag http id t); split; [left; reflexivity|split; [apply add_id_name|intros h x Hx; apply group_add; left; exact Hx]]|].
      exists t0. split; [right; exact H0|auto].
    + intros t' [E'|H'] h x Hx.
      * subst t'. apply group_add in Hx as [Hx|[A B]]; [left; exists t; split; [left; reflexivity|split; [symmetry; apply add_id_name|exact Hx]]|].
        right. rewrite add_id_name, E. auto.
      * left. exists t'. split; [right; exact H'|auto].
  - destruct IH as [K N]. constructor.
    + intros t0 [E0|H0]; [subst t0; exists t; split; [left; reflexivity|auto]|].
      destruct (K t0 H0) as [t' [A B]]. exists t'. split; [right; exact A|exact B].
    + intros t' [E'|H'] h x Hx; [subst t'; left; exists t; split; [left; reflexivity|auto]|].
      destruct (N t' H' h x Hx) as [[t0 [A B]]|R]; [left; exists t0; split; [right; exact A|exact B]|right; exact R].
Qed.

Lemma update_tag_has http id ts n t0 : find_tag ts n = Some t0 ->
  exists t', In t' (update_tag ts n (add_id_to_tag http id)) /\ tg_name t' = n /\ In id (group http t').
Proof.
  induction ts as [|t r IH]; cbn [find_tag update_tag]; [discriminate|].
  destruct (beq (tg_name t) n) eqn:E.
  - intros _. apply beq_true_eq in E. exists (add_id_to_tag http id t). split; [left; reflexivity|split; [rewrite add_id_name; exact E|]].
    apply group_add. right. auto.
  - intros H. destruct (IH H) as [t' [A B]]. exists t'. split; [right; exact A|exact B].
Qed.

Lemma find_tag_reg http id names ts ts' n t0 : reg_spec http id names ts ts' -> find_tag ts n = Some t0 -> exists t1, find_tag ts' n = Some t1.
Proof.
  intros [K _] F.
  assert (In t0 ts /\ tg_name t0 = n) as [I0 E0].
  { clear -F. induction ts as [|t r IH]; cbn [find_tag] in F; [discriminate|].
    destruct (beq (tg_name t) n) eqn:E; [injection F as <-; apply beq_true_eq in E; split; [left; reflexivity|exact E]|].
    destruct (IH F) as [A B]. split; [right; exact A|exact B]. }
  destruct (K t0 I0) as [t' [I' [E' _]]]. rewrite E0 in E'.
  clear -I' E'. induction ts' as [|t r IH]; [destruct I'|]. cbn [find_tag].
  destruct (beq (tg_name t) n) eqn:E; [eexists; reflexivity|].
  destruct I' as [<-|I']; [rewrite E', beq_refl' in E; discriminate|]. apply IH. exact I'.
Qed.

(* all names registered by the fold: every name ends up listing the id *)
Lemma fold_reg http id all : forall names ts,
  incl names all -> (forall n, In n names -> exists t0, find_tag ts n = Some t0) ->
  reg_spec http id all ts (fold_left (fun ts n => update_tag ts n (add_id_to_tag http id)) names ts) /\
  (forall n, In n names -> exists t', In t' (fold_left (fun ts n => update_tag ts n (add_id_to_tag http id)) names ts) /\ tg_name t' = n /\ In id (group http t')).
Proof.
  induction names as [|n r IH]; intros ts INC FND; cbn [fold_left].
  - split; [apply reg_refl|intros n []].
  - pose proof (update_tag_reg http id all ts n (INC n (or_introl eq_refl))) as R1.
    assert (FND' : forall m, In m r -> exists t0, find_tag (update_tag ts n (add_id_to_tag http id)) m = Some t0).
    { intros m Hm. destruct (FND m (or_intror Hm)) as [t0 F0]. eapply find_tag_reg; [exact R1|exact F0]. }
    destruct (IH (update_tag ts n (add_id_to_tag http id)) (fun x Hx => INC x (or_intror Hx)) FND') as [R2 H2].
    split; [eapply reg_trans; eassumption|].
    intros m [<-|Hm]; [|apply H2; exact Hm].
    destruct (FND n (or_introl eq_refl)) as [t0 F0].
    destruct (update_tag_has http id ts n t0 F0) as [t1 [I1 [E1 G1]]].
    destruct R2 as [K2 _]. destruct (K2 t1 I1) as [t2 [I2 [E2 G2]]].
    exists t2. split; [exact I2|split; [congruence|apply G2; exact G1]].
Qed.

(* what interaction_tags returns *)
Definition from_tags (c : catalog) (http : bool) (id : bytes) (td : dir) : (list tag * list bytes) + cerr :=
  if has_annot td then inr (dir_error td (msg1 ErrConsts.jerr_AnnotationIsForbiddenForTheDirective))
  else match d_unnamed td with
       | [] => inr (dir_error td (msg1 ErrConsts.jerr_RequiredParameterNotSpecified))
       | names =>
           match List.find (fun n => match find_tag (c_tags c) n with None => true | Some _ => false end) names with
           | Some missing => inr (dir_error td (mkMsg "%s %q" [str ErrConsts.jerr_TagNotFound; missing]))
           | None => inl (fold_left (fun ts n => update_tag ts n (add_id_to_tag http id)) names (c_tags c), names)
           end
       end.

Lemma interaction_tags_unfold c d anc http id path :
  interaction_tags c d anc http id path =
  match tags_child d with
  | Some td => from_tags c http id td
  | None =>
      match (match anc with p :: _ => if N.eqb (d_kind p) DirectiveTables.dir_URL then tags_child p else None | [] => None end) with
      | Some td => from_tags c http id td
      | None =>
          let name := tag_name (path_tag_title path) in
          match find_tag (c_tags c) name with
          | Some _ => inl (update_tag (c_tags c) name (add_id_to_tag http id), [name])
          | None => inl (c_tags c ++ [add_id_to_tag http id (mkTag name (path_tag_title path) None [] [])], [name])
          end
      end
  end.
Proof. reflexivity. Qed.

Lemma interaction_tags_reg c d anc http id path ts names :
  interaction_tags c d anc http id path = inl (ts, names) ->
  reg_spec http id names (c_tags c) ts /\ (forall n, In n names -> exists t', In t' ts /\ tg_name t' = n /\ In id (group http t')).
Proof.
  rewrite interaction_tags_unfold.
  assert (FT : forall td, from_tags c http id td = inl (ts, names) ->
            reg_spec http id names (c_tags c) ts /\ (forall n, In n names -> exists t', In t' ts /\ tg_name t' = n /\ In id (group http t'))).
  { intros td H. unfold from_tags in H. destruct (has_annot td); [discriminate|].
    destruct (d_unnamed td) as [|n0 r0] eqn:U; [discriminate|].
    destruct (find _ (n0 :: r0)) eqn:F; [discriminate|]. injection H as <- <-.
    apply (fold_reg http id (n0 :: r0) (n0 :: r0) (c_tags c)); [intros x Hx; exact Hx|].
    intros n Hn. pose proof (find_none _ _ F n Hn) as X. cbn beta in X. destruct (find_tag (c_tags c) n) as [t0|]; [eexists; reflexivity|discriminate]. }
  destruct (tags_child d) as [td|]; [apply FT|].
  destruct (match anc with p :: _ => if N.eqb (d_kind p) DirectiveTables.dir_URL then tags_child p else None | [] => None end) as [td|]; [apply FT|].
  cbv zeta. set (name := tag_name (path_tag_title path)).
  destruct (find_tag (c_tags c) name) as [t0|] eqn:F; intros H; injection H as <- <-.
  - split; [apply update_tag_reg; left; reflexivity|].
    intros n [<-|[]]. eapply update_tag_has. exact F.
  - split.
    + constructor.
      * intros t Ht. exists t. split; [apply in_or_app; left; exact Ht|auto].
      * intros t' Ht' h x Hx. apply in_app_or in Ht' as [Ht'|[E'|[]]]; [left; exists t'; auto|]. subst t'.
        apply group_add in Hx as [Hx|[A B]]; [destruct h; cbn in Hx; destruct Hx|].
        right. rewrite add_id_name. cbn [tg_name]. split; [exact A|split; [exact B|left; reflexivity]].
    + intros n [<-|[]]. eexists. split; [apply in_or_app; right; left; reflexivity|].
      split; [rewrite add_id_name; reflexivity|apply group_add; right; auto].
Qed.

(* appending the new interaction *)
Lemma add_interaction_inv ts is ts' names new :
  linked ts is -> reg_spec (is_http new) (inter_id new) names ts ts' ->
  (forall n, In n names -> exists t', In t' ts' /\ tg_name t' = n /\ In (inter_id new) (group (is_http new) t')) ->
  tags_of new = names -> linked ts' (is ++ [new]).
Proof.
  intros [L1 L2] [K N] HN TN. split.
  - intros i Hi n Hn. apply in_app_or in Hi as [Hi|[<-|[]]].
    + destruct (L1 i Hi n Hn) as [t [Ht [E G]]]. destruct (K t Ht) as [t' [Ht' [E' G']]].
      exists t'. split; [exact Ht'|split; [congruence|apply G'; exact G]].
    + rewrite TN in Hn. exact (HN n Hn).
  - intros t' Ht' h x Hx. destruct (N t' Ht' h x Hx) as [[t [Ht [E G]]]|[A [B C]]].
    + destruct (L2 t Ht h x G) as [i [Hi R]]. rewrite <- E. exists i. split; [apply in_or_app; left; exact Hi|exact R].
    + exists new. split; [apply in_or_app; right; left; reflexivity|]. rewrite TN. auto.
Qed.

(* ------------------------------------------------------------------------------------ *)
(* every add-function keeps the invariant *)
Ltac tcrush H :=
  repeat (match type of H with
          | context [match ?x with _ => _ end] => let E := fresh "E" in destruct x eqn:E; try discriminate H
          | context [if ?x then _ else _] => let E := fresh "E" in destruct x eqn:E; try discriminate H
          end).
Ltac terrs H := unfold kerr1, kerr, not_found, required in H; try discriminate H.
Ltac keepsT :=
  intros ?h; cbn [hi_id hi_tags];
  repeat (match goal with |- context [match ?x with _ => _ end] => destruct x end; cbn [hi_id hi_tags]);
  split; reflexivity.
Ltac keepsR :=
  intros ?r; cbn [ri_id ri_tags];
  repeat (match goal with |- context [match ?x with _ => _ end] => destruct x end; cbn [ri_id ri_tags]);
  split; reflexivity.
Ltac inv_same W :=
  repeat (first [apply upd_http_inv; [keepsT|] | apply upd_rpc_inv; [keepsR|]]);
  first [exact W | (eapply taginv_ext; [| |exact W]; reflexivity)].

Lemma check_paths_inv c d anc c1 p : check_paths c d anc = inl (c1, p) -> TagInv c -> TagInv c1.
Proof.
  unfold check_paths. destruct (dir_path d anc); [|discriminate].
  destruct (path_params_error b); [discriminate|].
  destruct (check_similar _ _); [|discriminate]. intros H W. injection H as <- _. eapply taginv_ext; [| |exact W]; reflexivity.
Qed.

Lemma add_request_inv c d anc c' : add_request c d anc = COk c' -> TagInv c -> TagInv c'.
Proof. unfold add_request. intros H W. tcrush H. all: terrs H. all: injection H as <-. all: inv_same W. Qed.

Lemma add_response_inv c d anc c' : add_response c d anc = COk c' -> TagInv c -> TagInv c'.
Proof. unfold add_response. intros H W. tcrush H. all: terrs H. all: injection H as <-. all: inv_same W. Qed.

Lemma add_description_inv c d anc body c' : add_description c d anc body = COk c' -> TagInv c -> TagInv c'.
Proof.
  unfold add_description. intros H W. tcrush H. all: terrs H. all: injection H as <-.
  all: try (inv_same W; fail).
  all: unfold TagInv; cbn [c_tags c_inters set_tags]; eapply linked_simt; [|exact W].
  all: apply update_tag_simt; intros t9; repeat split.
Qed.

Theorem add_directive_inv banned c d anc c' : add_directive banned c d anc = COk c' -> TagInv c -> TagInv c'.
Proof.
  unfold add_directive. intros H W.
  tcrush H.
  all: terrs H.
  all: try (eapply add_request_inv; [exact H|exact W]).
  all: try (eapply add_response_inv; [exact H|exact W]).
  all: try (injection H as <-).
  all: try (inv_same W; fail).
  - match goal with E : check_paths _ _ _ = inl _ |- _ => pose proof (check_paths_inv _ _ _ _ _ E W) as W1 end.
    eapply taginv_ext; [| |exact W1]; reflexivity.
  - match goal with E : check_paths _ _ _ = inl _ |- _ => pose proof (check_paths_inv _ _ _ _ _ E W) as W1 end.
    match goal with E : interaction_tags _ _ _ _ _ _ = inl _ |- _ => destruct (interaction_tags_reg _ _ _ _ _ _ _ _ E) as [RS HN] end.
    unfold TagInv. cbn [c_tags c_inters set_inters set_tags].
    eapply (add_interaction_inv _ _ _ _ (IHttp _)); [exact W1|exact RS|exact HN|reflexivity].
  - match goal with E : interaction_tags _ _ _ _ _ _ = inl _ |- _ => destruct (interaction_tags_reg _ _ _ _ _ _ _ _ E) as [RS HN] end.
    unfold TagInv. cbn [c_tags c_inters set_inters set_tags].
    eapply (add_interaction_inv _ _ _ _ (IRpc _)); [exact W|exact RS|exact HN|reflexivity].
Qed.

Section Lift.
  Variable read_body : coords -> bytes.
  Variable banned : list N.

  Lemma add_branch_inv fuel : forall c d anc c', add_branch read_body banned fuel c d anc = COk c' -> TagInv c -> TagInv c'.
  Proof.
    induction fuel as [|fuel IH]; intros c d anc c' H W; cbn [add_branch] in H; [discriminate|].
    match type of H with match ?r with _ => _ end = _ => destruct r as [c1| | |] eqn:R; try discriminate end.
    assert (W1 : TagInv c1).
    { destruct (existsb (N.eqb (d_kind d)) banned); [eapply add_directive_inv; [exact R|exact W]|].
      destruct (N.eqb (d_kind d) DirectiveTables.dir_Description);
        [eapply add_description_inv; [exact R|exact W]|eapply add_directive_inv; [exact R|exact W]]. }
    clear R W. revert c1 W1 H. generalize (d_children d) as cs.
    induction cs as [|x rest IHc]; intros c1 W1 H.
    - injection H as <-. exact W1.
    - destruct (add_branch read_body banned fuel c1 x (d :: anc)) as [c2| | |] eqn:B; try discriminate.
      eapply IHc; [eapply IH; [exact B|exact W1]|exact H].
  Qed.

  Lemma add_all_inv fuel ds : forall c c', add_all read_body banned fuel c ds = COk c' -> TagInv c -> TagInv c'.
  Proof.
    induction ds as [|d ds IH]; intros c c' H W; cbn [add_all] in H.
    - injection H as <-. exact W.
    - destruct (add_branch read_body banned fuel c d []) as [c1| | |] eqn:B; try discriminate.
      eapply IH; [exact H|eapply add_branch_inv; [exact B|exact W]].
  Qed.

  Lemma collect_tags_inv ds : forall e c0, collect_tags e ds = COk c0 -> TagInv e -> TagInv c0.
  Proof.
    induction ds as [|d ds IH]; intros e c0 T W; cbn [collect_tags] in T.
    - injection T as <-. exact W.
    - destruct (N.eqb (d_kind d) DirectiveTables.dir_TAG); [|eapply IH; eassumption].
      destruct (beq (named d KTagName) []); [unfold required, kerr in T; discriminate|].
      destruct (find_tag (c_tags e) (named d KTagName)); [unfold kerr in T; discriminate|].
      eapply IH; [exact T|]. unfold TagInv in *. cbn [c_tags c_inters set_tags]. destruct W as [L1 L2]. split.
      + intros i Hi n Hn. destruct (L1 i Hi n Hn) as [t [Ht R]]. exists t. split; [apply in_or_app; left; exact Ht|exact R].
      + intros t Ht http id Hid. apply in_app_or in Ht as [Ht|[Et|[]]]; [exact (L2 t Ht http id Hid)|].
        subst t. destruct http; cbn in Hid; destruct Hid.
  Qed.

  Lemma empty_inv : TagInv empty_catalog.
  Proof. split; [intros i []|intros t []]. Qed.
End Lift.

(* C05: in EVERY catalog the builder produces, tags and interactions refer to each other *)
Theorem built_catalog_tags_are_linked read_body banned fuel forest c :
  build_catalog read_body banned fuel forest = COk c -> TagInv c.
Proof.
  unfold build_catalog. intros H.
  destruct (collect_tags empty_catalog forest) as [c0| | |] eqn:T; try discriminate.
  destruct (dup_type_error [] forest); [discriminate|].
  destruct (type_without_body forest); [discriminate|].
  destruct (collect_paths fuel forest [] None); [|discriminate].
  destruct (missed_path_errors forest); [discriminate|].
  pose proof (collect_tags_inv _ _ _ T empty_inv) as W0.
  destruct (negb _).
  - destruct forest; [injection H as <-; exact W0|unfold kerr1, kerr in H; discriminate].
  - destruct (add_all read_body banned fuel c0 forest) as [c1| | |] eqn:A; try discriminate.
    destruct (validate c1); [discriminate|]. injection H as <-.
    eapply add_all_inv; [exact A|exact W0].
Qed.

Print Assumptions built_catalog_tags_are_linked.
