(* C15Proofs.v — order of independent top-level blocks.
   Proved on the catalog model, for every forest and every permutation of it:
   - collectTags accepts a forest iff it accepts any permutation of it, and the registered
     tags are the same up to order, in the order of the new text;
   - the whole-forest rule passes that report "the first error" (missed path variables)
     accept a forest iff they accept its permutations;
   - registering two TYPE (or SERVER) blocks commutes up to the order of the section;
   - the reduction: if two adjacent independent blocks commute up to an equivalence that the
     interaction pass respects, then add_all gives equivalent catalogs on every permutation
     (so that the property for the interaction pass is a statement about pairs of blocks,
     which the search exercises). *)
From JS Require Import Base Bytes Scanner Directive Core Expand Catalog ListAux C05Proofs.
From JS Require DirectiveTables.
From Coq Require Import Lia Permutation.
Open Scope Z_scope.

(* ------------------------------------------------------------------------------------ *)
(* first_some = None is a statement about every element *)
Lemma first_some_none {A B} (f : A -> option B) l :
  first_some f l = None <-> Forall (fun x => f x = None) l.
Proof.
  induction l as [|x l IH]; cbn [first_some].
  - split; [constructor|reflexivity].
  - destruct (f x) eqn:E.
    + split; [discriminate|]. intros H. inversion H as [|? ? Hx]; subst. rewrite E in Hx. discriminate.
    + rewrite IH. split; intros H; [constructor; assumption|inversion H; assumption].
Qed.

Theorem first_error_pass_perm {A B} (f : A -> option B) l l' :
  Permutation l l' -> first_some f l = None -> first_some f l' = None.
Proof.
  intros P H. apply first_some_none. apply first_some_none in H.
  eapply Permutation_Forall; eassumption.
Qed.

Theorem missed_path_errors_perm forest forest' :
  Permutation forest forest' -> missed_path_errors forest = None -> missed_path_errors forest' = None.
Proof. unfold missed_path_errors. apply first_error_pass_perm. Qed.

(* ------------------------------------------------------------------------------------ *)
(* collectTags *)
Definition is_tag_dir (d : dir) : bool := N.eqb (d_kind d) DirectiveTables.dir_TAG.
Definition new_tag (d : dir) : tag :=
  mkTag (named d KTagName) (if beq (d_annot d) [] then named d KTagName else d_annot d) None [] [].
Definition tag_names (ts : list tag) : list bytes := List.map tg_name ts.

Lemma find_tag_none_notin ts n : find_tag ts n = None <-> ~ In n (tag_names ts).
Proof.
  induction ts as [|t ts IH]; cbn [find_tag tag_names List.map In].
  - tauto.
  - destruct (beq (tg_name t) n) eqn:E.
    + apply beq_true_eq in E. split; [discriminate|]. intros H. exfalso. apply H. left. exact E.
    + apply beq_false_ne in E. rewrite IH. unfold tag_names. tauto.
Qed.

(* the tags collectTags will add are acceptable: named, and distinct from each other and
   from the tags already present *)
Definition tags_acceptable (existing : list bytes) (ds : list dir) : Prop :=
  Forall (fun d => named d KTagName <> []) (List.filter is_tag_dir ds) /\
  NoDup (existing ++ List.map (fun d => named d KTagName) (List.filter is_tag_dir ds)).

Lemma set_tags_tags c ts : c_tags (set_tags c ts) = ts.
Proof. reflexivity. Qed.

Lemma collect_tags_spec ds : forall c,
  (tags_acceptable (tag_names (c_tags c)) ds ->
     collect_tags c ds = COk (set_tags c (c_tags c ++ List.map new_tag (List.filter is_tag_dir ds)))) /\
  (forall c', collect_tags c ds = COk c' -> NoDup (tag_names (c_tags c)) ->
     tags_acceptable (tag_names (c_tags c)) ds).
Proof.
  induction ds as [|d ds IH]; intros c.
  - cbn [collect_tags List.filter List.map]. split.
    + intros _. rewrite app_nil_r. destruct c; reflexivity.
    + intros c' _ Hn. split; [constructor|]. cbn [List.filter List.map]. rewrite app_nil_r. exact Hn.
  - unfold tags_acceptable. cbn [collect_tags List.filter]. fold (is_tag_dir d).
    destruct (is_tag_dir d) eqn:K.
    + cbn [List.map]. split.
      * intros [Hne Hnd]. inversion Hne as [|? ? Hn1 Hn2]; subst.
        destruct (beq (named d KTagName) []) eqn:E; [apply beq_true_eq in E; contradiction|].
        assert (Hfresh : find_tag (c_tags c) (named d KTagName) = None).
        { apply find_tag_none_notin. intros Hin. apply NoDup_remove_2 in Hnd. apply Hnd.
          apply in_or_app. left. exact Hin. }
        rewrite Hfresh.
        destruct (IH (set_tags c (c_tags c ++ [new_tag d]))) as [IH1 _].
        change (mkTag (named d KTagName) (if beq (d_annot d) [] then named d KTagName else d_annot d) None [] []) with (new_tag d).
        rewrite IH1.
        -- rewrite set_tags_tags. rewrite <- app_assoc. destruct c; reflexivity.
        -- rewrite set_tags_tags. split; [exact Hn2|].
           unfold tag_names. rewrite map_app. cbn [List.map new_tag tg_name]. rewrite <- app_assoc.
           cbn [app]. exact Hnd.
      * intros c' H Hn.
        destruct (beq (named d KTagName) []) eqn:E.
        { unfold required in H. discriminate. }
        destruct (find_tag (c_tags c) (named d KTagName)) eqn:F; [discriminate|].
        destruct (IH (set_tags c (c_tags c ++ [mkTag (named d KTagName) (if beq (d_annot d) [] then named d KTagName else d_annot d) None [] []]))) as [_ IH2].
        specialize (IH2 c' H). rewrite set_tags_tags in IH2.
        assert (Hn' : NoDup (tag_names (c_tags c ++ [mkTag (named d KTagName) (if beq (d_annot d) [] then named d KTagName else d_annot d) None [] []]))).
        { unfold tag_names. rewrite map_app. cbn [List.map tg_name].
          eapply Permutation_NoDup; [apply Permutation_cons_append|].
          constructor; [apply find_tag_none_notin; exact F|exact Hn]. }
        destruct (IH2 Hn') as [A1 A2]. split.
        -- constructor; [apply beq_false_ne; exact E|exact A1].
        -- unfold tag_names in A2. rewrite map_app in A2. cbn [List.map tg_name] in A2.
           rewrite <- app_assoc in A2. exact A2.
    + destruct (IH c) as [IH1 IH2]. unfold tags_acceptable in IH1, IH2. split; [exact IH1|exact IH2].
Qed.

Lemma filter_perm {A} (f : A -> bool) l l' : Permutation l l' -> Permutation (List.filter f l) (List.filter f l').
Proof.
  intros P. induction P as [|x l l' P IH|x y l|l l' l'' P1 IH1 P2 IH2]; cbn [List.filter].
  - constructor.
  - destruct (f x); [constructor|]; assumption.
  - destruct (f x), (f y); try apply perm_swap; apply Permutation_refl.
  - eapply perm_trans; eassumption.
Qed.

Lemma tags_acceptable_perm existing ds ds' :
  Permutation ds ds' -> tags_acceptable existing ds -> tags_acceptable existing ds'.
Proof.
  intros P [H1 H2].
  pose proof (filter_perm is_tag_dir _ _ P) as Pf.
  split.
  - eapply Permutation_Forall; eassumption.
  - eapply Permutation_NoDup; [|exact H2]. apply Permutation_app_head. apply Permutation_map. exact Pf.
Qed.

(* collectTags on a permuted forest: accepted again; the same tags, up to order; nothing else
   in the catalog is touched *)
Theorem collect_tags_perm c ds ds' c1 :
  NoDup (tag_names (c_tags c)) -> Permutation ds ds' -> collect_tags c ds = COk c1 ->
  exists c2, collect_tags c ds' = COk c2 /\
             Permutation (c_tags c1) (c_tags c2) /\
             c_tags c2 = c_tags c ++ List.map new_tag (List.filter is_tag_dir ds') /\
             set_tags c2 (c_tags c) = set_tags c (c_tags c).
Proof.
  intros Hn P H.
  destruct (collect_tags_spec ds c) as [S1 S2].
  pose proof (S2 c1 H Hn) as Acc.
  pose proof (S1 Acc) as E1. rewrite H in E1. injection E1 as E1.
  pose proof (tags_acceptable_perm _ _ _ P Acc) as Acc'.
  destruct (collect_tags_spec ds' c) as [S1' _].
  pose proof (S1' Acc') as E2.
  eexists. split; [exact E2|]. rewrite E1. rewrite !set_tags_tags. split; [|split].
  - apply Permutation_app_head. apply Permutation_map. apply filter_perm. exact P.
  - reflexivity.
  - destruct c; reflexivity.
Qed.

(* ------------------------------------------------------------------------------------ *)
(* two TYPE blocks, two SERVER blocks: registration commutes up to the order of the section *)
Definition same_but_types (c1 c2 : catalog) : Prop :=
  c_jsight c1 = c_jsight c2 /\ c_info c1 = c_info c2 /\ c_servers c1 = c_servers c2 /\
  c_tags c1 = c_tags c2 /\ c_inters c1 = c_inters c2 /\ c_url_paths c1 = c_url_paths c2 /\
  c_similar c1 = c_similar c2 /\ c_opids c1 = c_opids c2 /\ c_protocol_urls c1 = c_protocol_urls c2 /\
  Permutation (c_types c1) (c_types c2).

Lemma existsb_app_single {A} (f : A -> bool) l x : existsb f (l ++ [x]) = existsb f l || f x.
Proof. rewrite existsb_app. cbn. rewrite orb_false_r. reflexivity. Qed.

Theorem type_blocks_commute banned c a b c1 c2 :
  N.eqb (d_kind a) DirectiveTables.dir_Type = true -> N.eqb (d_kind b) DirectiveTables.dir_Type = true ->
  add_directive banned c a [] = COk c1 -> add_directive banned c1 b [] = COk c2 ->
  exists c1' c2', add_directive banned c b [] = COk c1' /\ add_directive banned c1' a [] = COk c2' /\
                  same_but_types c2 c2'.
Proof.
  intros Ka Kb Ha Hb.
  apply N.eqb_eq in Ka, Kb.
  unfold add_directive in *.
  rewrite Ka in *. rewrite Kb in *.
  destruct (existsb (N.eqb DirectiveTables.dir_Type) banned) eqn:Ban; [discriminate|].
  change (N.eqb DirectiveTables.dir_Type DirectiveTables.dir_Jsight) with false in *.
  change (N.eqb DirectiveTables.dir_Type DirectiveTables.dir_Info) with false in *.
  change (N.eqb DirectiveTables.dir_Type DirectiveTables.dir_Title) with false in *.
  change (N.eqb DirectiveTables.dir_Type DirectiveTables.dir_Version) with false in *.
  change (N.eqb DirectiveTables.dir_Type DirectiveTables.dir_Description) with false in *.
  change (N.eqb DirectiveTables.dir_Type DirectiveTables.dir_Server) with false in *.
  change (N.eqb DirectiveTables.dir_Type DirectiveTables.dir_BaseURL) with false in *.
  change (N.eqb DirectiveTables.dir_Type DirectiveTables.dir_Type) with true in *.
  cbn [orb] in *. cbv iota in *.
  destruct (beq (named a KName) []) eqn:Ea; [unfold required in Ha; discriminate|].
  destruct (existsb (fun s => beq (fst (fst s)) (named a KName)) (c_types c)) eqn:Xa; [discriminate|].
  injection Ha as Ha. subst c1. cbn [c_types c_jsight c_info c_servers c_tags c_inters c_url_paths c_similar c_opids c_protocol_urls] in Hb.
  destruct (beq (named b KName) []) eqn:Eb; [unfold required in Hb; discriminate|].
  rewrite existsb_app_single in Hb. cbn [fst] in Hb.
  destruct (existsb (fun s => beq (fst (fst s)) (named b KName)) (c_types c)) eqn:Xb; [discriminate|].
  cbn [orb] in Hb.
  destruct (beq (named a KName) (named b KName)) eqn:Eab; [discriminate|].
  injection Hb as Hb. subst c2.
  do 2 eexists. split; [reflexivity|].
  cbn [c_types c_jsight c_info c_servers c_tags c_inters c_url_paths c_similar c_opids c_protocol_urls].
  rewrite existsb_app_single. cbn [fst]. rewrite Xa. cbn [orb].
  assert (Eba : beq (named b KName) (named a KName) = false).
  { apply beq_ne_false. apply beq_false_ne in Eab. congruence. }
  rewrite Eba. split; [reflexivity|].
  unfold same_but_types. cbn [c_types c_jsight c_info c_servers c_tags c_inters c_url_paths c_similar c_opids c_protocol_urls].
  repeat (split; [reflexivity|]).
  rewrite <- !app_assoc. apply Permutation_app_head. cbn [app]. apply perm_swap.
Qed.

(* ------------------------------------------------------------------------------------ *)
(* the reduction to adjacent pairs *)
Section Reduction.
  Variable St Blk : Type.
  Variable step : St -> Blk -> option St.         (* add one top-level block; None = rejected *)
  Variable equiv : St -> St -> Prop.
  Hypothesis equiv_refl : forall s, equiv s s.
  Hypothesis equiv_trans : forall a b c, equiv a b -> equiv b c -> equiv a c.
  (* the pass respects the equivalence *)
  Hypothesis step_equiv : forall s1 s2 b s1', equiv s1 s2 -> step s1 b = Some s1' ->
    exists s2', step s2 b = Some s2' /\ equiv s1' s2'.
  (* two adjacent blocks commute up to the equivalence *)
  Hypothesis step_swap : forall s a b s1 s2, step s a = Some s1 -> step s1 b = Some s2 ->
    exists s1' s2', step s b = Some s1' /\ step s1' a = Some s2' /\ equiv s2 s2'.

  Fixpoint steps (s : St) (bs : list Blk) : option St :=
    match bs with
    | [] => Some s
    | b :: r => match step s b with Some s' => steps s' r | None => None end
    end.

  Lemma steps_equiv bs : forall s1 s2 r1, equiv s1 s2 -> steps s1 bs = Some r1 ->
    exists r2, steps s2 bs = Some r2 /\ equiv r1 r2.
  Proof.
    induction bs as [|b bs IH]; intros s1 s2 r1 E H; cbn [steps] in *.
    - injection H as H. subst. eexists. split; [reflexivity|exact E].
    - destruct (step s1 b) as [s1'|] eqn:S1; [|discriminate].
      destruct (step_equiv _ _ _ _ E S1) as [s2' [S2 E']]. rewrite S2. eapply IH; eassumption.
  Qed.

  Theorem steps_perm bs bs' : Permutation bs bs' -> forall s r, steps s bs = Some r ->
    exists r', steps s bs' = Some r' /\ equiv r r'.
  Proof.
    intros P. induction P as [|x l l' P IH|x y l|l l' l'' P1 IH1 P2 IH2]; intros s r H.
    - eexists. split; [exact H|apply equiv_refl].
    - cbn [steps] in *. destruct (step s x) as [s'|]; [|discriminate]. apply IH. exact H.
    - cbn [steps] in *.
      destruct (step s y) as [s1|] eqn:S1; [|discriminate].
      destruct (step s1 x) as [s2|] eqn:S2; [|discriminate].
      destruct (step_swap _ _ _ _ _ S1 S2) as [s1' [s2' [A [B E]]]].
      rewrite A, B. eapply steps_equiv; eassumption.
    - destruct (IH1 _ _ H) as [r1 [H1 E1]]. destruct (IH2 _ _ H1) as [r2 [H2 E2]].
      eexists. split; [exact H2|]. eapply equiv_trans; eassumption.
  Qed.
End Reduction.

(* add_all is the iteration of "add one top-level block" *)
Definition block_step read_body banned fuel (c : catalog) (d : dir) : option catalog :=
  match add_branch read_body banned fuel c d [] with COk c' => Some c' | _ => None end.

Lemma add_all_is_steps read_body banned fuel ds : forall c r,
  add_all read_body banned fuel c ds = COk r <->
  steps catalog dir (block_step read_body banned fuel) c ds = Some r.
Proof.
  induction ds as [|d ds IH]; intros c r; cbn [add_all steps].
  - split; intros H; injection H as H; subst; reflexivity.
  - unfold block_step at 1.
    destruct (add_branch read_body banned fuel c d []) as [c'| | |]; try (split; discriminate).
    apply IH.
Qed.

Theorem add_all_perm_reduction read_body banned fuel (equiv : catalog -> catalog -> Prop) :
  (forall s, equiv s s) ->
  (forall a b c, equiv a b -> equiv b c -> equiv a c) ->
  (forall s1 s2 b s1', equiv s1 s2 -> block_step read_body banned fuel s1 b = Some s1' ->
     exists s2', block_step read_body banned fuel s2 b = Some s2' /\ equiv s1' s2') ->
  (forall s a b s1 s2, block_step read_body banned fuel s a = Some s1 -> block_step read_body banned fuel s1 b = Some s2 ->
     exists s1' s2', block_step read_body banned fuel s b = Some s1' /\ block_step read_body banned fuel s1' a = Some s2' /\ equiv s2 s2') ->
  forall ds ds' c r, Permutation ds ds' -> add_all read_body banned fuel c ds = COk r ->
    exists r', add_all read_body banned fuel c ds' = COk r' /\ equiv r r'.
Proof.
  intros R T E S ds ds' c r P H.
  apply add_all_is_steps in H.
  destruct (steps_perm catalog dir (block_step read_body banned fuel) equiv R T E S ds ds' P c r H) as [r' [H' Q]].
  exists r'. split; [apply add_all_is_steps; exact H'|exact Q].
Qed.
