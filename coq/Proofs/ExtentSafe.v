(* ExtentSafe.v — lexeme extents are never inverted, for every input (begin <= end + 1: the class
   of finding F2).  Same construction as EventSafe.v, with ages:
   EventSafe.v — lexeme events are well bracketed, for every input: processing the queued
   lexeme events never fails (no pop of an empty event stack, no Begin/End mismatch, no event
   without a lexeme type).  The pending-Begin stack of every state is INFERRED from the
   regenerated program, CHECKED by symbolic execution of every path of every step function, and
   the checker is proved sound against the interpreter (including the event queue that Next()
   drains lazily, and the end-of-file steps after which no step runs any more). *)
From JS Require Import Base Bytes Scanner ScanRun.
From JS Require ScannerProg LexemeEvents.
From Coq Require Import Lia.
Open Scope Z_scope.

(* abstract event stack: kinds of the pending Begin events, top first *)
Definition estk := list (event * Z).   (* pending Begin events with a lower bound of cur - position *)

(* [a] (what a state promises) is implied by [b] (what holds): same kinds, promised ages <= actual lower bounds *)
Definition ev_list_leb (a b : estk) : bool :=
  (fix go (a b : estk) := match a, b with
     | [], [] => true
     | (x, ax) :: a', (y, ay) :: b' => event_eqb x y && (ax <=? ay) && go a' b'
     | _, _ => false end) a b.
Definition is_nil (a : estk) : bool := match a with [] => true | _ => false end.
Definition shift (d : Z) (e : estk) : estk := List.map (fun p => (fst p, snd p + d)) e.

(* effect of one event on the abstract stack; None = mismatch or underflow *)
(* [off]: the event is found at cur + off *)
Definition apply_ev (e : estk) (ev : event) (off : Z) : option estk :=
  if LexemeEvents.ev_IsBeginning ev then Some ((ev, - off) :: e)
  else if LexemeEvents.ev_IsEnding ev then
    match e with
    | (b, age) :: rest =>
        if pair_ok b ev && (-1 <=? age + off)
        then (match LexemeEvents.ev_ToLexemeType ev with Some _ => Some rest | None => None end) else None
    | [] => None
    end
  else if LexemeEvents.ev_IsSingle ev then (match LexemeEvents.ev_ToLexemeType ev with Some _ => Some e | None => None end)
  else None.

Inductive symstep := SEntry | SKnown (st : state) | SPopped.
(* a_eq / a_ne: what is known about the byte under the cursor on this path *)
Record actx := mkCtx { a_e : estk; a_cs : symstep; a_eq : option N; a_ne : list N; a_moved : bool }.
Definition a_eof (c : actx) : bool := match a_eq c with Some 0%N => true | _ => false end.

(* the condition is certainly not true on this path *)
Fixpoint cond_false (c : actx) (k : cond) : bool :=
  match k with
  | CByte b => existsb (N.eqb b) (a_ne c) || match a_eq c with Some x => negb (N.eqb x b) | None => false end
  | CAnd a b => cond_false c a || cond_false c b
  | COr a b => cond_false c a && cond_false c b
  | _ => false
  end.

Section Chk.
  Variable prog : list (string * stmt).
  Variable Sg : state -> option estk.     (* the event stack whenever s.step = st between steps *)
  Variable entry : state.

  Definition sg_is (st : state) (e : estk) : bool :=
    match Sg st with Some x => ev_list_leb x e | None => false end.

  Definition step_fits (c : actx) : bool :=
    match a_cs c with
    | SEntry => sg_is entry (a_e c)
    | SKnown t => sg_is t (a_e c)
    | SPopped => is_nil (a_e c)
    end.

  (* after a plain return the cursor advances by one: every pending Begin is one byte older *)
  Definition ret_fits (c : actx) : bool := step_fits (mkCtx (shift 1 (a_e c)) (a_cs c) (a_eq c) (a_ne c) (a_moved c)).

  Definition cur_sigma_empty (c : actx) : bool :=
    match a_cs c with
    | SEntry => sg_is entry []
    | SKnown t => sg_is t []
    | SPopped => true
    end.

  Fixpoint chk (fuel : nat) (s : stmt) (c : actx) (k : actx -> bool) {struct fuel} : bool :=
    match fuel with
    | O => false
    | S fuel' =>
        match s with
        | SSkip => k c
        | SSeq a b => chk fuel' a c (fun c' => chk fuel' b c' k)
        | SIf cnd t e =>
            if cond_false c cnd then chk fuel' e c k
            else
              match cnd with
              | CByte b => chk fuel' t (mkCtx (a_e c) (a_cs c) (Some b) (a_ne c) (a_moved c)) k &&
                           chk fuel' e (mkCtx (a_e c) (a_cs c) (a_eq c) (b :: a_ne c) (a_moved c)) k
              | _ => chk fuel' t c k && chk fuel' e c k
              end
        | SSetStep st => k (mkCtx (a_e c) (SKnown st) (a_eq c) (a_ne c) (a_moved c))
        | SPush st => sg_is st [] && k c
        | SPushCur => cur_sigma_empty c && k c
        | SPop => is_nil (a_e c) && k (mkCtx (a_e c) SPopped (a_eq c) (a_ne c) (a_moved c))
        | SFound ev off => match apply_ev (a_e c) ev off with Some e' => k (mkCtx e' (a_cs c) (a_eq c) (a_ne c) (a_moved c)) | None => false end
        | SAddCur dz => k (mkCtx (shift dz (a_e c)) (a_cs c) (a_eq c) (a_ne c) true)
        | SOracle _ => k (mkCtx (a_e c) (a_cs c) (a_eq c) (a_ne c) true)
        | SRetNil => ret_fits c || (a_eof c && negb (a_moved c))
        | SRetRedispatch => step_fits c && negb (a_moved c)
        | SRetErr _ _ | SRetErrBasic _ => true
        | SRetCall st =>
            match nth_error prog (N.to_nat st) with
            | Some (_, body) => chk fuel' body c (fun _ => false)
            | None => false
            end
        end
    end.
End Chk.

Definition chk_state (prog : list (string * stmt)) (Sg : state -> option estk) (st : state) : bool :=
  match nth_error prog (N.to_nat st), Sg st with
  | Some (_, body), Some e0 => chk prog Sg st 200 body (mkCtx e0 SEntry None [] false) (fun _ => false)
  | Some _, None => true           (* never reached *)
  | None, _ => false
  end.

(* inference: facts (target state, event stack) at the returns *)
Section Infer.
  Variable prog : list (string * stmt).
  Fixpoint facts (fuel : nat) (s : stmt) (c : actx) (k : actx -> list (state * estk)) : list (state * estk) :=
    match fuel with
    | O => []
    | S fuel' =>
        match s with
        | SSkip => k c
        | SSeq a b => facts fuel' a c (fun c' => facts fuel' b c' k)
        | SIf cnd t e =>
            if cond_false c cnd then facts fuel' e c k
            else
              match cnd with
              | CByte b => facts fuel' t (mkCtx (a_e c) (a_cs c) (Some b) (a_ne c) (a_moved c)) k ++
                           facts fuel' e (mkCtx (a_e c) (a_cs c) (a_eq c) (b :: a_ne c) (a_moved c)) k
              | _ => facts fuel' t c k ++ facts fuel' e c k
              end
        | SSetStep st => k (mkCtx (a_e c) (SKnown st) (a_eq c) (a_ne c) (a_moved c))
        | SPush st => (st, []) :: k c
        | SPushCur => k c
        | SPop => k (mkCtx (a_e c) SPopped (a_eq c) (a_ne c) (a_moved c))
        | SFound ev off => match apply_ev (a_e c) ev off with Some e' => k (mkCtx e' (a_cs c) (a_eq c) (a_ne c) (a_moved c)) | None => [] end
        | SAddCur dz => k (mkCtx (shift dz (a_e c)) (a_cs c) (a_eq c) (a_ne c) true)
        | SOracle _ => k (mkCtx (a_e c) (a_cs c) (a_eq c) (a_ne c) true)
        | SRetNil => if a_eof c then [] else match a_cs c with SKnown t => [(t, shift 1 (a_e c))] | _ => [] end
        | SRetRedispatch => match a_cs c with SKnown t => [(t, a_e c)] | _ => [] end
        | SRetErr _ _ | SRetErrBasic _ => []
        | SRetCall st =>
            match nth_error prog (N.to_nat st) with
            | Some (_, body) => facts fuel' body c (fun _ => [])
            | None => []
            end
        end
    end.
End Infer.

Fixpoint min_ages (a b : estk) : estk :=
  match a, b with
  | (x, ax) :: a', (_, ay) :: b' => (x, Z.min ax ay) :: min_ages a' b'
  | _, _ => a
  end.
Fixpoint set_first (l : list (option estk)) (i : nat) (v : estk) : list (option estk) :=
  match l, i with
  | [], _ => []
  | None :: r, O => Some v :: r
  | Some x :: r, O => Some (min_ages x v) :: r
  | x :: r, S i' => x :: set_first r i' v
  end.

Definition infer_round (prog : list (string * stmt)) (Sg : list (option estk)) : list (option estk) :=
  fold_left (fun acc p =>
    let '(i, (_, body)) := p in
    match nth i acc None with
    | None => acc
    | Some e0 => fold_left (fun a f => set_first a (N.to_nat (fst f)) (snd f))
                           (facts prog 200 body (mkCtx e0 SEntry None [] false) (fun _ => [])) acc
    end) (combine (seq 0 (List.length prog)) prog) Sg.

Fixpoint iterate (n : nat) (prog : list (string * stmt)) (Sg : list (option estk)) : list (option estk) :=
  match n with O => Sg | S n' => iterate n' prog (infer_round prog Sg) end.

Definition inferred : list (option estk) :=
  Eval vm_compute in iterate 60 ScannerProg.prog_table
    (set_first (List.map (fun _ => None) ScannerProg.prog_table) (N.to_nat ScannerProg.initial_state) []).
Definition inferredSg (st : state) : option estk := nth (N.to_nat st) inferred None.

Definition all_ok : bool :=
  forallb (fun i => chk_state ScannerProg.prog_table inferredSg (N.of_nat i)) (seq 0 (List.length ScannerProg.prog_table)).

Lemma all_ok_ok : all_ok = true.
Proof. vm_compute. reflexivity. Qed.

(* ------------------------------------------------------------------------------------ *)
(* concrete side: the event stack with positions, as it will be once the queue is processed;
   an End event is accepted only if it does not lie more than one byte before its Begin *)
Definition pstk := list (event * Z).

Definition apply_evp (e : pstk) (ev : event * Z) : option pstk :=
  let (t, pos) := ev in
  if LexemeEvents.ev_IsBeginning t then Some ((t, pos) :: e)
  else if LexemeEvents.ev_IsEnding t then
    match e with
    | (b, bpos) :: rest =>
        if pair_ok b t && (bpos <=? pos + 1)
        then (match LexemeEvents.ev_ToLexemeType t with Some _ => Some rest | None => None end) else None
    | [] => None
    end
  else if LexemeEvents.ev_IsSingle t then (match LexemeEvents.ev_ToLexemeType t with Some _ => Some e | None => None end)
  else None.

Fixpoint apply_allp (e : pstk) (q : list (event * Z)) : option pstk :=
  match q with
  | [] => Some e
  | ev :: r => match apply_evp e ev with Some e' => apply_allp e' r | None => None end
  end.

Lemma apply_allp_app e q ev : apply_allp e (q ++ [ev]) =
  match apply_allp e q with Some e' => apply_evp e' ev | None => None end.
Proof.
  revert e. induction q as [|x q IH]; intros e; cbn [apply_allp app].
  - destruct (apply_evp e ev); reflexivity.
  - destruct (apply_evp e x); [apply IH|reflexivity].
Qed.

Definition effp (cf : conf) : option pstk := apply_allp (c_estack cf) (c_finds cf).

(* the abstract ages are lower bounds of cur - position *)
Definition ages_ok (cur : Z) (stk : pstk) (abs : estk) : Prop :=
  Forall2 (fun p a => fst p = fst a /\ snd a <= cur - snd p) stk abs.

Lemma event_eqb_eq a b : event_eqb a b = true -> a = b.
Proof. destruct a, b; cbn; intros H; try discriminate; reflexivity. Qed.

Lemma ages_weaken cur stk : forall x e, ev_list_leb x e = true -> ages_ok cur stk e -> ages_ok cur stk x.
Proof.
  unfold ages_ok. intros x e L A. revert x L.
  induction A as [|p [y ay] stk e' [Hp1 Hp2] _ IH]; intros x L; destruct x as [|[xe ax] x']; cbn in L; try discriminate.
  - constructor.
  - apply andb_prop in L as [L1 L3]. apply andb_prop in L1 as [L1 L2].
    apply event_eqb_eq in L1. apply Z.leb_le in L2. cbn [fst snd] in *.
    constructor; [cbn [fst snd]; split; [congruence|lia]|]. apply IH. exact L3.
Qed.

Lemma ages_shift cur d stk e : ages_ok cur stk e -> ages_ok (cur + d) stk (shift d e).
Proof.
  unfold ages_ok, shift. intros A. induction A as [|p a stk e [H1 H2] _ IH]; cbn [List.map]; constructor; [|exact IH].
  cbn [fst snd]. split; [exact H1|lia].
Qed.

Lemma ages_later cur cur' stk e : cur <= cur' -> ages_ok cur stk e -> ages_ok cur' stk e.
Proof.
  unfold ages_ok. intros Hle A. induction A as [|p a stk e [H1 H2] _ IH]; constructor; [|exact IH]. split; [exact H1|lia].
Qed.

Lemma ages_nil cur stk : ages_ok cur stk [] -> stk = [].
Proof. intros A. inversion A. reflexivity. Qed.

Lemma is_nil_eq (a : estk) : is_nil a = true -> a = [].
Proof. destruct a; [reflexivity|discriminate]. Qed.

Section Sound.
  Variable prog : list (string * stmt).
  Variable nl_cond ws_cond : cond.
  Variable data : bytes.
  Variable olen : okind -> Z -> olen_res.
  Variable Sg : state -> option estk.
  Hypothesis OK : forall st name body, nth_error prog (N.to_nat st) = Some (name, body) -> chk_state prog Sg st = true.

  Definition stack_ok (ss : list state) : Prop := Forall (fun r => Sg r = Some []) ss.

  (* what a state promises holds now *)
  Definition promise (cf : conf) (cur : Z) (stk : pstk) : Prop :=
    exists x, Sg (c_step cf) = Some x /\ ages_ok cur stk x.

  Definition Strict (cf : conf) : Prop :=
    exists stk, effp cf = Some stk /\ stack_ok (c_sstack cf) /\ promise cf (c_cur cf) stk.

  Section Body.
    Variable entry : state.
    Variable ch : byte.
    Variable cf0 : conf.
    Hypothesis H0 : ch = 0%N -> data_size data <= c_cur cf0.

    Definition known (c : actx) : Prop :=
      (forall x, a_eq c = Some x -> ch = x) /\ (forall b, In b (a_ne c) -> ch <> b).

    Definition R (cf : conf) (c : actx) : Prop :=
      (exists stk, effp cf = Some stk /\ ages_ok (c_cur cf) stk (a_e c)) /\ stack_ok (c_sstack cf) /\
      (match a_cs c with
       | SEntry => c_step cf = entry
       | SKnown t => c_step cf = t
       | SPopped => Sg (c_step cf) = Some []
       end) /\
      known c /\ (a_moved c = false -> c_cur cf = c_cur cf0).

    (* result of a step function, before Next() advances the cursor *)
    Definition Post (cf : conf) : Prop :=
      exists stk, effp cf = Some stk /\ stack_ok (c_sstack cf) /\
                  (promise cf (c_cur cf + 1) stk \/ (ch = 0%N /\ data_size data <= c_cur cf)).

    Lemma sg_is_nil st : sg_is Sg st [] = true -> Sg st = Some [].
    Proof.
      unfold sg_is. destruct (Sg st) as [x|]; [|discriminate].
      destruct x as [|[xe xa] x']; cbn; intros H; [reflexivity|discriminate].
    Qed.

    Lemma sg_is_promise cf cur stk st e :
      c_step cf = st -> sg_is Sg st e = true -> ages_ok cur stk e -> promise cf cur stk.
    Proof.
      intros Hc F A. unfold sg_is in F. destruct (Sg st) as [x|] eqn:E; [|discriminate].
      exists x. rewrite Hc. split; [exact E|]. eapply ages_weaken; eassumption.
    Qed.

    Lemma fits_promise cf c cur stk e' :
      R cf c -> ages_ok cur stk e' ->
      step_fits Sg entry (mkCtx e' (a_cs c) (a_eq c) (a_ne c) (a_moved c)) = true -> promise cf cur stk.
    Proof.
      intros [_ [_ [Hc _]]] A F. unfold step_fits in F. cbn [a_cs a_e] in F.
      destruct (a_cs c) as [|t|].
      - eapply sg_is_promise; eassumption.
      - eapply sg_is_promise; eassumption.
      - apply is_nil_eq in F. subst e'. exists []. split; [exact Hc|exact A].
    Qed.

    Lemma cond_false_sound cf c k : known c -> cond_false c k = true ->
      eval_cond nl_cond ws_cond data cf ch k <> Some true.
    Proof.
      intros [K1 K2]. induction k; cbn [cond_false eval_cond]; intros F; try discriminate.
      - apply orb_prop in F as [F|F].
        + apply existsb_exists in F as [x [Hin E]]. apply N.eqb_eq in E. subst x.
          intros X. injection X as X. apply N.eqb_eq in X. exact (K2 _ Hin X).
        + destruct (a_eq c) as [x|] eqn:E; [|discriminate]. pose proof (K1 _ eq_refl) as ->.
          intros X. injection X as X. rewrite X in F. discriminate.
      - apply orb_prop in F as [F|F].
        + specialize (IHk1 F). destruct (eval_cond nl_cond ws_cond data cf ch k1) as [[|]|]; try discriminate. contradiction.
        + destruct (eval_cond nl_cond ws_cond data cf ch k1) as [[|]|]; try discriminate. apply IHk2. exact F.
      - apply andb_prop in F as [F1 F2]. specialize (IHk1 F1). specialize (IHk2 F2).
        destruct (eval_cond nl_cond ws_cond data cf ch k1) as [[|]|]; try discriminate; [contradiction|exact IHk2].
    Qed.

    Notation exec := (exec nl_cond ws_cond data olen).

    Definition Goal_ (k : actx -> bool) (r : flow) : Prop :=
      match r with
      | FFall cf' => exists c', R cf' c' /\ k c' = true
      | FRet KNil cf' => Post cf'
      | FRet KRedispatch cf' => Strict cf' /\ c_cur cf' = c_cur cf0
      | FRet (KCall st) cf' =>
          exists name body f c', nth_error prog (N.to_nat st) = Some (name, body) /\
                                 chk prog Sg entry f body c' (fun _ => false) = true /\ R cf' c'
      | _ => True
      end.

    Lemma chk_sound fuel : forall s c k cf, chk prog Sg entry fuel s c k = true -> R cf c -> Goal_ k (exec ch s cf).
    Proof.
      induction fuel as [|fuel IH]; intros s c k cf C HR; [discriminate|].
      destruct s; cbn [chk] in C; cbn [Scanner.exec Goal_].
      - (* SSetStep *) eexists. split; [|exact C]. destruct HR as [He [Hs [_ [Hk Hm]]]]. unfold R. cbn [a_e a_cs a_eq a_ne a_moved].
        repeat split; try assumption; apply Hk.
      - (* SPush *) apply andb_prop in C as [C1 C2].
        exists c. split; [|exact C2]. destruct HR as [He [Hs [Hc [Hk Hm]]]]. unfold R. repeat split; try assumption; try apply Hk.
        cbn [c_sstack set_sstack]. constructor; [|exact Hs].
        apply sg_is_nil. exact C1.
      - (* SPushCur *) apply andb_prop in C as [C1 C2].
        exists c. split; [|exact C2]. destruct HR as [He [Hs [Hc [Hk Hm]]]]. unfold R. repeat split; try assumption; try apply Hk.
        cbn [c_sstack set_sstack]. constructor; [|exact Hs].
        unfold cur_sigma_empty in C1.
        destruct (a_cs c) as [|t|]; [rewrite Hc; apply sg_is_nil; exact C1|rewrite Hc; apply sg_is_nil; exact C1|exact Hc].
      - (* SPop *) apply andb_prop in C as [C1 C2]. apply is_nil_eq in C1.
        destruct HR as [[stk [He Ha]] [Hs [Hc [Hk Hm]]]].
        destruct (c_sstack cf) as [|r rest] eqn:E; [exact I|].
        eexists. split; [|exact C2]. inversion Hs as [|? ? Hr Hrest]; subst.
        unfold R. cbn [a_e a_cs a_eq a_ne a_moved c_sstack set_sstack set_step c_step c_cur].
        repeat split; try assumption; try apply Hk. exists stk. split; [exact He|exact Ha].
      - (* SFound *) destruct (apply_ev (a_e c) ev off) as [e'|] eqn:A; [|discriminate].
        destruct HR as [[stk [He Ha]] [Hs [Hc [Hk Hm]]]].
        assert (G : exists stk', apply_evp stk (ev, c_cur cf + off) = Some stk' /\ ages_ok (c_cur cf) stk' e').
        { unfold apply_ev in A. unfold apply_evp.
          destruct (LexemeEvents.ev_IsBeginning ev).
          - injection A as <-. eexists. split; [reflexivity|]. constructor; [cbn [fst snd]; split; [reflexivity|lia]|exact Ha].
          - destruct (LexemeEvents.ev_IsEnding ev).
            + destruct (a_e c) as [|[b age] rest] eqn:Ea; [discriminate|].
              inversion Ha as [|[b' bpos] ? stk0 ? [Hb Hage] Hrest]; subst. cbn [fst snd] in *. subst b'.
              destruct (pair_ok b ev && (-1 <=? age + off)) eqn:PK; [|discriminate].
              apply andb_prop in PK as [PK1 PK2]. apply Z.leb_le in PK2.
              destruct (LexemeEvents.ev_ToLexemeType ev); [|discriminate]. injection A as <-.
              rewrite PK1. assert (Hle : (bpos <=? c_cur cf + off + 1) = true) by (apply Z.leb_le; lia).
              rewrite Hle. cbn [andb]. eexists. split; [reflexivity|exact Hrest].
            + destruct (LexemeEvents.ev_IsSingle ev); [|discriminate].
              destruct (LexemeEvents.ev_ToLexemeType ev); [|discriminate]. injection A as <-.
              eexists. split; [reflexivity|exact Ha]. }
        destruct G as [stk' [G1 G2]].
        eexists. split; [|exact C]. unfold R. cbn [a_e a_cs a_eq a_ne a_moved c_step c_sstack c_cur set_finds].
        repeat split; try assumption; try apply Hk.
        exists stk'. split; [|exact G2]. unfold effp in *. cbn [c_finds set_finds c_estack]. rewrite apply_allp_app, He. exact G1.
      - (* SAddCur *) destruct HR as [[stk [He Ha]] [Hs [Hc [Hk Hm]]]].
        eexists. split; [|exact C]. unfold R. cbn [a_e a_cs a_eq a_ne a_moved c_step c_sstack c_cur set_cur].
        repeat split; try assumption; try apply Hk; [|discriminate].
        exists stk. split; [exact He|apply ages_shift; exact Ha].
      - (* SIf *)
        destruct (cond_false c c0) eqn:CF.
        { pose proof (cond_false_sound cf c c0 (proj1 (proj2 (proj2 (proj2 HR)))) CF) as NT.
          destruct (eval_cond nl_cond ws_cond data cf ch c0) as [[|]|]; [contradiction|eapply (IH s2 c k cf C HR)|exact I]. }
        assert (Gen : forall c1 c2, chk prog Sg entry fuel s1 c1 k = true -> chk prog Sg entry fuel s2 c2 k = true ->
                  (eval_cond nl_cond ws_cond data cf ch c0 = Some true -> R cf c1) ->
                  (eval_cond nl_cond ws_cond data cf ch c0 = Some false -> R cf c2) ->
                  Goal_ k (match eval_cond nl_cond ws_cond data cf ch c0 with
                           | None => FPanic PIndexRange
                           | Some true => exec ch s1 cf
                           | Some false => exec ch s2 cf
                           end)).
        { intros c1 c2 C1 C2 R1 R2. destruct (eval_cond nl_cond ws_cond data cf ch c0) as [[|]|]; [|eapply IH; [exact C2|auto]|exact I].
          eapply IH; [exact C1|auto]. }
        destruct c0 as [b| | |kk bb|q|cc|ca cb|ca cb|]; try (apply andb_prop in C as [C1 C2]; apply (Gen c c C1 C2); intros; exact HR).
        apply andb_prop in C as [C1 C2]. apply (Gen _ _ C1 C2).
        + intros EV. cbn [eval_cond] in EV. injection EV as EV. apply N.eqb_eq in EV.
          destruct HR as [He [Hs [Hc [[K1 K2] Hm]]]]. unfold R, known. cbn [a_e a_cs a_eq a_ne a_moved]. repeat split; try assumption.
          intros x X. injection X as <-. exact EV.
        + intros EV. cbn [eval_cond] in EV. injection EV as EV. apply N.eqb_neq in EV.
          destruct HR as [He [Hs [Hc [[K1 K2] Hm]]]]. unfold R, known. cbn [a_e a_cs a_eq a_ne a_moved]. repeat split; try assumption.
          intros b0 [<-|Hin]; [exact EV|apply K2; exact Hin].
      - (* SSeq *) pose proof (IH s1 c _ cf C HR) as A.
        destruct (Scanner.exec nl_cond ws_cond data olen ch s1 cf) as [cf1|kk cf1|e|p] eqn:E1; try exact A.
        destruct A as [c1 [R1 K1]]. eapply IH; eassumption.
      - (* SSkip *) exists c. split; assumption.
      - (* SOracle *) destruct (olen k0 (c_cur cf)); [|exact I].
        destruct HR as [[stk [He Ha]] [Hs [Hc [Hk Hm]]]].
        eexists. split; [|exact C]. unfold R. cbn [a_e a_cs a_eq a_ne a_moved].
        destruct (0 <? n) eqn:Pn.
        + cbn [c_step c_sstack c_cur set_cur]. repeat split; try assumption; try apply Hk; [|discriminate].
          exists stk. split; [exact He|]. apply Z.ltb_lt in Pn. eapply ages_later; [|exact Ha]. lia.
        + repeat split; try assumption; try apply Hk; [|discriminate]. exists stk. split; assumption.
      - (* SRetNil *) apply orb_prop in C as [C|C].
        + pose proof HR as HR0. destruct HR as [[stk [He Ha]] [Hs [Hc [Hk Hm]]]].
          exists stk. split; [exact He|split; [exact Hs|]]. left.
          eapply (fits_promise cf c (c_cur cf + 1) stk (shift 1 (a_e c))); [exact HR0|apply ages_shift; exact Ha|exact C].
        + apply andb_prop in C as [Ce Cm]. destruct HR as [[stk [He Ha]] [Hs [Hc [[K1 K2] Hm]]]].
          exists stk. split; [exact He|split; [exact Hs|]]. right.
          assert (Z0 : ch = 0%N).
          { unfold a_eof in Ce. destruct (a_eq c) as [x|] eqn:E; [|discriminate]. destruct x; [|discriminate]. apply K1. reflexivity. }
          split; [exact Z0|]. rewrite Hm; [apply H0; exact Z0|]. destruct (a_moved c); [discriminate|reflexivity].
      - exact I.
      - exact I.
      - (* SRetCall *) destruct (nth_error prog (N.to_nat st)) as [[name body]|] eqn:E; [|discriminate].
        exists name, body, fuel, c. split; [reflexivity|split; [exact C|exact HR]].
      - (* SRetRedispatch *) apply andb_prop in C as [C1 C2].
        pose proof HR as HR0. destruct HR as [[stk [He Ha]] [Hs [Hc [Hk Hm]]]]. split.
        + exists stk. split; [exact He|split; [exact Hs|]].
          eapply (fits_promise cf c (c_cur cf) stk (a_e c)); [exact HR0|exact Ha|].
          destruct c; exact C1.
        + apply Hm. destruct (a_moved c); [discriminate|reflexivity].
    Qed.
  End Body.

  Notation run_step := (run_step prog nl_cond ws_cond data olen).

  Definition fineE {A} (r : res A) (P : A -> Prop) : Prop :=
    match r with ROk a => P a | _ => True end.

  Definition modeB (fuel : nat) : Prop :=
    forall st ch cf cf0 entry c f name body,
      (ch = 0%N -> data_size data <= c_cur cf0) ->
      nth_error prog (N.to_nat st) = Some (name, body) ->
      chk prog Sg entry f body c (fun _ => false) = true -> R entry ch cf0 cf c ->
      fineE (run_step fuel st ch cf) (Post ch).

  Lemma modeA_from_B fuel : modeB fuel -> forall ch cf, Strict cf -> (ch = 0%N -> data_size data <= c_cur cf) ->
    fineE (run_step fuel (c_step cf) ch cf) (Post ch).
  Proof.
    intros B ch cf [stk [He [Hs [x [Hg Ha]]]]] H0.
    destruct (nth_error prog (N.to_nat (c_step cf))) as [[name body]|] eqn:E.
    - pose proof (OK _ _ _ E) as C. unfold chk_state in C. rewrite E, Hg in C.
      eapply (B (c_step cf) ch cf cf (c_step cf) (mkCtx x SEntry None [] false)); [exact H0|exact E|exact C|].
      unfold R, known. cbn [a_e a_cs a_eq a_ne a_moved]. repeat split; try assumption; try reflexivity; try discriminate.
      + exists stk. split; assumption.
      + intros b [].
    - destruct fuel; cbn [Scanner.run_step]; [exact I|]. unfold body_of. rewrite E. exact I.
  Qed.

  Lemma modeB_all fuel : modeB fuel.
  Proof.
    induction fuel as [|fuel IH]; intros st ch cf cf0 entry c f name body H0 E C HR; cbn [Scanner.run_step]; [exact I|].
    unfold body_of. rewrite E. cbn [option_map snd].
    pose proof (chk_sound entry ch cf0 H0 f body c _ cf C HR) as A. unfold Goal_ in A.
    destruct (Scanner.exec nl_cond ws_cond data olen ch body cf) as [cf1|kk cf1|e|p] eqn:X.
    - exact I.
    - destruct kk as [|st'|].
      + exact A.
      + destruct A as [name' [body' [f' [c' [E' [C' R']]]]]]. eapply IH; eassumption.
      + destruct A as [A Hcur]. apply modeA_from_B; [exact IH|exact A|]. intros Z0. rewrite Hcur. apply H0. exact Z0.
    - exact I.
    - exact I.
  Qed.

  Theorem run_step_extents fuel ch cf : Strict cf -> (ch = 0%N -> data_size data <= c_cur cf) ->
    fineE (run_step fuel (c_step cf) ch cf) (Post ch).
  Proof. apply modeA_from_B. apply modeB_all. Qed.

  Definition Inv2 (cf : conf) : Prop :=
    exists stk, effp cf = Some stk /\ stack_ok (c_sstack cf) /\ (promise cf (c_cur cf) stk \/ data_size data < c_cur cf).

  Definition ext_ok (o : option lexeme) : Prop := match o with Some l => lb l <= le l + 1 | None => True end.

  Lemma process_event_effp cf ev fs stk :
    c_finds cf = ev :: fs -> effp cf = Some stk ->
    exists o cf', process_event (set_finds cf fs) ev = ROk (o, cf') /\ effp cf' = Some stk /\
                  c_step cf' = c_step cf /\ c_sstack cf' = c_sstack cf /\ c_cur cf' = c_cur cf /\ ext_ok o.
  Proof.
    intros Ef He. unfold effp in He. rewrite Ef in He. cbn [apply_allp] in He.
    destruct (apply_evp (c_estack cf) ev) as [e1|] eqn:A; [|discriminate].
    destruct ev as [t pos]. unfold Scanner.process_event. unfold apply_evp in A.
    destruct (LexemeEvents.ev_IsBeginning t).
    - injection A as <-. do 2 eexists. split; [reflexivity|]. unfold effp. cbn [c_estack c_finds set_estack set_finds c_step c_sstack c_cur ext_ok].
      repeat split; try reflexivity. exact He.
    - destruct (LexemeEvents.ev_IsEnding t).
      + destruct (c_estack cf) as [|[bt bpos] es] eqn:Es; [discriminate|].
        cbn [c_estack set_finds]. rewrite Es.
        destruct (pair_ok bt t && (bpos <=? pos + 1)) eqn:PK; [|discriminate].
        apply andb_prop in PK as [PK1 PK2]. rewrite PK1.
        destruct (LexemeEvents.ev_ToLexemeType t); [|discriminate]. injection A as <-.
        do 2 eexists. split; [reflexivity|]. unfold effp. cbn [c_estack c_finds set_estack set_finds c_step c_sstack c_cur ext_ok lb le].
        repeat split; try reflexivity; [exact He|apply Z.leb_le; exact PK2].
      + destruct (LexemeEvents.ev_IsSingle t); [|discriminate].
        destruct (LexemeEvents.ev_ToLexemeType t); [|discriminate]. injection A as <-.
        do 2 eexists. split; [reflexivity|]. unfold effp. cbn [c_estack c_finds set_finds c_step c_sstack c_cur ext_ok lb le].
        repeat split; try reflexivity; [exact He|lia].
  Qed.

  Definition fineL (r : res (option lexeme * conf)) : Prop :=
    match r with ROk (o, cf) => Inv2 cf /\ ext_ok o | _ => True end.

  Lemma note_lexeme_inv cf l : Inv2 cf -> Inv2 (note_lexeme cf l).
  Proof. intros H. unfold note_lexeme. destruct (lk l); exact H. Qed.

  Lemma drain_extents k : forall cf, Inv2 cf -> fineL (drain k cf).
  Proof.
    induction k as [|k IH]; intros cf H; cbn [Scanner.drain fineL]; [split; [exact H|exact I]|].
    destruct (c_finds cf) as [|ev fs] eqn:Ef; [exact I|].
    destruct H as [stk [He [Hs Hd]]].
    destruct (process_event_effp cf ev fs stk Ef He) as [o [cf' [P [He' [S1 [S2 [S3 X]]]]]]].
    rewrite P.
    assert (H' : Inv2 cf').
    { exists stk. unfold promise in *. rewrite S1, S2, S3. auto. }
    destruct o as [l|]; cbn [fineL].
    - split; [apply note_lexeme_inv; exact H'|exact X].
    - apply IH. exact H'.
  Qed.
End Sound.

Section Lift.
  Variable prog : list (string * stmt).
  Variable nl_cond ws_cond : cond.
  Variable data : bytes.
  Variable olen : okind -> Z -> olen_res.
  Variable Sg : state -> option estk.
  Hypothesis OK : forall st name body, nth_error prog (N.to_nat st) = Some (name, body) -> chk_state prog Sg st = true.

  Notation Inv2 := (Inv2 data Sg).
  Notation fineL := (fineL data Sg).
  Notation next_loop := (next_loop prog nl_cond ws_cond data olen).
  Notation next := (next prog nl_cond ws_cond data olen).

  Lemma next_loop_extents fuel : forall cf, Inv2 cf -> fineL (next_loop fuel cf).
  Proof.
    induction fuel as [|fuel IH]; intros cf H; cbn [Scanner.next_loop]; [exact I|].
    destruct (data_size data <? c_cur cf) eqn:Fin; [split; [exact H|exact I]|].
    destruct (c_cur cf <? 0); [exact I|].
    assert (St : Strict Sg cf).
    { destruct H as [stk [He [Hs Hd]]]. exists stk. split; [exact He|split; [exact Hs|]].
      destruct Hd as [Hd|Hd]; [exact Hd|]. apply Z.ltb_ge in Fin. lia. }
    assert (Step : forall ch, (ch = 0%N -> data_size data <= c_cur cf) -> (ch = 0%N -> c_cur cf = data_size data) ->
              fineL (match Scanner.run_step prog nl_cond ws_cond data olen step_fuel (c_step cf) ch cf with
                     | ROk cf1 =>
                         let cf2 := set_cur cf1 (c_cur cf1 + 1) in
                         match drain (List.length (c_finds cf2)) cf2 with
                         | ROk (None, cf3) => next_loop fuel cf3
                         | r => r
                         end
                     | RErr e => RErr e
                     | RPanic p => RPanic p
                     | RFuel => RFuel
                     end)).
    { intros ch H0 _.
      pose proof (run_step_extents prog nl_cond ws_cond data olen Sg OK step_fuel ch cf St H0) as Rn.
      destruct (Scanner.run_step prog nl_cond ws_cond data olen step_fuel (c_step cf) ch cf) as [cf1| |p0|]; cbn [fineE] in *; try exact I.
      destruct Rn as [stk1 [He1 [Hs1 Hd1]]].
      assert (H2 : Inv2 (set_cur cf1 (c_cur cf1 + 1))).
      { exists stk1. split; [exact He1|split; [exact Hs1|]]. cbn [c_step c_cur set_cur].
        destruct Hd1 as [Hd1|[_ Hd1]]; [left; exact Hd1|right; lia]. }
      pose proof (drain_extents data Sg (List.length (c_finds (set_cur cf1 (c_cur cf1 + 1)))) _ H2) as D.
      destruct (Scanner.drain _ _) as [[[l|] cf3]| |p0|]; cbn [fineL] in *; try exact I; try exact D.
      apply IH. exact (proj1 D). }
    destruct (c_cur cf =? data_size data) eqn:AtEnd.
    - cbn [negb andb]. apply Step; intros _; apply Z.eqb_eq in AtEnd; lia.
    - cbn [negb andb].
      destruct (byte_at data (c_cur cf)) as [b|] eqn:Bt.
      + destruct (N.eqb b 0) eqn:Zb; [exact I|]. apply Step; intros ->; discriminate.
      + cbn [N.eqb]. exact I.
  Qed.

  Theorem next_extents cf : Inv2 cf -> fineL (next cf).
  Proof.
    intros H. unfold Scanner.next. destruct (c_finds cf) as [|ev fs] eqn:Ef; [apply next_loop_extents; exact H|].
    destruct H as [stk [He [Hs Hd]]].
    destruct (process_event_effp cf ev fs stk Ef He) as [o [cf' [P [He' [S1 [S2 [S3 X]]]]]]].
    rewrite P.
    assert (H' : Inv2 cf').
    { exists stk. unfold promise in *. rewrite S1, S2, S3. auto. }
    destruct o as [l|]; cbn [fineL]; [split; [exact H'|exact X]|apply next_loop_extents; exact H'].
  Qed.
End Lift.

Lemma inferred_ok : forall st name body,
  nth_error ScannerProg.prog_table (N.to_nat st) = Some (name, body) -> chk_state ScannerProg.prog_table inferredSg st = true.
Proof.
  intros st name body E.
  pose proof all_ok_ok as A. unfold all_ok in A. rewrite forallb_forall in A.
  assert (Hlt : (N.to_nat st < List.length ScannerProg.prog_table)%nat) by (apply nth_error_Some; congruence).
  specialize (A (N.to_nat st)). rewrite N2Nat.id in A. apply A. apply in_seq. lia.
Qed.

(* the regenerated program, any input, any oracle table, any number of Next() calls: no lexeme
   the scanner returns ends more than one byte before it begins *)
Theorem lexeme_extents_are_never_inverted data tbl fuel :
  let '(ls, _, _) := lex_traj data tbl fuel (init_conf ScannerProg.initial_state) in
  Forall (fun l => lb l <= le l + 1) ls.
Proof.
  assert (G : forall fuel cf, Inv2 data inferredSg cf ->
              let '(ls, _, _) := lex_traj data tbl fuel cf in Forall (fun l => lb l <= le l + 1) ls).
  { clear fuel. induction fuel as [|fuel IH]; intros cf H; cbn [lex_traj]; [constructor|].
    pose proof (next_extents ScannerProg.prog_table ScannerProg.is_newline_cond ScannerProg.is_whitespace_cond data
                             (olen_of_table tbl) inferredSg inferred_ok cf H) as N.
    unfold the_next.
    destruct (next ScannerProg.prog_table ScannerProg.is_newline_cond ScannerProg.is_whitespace_cond data (olen_of_table tbl) cf)
      as [[[l|] cf']| |p|]; cbn [fineL] in N; try constructor.
    destruct N as [N1 N2]. specialize (IH cf' N1). destruct (lex_traj data tbl fuel cf') as [[ls e] tr].
    constructor; [exact N2|exact IH]. }
  apply G. exists []. split; [reflexivity|split; [constructor|left]].
  exists []. split; [vm_compute; reflexivity|constructor].
Qed.
