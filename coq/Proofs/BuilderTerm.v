(* BuilderTerm.v — C01: the catalog builder's pass over the expanded forest (addDirectives) does not
   run out of fuel once the fuel exceeds the height of the forest: for every forest, catalog state,
   ban list and body text.  (Its only recursion is the descent into the children.)  The single
   directive handlers have no fuel at all. *)
From JS Require Import Base Bytes Scanner Directive Core Expand Catalog Ban BanBuild ExpandTerm.
From Coq Require Import Lia.
Open Scope Z_scope.

Ltac crush H :=
  repeat (match type of H with
          | context [match ?x with _ => _ end] => let E := fresh "E" in destruct x eqn:E; try discriminate H
          | context [if ?x then _ else _] => let E := fresh "E" in destruct x eqn:E; try discriminate H
          end).
Ltac errs H := unfold kerr1, kerr, not_found, required in H; try discriminate H.

Lemma add_request_no_fuel c d anc : add_request c d anc <> CFuel.
Proof. unfold add_request. intros H. crush H. all: errs H. Qed.
Lemma add_response_no_fuel c d anc : add_response c d anc <> CFuel.
Proof. unfold add_response. intros H. crush H. all: errs H. Qed.
Lemma add_description_no_fuel c d anc body : add_description c d anc body <> CFuel.
Proof. unfold add_description. intros H. crush H. all: errs H. Qed.

Lemma add_directive_no_fuel banned c d anc : add_directive banned c d anc <> CFuel.
Proof.
  unfold add_directive. intros H. cbv zeta in H. crush H. all: errs H.
  all: first [exact (add_request_no_fuel _ _ _ H) | exact (add_response_no_fuel _ _ _ H)].
Qed.

Section B.
  Variable read_body : coords -> bytes.
  Variable banned : list N.

  Lemma head_no_fuel c d anc : head read_body banned c d anc <> CFuel.
  Proof.
    unfold head. destruct (existsb _ banned); [apply add_directive_no_fuel|].
    destruct (N.eqb (d_kind d) DirectiveTables.dir_Description); [apply add_description_no_fuel|apply add_directive_no_fuel].
  Qed.

  Lemma add_branch_no_fuel : forall fuel c d anc,
    (height d <= fuel)%nat -> add_branch read_body banned fuel c d anc <> CFuel.
  Proof.
    induction fuel as [|fuel IH]; intros c d anc H; [rewrite height_unfold in H; lia|].
    rewrite add_branch_S. pose proof (head_no_fuel c d anc) as NF.
    destruct (head read_body banned c d anc) as [c1| | |]; try discriminate; [|contradiction].
    rewrite height_unfold in H.
    assert (K : forall cs c1, (forall x, In x cs -> In x (d_children d)) ->
              go_children read_body banned fuel d anc c1 cs <> CFuel).
    { induction cs as [|x rest IHc]; intros c2 Hsub; [discriminate|]. cbn [go_children].
      assert (Hx : (height x <= fuel)%nat).
      { pose proof (heights_in (d_children d) x (Hsub x (or_introl eq_refl))). lia. }
      pose proof (IH c2 x (d :: anc) Hx) as NFx.
      destruct (add_branch read_body banned fuel c2 x (d :: anc)) as [c3| | |]; try discriminate; [|contradiction].
      apply IHc. intros y Hy. apply Hsub. right. exact Hy. }
    apply K. auto.
  Qed.

  Theorem add_all_no_fuel : forall fuel ds c,
    (heights ds <= fuel)%nat -> add_all read_body banned fuel c ds <> CFuel.
  Proof.
    intros fuel. induction ds as [|d rest IH]; intros c H; [discriminate|]. cbn [add_all].
    assert (Hd : (height d <= fuel)%nat) by (pose proof (heights_in (d :: rest) d (or_introl eq_refl)); lia).
    pose proof (add_branch_no_fuel fuel c d [] Hd) as NF.
    destruct (add_branch read_body banned fuel c d []) as [c2| | |]; try discriminate; [|contradiction].
    apply IH. change (heights (d :: rest)) with (Nat.max (height d) (heights rest)) in H. lia.
  Qed.
End B.
