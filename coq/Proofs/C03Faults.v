(* C03Faults.v — one theorem per further fault class of C03: for EVERY catalog state, position and
   ancestor chain, the directive that repeats, lacks or wrongly carries something is refused, and
   the error is located on that directive (its file and the index of its keyword) with the message
   of the class. *)
From JS Require Import Base Bytes Scanner Directive Core Expand Catalog C05Proofs C03Proofs.
From JS Require DirectiveTables ErrConsts.
Open Scope Z_scope.

(* evaluate the comparisons between directive kinds that are closed terms *)
Ltac red_kinds :=
  repeat match goal with
  | |- context [N.eqb ?x ?y] =>
      let v := eval vm_compute in (N.eqb x y) in
      match v with
      | true => change (N.eqb x y) with true
      | false => change (N.eqb x y) with false
      end
  | |- context [is_method ?x] =>
      let v := eval vm_compute in (is_method x) in
      match v with
      | true => change (is_method x) with true
      | false => change (is_method x) with false
      end
  end; cbn [orb andb negb].

Section Faults.
  Variable banned : list N.
  Hypothesis not_banned : forall d, existsb (N.eqb (d_kind d)) banned = false.

  (* located on [d], with the plain message [s] / the required-parameter message for [p] *)
  Definition refused_with {A} (r : cres A) (d : dir) (s : string) : Prop :=
    exists e, r = CErr e /\ e_file e = co_file (d_kw d) /\ e_index e = co_begin (d_kw d) /\ e_msg e = msg1 s.
  Definition refused_required {A} (r : cres A) (d : dir) (p : string) : Prop :=
    exists e, r = CErr e /\ e_file e = co_file (d_kw d) /\ e_index e = co_begin (d_kw d) /\
              e_msg e = mkMsg "%s (%s)" [str ErrConsts.jerr_RequiredParameterNotSpecified; str p].

  Ltac start Hk := unfold add_directive; rewrite not_banned, Hk; red_kinds.
  Ltac done1 := unfold kerr1, kerr; eexists; repeat split.
  Ltac nonempty H := match type of H with ?x <> [] => let E := fresh "E" in destruct (beq x []) eqn:E; [apply beq_true_eq in E; contradiction|] end.

  (* ---- something that may occur once occurs again ---- *)
  Theorem repeated_jsight c d anc :
    d_kind d = DirectiveTables.dir_Jsight -> named d KVersion = str "0.3" -> d_annot d = [] -> c_jsight c <> [] ->
    refused_with (add_directive banned c d anc) d ErrConsts.jerr_DirectiveJSIGHTGottaBeOnlyOneTime.
  Proof.
    intros Hk Hv Ha Hj. start Hk. rewrite Hv. vm_compute (beq (str "0.3") []). vm_compute (beq (str "0.3") (str "0.3")). cbn [negb].
    unfold has_annot. rewrite Ha. cbn [beq N_eqb_list negb]. nonempty Hj. cbn [negb]. done1.
  Qed.

  Theorem second_info c d anc i :
    d_kind d = DirectiveTables.dir_Info -> d_named d = [] -> d_annot d = [] -> c_info c = Some i ->
    refused_with (add_directive banned c d anc) d ErrConsts.jerr_DirectiveINFOGottaBeOnlyOneTime.
  Proof.
    intros Hk Hn Ha Hi. start Hk. rewrite Hn. cbn [negb]. unfold has_annot. rewrite Ha. cbn [beq N_eqb_list negb]. rewrite Hi. done1.
  Qed.

  Theorem second_title c d anc i :
    d_kind d = DirectiveTables.dir_Title -> named d KTitle <> [] -> d_annot d = [] -> c_info c = Some i -> in_title i <> [] ->
    refused_with (add_directive banned c d anc) d ErrConsts.jerr_NotUniqueDirective.
  Proof.
    intros Hk Hv Ha Hi Ht. start Hk. nonempty Hv. unfold has_annot. rewrite Ha. cbn [beq N_eqb_list negb]. rewrite Hi. nonempty Ht. cbn [negb]. done1.
  Qed.

  Theorem second_version c d anc i :
    d_kind d = DirectiveTables.dir_Version -> named d KVersion <> [] -> d_annot d = [] -> c_info c = Some i -> in_version i <> [] ->
    refused_with (add_directive banned c d anc) d ErrConsts.jerr_NotUniqueDirective.
  Proof.
    intros Hk Hv Ha Hi Ht. start Hk. nonempty Hv. unfold has_annot. rewrite Ha. cbn [beq N_eqb_list negb]. rewrite Hi. nonempty Ht. cbn [negb]. done1.
  Qed.

  Theorem second_base_url c d srv rest sn sa b :
    d_kind d = DirectiveTables.dir_BaseURL -> named d KPath <> [] -> d_annot d = [] ->
    List.find (fun s => beq (fst (fst s)) (named srv KName)) (c_servers c) = Some (sn, sa, b) -> b <> [] ->
    refused_with (add_directive banned c d (srv :: rest)) d ErrConsts.jerr_DirectiveBaseURLAlreadyDefined.
  Proof.
    intros Hk Hp Ha Hf Hb. start Hk. nonempty Hp. unfold has_annot. rewrite Ha. cbn [beq N_eqb_list negb]. rewrite Hf. nonempty Hb. cbn [negb]. done1.
  Qed.

  Theorem second_query c d anc id m p h q :
    d_kind d = DirectiveTables.dir_Query -> d_annot d = [] -> has_body d = true ->
    http_id d anc = inl (id, m, p) -> find_http c id = Some h -> hi_query h = Some q ->
    refused_with (add_directive banned c d anc) d ErrConsts.jerr_NotUniqueDirective.
  Proof.
    intros Hk Ha Hb Hi Hf Hq. start Hk. unfold has_annot. rewrite Ha. cbn [beq N_eqb_list negb]. rewrite Hb. cbn [negb]. rewrite Hi, Hf, Hq. done1.
  Qed.

  Theorem second_request_headers c d p rest id m pa h r x :
    d_kind d = DirectiveTables.dir_Headers -> d_annot d = [] -> has_body d = true ->
    d_kind p = DirectiveTables.dir_Request ->
    http_id d (p :: rest) = inl (id, m, pa) -> find_http c id = Some h -> hi_request h = Some r -> rq_headers r = Some x ->
    refused_with (add_directive banned c d (p :: rest)) d ErrConsts.jerr_NotUniqueDirective.
  Proof.
    intros Hk Ha Hb Hp Hi Hf Hr Hh. start Hk. unfold has_annot. rewrite Ha. cbn [beq N_eqb_list negb]. rewrite Hb. cbn [negb parent_kind].
    rewrite Hp. red_kinds. rewrite Hi, Hf, Hr, Hh. done1.
  Qed.

  Theorem second_response_headers c d p rest id m pa h lastr before x :
    d_kind d = DirectiveTables.dir_Headers -> d_annot d = [] -> has_body d = true ->
    d_kind p = DirectiveTables.dir_HTTPResponseCode ->
    http_id d (p :: rest) = inl (id, m, pa) -> find_http c id = Some h -> rev (hi_responses h) = lastr :: before -> rs_headers lastr = Some x ->
    refused_with (add_directive banned c d (p :: rest)) d ErrConsts.jerr_NotUniqueDirective.
  Proof.
    intros Hk Ha Hb Hp Hi Hf Hr Hh. start Hk. unfold has_annot. rewrite Ha. cbn [beq N_eqb_list negb]. rewrite Hb. cbn [negb parent_kind].
    rewrite Hp. red_kinds. rewrite Hi, Hf, Hr, Hh. done1.
  Qed.

  Theorem second_protocol c d p rest :
    d_kind d = DirectiveTables.dir_Protocol -> d_annot d = [] -> named d KProtocolName = str "json-rpc-2.0" ->
    existsb (fun x => N.eqb (co_file x) (co_file (d_kw p)) && (co_begin x =? co_begin (d_kw p))) (c_protocol_urls c) = true ->
    refused_with (add_directive banned c d (p :: rest)) d ErrConsts.jerr_NotUniqueDirective.
  Proof.
    intros Hk Ha Hn He. start Hk. unfold has_annot. rewrite Ha. cbn [beq N_eqb_list negb]. rewrite Hn.
    vm_compute (beq (str "json-rpc-2.0") []). vm_compute (beq (str "json-rpc-2.0") (str "json-rpc-2.0")). cbn [negb]. rewrite He. done1.
  Qed.

  Theorem second_params c d anc id m p r :
    d_kind d = DirectiveTables.dir_Params -> d_annot d = [] -> has_body d = true ->
    rpc_id d anc = inl (id, m, p) -> find_rpc c id = Some r -> ri_params r = true ->
    refused_with (add_directive banned c d anc) d ErrConsts.jerr_NotUniqueDirective.
  Proof.
    intros Hk Ha Hb Hi Hf Hp. start Hk. unfold has_annot. rewrite Ha. cbn [beq N_eqb_list negb]. rewrite Hb. cbn [negb]. rewrite Hi, Hf, Hp. done1.
  Qed.

  Theorem second_result c d anc id m p r :
    d_kind d = DirectiveTables.dir_Result -> d_annot d = [] -> has_body d = true ->
    rpc_id d anc = inl (id, m, p) -> find_rpc c id = Some r -> ri_result r = true ->
    refused_with (add_directive banned c d anc) d ErrConsts.jerr_NotUniqueDirective.
  Proof.
    intros Hk Ha Hb Hi Hf Hp. start Hk. unfold has_annot. rewrite Ha. cbn [beq N_eqb_list negb]. rewrite Hb. cbn [negb]. rewrite Hi, Hf, Hp. done1.
  Qed.

  (* a duplicate interaction: an HTTP method or a JSON-RPC method whose id is already there *)
  Theorem duplicate_http_interaction c d anc c1 pp id m p x :
    is_method (d_kind d) = true -> check_paths c d anc = inl (c1, pp) -> http_id d anc = inl (id, m, p) ->
    find_inter (c_inters c1) id = Some x ->
    exists e, add_directive banned c d anc = CErr e /\ e_file e = co_file (d_kw d) /\ e_index e = co_begin (d_kw d) /\
              e_msg e = mkMsg "%s %q" [str ErrConsts.jerr_MethodIsAlreadyDefinedInResource; id].
  Proof.
    intros Hm Hc Hi Hf. unfold add_directive. rewrite not_banned.
    assert (K : forall k, is_method k = true ->
                  (N.eqb k DirectiveTables.dir_Jsight = false) /\ (N.eqb k DirectiveTables.dir_Info = false) /\
                  (N.eqb k DirectiveTables.dir_Title || N.eqb k DirectiveTables.dir_Version = false) /\
                  (N.eqb k DirectiveTables.dir_Description = false) /\ (N.eqb k DirectiveTables.dir_Server = false) /\
                  (N.eqb k DirectiveTables.dir_BaseURL = false) /\ (N.eqb k DirectiveTables.dir_Type = false) /\
                  (N.eqb k DirectiveTables.dir_URL = false)).
    { intros k H. unfold is_method, is_http_request_method in H.
      repeat split; (destruct (N.eqb k _) eqn:E; [apply N.eqb_eq in E; subst k; vm_compute in H; discriminate H|]); try reflexivity.
      destruct (N.eqb k DirectiveTables.dir_Version) eqn:E2; [apply N.eqb_eq in E2; subst k; vm_compute in H; discriminate H|reflexivity]. }
    destruct (K _ Hm) as [K1 [K2 [K3 [K4 [K5 [K6 [K7 K8]]]]]]].
    rewrite K1, K2, K3, K4, K5, K6, K7, K8, Hm, Hc, Hi, Hf. unfold kerr. eexists. repeat split.
  Qed.

  Theorem duplicate_rpc_method c d p rest id m pa x :
    d_kind d = DirectiveTables.dir_Method -> named d KMethodName <> [] ->
    existsb (fun x => N.eqb (d_kind x) DirectiveTables.dir_Protocol) (d_children p) = true ->
    rpc_id d (p :: rest) = inl (id, m, pa) -> find_inter (c_inters c) id = Some x ->
    exists e, add_directive banned c d (p :: rest) = CErr e /\ e_file e = co_file (d_kw d) /\ e_index e = co_begin (d_kw d) /\
              e_msg e = mkMsg "%s %q" [str ErrConsts.jerr_MethodIsAlreadyDefinedInResource; id].
  Proof.
    intros Hk Hn Hp Hi Hf. start Hk. nonempty Hn. rewrite Hp. cbn [negb]. rewrite Hi, Hf. unfold kerr. eexists. repeat split.
  Qed.

  (* ---- a required parameter or body is missing ---- *)
  Theorem server_without_name c d anc :
    d_kind d = DirectiveTables.dir_Server -> named d KName = [] -> refused_required (add_directive banned c d anc) d "Name".
  Proof. intros Hk Hn. start Hk. rewrite Hn. cbn [beq N_eqb_list]. unfold required, kerr. eexists. repeat split. Qed.

  Theorem type_without_name c d anc :
    d_kind d = DirectiveTables.dir_Type -> named d KName = [] -> refused_required (add_directive banned c d anc) d "Name".
  Proof. intros Hk Hn. start Hk. rewrite Hn. cbn [beq N_eqb_list]. unfold required, kerr. eexists. repeat split. Qed.

  Theorem title_without_text c d anc :
    d_kind d = DirectiveTables.dir_Title -> named d KTitle = [] -> refused_required (add_directive banned c d anc) d "Title".
  Proof. intros Hk Hn. start Hk. rewrite Hn. cbn [beq N_eqb_list]. unfold required, kerr. eexists. repeat split. Qed.

  Theorem method_without_name c d anc :
    d_kind d = DirectiveTables.dir_Method -> named d KMethodName = [] -> refused_required (add_directive banned c d anc) d "MethodName".
  Proof. intros Hk Hn. start Hk. rewrite Hn. cbn [beq N_eqb_list]. unfold required, kerr. eexists. repeat split. Qed.

  Theorem operation_id_without_value c d anc :
    d_kind d = DirectiveTables.dir_OperationID -> named d KOperationId = [] -> refused_required (add_directive banned c d anc) d "OperationId".
  Proof. intros Hk Hn. start Hk. rewrite Hn. cbn [beq N_eqb_list]. unfold required, kerr. eexists. repeat split. Qed.

  Theorem query_without_body c d anc :
    d_kind d = DirectiveTables.dir_Query -> d_annot d = [] -> has_body d = false ->
    refused_with (add_directive banned c d anc) d ErrConsts.jerr_BodyIsEmpty.
  Proof. intros Hk Ha Hb. start Hk. unfold has_annot. rewrite Ha. cbn [beq N_eqb_list negb]. rewrite Hb. cbn [negb]. done1. Qed.

  Theorem headers_without_body c d anc :
    d_kind d = DirectiveTables.dir_Headers -> d_annot d = [] -> has_body d = false ->
    refused_with (add_directive banned c d anc) d ErrConsts.jerr_BodyIsEmpty.
  Proof. intros Hk Ha Hb. start Hk. unfold has_annot. rewrite Ha. cbn [beq N_eqb_list negb]. rewrite Hb. cbn [negb]. done1. Qed.

  Theorem params_or_result_without_body c d anc :
    (d_kind d = DirectiveTables.dir_Params \/ d_kind d = DirectiveTables.dir_Result) -> d_annot d = [] -> has_body d = false ->
    refused_with (add_directive banned c d anc) d ErrConsts.jerr_BodyIsEmpty.
  Proof. intros [Hk|Hk] Ha Hb; start Hk; unfold has_annot; rewrite Ha; cbn [beq N_eqb_list negb]; rewrite Hb; cbn [negb]; done1. Qed.

  Theorem description_without_text c d anc :
    d_kind d = DirectiveTables.dir_Description -> d_annot d = [] -> has_body d = false ->
    refused_with (add_directive banned c d anc) d ErrConsts.jerr_DescriptionIsEmpty.
  Proof. intros Hk Ha Hb. start Hk. unfold has_annot. rewrite Ha. cbn [beq N_eqb_list negb]. rewrite Hb. cbn [negb]. done1. Qed.

  (* ---- an annotation where none is allowed ---- *)
  Definition annot_free_kinds : list N :=
    [DirectiveTables.dir_Info; DirectiveTables.dir_Description; DirectiveTables.dir_URL; DirectiveTables.dir_Query;
     DirectiveTables.dir_Headers; DirectiveTables.dir_Params; DirectiveTables.dir_Result].

  Theorem forbidden_annotation c d anc :
    In (d_kind d) annot_free_kinds -> d_annot d <> [] -> (d_kind d = DirectiveTables.dir_Info -> d_named d = []) ->
    refused_with (add_directive banned c d anc) d ErrConsts.jerr_AnnotationIsForbiddenForTheDirective.
  Proof.
    intros Hin Ha Hi.
    assert (HA : has_annot d = true) by (unfold has_annot; nonempty Ha; reflexivity).
    cbn [annot_free_kinds In] in Hin.
    destruct Hin as [Hk|Hin].
    { symmetry in Hk. start Hk. rewrite (Hi Hk). cbn [negb]. rewrite HA. unfold kerr1, kerr. eexists. split; [reflexivity|]. split; [reflexivity|]. split; reflexivity. }
    destruct Hin as [Hk|[Hk|[Hk|[Hk|[Hk|[Hk|[]]]]]]]; symmetry in Hk; start Hk; rewrite HA; unfold kerr1, kerr; eexists; (split; [reflexivity|]); (split; [reflexivity|]); split; reflexivity.
  Qed.
End Faults.
