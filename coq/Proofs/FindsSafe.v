(* FindsSafe.v — the `for range s.finds` loop of Next() never shifts an event off an empty queue:
   for every scanner program, input, oracle and configuration (no invariant needed - the loop runs
   once per queued event and handling an event queues none). *)
From JS Require Import Base Bytes Scanner.
From Coq Require Import Lia.
Open Scope Z_scope.

Section F.
  Variable prog : list (string * stmt).
  Variable nl ws : cond.
  Variable data : bytes.
  Variable olen : okind -> Z -> olen_res.

  Lemma process_event_finds cf ev o cf' : process_event cf ev = ROk (o, cf') -> c_finds cf' = c_finds cf.
  Proof.
    unfold process_event. destruct ev as [t pos].
    destruct (LexemeEvents.ev_IsBeginning t); [intros H; injection H as _ <-; reflexivity|].
    destruct (LexemeEvents.ev_IsEnding t).
    - destruct (c_estack cf) as [|[bt bpos] es]; [discriminate|].
      destruct (pair_ok bt t); [|discriminate].
      destruct (LexemeEvents.ev_ToLexemeType t); [|discriminate]. intros H. injection H as _ <-. reflexivity.
    - destruct (LexemeEvents.ev_IsSingle t); [|discriminate].
      destruct (LexemeEvents.ev_ToLexemeType t); [|discriminate]. intros H. injection H as _ <-. reflexivity.
  Qed.

  Lemma process_event_not_finds cf ev : process_event cf ev <> RPanic PFindsEmpty.
  Proof.
    unfold process_event. destruct ev as [t pos].
    destruct (LexemeEvents.ev_IsBeginning t); [discriminate|].
    destruct (LexemeEvents.ev_IsEnding t).
    - destruct (c_estack cf) as [|[bt bpos] es]; [discriminate|].
      destruct (pair_ok bt t); [|discriminate]. destruct (LexemeEvents.ev_ToLexemeType t); discriminate.
    - destruct (LexemeEvents.ev_IsSingle t); [|discriminate]. destruct (LexemeEvents.ev_ToLexemeType t); discriminate.
  Qed.

  Lemma drain_not_finds : forall n cf, (n <= List.length (c_finds cf))%nat -> drain n cf <> RPanic PFindsEmpty.
  Proof.
    induction n as [|n IH]; intros cf H; cbn [drain]; [discriminate|].
    destruct (c_finds cf) as [|ev fs] eqn:Ef; [cbn in H; lia|].
    pose proof (process_event_not_finds (set_finds cf fs) ev) as NP.
    destruct (process_event (set_finds cf fs) ev) as [[[l|] cf']| |p|] eqn:Ep; try discriminate.
    - apply IH. rewrite (process_event_finds _ _ _ _ Ep). cbn [c_finds set_finds]. cbn [List.length] in H. lia.
    - intros E. injection E as ->. contradiction.
  Qed.

  Lemma exec_not_finds c s : forall cf, exec nl ws data olen c s cf <> FPanic PFindsEmpty.
  Proof.
    induction s as [st|st| | |ev off|dz|k t IHt e IHe|a IHa b IHb| |ok| |w e|m|st| ]; intros cf; cbn [exec]; try discriminate.
    - destruct (c_sstack cf); discriminate.
    - destruct (eval_cond nl ws data cf c k) as [[|]|]; [apply IHt|apply IHe|discriminate].
    - pose proof (IHa cf) as A. destruct (exec nl ws data olen c a cf) as [cf'| | |p]; try discriminate; [apply IHb|exact A].
    - destruct (olen ok (c_cur cf)); discriminate.
  Qed.

  Lemma run_step_not_finds : forall fuel st c cf, run_step prog nl ws data olen fuel st c cf <> RPanic PFindsEmpty.
  Proof.
    induction fuel as [|fuel IH]; intros st c cf; cbn [run_step]; [discriminate|].
    destruct (body_of prog st) as [body|]; [|discriminate].
    pose proof (exec_not_finds c body cf) as E.
    destruct (exec nl ws data olen c body cf) as [cf'|[|st'|] cf'|e|p]; try discriminate; try apply IH.
    intros H. injection H as ->. contradiction.
  Qed.

  Lemma next_loop_not_finds : forall fuel cf, next_loop prog nl ws data olen fuel cf <> RPanic PFindsEmpty.
  Proof.
    induction fuel as [|fuel IH]; intros cf; cbn [next_loop]; [discriminate|].
    destruct (data_size data <? c_cur cf); [discriminate|].
    destruct (c_cur cf <? 0); [discriminate|]. cbv zeta.
    match goal with |- context [if ?b then RErr _ else _] => destruct b end; [discriminate|].
    match goal with |- context [run_step prog nl ws data olen step_fuel ?s ?c cf] =>
      pose proof (run_step_not_finds step_fuel s c cf) as R;
      destruct (run_step prog nl ws data olen step_fuel s c cf) as [cf1| |p|]
    end; try discriminate.
    - pose proof (drain_not_finds (List.length (c_finds (set_cur cf1 (c_cur cf1 + 1)))) (set_cur cf1 (c_cur cf1 + 1)) (le_n _)) as D.
      destruct (drain _ _) as [[[l|] cf3]| |p|]; try discriminate; [apply IH|exact D].
    - intros H. injection H as ->. contradiction.
  Qed.

  Theorem next_never_shifts_an_empty_queue : forall cf, next prog nl ws data olen cf <> RPanic PFindsEmpty.
  Proof.
    intros cf. unfold next. destruct (c_finds cf) as [|ev fs]; [apply next_loop_not_finds|].
    pose proof (process_event_not_finds (set_finds cf fs) ev) as NP.
    destruct (process_event (set_finds cf fs) ev) as [[[l|] cf']| |p|]; try discriminate; [apply next_loop_not_finds|exact NP].
  Qed.
End F.
