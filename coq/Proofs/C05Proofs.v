(* C05Proofs.v — the tag <-> interaction relation: registering an interaction under a list
   of tag names adds its id to exactly those tags, once per occurrence of the name; with
   distinct names every named tag lists the interaction exactly once.  Refutation for a Tags
   directive that names one tag twice (finding F10). *)
From JS Require Import Base Bytes Scanner Directive Core Expand Catalog ListAux.
From Coq Require Import Lia.
Open Scope Z_scope.

Definition group (http : bool) (t : tag) : list bytes := if http then tg_http t else tg_rpc t.
Definition countb (x : bytes) (l : list bytes) : nat := List.length (List.filter (beq x) l).

Lemma beq_true_eq a b : beq a b = true -> a = b.
Proof.
  unfold beq. revert b; induction a as [|x a IH]; intros [|y b] H; cbn in H; try discriminate; auto.
  apply andb_prop in H as [H1 H2]. apply N.eqb_eq in H1. f_equal; auto.
Qed.

Lemma beq_refl' a : beq a a = true.
Proof. unfold beq. induction a as [|x a IH]; cbn; auto. rewrite N.eqb_refl. exact IH. Qed.

Lemma beq_false_ne a b : beq a b = false -> a <> b.
Proof. intros H E. subst. rewrite beq_refl' in H. discriminate. Qed.

Lemma beq_ne_false a b : a <> b -> beq a b = false.
Proof. intros H. destruct (beq a b) eqn:E; [apply beq_true_eq in E; contradiction|reflexivity]. Qed.

(* find_tag after update_tag, for an update that keeps the name *)
Lemma find_update ts n m f :
  (forall t, tg_name (f t) = tg_name t) ->
  find_tag (update_tag ts n f) m =
  if beq n m then option_map f (find_tag ts n) else find_tag ts m.
Proof.
  intros Hf. induction ts as [|x ts IH]; cbn [update_tag find_tag].
  - destruct (beq n m); reflexivity.
  - destruct (beq (tg_name x) n) eqn:E.
    + apply beq_true_eq in E. cbn [find_tag]. rewrite Hf, E.
      destruct (beq n m) eqn:F; reflexivity.
    + cbn [find_tag]. destruct (beq (tg_name x) m) eqn:G.
      * destruct (beq n m) eqn:F; [|reflexivity].
        apply beq_true_eq in F, G. subst. rewrite beq_refl' in E. discriminate.
      * exact IH.
Qed.

Lemma add_id_name http id t : tg_name (add_id_to_tag http id t) = tg_name t.
Proof. unfold add_id_to_tag. destruct http; reflexivity. Qed.

Lemma countb_app x a b : countb x (a ++ b) = (countb x a + countb x b)%nat.
Proof. unfold countb. rewrite filter_app, app_length. reflexivity. Qed.

Lemma add_id_count http id x t :
  countb x (group http (add_id_to_tag http id t)) = (countb x (group http t) + (if beq x id then 1 else 0))%nat.
Proof.
  unfold add_id_to_tag, group. destruct http; cbn [tg_http tg_rpc]; rewrite countb_app;
    unfold countb at 2; cbn [List.filter]; destruct (beq x id); reflexivity.
Qed.

Lemma add_id_other http id t : group (negb http) (add_id_to_tag http id t) = group (negb http) t.
Proof. unfold add_id_to_tag, group. destruct http; reflexivity. Qed.

Lemma countb_cons x y l : countb x (y :: l) = ((if beq x y then 1 else 0) + countb x l)%nat.
Proof. unfold countb. cbn [List.filter]. destruct (beq x y); reflexivity. Qed.

Lemma countb_nil x : countb x [] = O.
Proof. reflexivity. Qed.

Definition register (http : bool) (id : bytes) (names : list bytes) (ts : list tag) : list tag :=
  fold_left (fun ts n => update_tag ts n (add_id_to_tag http id)) names ts.

(* after registering [id] under [names]: a tag that existed before still exists under its
   name; it lists every id as often as before, and [id] once more per occurrence of its name
   in [names]; the other protocol's group is untouched; no tag appears or disappears *)
Theorem register_spec http id :
  forall names ts m,
    match find_tag ts m, find_tag (register http id names ts) m with
    | Some t, Some t' =>
        tg_name t' = tg_name t /\
        (forall x, countb x (group http t') =
                   (countb x (group http t) + (if beq x id then countb m names else 0))%nat) /\
        group (negb http) t' = group (negb http) t
    | None, None => True
    | _, _ => False
    end.
Proof.
  induction names as [|n names IH]; intros ts m; cbn [register fold_left].
  - destruct (find_tag ts m) as [t|]; [|exact I]. repeat split; auto.
    intros x. rewrite countb_nil. destruct (beq x id); lia.
  - fold (register http id names (update_tag ts n (add_id_to_tag http id))).
    specialize (IH (update_tag ts n (add_id_to_tag http id)) m).
    rewrite (find_update ts n m _ (add_id_name http id)) in IH.
    destruct (beq n m) eqn:E.
    + apply beq_true_eq in E. subst n.
      destruct (find_tag ts m) as [t|]; cbn [option_map] in IH.
      * destruct (find_tag (register http id names _) m) as [t'|]; [|exact IH].
        destruct IH as [A [B C]]. repeat split.
        -- rewrite A. apply add_id_name.
        -- intros x. rewrite B, add_id_count, countb_cons, beq_refl'.
           destruct (beq x id); lia.
        -- rewrite C. apply add_id_other.
      * exact IH.
    + destruct (find_tag ts m) as [t|].
      * destruct (find_tag (register http id names _) m) as [t'|]; [|exact IH].
        destruct IH as [A [B C]]. repeat split; auto.
        intros x. rewrite B, countb_cons.
        replace (beq m n) with false; [reflexivity|].
        symmetry. apply beq_ne_false. intros ->. rewrite beq_refl' in E. discriminate.
      * exact IH.
Qed.

(* with distinct names and a fresh id, every named tag lists the interaction exactly once and
   every other tag not at all *)
Corollary register_exactly_once http id names ts m t t' :
  NoDup names ->
  find_tag ts m = Some t -> countb id (group http t) = O ->
  find_tag (register http id names ts) m = Some t' ->
  countb id (group http t') = (if existsb (beq m) names then 1 else 0)%nat.
Proof.
  intros ND Hf H0 Hf'. pose proof (register_spec http id names ts m) as S.
  rewrite Hf, Hf' in S. destruct S as [_ [B _]]. rewrite (B id), H0, beq_refl'. cbn [Nat.add].
  clear - ND. induction names as [|n names IH]; [reflexivity|].
  inversion ND as [|? ? Hn ND']; subst. rewrite countb_cons. cbn [existsb].
  destruct (beq m n) eqn:E.
  - apply beq_true_eq in E. subst n. rewrite (IH ND').
    replace (existsb (beq m) names) with false; [reflexivity|].
    symmetry. apply not_true_is_false. intros X. apply existsb_exists in X as [y [Hy Ey]].
    apply beq_true_eq in Ey. subst. contradiction.
  - cbn [orb Nat.add]. apply IH. exact ND'.
Qed.

(* FULL STATEMENT (false of the current code): every tag named by an interaction lists that
   interaction exactly once.  Refuted (finding F10): `Tags @a @a` registers the id twice. *)
Definition tag_a : tag := mkTag (str "@a") (str "@a") None [] [].

Theorem duplicate_tag_name_refuted :
  match find_tag (register true (str "http GET /x") [str "@a"; str "@a"] [tag_a]) (str "@a") with
  | Some t => countb (str "http GET /x") (tg_http t) = 2%nat
  | None => False
  end.
Proof. vm_compute. reflexivity. Qed.

(* interaction_tags with a Tags child is exactly [register] over its names *)
Lemma interaction_tags_is_register c d anc http id path td ts names :
  tags_child d = Some td ->
  interaction_tags c d anc http id path = inl (ts, names) ->
  names = d_unnamed td /\ ts = register http id names (c_tags c).
Proof.
  intros Htd H. unfold interaction_tags in H. rewrite Htd in H.
  destruct (has_annot td); [discriminate|].
  destruct (d_unnamed td) as [|n ns] eqn:U; [discriminate|].
  match type of H with context [List.find ?f ?l] => destruct (List.find f l) end; [discriminate|].
  injection H as <- <-. split; reflexivity.
Qed.

(* the path parameters are exactly the {…} segments of the path, in order *)
Theorem path_params_are_the_braced_segments p :
  List.map snd (path_params p) =
  List.map (fun s => removelast (tl s)) (List.filter is_param_seg (path_segments p)).
Proof.
  unfold path_params. generalize (@nil bytes) as pre.
  induction (path_segments p) as [|s r IH]; intros pre; cbn [path_params_aux List.filter List.map]; [reflexivity|].
  rewrite map_app. destruct (is_param_seg s); cbn [List.map app]; rewrite IH; reflexivity.
Qed.

(* interaction ids: a new interaction is appended only when no interaction has that id *)
Lemma find_inter_none_notin is id :
  find_inter is id = None -> ~ In id (List.map inter_id is).
Proof.
  induction is as [|i r IH]; cbn; intros H; [tauto|].
  destruct (beq (inter_id i) id) eqn:E; [discriminate|].
  intros [Heq|Hin]; [rewrite Heq, beq_refl' in E; discriminate|exact (IH H Hin)].
Qed.

Theorem appended_interaction_keeps_ids_distinct is i :
  NoDup (List.map inter_id is) -> find_inter is (inter_id i) = None ->
  NoDup (List.map inter_id (is ++ [i])).
Proof.
  intros ND H. rewrite map_app. cbn [List.map].
  apply NoDup_app_one; auto. apply find_inter_none_notin. exact H.
Qed.
