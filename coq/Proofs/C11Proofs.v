(* C11Proofs.v — processContext refines the declarative placement; the regenerated context
   table equals the pinned JSight 0.3 table; characterised refutation (F15). *)
From JS Require Import Base Bytes Scanner Directive Core Tokens ListAux.
From JS Require DirectiveTables ContextTable.
From Coq Require Import Lia.
Open Scope Z_scope.

(* ------------------------------------------------------------------------------------ *)
(* table = pinned table *)

Definition name_of (k : N) : string := nth (N.to_nat k) DirectiveTables.dir_keywords "?"%string.

Definition regenerated_table : list (string * list string) :=
  List.map (fun p => (name_of (fst p), List.map name_of (snd p))) DirectiveTables.dir_context_table.

Fixpoint list_string_eqb (a b : list string) : bool :=
  match a, b with
  | [], [] => true
  | x :: a', y :: b' => String.eqb x y && list_string_eqb a' b'
  | _, _ => false
  end.

Definition subset_str (a b : list string) : bool :=
  forallb (fun x => existsb (String.eqb x) b) a.
Definition same_set_str (a b : list string) : bool := subset_str a b && subset_str b a.

(* same parents, and for each parent the same set of children *)
Definition table_check : bool :=
  same_set_str (List.map fst regenerated_table) (List.map fst ContextTable.spec_context_table)
  && forallb (fun row =>
        match List.find (fun r => String.eqb (fst r) (fst row)) regenerated_table with
        | Some r => same_set_str (snd r) (snd row)
        | None => false
        end) ContextTable.spec_context_table
  && same_set_str (List.map name_of DirectiveTables.dir_root_allowed) ContextTable.spec_root_allowed
  && same_set_str (List.map name_of DirectiveTables.dir_http_methods) ContextTable.spec_http_methods
  && list_string_eqb DirectiveTables.dir_keywords ContextTable.spec_keywords.

Lemma table_check_ok : table_check = true.
Proof. vm_compute. reflexivity. Qed.

(* the lookup functions of the model, stated against the pinned table *)
Definition spec_allowed_in (parent child : string) : bool :=
  match List.find (fun r => String.eqb (fst r) parent) ContextTable.spec_context_table with
  | Some (_, cs) => existsb (String.eqb child) cs
  | None => false
  end.

Definition all_kinds : list N := List.map N.of_nat (List.seq 0 (List.length DirectiveTables.dir_keywords)).

Definition lookup_check : bool :=
  forallb (fun p => forallb (fun c =>
     Bool.eqb (is_allowed_in p c) (spec_allowed_in (name_of p) (name_of c))) all_kinds) all_kinds
  && forallb (fun k => Bool.eqb (is_allowed_for_root k)
                                (existsb (String.eqb (name_of k)) ContextTable.spec_root_allowed)) all_kinds
  && forallb (fun k => Bool.eqb (is_http_request_method k)
                                (existsb (String.eqb (name_of k)) ContextTable.spec_http_methods)) all_kinds.

Lemma lookup_check_ok : lookup_check = true.
Proof. vm_compute. reflexivity. Qed.

Lemma in_all_kinds k : (N.to_nat k < List.length DirectiveTables.dir_keywords)%nat -> In k all_kinds.
Proof.
  intros H. unfold all_kinds. apply in_map_iff. exists (N.to_nat k). split; [apply N2Nat.id|].
  apply in_seq. lia.
Qed.

Theorem allowed_in_is_table :
  forall p c, (N.to_nat p < List.length DirectiveTables.dir_keywords)%nat ->
              (N.to_nat c < List.length DirectiveTables.dir_keywords)%nat ->
    is_allowed_in p c = spec_allowed_in (name_of p) (name_of c).
Proof.
  intros p c Hp Hc. pose proof lookup_check_ok as K. unfold lookup_check in K.
  apply andb_prop in K as [K _]. apply andb_prop in K as [K _].
  rewrite forallb_forall in K. specialize (K p (in_all_kinds p Hp)).
  rewrite forallb_forall in K. specialize (K c (in_all_kinds c Hc)).
  apply Bool.eqb_prop in K. exact K.
Qed.

(* ------------------------------------------------------------------------------------ *)
(* attach = declarative placement *)

Lemma removelast_length {A} (l : list A) : l <> [] -> List.length (removelast l) = pred (List.length l).
Proof.
  induction l as [|x l IH]; intros H; [congruence|].
  destruct l as [|y l]; [reflexivity|].
  change (removelast (x :: y :: l)) with (x :: removelast (y :: l)).
  cbn [List.length]. rewrite IH by discriminate. reflexivity.
Qed.

Definition ctx_len (ctx : option path) : nat :=
  match ctx with Some p => List.length p | None => O end.

Lemma parent_path_len p : ctx_len (parent_path p) = pred (List.length p) \/ (parent_path p = None /\ List.length p <= 1)%nat.
Proof.
  unfold parent_path. destruct p as [|x p]; [right; split; [reflexivity|cbn; lia]|].
  destruct (removelast (x :: p)) as [|y q] eqn:E.
  - right. split; [reflexivity|]. destruct p; [cbn; lia|]. cbn in E. destruct (removelast (n :: p)); discriminate.
  - left. cbn [ctx_len]. rewrite <- E. apply removelast_length. discriminate.
Qed.

Lemma parent_path_shorter p : (ctx_len (parent_path p) < List.length p)%nat \/ p = [].
Proof.
  destruct p as [|x p]; [right; reflexivity|left].
  destruct (parent_path_len (x :: p)) as [H|[H _]]; rewrite H; cbn; lia.
Qed.

(* the walk-up loop computes exactly the declarative placement, for every forest, context
   and directive, given enough fuel for the depth of the context *)
Theorem attach_refines_place :
  forall fuel f ctx d,
    (ctx_len ctx < fuel)%nat ->
    (forall n p, ancestor ctx n = Some p -> node_at f p <> None) ->
    attach fuel f ctx d = apply_placement f ctx d (place (chain fuel f ctx) d 0).
Proof.
  intros fuel f ctx d Hfuel Hvalid.
  assert (G : forall fuel ctx0 depth,
             (ctx_len ctx0 < fuel)%nat ->
             ancestor ctx depth = ctx0 ->
             (forall n p, ancestor ctx0 n = Some p -> node_at f p <> None) ->
             attach fuel f ctx0 d =
             apply_placement f ctx d (place (chain fuel f ctx0) d depth)).
  { clear fuel Hfuel. induction fuel as [|fuel IH]; intros ctx0 depth Hf Hanc Hv; [lia|].
    cbn [attach chain]. destruct ctx0 as [p|].
    - pose proof (Hv O p eq_refl) as Hn. cbn [ancestor] in Hn.
      destruct (node_at f p) as [cur|] eqn:E; [|congruence].
      cbn [place]. destruct (is_allowed_in (d_kind cur) (d_kind d)) eqn:A.
      + unfold method_with_path.
        destruct (is_http_request_method (d_kind d) && negb (beq (named d KPath) []) &&
                  N.eqb (d_kind cur) DirectiveTables.dir_URL) eqn:M.
        * destruct (d_explicit cur); reflexivity.
        * cbn [apply_placement]. rewrite Hanc. reflexivity.
      + destruct (d_explicit cur) eqn:X; [reflexivity|].
        apply IH.
        * destruct (parent_path_shorter p) as [H|H]; [cbn in Hf; lia|subst p; discriminate].
        * replace (S depth) with (depth + 1)%nat by lia.
          clear - Hanc. revert ctx Hanc. induction depth as [|k IHk]; intros ctx Hanc.
          -- cbn in *. subst ctx. reflexivity.
          -- cbn [ancestor Nat.add] in *. destruct ctx as [q|]; [|discriminate]. apply IHk. exact Hanc.
        * intros n q Hq. apply (Hv (S n) q). exact Hq.
    - cbn [place]. destruct (is_allowed_for_root (d_kind d)); reflexivity. }
  apply G; auto.
Qed.

(* ')' closes the innermost explicit open directive *)
Theorem close_refines_place :
  forall fuel f ctx,
    (ctx_len ctx < fuel)%nat ->
    (forall n p, ancestor ctx n = Some p -> node_at f p <> None) ->
    close_explicit fuel f ctx =
    match close_place (chain fuel f ctx) 0 with
    | Some n => Some (ancestor ctx (S n))
    | None => None
    end.
Proof.
  intros fuel f ctx Hfuel Hvalid.
  assert (G : forall fuel ctx0 depth,
             (ctx_len ctx0 < fuel)%nat ->
             ancestor ctx depth = ctx0 ->
             (forall n p, ancestor ctx0 n = Some p -> node_at f p <> None) ->
             close_explicit fuel f ctx0 =
             match close_place (chain fuel f ctx0) depth with
             | Some n => Some (ancestor ctx (S n))
             | None => None
             end).
  { clear fuel Hfuel. induction fuel as [|fuel IH]; intros ctx0 depth Hf Hanc Hv; [lia|].
    cbn [close_explicit chain]. destruct ctx0 as [p|]; [|reflexivity].
    pose proof (Hv O p eq_refl) as Hn. cbn [ancestor] in Hn.
    destruct (node_at f p) as [cur|] eqn:E; [|congruence].
    cbn [close_place].
    assert (Hs : ancestor ctx (S depth) = parent_path p).
    { replace (S depth) with (depth + 1)%nat by lia.
      clear - Hanc. revert ctx Hanc. induction depth as [|k IHk]; intros ctx Hanc.
      - cbn in *. subst ctx. reflexivity.
      - cbn [ancestor Nat.add] in *. destruct ctx as [q|]; [|discriminate]. apply IHk. exact Hanc. }
    destruct (d_explicit cur) eqn:X.
    - rewrite Hs. reflexivity.
    - apply IH.
      + destruct (parent_path_shorter p) as [H|H]; [cbn in Hf; lia|subst p; discriminate].
      + exact Hs.
      + intros n q Hq. apply (Hv (S n) q). exact Hq. }
  apply G; auto.
Qed.

(* ------------------------------------------------------------------------------------ *)
(* an explicit context must never close silently — refuted on the current tree (F15) *)

Definition mk_tok (k : N) (kw : string) (path : string) (explicit : bool) (pos : Z) : tok :=
  TDir (mkDir k (str kw) (mkCoords 0 pos (pos + 2))
              (match path with EmptyString => [] | _ => [(KPath, str path)] end)
              [] [] None explicit [] []).

Definition mk_named_tok (k : N) (kw : string) (key : pkey) (v : string) (explicit : bool) (pos : Z) : tok :=
  TDir (mkDir k (str kw) (mkCoords 0 pos (pos + 2)) [(key, str v)] [] [] None explicit [] []).

(* MACRO @m (  /  URL /a  /  GET /b  /  200 any     — and no ')' *)
Definition f15_tokens : list tok := [
  mk_named_tok DirectiveTables.dir_Macro "MACRO" KName "@m" true 0;
  mk_tok DirectiveTables.dir_URL "URL" "/a" false 10;
  mk_tok DirectiveTables.dir_Get "GET" "/b" false 20;
  mk_named_tok DirectiveTables.dir_HTTPResponseCode "200" KSchemaNotation "any" false 30
].

Definition accepted (r : tres) : bool := match r with TOk _ _ => true | _ => false end.

Definition count_explicit_open (ts : list tok) : Z :=
  fold_left (fun acc t => match t with
                          | TDir d => if d_explicit d then acc + 1 else acc
                          | TClose => acc - 1
                          end) ts 0.

Theorem explicit_never_silent_refuted :
  exists ts, count_explicit_open ts > 0 /\ accepted (build_tokens ts [] None) = true.
Proof. exists f15_tokens. split; vm_compute; reflexivity. Qed.
