(* ScanTerm.v — the scanner terminates, for every input: (1) one invocation of s.step follows at
   most 7 direct calls / re-dispatches (no unbounded recursion on one byte), (2) every iteration of
   the main loop of Next() increases the potential K*curIndex + w(s.step) (the two places where the
   cursor retreats are paid for), so Next() needs at most K*len + Wmax + 2 iterations.
   The shape of the return-state stack (which states can lie on top of / beneath which), and the
   weights w, are INFERRED from the regenerated program by iteration (not trusted), CHECKED by a
   reflective checker (symbolic execution of every path of every step function, inlining calls
   and re-dispatches, branching over the possible popped states), and the checker is proved sound. *)
From JS Require Import Base Bytes Scanner ScanRun.
From JS Require ScannerProg.
From Coq Require Import Lia.
Open Scope Z_scope.

Definition elem := option state.     (* None: the bottom of the stack *)
Definition elem_eqb (a b : elem) : bool :=
  match a, b with
  | None, None => true
  | Some x, Some y => N.eqb x y
  | _, _ => false
  end.
Definition mem (e : elem) (l : list elem) : bool := existsb (elem_eqb e) l.

Record actx := mkCtx { a_step : state; a_known : list state; a_below : list elem; a_dcur : Z; a_nev : Z }.

Inductive tblid := TT | TU.
Inductive obl :=
| OIn (t : tblid) (st : state) (e : elem)
| OPot (new : state) (d nev : Z)      (* relative to the entry state *)
| OFalse.

Definition K : Z := 8.

Section Collect.
  Variable prog : list (string * stmt).
  Variable T U : state -> list elem.

  Definition beneath (c : actx) : list elem :=
    match a_known c with k :: _ => [Some k] | [] => a_below c end.

  Fixpoint collect (fuel calls : nat) (s : stmt) (c : actx) (k : actx -> list obl) {struct fuel} : list obl :=
    match fuel with
    | O => [OFalse]
    | S fuel' =>
        match s with
        | SSkip => k c
        | SSeq a b => collect fuel' calls a c (fun c' => collect fuel' calls b c' k)
        | SIf _ t e => collect fuel' calls t c k ++ collect fuel' calls e c k
        | SSetStep st => k (mkCtx st (a_known c) (a_below c) (a_dcur c) (a_nev c))
        | SPush st => List.map (OIn TU st) (beneath c) ++ k (mkCtx (a_step c) (st :: a_known c) (a_below c) (a_dcur c) (a_nev c))
        | SPushCur => List.map (OIn TU (a_step c)) (beneath c) ++ k (mkCtx (a_step c) (a_step c :: a_known c) (a_below c) (a_dcur c) (a_nev c))
        | SPop =>
            match a_known c with
            | t :: ks => k (mkCtx t ks (a_below c) (a_dcur c) (a_nev c))
            | [] => flat_map (fun o => match o with
                                       | None => []
                                       | Some t => k (mkCtx t [] (U t) (a_dcur c) (a_nev c))
                                       end) (a_below c)
            end
        | SOracle _ => k c
        | SFound _ _ => k (mkCtx (a_step c) (a_known c) (a_below c) (a_dcur c) (a_nev c + 1))
        | SAddCur dz => k (mkCtx (a_step c) (a_known c) (a_below c) (a_dcur c + dz) (a_nev c))
        | SRetNil => OPot (a_step c) (a_dcur c) (a_nev c) :: List.map (OIn TT (a_step c)) (beneath c)
        | SRetErr _ _ | SRetErrBasic _ => []
        | SRetCall st =>
            match calls, nth_error prog (N.to_nat st) with
            | S calls', Some (_, body) => collect fuel' calls' body c (fun _ => [OFalse])
            | _, _ => [OFalse]
            end
        | SRetRedispatch =>
            match calls, nth_error prog (N.to_nat (a_step c)) with
            | S calls', Some (_, body) => collect fuel' calls' body c (fun _ => [OFalse])
            | _, _ => [OFalse]
            end
        end
    end.

  Definition collect_state (st : state) : list obl :=
    match nth_error prog (N.to_nat st) with
    | Some (_, body) => collect 300 7 body (mkCtx st [] (T st) 0 0) (fun _ => [OFalse])
    | None => [OFalse]
    end.
End Collect.

(* tables as lists indexed by state *)
Definition look {A} (l : list (list A)) (st : state) : list A := nth (N.to_nat st) l [].
Definition lookz (l : list Z) (st : state) : Z := nth (N.to_nat st) l 0.

Fixpoint add_at (l : list (list elem)) (i : nat) (e : elem) : list (list elem) :=
  match l, i with
  | [], _ => []
  | x :: r, O => (if mem e x then x else x ++ [e]) :: r
  | x :: r, S j => x :: add_at r j e
  end.

Definition reached (T : list (list elem)) (st : state) : bool :=
  match look T st with [] => false | _ => true end.

Definition all_states (prog : list (string * stmt)) : list state := List.map N.of_nat (seq 0 (List.length prog)).

Definition infer_round (prog : list (string * stmt)) (TU : list (list elem) * list (list elem)) :=
  fold_left (fun acc st =>
    let '(T, U) := acc in
    if reached T st then
      fold_left (fun a o =>
        match o with
        | OIn TT s e => (add_at (fst a) (N.to_nat s) e, snd a)
        | OIn TU s e => (fst a, add_at (snd a) (N.to_nat s) e)
        | _ => a
        end) (collect_state prog (look T) (look U) st) acc
    else acc) (all_states prog) TU.

Fixpoint iterate {A} (n : nat) (f : A -> A) (x : A) : A :=
  match n with O => x | S n' => iterate n' f (f x) end.

Definition TU0 (prog : list (string * stmt)) (init : state) :=
  (add_at (List.map (fun _ => []) prog) (N.to_nat init) None, List.map (fun _ => @nil elem) prog).

Definition inferredTU := Eval vm_compute in iterate 12 (infer_round ScannerProg.prog_table) (TU0 ScannerProg.prog_table ScannerProg.initial_state).
Definition iT := look (fst inferredTU).
Definition iU := look (snd inferredTU).

Definition pots (prog : list (string * stmt)) : list (state * state * Z * Z) :=
  flat_map (fun st =>
    if reached (fst inferredTU) st then
      flat_map (fun o => match o with OPot new d nev => [(st, new, d, nev)] | _ => [] end) (collect_state prog iT iU st)
    else []) (all_states prog).

Fixpoint set_max (l : list Z) (i : nat) (v : Z) : list Z :=
  match l, i with
  | [], _ => []
  | x :: r, O => Z.max x v :: r
  | x :: r, S j => x :: set_max r j v
  end.

Definition w_round (ps : list (state * state * Z * Z)) (w : list Z) : list Z :=
  fold_left (fun a p => let '(e, new, d, nev) := p in set_max a (N.to_nat new) (lookz a e + 1 + nev - K * (d + 1))) ps w.

Definition all_pots := Eval vm_compute in pots ScannerProg.prog_table.
Definition inferredW := Eval vm_compute in iterate 60 (w_round all_pots) (List.map (fun _ => 0) ScannerProg.prog_table).
Definition iW := lookz inferredW.
Definition Wmax : Z := Eval vm_compute in fold_left Z.max inferredW 0.

Definition holds (T U : state -> list elem) (w : state -> Z) (entry : state) (o : obl) : bool :=
  match o with
  | OIn TT st e => mem e (T st)
  | OIn TU st e => mem e (U st)
  | OPot new d nev => (1 + nev <=? K * (d + 1) + w new - w entry) && (0 <=? nev) && (nev <=? K)
  | OFalse => false
  end.

Definition chk_state (prog : list (string * stmt)) (T U : state -> list elem) (w : state -> Z) (st : state) : bool :=
  match T st with
  | [] => true
  | _ => forallb (holds T U w st) (collect_state prog T U st)
  end.

Definition all_ok : bool := forallb (chk_state ScannerProg.prog_table iT iU iW) (all_states ScannerProg.prog_table).

Lemma all_ok_ok : all_ok = true.
Proof. vm_compute. reflexivity. Qed.

Lemma elem_eqb_eq a b : elem_eqb a b = true -> a = b.
Proof. destruct a, b; cbn; try discriminate; [|reflexivity]. intros H. apply N.eqb_eq in H. congruence. Qed.

Lemma mem_In e l : mem e l = true -> In e l.
Proof. unfold mem. intros H. apply existsb_exists in H as [x [I E]]. apply elem_eqb_eq in E. subst. exact I. Qed.

Lemma mem_sub e l S : mem e l = true -> forallb (fun o => mem o S) l = true -> mem e S = true.
Proof. intros M F. rewrite forallb_forall in F. apply F. apply mem_In. exact M. Qed.

(* ------------------------------------------------------------------------------------ *)
Section Sound.
  Variable prog : list (string * stmt).
  Variable nl_cond ws_cond : cond.
  Variable data : bytes.
  Variable olen : okind -> Z -> olen_res.
  Variable T U : state -> list elem.
  Variable w : state -> Z.
  Hypothesis OK : forall st, chk_state prog T U w st = true.

  Definition nextok (S : list elem) (stk : list state) : Prop :=
    match stk with [] => mem None S = true | t :: _ => mem (Some t) S = true end.
  Fixpoint Chain (stk : list state) : Prop :=
    match stk with [] => True | t :: r => nextok (U t) r /\ Chain r end.
  Definition Inv (cf : conf) : Prop := nextok (T (c_step cf)) (c_sstack cf) /\ Chain (c_sstack cf).
  Definition Phi (cf : conf) : Z := K * c_cur cf + w (c_step cf).
  Definition nfinds (cf : conf) : Z := Z.of_nat (List.length (c_finds cf)).

  Section Body.
    Variable entry : state.
    Variable C0 F0 : Z.

    Definition allh (l : list obl) : Prop := forallb (holds T U w entry) l = true.

    Definition R (cf : conf) (c : actx) : Prop :=
      c_step cf = a_step c /\ Chain (c_sstack cf) /\
      (exists rest, c_sstack cf = a_known c ++ rest /\ nextok (a_below c) rest) /\
      C0 + a_dcur c <= c_cur cf /\ nfinds cf = F0 + a_nev c /\ 0 <= a_nev c.

    (* the state between two steps: invariant, and the potential has been paid for *)
    Definition Good (cf : conf) : Prop :=
      Inv cf /\ (exists nev, 0 <= nev <= K /\ nfinds cf = F0 + nev /\
                 K * C0 + w entry + 1 + nev <= K * (c_cur cf + 1) + w (c_step cf)).

    Lemma allh_app a b : allh (a ++ b) -> allh a /\ allh b.
    Proof. unfold allh. rewrite forallb_app. intros H. apply andb_prop in H. exact H. Qed.

    Lemma allh_map_TT st l : allh (List.map (OIn TT st) l) -> forallb (fun o => mem o (T st)) l = true.
    Proof. unfold allh. induction l as [|x r IH]; [reflexivity|]. cbn [List.map forallb holds]. intros H. apply andb_prop in H as [H1 H2]. rewrite H1, (IH H2). reflexivity. Qed.
    Lemma allh_map_TU st l : allh (List.map (OIn TU st) l) -> forallb (fun o => mem o (U st)) l = true.
    Proof. unfold allh. induction l as [|x r IH]; [reflexivity|]. cbn [List.map forallb holds]. intros H. apply andb_prop in H as [H1 H2]. rewrite H1, (IH H2). reflexivity. Qed.

    Lemma allh_flat_map {A} (f : A -> list obl) l x : allh (flat_map f l) -> In x l -> allh (f x).
    Proof.
      unfold allh. induction l as [|y r IH]; intros H I; [destruct I|]. cbn [flat_map] in H.
      rewrite forallb_app in H. apply andb_prop in H as [H1 H2]. destruct I as [->|I]; [exact H1|apply IH; assumption].
    Qed.

    Lemma beneath_spec cf c S : R cf c -> forallb (fun o => mem o S) (beneath c) = true -> nextok S (c_sstack cf).
    Proof.
      intros [_ [_ [[rest [E N]] _]]] F. unfold beneath in F. rewrite E.
      destruct (a_known c) as [|k ks]; cbn [app].
      - destruct rest as [|t r]; cbn [nextok] in *; eapply mem_sub; eassumption.
      - cbn [forallb] in F. apply andb_prop in F as [F _]. exact F.
    Qed.

    Notation exec := (exec nl_cond ws_cond data olen).

    Lemma collect_sound fuel : forall calls s c k ch cf, allh (collect prog U fuel calls s c k) -> R cf c ->
      match exec ch s cf with
      | FFall cf' => exists c', R cf' c' /\ allh (k c')
      | FRet KNil cf' => Good cf'
      | FRet (KCall st) cf' =>
          exists calls' name body f c', calls = S calls' /\ nth_error prog (N.to_nat st) = Some (name, body) /\
             allh (collect prog U f calls' body c' (fun _ => [OFalse])) /\ R cf' c'
      | FRet KRedispatch cf' =>
          exists calls' name body f c', calls = S calls' /\ nth_error prog (N.to_nat (c_step cf')) = Some (name, body) /\
             allh (collect prog U f calls' body c' (fun _ => [OFalse])) /\ R cf' c'
      | _ => True
      end.
    Proof.
      induction fuel as [|fuel IH]; intros calls s c k ch cf C HR; [discriminate|].
      destruct s; cbn [collect] in C; cbn [Scanner.exec].
      - (* SSetStep *) eexists. split; [|exact C]. destruct HR as [H1 [H2 [H3 H4]]]. repeat split; try assumption; apply H4.
      - (* SPush *) apply allh_app in C as [C1 C2]. apply allh_map_TU in C1.
        pose proof (beneath_spec cf c _ HR C1) as B.
        eexists. split; [|exact C2]. destruct HR as [H1 [H2 [[rest [E N]] H4]]].
        unfold R. cbn [c_step c_sstack set_sstack a_step a_known a_below a_dcur a_nev c_cur c_finds nfinds Chain].
        repeat split; try assumption; try apply H4. exists rest. split; [rewrite E; reflexivity|exact N].
      - (* SPushCur *) apply allh_app in C as [C1 C2]. apply allh_map_TU in C1.
        pose proof (beneath_spec cf c _ HR C1) as B.
        eexists. split; [|exact C2]. destruct HR as [H1 [H2 [[rest [E N]] H4]]].
        unfold R. cbn [c_step c_sstack set_sstack a_step a_known a_below a_dcur a_nev c_cur c_finds nfinds Chain].
        rewrite H1. repeat split; try assumption; try apply H4. exists rest. split; [rewrite E; reflexivity|exact N].
      - (* SPop *) destruct HR as [H1 [H2 [[rest [E N]] H4]]].
        destruct (a_known c) as [|t ks] eqn:EK.
        + cbn [app] in E. rewrite E. destruct rest as [|t r]; [exact I|].
          cbn [nextok] in N. apply mem_In in N.
          pose proof (allh_flat_map _ _ _ C N) as C'. cbn beta iota in C'.
          eexists. split; [|exact C']. rewrite E in H2. cbn [Chain] in H2. destruct H2 as [N2 H2].
          unfold R. cbn [c_step c_sstack set_sstack set_step a_step a_known a_below a_dcur a_nev c_cur c_finds nfinds].
          repeat split; try assumption; try apply H4. exists r. split; [reflexivity|exact N2].
        + rewrite E. cbn [app]. eexists. split; [|exact C]. rewrite E in H2. cbn [app Chain] in H2. destruct H2 as [_ H2].
          unfold R. cbn [c_step c_sstack set_sstack set_step a_step a_known a_below a_dcur a_nev c_cur c_finds nfinds].
          repeat split; try assumption; try apply H4. exists rest. split; [reflexivity|exact N].
      - (* SFound *) eexists. split; [|exact C]. destruct HR as [H1 [H2 [H3 [H4 [H5 H6]]]]].
        unfold R, nfinds in *. cbn [c_step c_sstack set_finds a_step a_known a_below a_dcur a_nev c_cur c_finds].
        rewrite app_length. cbn [List.length]. repeat split; try assumption; lia.
      - (* SAddCur *) eexists. split; [|exact C]. destruct HR as [H1 [H2 [H3 [H4 [H5 H6]]]]].
        unfold R, nfinds in *. cbn [c_step c_sstack set_cur a_step a_known a_below a_dcur a_nev c_cur c_finds].
        repeat split; try assumption; lia.
      - (* SIf *) apply allh_app in C as [C1 C2].
        destruct (eval_cond _ _ _ _ _ _); [|exact I]. destruct b; [eapply IH; eassumption|eapply IH; eassumption].
      - (* SSeq *) pose proof (IH calls s1 c _ ch cf C HR) as A.
        destruct (Scanner.exec nl_cond ws_cond data olen ch s1 cf) as [cf1|kk cf1|e|p] eqn:E1; try exact A.
        destruct A as [c1 [R1 K1]]. eapply IH; eassumption.
      - (* SSkip *) exists c. split; assumption.
      - (* SOracle *) destruct (olen k0 (c_cur cf)); [|exact I].
        exists c. split; [|exact C]. destruct (0 <? n) eqn:E0; [|exact HR]. apply Z.ltb_lt in E0.
        destruct HR as [H1 [H2 [H3 [H4 [H5 H6]]]]]. unfold R, nfinds in *. cbn [c_step c_sstack set_cur c_cur c_finds].
        repeat split; try assumption; lia.
      - (* SRetNil *) unfold allh in C. cbn [forallb] in C. apply andb_prop in C as [P C]. fold (allh (List.map (OIn TT (a_step c)) (beneath c))) in C.
        apply allh_map_TT in C. pose proof (beneath_spec cf c _ HR C) as B.
        destruct HR as [H1 [H2 [H3 [H4 [H5 H6]]]]]. split; [split; [rewrite H1; exact B|exact H2]|].
        cbn [holds] in P. apply andb_prop in P as [P P3]. apply andb_prop in P as [P1 P2].
        apply Z.leb_le in P1, P2, P3. exists (a_nev c). rewrite H1. unfold K in *. repeat split; try assumption; lia.
      - exact I.
      - exact I.
      - (* SRetCall *) destruct calls as [|calls']; [discriminate|].
        destruct (nth_error prog (N.to_nat st)) as [[name body]|] eqn:E; [|discriminate].
        exists calls', name, body, fuel, c. repeat split; try assumption; apply HR.
      - (* SRetRedispatch *) destruct calls as [|calls']; [discriminate|].
        destruct HR as [H1 HR']. rewrite H1.
        destruct (nth_error prog (N.to_nat (a_step c))) as [[name body]|] eqn:E; [|discriminate].
        exists calls', name, body, fuel, c. repeat split; try assumption; try apply HR'.
    Qed.

    Notation run_step := (run_step prog nl_cond ws_cond data olen).

    Definition fineS (r : res conf) : Prop :=
      match r with
      | ROk cf' => Good cf'
      | RFuel => False
      | _ => True
      end.

    Lemma modeB fuel : forall st ch cf c f calls name body,
      (calls < fuel)%nat -> nth_error prog (N.to_nat st) = Some (name, body) ->
      allh (collect prog U f calls body c (fun _ => [OFalse])) -> R cf c ->
      fineS (run_step fuel st ch cf).
    Proof.
      induction fuel as [|fuel IH]; intros st ch cf c f calls name body Hlt E C HR; [lia|].
      cbn [Scanner.run_step]. unfold body_of. rewrite E. cbn [option_map snd].
      pose proof (collect_sound f calls body c _ ch cf C HR) as A.
      destruct (Scanner.exec nl_cond ws_cond data olen ch body cf) as [cf1|kk cf1|e|p].
      - exact I.
      - destruct kk as [|st'|].
        + exact A.
        + destruct A as [calls' [name' [body' [f' [c' [Ec [E' [C' R']]]]]]]]. subst calls.
          eapply IH; [|exact E'|exact C'|exact R']. lia.
        + destruct A as [calls' [name' [body' [f' [c' [Ec [E' [C' R']]]]]]]]. subst calls.
          eapply IH; [|exact E'|exact C'|exact R']. lia.
      - exact I.
      - exact I.
    Qed.
  End Body.

  Lemma nextok_nonempty S stk : nextok S stk -> S <> [].
  Proof. intros H E. subst S. destruct stk; discriminate H. Qed.

  (* one invocation of s.step on any byte: no more than 7 nested calls / re-dispatches, and the
     potential is paid *)
  Theorem run_step_fine ch cf :
    Inv cf -> fineS (c_step cf) (c_cur cf) (nfinds cf) (run_step prog nl_cond ws_cond data olen step_fuel (c_step cf) ch cf).
  Proof.
    intros [I1 I2].
    assert (C : forallb (holds T U w (c_step cf)) (collect_state prog T U (c_step cf)) = true).
    { pose proof (OK (c_step cf)) as C. unfold chk_state in C.
      destruct (T (c_step cf)) as [|x xs] eqn:ET; [|exact C].
      exfalso. destruct (c_sstack cf); discriminate I1. }
    unfold collect_state in C.
    destruct (nth_error prog (N.to_nat (c_step cf))) as [[name body]|] eqn:E.
    - eapply (modeB (c_step cf) (c_cur cf) (nfinds cf) step_fuel (c_step cf) ch cf _ 300%nat 7%nat name body); [unfold step_fuel; lia|exact E|exact C|].
      unfold R. cbn [a_step a_known a_below a_dcur a_nev app]. repeat split; try assumption; try lia.
      exists (c_sstack cf). split; [reflexivity|exact I1].
    - unfold step_fuel. cbn [Scanner.run_step]. unfold body_of. rewrite E. exact I.
  Qed.
End Sound.

(* ------------------------------------------------------------------------------------ *)
Section Lift.
  Variable prog : list (string * stmt).
  Variable nl_cond ws_cond : cond.
  Variable data : bytes.
  Variable olen : okind -> Z -> olen_res.
  Variable T U : state -> list elem.
  Variable w : state -> Z.
  Variable Wm : Z.
  Hypothesis OK : forall st, chk_state prog T U w st = true.
  Hypothesis WB : forall st, 0 <= w st <= Wm.

  Notation Inv := (Inv T U).
  Notation Phi := (Phi w).
  Notation next_loop := (next_loop prog nl_cond ws_cond data olen).
  Notation next := (next prog nl_cond ws_cond data olen).
  Let n := data_size data.

  (* what is left to do: the potential still available plus the events waiting to be delivered *)
  Definition rem1 (cf : conf) : Z := Z.max 0 (K * (n + 1) + Wm + 1 - Phi cf).
  Definition rem (cf : conf) : Z := rem1 cf + nfinds cf.

  Definition same_pos (cf cf' : conf) : Prop :=
    c_step cf' = c_step cf /\ c_sstack cf' = c_sstack cf /\ c_cur cf' = c_cur cf.

  Lemma same_pos_inv cf cf' : same_pos cf cf' -> Inv cf -> Inv cf'.
  Proof. intros [A [B _]]. unfold ScanTerm.Inv. rewrite A, B. auto. Qed.
  Lemma same_pos_rem1 cf cf' : same_pos cf cf' -> rem1 cf' = rem1 cf.
  Proof. intros [A [_ C]]. unfold rem1, ScanTerm.Phi. rewrite A, C. reflexivity. Qed.
  Lemma same_pos_trans a b c : same_pos a b -> same_pos b c -> same_pos a c.
  Proof. intros [A1 [A2 A3]] [B1 [B2 B3]]. repeat split; congruence. Qed.

  Lemma process_event_pos cf ev : match process_event cf ev with
                                  | ROk (_, cf') => same_pos cf cf' /\ c_finds cf' = c_finds cf
                                  | RFuel => False
                                  | _ => True end.
  Proof.
    unfold process_event. destruct ev as [t pos].
    destruct (LexemeEvents.ev_IsBeginning t); [repeat split|].
    destruct (LexemeEvents.ev_IsEnding t).
    - destruct (c_estack cf) as [|[bt bpos] es]; [exact I|].
      destruct (pair_ok bt t); [|exact I]. destruct (LexemeEvents.ev_ToLexemeType t); [|exact I]. repeat split.
    - destruct (LexemeEvents.ev_IsSingle t); [|exact I]. destruct (LexemeEvents.ev_ToLexemeType t); [|exact I]. repeat split.
  Qed.

  Lemma note_lexeme_pos cf l : same_pos cf (note_lexeme cf l) /\ c_finds (note_lexeme cf l) = c_finds cf.
  Proof. unfold note_lexeme. destruct (lk l); repeat split. Qed.

  Lemma drain_pos k : forall cf, match drain k cf with
                                 | ROk (ol, cf') => same_pos cf cf' /\ nfinds cf' <= nfinds cf /\ (ol <> None -> nfinds cf' + 1 <= nfinds cf)
                                 | RFuel => False
                                 | _ => True end.
  Proof.
    induction k as [|k IH]; intros cf; cbn [drain].
    - repeat split; try lia. intros H; congruence.
    - destruct (c_finds cf) as [|ev fs] eqn:EF; [exact I|].
      pose proof (process_event_pos (set_finds cf fs) ev) as P.
      destruct (process_event (set_finds cf fs) ev) as [[[l|] cf']| |p|]; try exact I; try contradiction.
      + destruct P as [S F]. destruct (note_lexeme_pos cf' l) as [S2 F2].
        assert (S0 : same_pos cf (set_finds cf fs)) by (repeat split).
        split; [exact (same_pos_trans _ _ _ S0 (same_pos_trans _ _ _ S S2))|].
        unfold nfinds. rewrite F2, F, EF. cbn [c_finds set_finds List.length]. rewrite Nat2Z.inj_succ. split; [lia|intros _; lia].
      + destruct P as [S F]. specialize (IH cf').
        destruct (drain k cf') as [[ol cf'']| |p|]; try exact I; try contradiction. destruct IH as [S3 [L1 L2]].
        assert (S0 : same_pos cf (set_finds cf fs)) by (repeat split).
        split; [exact (same_pos_trans _ _ _ S0 (same_pos_trans _ _ _ S S3))|].
        unfold nfinds in *. rewrite F in *. rewrite EF. cbn [c_finds set_finds List.length] in *. rewrite Nat2Z.inj_succ.
        split; [lia|intros H; specialize (L2 H); lia].
  Qed.

  Definition fineN (cf : conf) (r : res (option lexeme * conf)) : Prop :=
    match r with
    | RFuel => False
    | ROk (ol, cf') => Inv cf' /\ rem cf' <= rem cf /\ (ol <> None -> rem cf' + 1 <= rem cf)
    | _ => True
    end.

  Lemma Kpos : 0 < K. Proof. reflexivity. Qed.

  Lemma next_loop_fine fuel : forall cf, Inv cf -> (1 <= fuel)%nat ->
    (c_cur cf < 0 \/ rem1 cf + 1 <= Z.of_nat fuel) -> fineN cf (next_loop fuel cf).
  Proof.
    induction fuel as [|fuel IH]; intros cf HI H1 HF; [lia|]. cbn [Scanner.next_loop].
    destruct (data_size data <? c_cur cf) eqn:E1; [cbn [fineN]; split; [exact HI|split; [lia|congruence]]|].
    destruct (c_cur cf <? 0) eqn:E2; [exact I|].
    apply Z.ltb_ge in E1, E2. destruct HF as [HF|HF]; [lia|].
    match goal with |- fineN _ (if ?b then _ else _) => destruct b end; [exact I|].
    match goal with |- context [Scanner.run_step ?p ?a ?b ?d ?o ?f ?st ?c ?cf0] =>
      pose proof (run_step_fine p a b d o T U w OK c cf0 HI) as R0; destruct (Scanner.run_step p a b d o f st c cf0) as [cf1| |p0|] end;
      cbn [fineS] in R0; try exact I; try contradiction.
    destruct R0 as [I1 [nev [[N0 N1] [NF NP]]]].
    set (cf2 := set_cur cf1 (c_cur cf1 + 1)).
    assert (S2 : same_pos cf2 cf2) by (repeat split).
    assert (I2 : Inv cf2) by exact I1.
    (* the step paid 1 + nev *)
    pose proof (WB (c_step cf)) as [W0 W1]. pose proof (WB (c_step cf1)) as [W2 W3].
    fold n in E1.
    assert (P2 : rem1 cf2 + 1 + nev <= rem1 cf).
    { unfold rem1, ScanTerm.Phi. subst cf2. cbn [c_cur c_step set_cur]. unfold K in *. lia. }
    assert (F2 : nfinds cf2 = nfinds cf + nev) by exact NF.
    pose proof (drain_pos (List.length (c_finds cf2)) cf2) as D.
    destruct (drain (List.length (c_finds cf2)) cf2) as [[ol cf3]| |p0|]; try exact I; try contradiction.
    destruct D as [S3 [L1 L2]].
    pose proof (same_pos_inv _ _ S3 I2) as I3. pose proof (same_pos_rem1 _ _ S3) as R3.
    destruct ol as [l|].
    - cbn [fineN]. split; [exact I3|]. unfold rem. split; [lia|intros _; lia].
    - assert (G : fineN cf3 (next_loop fuel cf3)).
      { apply IH; [exact I3| |right; lia].
        assert (K + 1 <= rem1 cf).
        { unfold rem1, ScanTerm.Phi. unfold K in *. lia. }
        unfold K in *. lia. }
      destruct (next_loop fuel cf3) as [[ol cf4]| |p0|]; try exact G.
      cbn [fineN] in *. destruct G as [I4 [G1 G2]]. split; [exact I4|]. unfold rem in *. split; [lia|intros _; lia].
  Qed.

  Hypothesis FUEL : K * (n + 1) + Wm + 2 <= Z.of_nat (loop_fuel data).

  Lemma loop_fuel_enough cf : (1 <= loop_fuel data)%nat /\ (c_cur cf < 0 \/ rem1 cf + 1 <= Z.of_nat (loop_fuel data)).
  Proof.
    pose proof (WB (c_step cf)) as [W0 W1].
    assert (0 <= n) by (unfold n, data_size; lia).
    split; [unfold K in *; lia|]. destruct (Z.ltb_spec (c_cur cf) 0) as [L|L]; [left; exact L|right].
    unfold rem1, ScanTerm.Phi. unfold K in *. lia.
  Qed.

  (* Next() terminates; what is left to do never grows and shrinks with every lexeme delivered *)
  Theorem next_fine cf : Inv cf -> fineN cf (next cf).
  Proof.
    intros HI. unfold Scanner.next. destruct (loop_fuel_enough cf) as [L1 L2].
    destruct (c_finds cf) as [|ev fs] eqn:EF; [apply next_loop_fine; assumption|].
    pose proof (process_event_pos (set_finds cf fs) ev) as P.
    assert (S0 : same_pos cf (set_finds cf fs)) by (repeat split).
    destruct (process_event (set_finds cf fs) ev) as [[[l|] cf']| |p|]; try exact I; try contradiction.
    - destruct P as [S F]. pose proof (same_pos_trans _ _ _ S0 S) as S1.
      cbn [fineN]. split; [eapply same_pos_inv; eassumption|].
      unfold rem, nfinds. rewrite (same_pos_rem1 _ _ S1), F, EF. cbn [c_finds set_finds List.length]. rewrite Nat2Z.inj_succ.
      split; [lia|intros _; lia].
    - destruct P as [S F]. pose proof (same_pos_trans _ _ _ S0 S) as S1.
      pose proof (same_pos_inv _ _ S1 HI) as I1.
      destruct (loop_fuel_enough cf') as [M1 M2].
      pose proof (next_loop_fine (loop_fuel data) cf' I1 M1 M2) as G.
      destruct (next_loop (loop_fuel data) cf') as [[ol cf4]| |p0|]; try exact G.
      cbn [fineN] in *. destruct G as [I4 [G1 G2]]. split; [exact I4|].
      assert (rem cf' + 1 <= rem cf).
      { unfold rem, nfinds. rewrite (same_pos_rem1 _ _ S1), F, EF. cbn [c_finds set_finds List.length]. rewrite Nat2Z.inj_succ. lia. }
      split; [lia|intros _; lia].
  Qed.
End Lift.

(* ------------------------------------------------------------------------------------ *)
(* the regenerated program *)
Lemma len_T : List.length (fst inferredTU) = List.length ScannerProg.prog_table.
Proof. vm_compute. reflexivity. Qed.

Lemma inferred_ok : forall st, chk_state ScannerProg.prog_table iT iU iW st = true.
Proof.
  intros st. destruct (Nat.ltb (N.to_nat st) (List.length ScannerProg.prog_table)) eqn:E.
  - apply Nat.ltb_lt in E. pose proof all_ok_ok as A. unfold all_ok in A. rewrite forallb_forall in A. apply A.
    unfold all_states. apply in_map_iff. exists (N.to_nat st). split; [apply N2Nat.id|apply in_seq; lia].
  - apply Nat.ltb_ge in E. unfold chk_state, iT, look. rewrite nth_overflow; [reflexivity|rewrite len_T; exact E].
Qed.

Lemma weights_bounded_list : forallb (fun z => (0 <=? z) && (z <=? Wmax)) inferredW = true.
Proof. vm_compute. reflexivity. Qed.

Lemma weights_bounded : forall st, 0 <= iW st <= Wmax.
Proof.
  intros st. unfold iW, lookz.
  destruct (Nat.ltb (N.to_nat st) (List.length inferredW)) eqn:E.
  - apply Nat.ltb_lt in E. pose proof weights_bounded_list as A. rewrite forallb_forall in A.
    specialize (A _ (nth_In inferredW 0 E)). apply andb_prop in A as [A1 A2]. apply Z.leb_le in A1, A2. lia.
  - apply Nat.ltb_ge in E. rewrite nth_overflow; [|exact E]. vm_compute. split; discriminate.
Qed.

Lemma fuel_enough data : K * (data_size data + 1) + Wmax + 2 <= Z.of_nat (loop_fuel data).
Proof. unfold loop_fuel, data_size, K. change Wmax with 9. lia. Qed.

Lemma init_inv : Inv iT iU (init_conf ScannerProg.initial_state).
Proof. split; [vm_compute; reflexivity|exact I]. Qed.

Definition remaining (data : bytes) (cf : conf) : Z := rem data iW Wmax cf.

(* C01, the scanner: for EVERY input, every oracle table and every configuration reached by any
   number of Next() calls, Next() returns (it does not run out of the 8*len+64 loop iterations
   nor of the 8 nested step invocations per byte), and the whole scan of a file needs at most
   8*len+28 calls of Next() *)
Theorem scanner_terminates data tbl : forall fuel cf,
  Inv iT iU cf -> remaining data cf + 2 <= Z.of_nat fuel ->
  let '(_, e, _) := lex_traj data tbl fuel cf in e <> EndFuel.
Proof.
  induction fuel as [|fuel IH]; intros cf HI HF.
  - exfalso. unfold remaining, rem, rem1, nfinds in HF. lia.
  - cbn [lex_traj]. unfold the_next.
    pose proof (next_fine ScannerProg.prog_table ScannerProg.is_newline_cond ScannerProg.is_whitespace_cond data
                          (olen_of_table tbl) iT iU iW Wmax inferred_ok weights_bounded (fuel_enough data) cf HI) as N.
    destruct (next ScannerProg.prog_table ScannerProg.is_newline_cond ScannerProg.is_whitespace_cond data (olen_of_table tbl) cf)
      as [[[l|] cf']| |p|]; cbn [fineN] in N; try discriminate; [|contradiction].
    destruct N as [I' [_ N]]. assert (Hne : Some l <> None) by discriminate. specialize (N Hne).
    assert (HF' : remaining data cf' + 2 <= Z.of_nat fuel) by (unfold remaining in *; lia).
    specialize (IH cf' I' HF'). destruct (lex_traj data tbl fuel cf') as [[ls e] tr]. exact IH.
Qed.

Theorem whole_file_scan_terminates data tbl :
  let '(_, e, _) := scan_case data tbl in e <> EndFuel.
Proof.
  unfold scan_case. apply scanner_terminates; [exact init_inv|].
  unfold remaining, rem, rem1, Phi, nfinds. cbn [init_conf c_cur c_step c_finds List.length].
  pose proof (weights_bounded ScannerProg.initial_state) as [W0 W1].
  unfold data_size, K in *. change Wmax with 9 in *. lia.
Qed.

(* every configuration on the trajectory: Next() returns *)
Theorem next_always_returns data tbl : forall fuel cf,
  Inv iT iU cf ->
  let '(_, _, tr) := lex_traj data tbl fuel cf in
  Forall (fun c => the_next data tbl c <> RFuel) (cf :: tr).
Proof.
  assert (NF : forall cf, Inv iT iU cf -> the_next data tbl cf <> RFuel /\
               match the_next data tbl cf with ROk (_, cf') => Inv iT iU cf' | _ => True end).
  { intros cf HI. unfold the_next.
    pose proof (next_fine ScannerProg.prog_table ScannerProg.is_newline_cond ScannerProg.is_whitespace_cond data
                          (olen_of_table tbl) iT iU iW Wmax inferred_ok weights_bounded (fuel_enough data) cf HI) as N.
    destruct (next _ _ _ _ _ cf) as [[ol cf']| |p|]; cbn [fineN] in N; split; try discriminate; try exact I; try contradiction. apply N. }
  induction fuel as [|fuel IH]; intros cf HI; cbn [lex_traj].
  - constructor; [apply NF; exact HI|constructor].
  - destruct (NF cf HI) as [N1 N2].
    destruct (the_next data tbl cf) as [[[l|] cf']| |p|] eqn:E.
    + specialize (IH cf' N2). destruct (lex_traj data tbl fuel cf') as [[ls e] tr]. constructor; [rewrite E; discriminate|exact IH].
    + constructor; [rewrite E; discriminate|]. constructor; [apply NF; exact N2|constructor].
    + constructor; [rewrite E; discriminate|constructor].
    + constructor; [rewrite E; discriminate|constructor].
    + contradiction.
Qed.

Print Assumptions whole_file_scan_terminates.
Print Assumptions next_always_returns.
