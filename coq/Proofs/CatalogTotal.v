(* CatalogTotal.v — the catalog builder never reaches one of its "impossible" states (nil Info,
   a child directive without its parent) on a forest whose nesting follows the context table,
   for every forest, every catalog state reached, every ban list and every body text. *)
From JS Require Import Base Bytes Scanner Directive Core Expand Catalog ListAux C05Proofs.
From JS Require DirectiveTables.
From Coq Require Import Lia.
Open Scope Z_scope.

Lemma placed_unfold parent d :
  placed parent d =
  negb (N.eqb (d_kind d) DirectiveTables.dir_Macro) &&
  (match parent with None => is_allowed_for_root (d_kind d) | Some p => is_allowed_in p (d_kind d) end) &&
  forallb (placed (Some (d_kind d))) (d_children d).
Proof.
  destruct d as [k kw c nm un an bd ex tr cs]. cbn [placed d_kind d_children]. reflexivity.
Qed.

Definition parent_kind_of (anc : list dir) : option N := match anc with [] => None | p :: _ => Some (d_kind p) end.

(* facts about the regenerated table, by computation *)
Definition keys : list N := List.map fst DirectiveTables.dir_context_table.
Lemma allowed_in_key p k : is_allowed_in p k = true -> In p keys.
Proof.
  unfold is_allowed_in. destruct (List.find _ _) as [[p' cs]|] eqn:F; [|discriminate].
  intros _. apply find_some in F as [Hin E]. apply N.eqb_eq in E. cbn [fst] in E. subst.
  unfold keys. change p with (fst (p, cs)). apply in_map. exact Hin.
Qed.

Definition only_under (child parent : N) : bool :=
  forallb (fun p => implb (is_allowed_in p child) (N.eqb p parent || N.eqb p DirectiveTables.dir_Macro)) keys.

Lemma only_under_spec child parent : only_under child parent = true ->
  forall p, is_allowed_in p child = true -> p <> DirectiveTables.dir_Macro -> p = parent.
Proof.
  unfold only_under. intros H p A NM. rewrite forallb_forall in H.
  specialize (H p (allowed_in_key _ _ A)). cbv beta in H. rewrite A in H. cbn [implb] in H.
  apply orb_prop in H as [H|H]; apply N.eqb_eq in H; [exact H|contradiction].
Qed.

Lemma title_under_info : only_under DirectiveTables.dir_Title DirectiveTables.dir_Info = true. Proof. vm_compute. reflexivity. Qed.
Lemma version_under_info : only_under DirectiveTables.dir_Version DirectiveTables.dir_Info = true. Proof. vm_compute. reflexivity. Qed.
Lemma not_root : forallb (fun k => negb (is_allowed_for_root k))
  [DirectiveTables.dir_Title; DirectiveTables.dir_Version; DirectiveTables.dir_BaseURL; DirectiveTables.dir_Body; DirectiveTables.dir_Protocol; DirectiveTables.dir_Description] = true.
Proof. vm_compute. reflexivity. Qed.

Ltac crush H :=
  repeat (match type of H with
          | context [match ?x with _ => _ end] => let E := fresh "E" in destruct x eqn:E; try discriminate H
          | context [if ?x then _ else _] => let E := fresh "E" in destruct x eqn:E; try discriminate H
          end).
Ltac errs H := unfold kerr1, kerr, not_found, required in H; try discriminate H.

Definition info_ready (c : catalog) (anc : list dir) : Prop :=
  match anc with
  | p :: _ => N.eqb (d_kind p) DirectiveTables.dir_Info = true -> c_info c <> None
  | [] => True
  end.

Lemma add_request_nopanic c d anc p : add_request c d anc <> CPanic p.
Proof. intros H. unfold add_request in H. crush H. all: errs H. Qed.

Lemma add_response_nopanic c d anc p : add_response c d anc <> CPanic p.
Proof. intros H. unfold add_response in H. crush H. all: errs H. Qed.

Definition place_ok (d : dir) (anc : list dir) : Prop :=
  match anc with
  | [] => is_allowed_for_root (d_kind d) = true
  | p :: _ => is_allowed_in (d_kind p) (d_kind d) = true /\ d_kind p <> DirectiveTables.dir_Macro
  end.

Lemma root_needs k : In k [DirectiveTables.dir_Title; DirectiveTables.dir_Version; DirectiveTables.dir_BaseURL;
                           DirectiveTables.dir_Body; DirectiveTables.dir_Protocol; DirectiveTables.dir_Description] ->
  is_allowed_for_root k = false.
Proof.
  intros H. pose proof not_root as NR. rewrite forallb_forall in NR. specialize (NR k H).
  destruct (is_allowed_for_root k); [discriminate|reflexivity].
Qed.

Lemma info_child_needs_info c d anc k parent_thm :
  place_ok d anc -> info_ready c anc -> d_kind d = k ->
  only_under k DirectiveTables.dir_Info = true -> is_allowed_for_root k = false -> parent_thm = tt ->
  c_info c <> None.
Proof.
  intros HP HI K OU NR _. destruct anc as [|p rest]; cbn [place_ok info_ready] in *.
  - rewrite K, NR in HP. discriminate.
  - destruct HP as [A NM]. rewrite K in A. pose proof (only_under_spec _ _ OU _ A NM) as E.
    apply HI. rewrite E. reflexivity.
Qed.

Lemma add_directive_nopanic banned c d anc pn :
  place_ok d anc -> info_ready c anc ->
  (existsb (N.eqb (d_kind d)) banned = true \/ N.eqb (d_kind d) DirectiveTables.dir_Description = false) ->
  add_directive banned c d anc <> CPanic pn.
Proof.
  intros HP HI HD H. unfold add_directive in H.
  crush H.
  all: errs H.
  all: try (exfalso; eapply add_request_nopanic; exact H).
  all: try (exfalso; eapply add_response_nopanic; exact H).
  - (* Title / Version: c.Info is nil *)
    match goal with E : c_info c = None |- _ => revert E end.
    apply orb_prop in E2 as [K|K]; apply N.eqb_eq in K.
    + eapply (info_child_needs_info c d anc _ tt HP HI K title_under_info); [apply root_needs; cbn; auto|reflexivity].
    + eapply (info_child_needs_info c d anc _ tt HP HI K version_under_info); [apply root_needs; cbn; auto 10|reflexivity].
  - (* Description reaches add_directive only when banned *)
    destruct HD as [HD|HD]; congruence.
  - (* BaseUrl without a parent *)
    match goal with K : (d_kind d =? DirectiveTables.dir_BaseURL)%N = true |- _ => apply N.eqb_eq in K; cbn [place_ok] in HP; rewrite K in HP end.
    rewrite root_needs in HP; [discriminate|cbn; auto 10].
  - (* Body without a parent *)
    match goal with K : (d_kind d =? DirectiveTables.dir_Body)%N = true |- _ => apply N.eqb_eq in K; cbn [place_ok] in HP; rewrite K in HP end.
    rewrite root_needs in HP; [discriminate|cbn; auto 10].
  - (* Protocol without a parent *)
    match goal with K : (d_kind d =? DirectiveTables.dir_Protocol)%N = true |- _ => apply N.eqb_eq in K; cbn [place_ok] in HP; rewrite K in HP end.
    rewrite root_needs in HP; [discriminate|cbn; auto 10].
Qed.

Lemma add_description_nopanic c d anc body pn :
  info_ready c anc -> add_description c d anc body <> CPanic pn.
Proof.
  intros HI H. unfold add_description in H.
  crush H.
  all: errs H.
  destruct anc as [|p rest]; cbn [parent_kind info_ready] in *.
  - match goal with E : (_ =? DirectiveTables.dir_Info)%N = true |- _ => vm_compute in E; discriminate E end.
  - match goal with E : c_info c = None |- _ => apply HI in E; [exact E|assumption] end.
Qed.

(* c.Info, once set, stays set; and INFO sets it *)
Definition info_kept (c c' : catalog) (d : dir) : Prop :=
  (c_info c <> None -> c_info c' <> None) /\
  (N.eqb (d_kind d) DirectiveTables.dir_Info = true -> c_info c' <> None).

Ltac info_same := split; [intros X; cbn [c_info set_inters set_tags set_similar upd_http upd_rpc]; first [exact X | discriminate]|
                          intros X; cbn [c_info set_inters set_tags set_similar upd_http upd_rpc]; first [discriminate | congruence | idtac]].

Lemma check_paths_info c d anc c1 p : check_paths c d anc = inl (c1, p) -> c_info c1 = c_info c.
Proof.
  unfold check_paths. destruct (dir_path d anc); [|discriminate].
  destruct (path_params_error b); [discriminate|].
  destruct (check_similar _ _); [|discriminate]. intros H. injection H as <- _. reflexivity.
Qed.

Lemma upd_http_info c id f : c_info (upd_http c id f) = c_info c. Proof. reflexivity. Qed.
Lemma upd_rpc_info c id f : c_info (upd_rpc c id f) = c_info c. Proof. reflexivity. Qed.

Ltac same_info := repeat (rewrite ?upd_http_info, ?upd_rpc_info); cbn [c_info set_inters set_tags set_similar]; try reflexivity.

Lemma add_request_info c d anc c' : add_request c d anc = COk c' -> c_info c' = c_info c.
Proof. unfold add_request. intros H. crush H. all: errs H. all: injection H as <-. all: same_info. Qed.

Lemma add_response_info c d anc c' : add_response c d anc = COk c' -> c_info c' = c_info c.
Proof. unfold add_response. intros H. crush H. all: errs H. all: injection H as <-. all: same_info. Qed.

Ltac kind_clash X :=
  exfalso; first [discriminate X |
    (apply N.eqb_eq in X; rewrite X in *;
     match goal with E : (_ =? _)%N = true |- _ => vm_compute in E; discriminate E end)].

Lemma add_directive_info banned c d anc c' :
  add_directive banned c d anc = COk c' ->
  (c_info c <> None -> c_info c' <> None) /\ (N.eqb (d_kind d) DirectiveTables.dir_Info = true -> c_info c' <> None).
Proof.
  unfold add_directive. intros H.
  crush H.
  all: errs H.
  all: try (apply add_request_info in H; rewrite H; split; [auto|intros X; kind_clash X]).
  all: try (apply add_response_info in H; rewrite H; split; [auto|intros X; kind_clash X]).
  all: try (injection H as <-).
  all: try match goal with E : check_paths _ _ _ = inl _ |- _ => pose proof (check_paths_info _ _ _ _ _ E) as CI end.
  all: split; [intros X; same_info; first [exact X | discriminate | (rewrite CI; exact X)]
              |intros X; same_info; first [discriminate | kind_clash X]].
Qed.

Lemma add_description_info c d anc body c' : add_description c d anc body = COk c' ->
  (c_info c <> None -> c_info c' <> None).
Proof.
  unfold add_description. intros H. crush H. all: errs H. all: injection H as <-.
  all: intros X; same_info; first [exact X | discriminate].
Qed.

Section NoPanic.
  Variable read_body : coords -> bytes.
  Variable banned : list N.

  (* one top-level or nested block: no panic, and c.Info stays set *)
  Lemma add_branch_total fuel : forall c d anc,
    placed (parent_kind_of anc) d = true -> place_ok d anc -> info_ready c anc ->
    (forall pn, add_branch read_body banned fuel c d anc <> CPanic pn) /\
    (forall c', add_branch read_body banned fuel c d anc = COk c' -> c_info c <> None -> c_info c' <> None).
  Proof.
    induction fuel as [|fuel IH]; intros c d anc PL HP HI; cbn [add_branch]; [split; [discriminate|discriminate]|].
    rewrite placed_unfold in PL.
    apply andb_prop in PL as [PL1 PLc]. apply andb_prop in PL1 as [NM _].
    (* the directive itself *)
    set (r := if existsb (N.eqb (d_kind d)) banned then add_directive banned c d anc
              else if N.eqb (d_kind d) DirectiveTables.dir_Description
                   then add_description c d anc (match d_body d with Some b => read_body b | None => [] end)
                   else add_directive banned c d anc).
    assert (R1 : forall pn, r <> CPanic pn).
    { intros pn. unfold r. destruct (existsb (N.eqb (d_kind d)) banned) eqn:B.
      - apply add_directive_nopanic; [exact HP|exact HI|left; exact B].
      - destruct (N.eqb (d_kind d) DirectiveTables.dir_Description) eqn:K.
        + apply add_description_nopanic. exact HI.
        + apply add_directive_nopanic; [exact HP|exact HI|right; exact K]. }
    assert (R2 : forall c1, r = COk c1 -> (c_info c <> None -> c_info c1 <> None) /\
                                          (N.eqb (d_kind d) DirectiveTables.dir_Info = true -> c_info c1 <> None)).
    { intros c1. unfold r. destruct (existsb (N.eqb (d_kind d)) banned) eqn:B.
      - apply add_directive_info.
      - destruct (N.eqb (d_kind d) DirectiveTables.dir_Description) eqn:K.
        + intros H. split; [eapply add_description_info; exact H|].
          intros X. apply N.eqb_eq in K, X. rewrite K in X. vm_compute in X. discriminate X.
        + apply add_directive_info. }
    fold r. destruct r as [c1| | |] eqn:Er.
    2:{ split; [discriminate|discriminate]. }
    2:{ exfalso. eapply R1. reflexivity. }
    2:{ split; [discriminate|discriminate]. }
    destruct (R2 c1 eq_refl) as [M1 M2].
    (* the children, one after the other *)
    assert (HIc : info_ready c1 (d :: anc)) by (cbn [info_ready]; exact M2).
    set (go := fix go (c : catalog) (cs : list dir) : cres catalog :=
                 match cs with
                 | [] => COk c
                 | x :: rest => match add_branch read_body banned fuel c x (d :: anc) with COk c' => go c' rest | o => o end
                 end).
    assert (G : forall cs k0, forallb (placed (Some (d_kind d))) cs = true -> info_ready k0 (d :: anc) ->
                (forall pn, go k0 cs <> CPanic pn) /\
                (forall c', go k0 cs = COk c' -> c_info k0 <> None -> c_info c' <> None)).
    { induction cs as [|x rest IHc]; intros k0 PLs HI1; cbn [go].
      - split; [discriminate|]. intros c' E. injection E as <-. auto.
      - cbn [forallb] in PLs. apply andb_prop in PLs as [Px Prest].
        assert (HPx : place_ok x (d :: anc)).
        { cbn [place_ok]. pose proof Px as Px'. rewrite placed_unfold in Px'.
          apply andb_prop in Px' as [Px1 _]. apply andb_prop in Px1 as [_ A]. split; [exact A|].
          intros Em. rewrite Em in NM. vm_compute in NM. discriminate. }
        destruct (IH k0 x (d :: anc) Px HPx HI1) as [N1 N2].
        destruct (add_branch read_body banned fuel k0 x (d :: anc)) as [c2| | |] eqn:B.
        + assert (HI2 : info_ready c2 (d :: anc)).
          { cbn [info_ready] in *. intros K. apply (N2 c2 eq_refl). apply HI1. exact K. }
          destruct (IHc c2 Prest HI2) as [G1 G2]. split; [exact G1|].
          intros c' E X. apply (G2 c' E). apply (N2 c2 eq_refl). exact X.
        + split; [discriminate|discriminate].
        + exfalso. eapply N1. reflexivity.
        + split; [discriminate|discriminate]. }
    destruct (G (d_children d) c1 PLc HIc) as [G1 G2]. split; [exact G1|].
    intros c' E X. apply (G2 c' E). apply M1. exact X.
  Qed.

  (* the whole interaction pass over a well-nested forest never reaches an impossible state *)
  Theorem add_all_never_panics fuel ds : forall c,
    forallb (placed None) ds = true -> forall pn, add_all read_body banned fuel c ds <> CPanic pn.
  Proof.
    induction ds as [|d ds IH]; intros c PL pn; cbn [add_all]; [discriminate|].
    cbn [forallb] in PL. apply andb_prop in PL as [Pd Pds].
    assert (HP : place_ok d []).
    { cbn [place_ok]. pose proof Pd as Pd'. rewrite placed_unfold in Pd'. apply andb_prop in Pd' as [P1 _]. apply andb_prop in P1 as [_ A]. exact A. }
    destruct (add_branch_total fuel c d [] Pd HP I) as [N1 _].
    destruct (add_branch read_body banned fuel c d []) as [c1| | |] eqn:B.
    - apply IH. exact Pds.
    - discriminate.
    - exfalso. eapply N1. reflexivity.
    - discriminate.
  Qed.
End NoPanic.
