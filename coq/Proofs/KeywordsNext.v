(* KeywordsNext.v — bridge from the keyword trie walk (Keywords.v) to Scanner.next, for an
   arbitrary program: what Next() returns when the cursor stands at a directive start. *)
From JS Require Import Base Bytes Scanner ExecLemmas Keywords.
From JS Require LexemeEvents.
From Coq Require Import Lia.
Open Scope Z_scope.

(* facts about the regenerated event tables used below; each is checked by computation, so a
   change of lexeme-event.go that falsifies one breaks exactly this lemma *)
Lemma ev_KeywordBegin_is_beginning : LexemeEvents.ev_IsBeginning KeywordBegin = true.
Proof. reflexivity. Qed.
Lemma ev_KeywordEnd_not_beginning : LexemeEvents.ev_IsBeginning KeywordEnd = false.
Proof. reflexivity. Qed.
Lemma ev_KeywordEnd_is_ending : LexemeEvents.ev_IsEnding KeywordEnd = true.
Proof. reflexivity. Qed.
Lemma ev_KeywordEnd_lexeme : LexemeEvents.ev_ToLexemeType KeywordEnd = Some LKeyword.
Proof. reflexivity. Qed.

Section Bridge.
  Variable prog : list (string * stmt).
  Variable nl_cond ws_cond : cond.
  Variable ek poa : state.
  Variable data : bytes.
  Variable olen : okind -> Z -> olen_res.

  Notation kw_trans := (kw_trans prog nl_cond ws_cond poa).
  Notation run_step := (run_step prog nl_cond ws_cond data olen).
  Notation next_loop := (next_loop prog nl_cond ws_cond data olen).
  Notation next := (next prog nl_cond ws_cond data olen).
  Notation exec := (exec nl_cond ws_cond data olen).
  Notation dsize := (data_size data).

  Ltac inv_classify :=
    unfold classify;
    repeat (match goal with
            | |- context [match ?x with _ => _ end] => destruct x eqn:?
            end; try discriminate).

  Ltac simp_conf :=
    unfold set_step, set_cur, set_finds, set_sstack, set_estack, set_params;
    cbn [c_step c_sstack c_finds c_estack c_params c_cur List.length app].

  Lemma classify_goto l st' : classify poa l = KGoto st' -> l = Some [SSetStep st'; SRetNil].
  Proof. inv_classify. intros H; injection H as <-; reflexivity. Qed.

  Lemma classify_start l st' :
    classify poa l = KStart st' -> l = Some [SFound KeywordBegin 0; SSetStep st'; SRetNil].
  Proof.
    inv_classify. intros H; injection H as <-.
    match goal with E : (_ =? 0) = true |- _ => apply Z.eqb_eq in E; subst end. reflexivity.
  Qed.

  Lemma classify_accept l x :
    classify poa l = KAccept x -> l = Some [SFound KeywordEnd 0; SPush x; SSetStep poa; SRetNil].
  Proof.
    inv_classify. intros H; injection H as <-.
    match goal with E : (_ && _)%bool = true |- _ => apply andb_prop in E as [E1 E2] end.
    apply Z.eqb_eq in E1. apply N.eqb_eq in E2. subst. reflexivity.
  Qed.

  Lemma classify_reject l a b : classify poa l = KReject a b -> l = Some [SRetErr a b].
  Proof. inv_classify. intros H; injection H as <- <-; reflexivity. Qed.

  Lemma kw_trans_body st c k :
    kw_trans st c = k -> k <> KOther ->
    exists body, body_of prog st = Some body /\ classify poa (flat nl_cond ws_cond c body) = k.
  Proof.
    unfold Keywords.kw_trans. destruct (body_of prog st) as [b|]; intros H Hn.
    - eauto.
    - congruence.
  Qed.

  Lemma run_step_goto st c st' f cf :
    kw_trans st c = KGoto st' -> run_step (S f) st c cf = ROk (set_step cf st').
  Proof.
    intros H. destruct (kw_trans_body _ _ _ H) as [body [Hb Hc]]; [discriminate|].
    apply classify_goto in Hc. cbn [Scanner.run_step]. rewrite Hb.
    rewrite (flat_sound _ _ _ _ _ _ _ Hc). reflexivity.
  Qed.

  Lemma run_step_start st c st' f cf :
    kw_trans st c = KStart st' ->
    run_step (S f) st c cf =
    ROk (set_step (set_finds cf (c_finds cf ++ [(KeywordBegin, c_cur cf + 0)])) st').
  Proof.
    intros H. destruct (kw_trans_body _ _ _ H) as [body [Hb Hc]]; [discriminate|].
    apply classify_start in Hc. cbn [Scanner.run_step]. rewrite Hb.
    rewrite (flat_sound _ _ _ _ _ _ _ Hc). reflexivity.
  Qed.

  Lemma run_step_accept st c x f cf :
    kw_trans st c = KAccept x ->
    run_step (S f) st c cf =
    ROk (set_step (set_sstack (set_finds cf (c_finds cf ++ [(KeywordEnd, c_cur cf + 0)]))
                              (x :: c_sstack cf)) poa).
  Proof.
    intros H. destruct (kw_trans_body _ _ _ H) as [body [Hb Hc]]; [discriminate|].
    apply classify_accept in Hc. cbn [Scanner.run_step]. rewrite Hb.
    rewrite (flat_sound _ _ _ _ _ _ _ Hc). reflexivity.
  Qed.

  Lemma run_step_reject st c a b f cf :
    kw_trans st c = KReject a b ->
    run_step (S f) st c cf = RErr (mk_unexpected data cf a b).
  Proof.
    intros H. destruct (kw_trans_body _ _ _ H) as [body [Hb Hc]]; [discriminate|].
    apply classify_reject in Hc. cbn [Scanner.run_step]. rewrite Hb.
    rewrite (flat_sound _ _ _ _ _ _ _ Hc). reflexivity.
  Qed.

  (* the byte Next() presents to the step function at index i: a non-zero data byte, or the
     EOF pseudo-byte 0 exactly at the end of the data *)
  Definition presents (i : nat) (c : N) : Prop :=
    (nth_error data i = Some c /\ c <> 0%N) \/ (i = List.length data /\ c = 0%N).

  Definition at_pos (i : nat) (w : list N) : Prop :=
    forall k c, nth_error w k = Some c -> presents (i + k) c.

  Lemma at_pos_cons i c w : at_pos i (c :: w) -> presents i c /\ at_pos (S i) w.
  Proof.
    intros H. split.
    - specialize (H O c eq_refl). now rewrite Nat.add_0_r in H.
    - intros k d Hk. specialize (H (S k) d Hk). now replace (S i + k)%nat with (i + S k)%nat by lia.
  Qed.

  Lemma presents_le i c : presents i c -> (i <= List.length data)%nat.
  Proof.
    intros [[H _]|[-> _]]; [|lia].
    assert (nth_error data i <> None) by congruence. apply nth_error_Some in H0. lia.
  Qed.

  Lemma at_pos_length :
    forall w i, w <> [] -> at_pos i w -> (i + List.length w <= List.length data + 1)%nat.
  Proof.
    induction w as [|c w IH]; intros i Hne Hpos; [congruence|].
    apply at_pos_cons in Hpos as [Hp Hpos]. apply presents_le in Hp.
    destruct w as [|d w'].
    - cbn. lia.
    - specialize (IH (S i) ltac:(discriminate) Hpos). cbn [List.length] in *. lia.
  Qed.

  Lemma next_loop_unfold fuel cf i c :
    c_cur cf = Z.of_nat i -> presents i c ->
    next_loop (S fuel) cf =
    match run_step step_fuel (c_step cf) c cf with
    | ROk cf1 =>
        let cf2 := set_cur cf1 (c_cur cf1 + 1) in
        match drain (List.length (c_finds cf2)) cf2 with
        | ROk (None, cf3) => next_loop fuel cf3
        | r => r
        end
    | RErr e => RErr e
    | RPanic p => RPanic p
    | RFuel => RFuel
    end.
  Proof.
    intros Hc Hp. pose proof (presents_le _ _ Hp) as Hle.
    cbn [Scanner.next_loop]. unfold data_size. rewrite Hc.
    replace (Z.of_nat (List.length data) <? Z.of_nat i) with false by (symmetry; apply Z.ltb_ge; lia).
    replace (Z.of_nat i <? 0) with false by (symmetry; apply Z.ltb_ge; lia).
    destruct Hp as [[Hn Hz]|[-> ->]].
    - assert (i < List.length data)%nat by (apply nth_error_Some; congruence).
      replace (Z.of_nat i =? Z.of_nat (List.length data)) with false by (symmetry; apply Z.eqb_neq; lia).
      unfold byte_at.
      replace (Z.of_nat i <? 0) with false by (symmetry; apply Z.ltb_ge; lia).
      rewrite Nat2Z.id, Hn. cbn [negb andb].
      replace (N.eqb c 0) with false by (symmetry; apply N.eqb_neq; exact Hz).
      reflexivity.
    - rewrite Z.eqb_refl. cbn [negb andb]. reflexivity.
  Qed.

  Definition eof_flag (i : nat) : bool := negb (Z.of_nat i <? Z.of_nat (List.length data)).

  (* the walk inside a keyword: every byte moves along the trie, the last one completes *)
  Lemma walk_accept :
    forall w st i x b es ss ps fuel,
      at_pos i w -> kw_acc prog nl_cond ws_cond poa st w = Some x ->
      (List.length w <= fuel)%nat ->
      next_loop fuel (mkConf st ss [] ((KeywordBegin, b) :: es) ps (Z.of_nat i)) =
      ROk (Some (mkLex LKeyword b (Z.of_nat (i + List.length w) - 1)),
           mkConf poa (x :: ss) [] es [] (Z.of_nat (i + List.length w))).
  Proof.
    induction w as [|c w IH]; intros st i x b es ss ps fuel Hpos Hacc Hfuel; [discriminate|].
    destruct fuel as [|fuel]; [cbn in Hfuel; lia|].
    apply at_pos_cons in Hpos as [Hp Hpos].
    erewrite next_loop_unfold; [|reflexivity|exact Hp]. cbn [c_step].
    cbn [kw_acc] in Hacc. unfold step_fuel.
    destruct (kw_trans st c) as [s1|s1|x1|a0 b0|] eqn:T; try discriminate.
    - (* Goto *)
      rewrite (run_step_goto _ _ _ _ _ T).
      simp_conf. cbn [drain].
      replace (Z.of_nat i + 1) with (Z.of_nat (S i)) by lia.
      rewrite (IH s1 (S i) x b es ss ps fuel Hpos Hacc) by (cbn in Hfuel; lia).
      cbn [List.length]. replace (i + S (List.length w))%nat with (S i + List.length w)%nat by lia.
      reflexivity.
    - (* Accept *)
      destruct w; [|discriminate]. injection Hacc as ->.
      rewrite (run_step_accept _ _ _ _ _ T).
      simp_conf. cbn [drain]. simp_conf. unfold process_event.
      rewrite ev_KeywordEnd_not_beginning, ev_KeywordEnd_is_ending.
      simp_conf. cbn [pair_ok]. rewrite ev_KeywordEnd_lexeme.
      unfold note_lexeme. cbn [lk]. simp_conf.
      replace (Z.of_nat (i + 1) - 1) with (Z.of_nat i + 0) by lia.
      replace (Z.of_nat (i + 1)) with (Z.of_nat i + 1) by lia.
      reflexivity.
  Qed.

  Lemma walk_reject :
    forall w st i k0 k a b ss ps eb fuel,
      at_pos i w -> kw_run prog nl_cond ws_cond poa st w k0 = RunReject k a b ->
      (List.length w <= fuel)%nat ->
      next_loop fuel (mkConf st ss [] eb ps (Z.of_nat i)) =
      RErr (EUnexpected a b (Z.of_nat (i + (k - k0))) (eof_flag (i + (k - k0)))) /\ (k0 <= k)%nat.
  Proof.
    induction w as [|c w IH]; intros st i k0 k a b ss ps eb fuel Hpos Hrun Hfuel; [discriminate|].
    destruct fuel as [|fuel]; [cbn in Hfuel; lia|].
    apply at_pos_cons in Hpos as [Hp Hpos].
    erewrite next_loop_unfold; [|reflexivity|exact Hp]. cbn [c_step].
    cbn [kw_run] in Hrun. unfold step_fuel.
    destruct (kw_trans st c) as [s1|s1|x1|a0 b0|] eqn:T; try discriminate.
    - rewrite (run_step_goto _ _ _ _ _ T).
      simp_conf. cbn [drain].
      replace (Z.of_nat i + 1) with (Z.of_nat (S i)) by lia.
      destruct (IH s1 (S i) (S k0) k a b ss ps eb fuel Hpos Hrun) as [E Hk]; [cbn in Hfuel; lia|].
      rewrite E. split; [|lia]. replace (S i + (k - S k0))%nat with (i + (k - k0))%nat by lia. reflexivity.
    - injection Hrun as <- <- <-.
      rewrite (run_step_reject _ _ _ _ _ _ T). split; [|lia].
      unfold mk_unexpected, eof_flag, data_size. cbn [c_cur].
      replace (i + (k0 - k0))%nat with i by lia. reflexivity.
  Qed.

  (* Next() at a directive start, queue empty *)
  Theorem next_keyword_accept :
    forall w i x cf,
      at_pos i w -> kw_acc_start prog nl_cond ws_cond ek poa w = Some x ->
      c_step cf = ek -> c_finds cf = [] -> c_cur cf = Z.of_nat i ->
      next cf =
      ROk (Some (mkLex LKeyword (Z.of_nat i) (Z.of_nat (i + List.length w) - 1)),
           mkConf poa (x :: c_sstack cf) [] (c_estack cf) [] (Z.of_nat (i + List.length w))).
  Proof.
    intros w i x [st ss fs es ps cur] Hpos Hacc Hs Hf Hc. cbn in Hs, Hf, Hc. subst.
    destruct w as [|c w]; [discriminate|].
    assert (Hlen : (List.length (c :: w) <= List.length data + 1)%nat).
    { pose proof (at_pos_length (c :: w) i ltac:(discriminate) Hpos). lia. }
    unfold Scanner.next. cbn [c_finds]. unfold loop_fuel.
    destruct (8 * List.length data + 64)%nat as [|fuel] eqn:Ef; [lia|].
    apply at_pos_cons in Hpos as [Hp Hpos].
    erewrite next_loop_unfold; [|reflexivity|exact Hp]. cbn [c_step].
    cbn [kw_acc_start] in Hacc. unfold step_fuel.
    destruct (Keywords.kw_trans prog nl_cond ws_cond poa ek c) as [s1|s1|x1|a0 b0|] eqn:T; try discriminate.
    rewrite (run_step_start _ _ _ _ _ T).
    simp_conf. cbn [drain]. simp_conf. unfold process_event.
    rewrite ev_KeywordBegin_is_beginning.
    simp_conf.
    replace (Z.of_nat i + 1) with (Z.of_nat (S i)) by lia.
    rewrite Z.add_0_r.
    rewrite (walk_accept w s1 (S i) x (Z.of_nat i) es ss ps fuel Hpos Hacc) by (cbn [List.length] in Hlen; lia).
    cbn [List.length]. replace (i + S (List.length w))%nat with (S i + List.length w)%nat by lia.
    reflexivity.
  Qed.

  Theorem next_keyword_reject :
    forall w i k a b cf,
      at_pos i w -> kw_run_start prog nl_cond ws_cond ek poa w = RunReject k a b ->
      (List.length w <= List.length data + 1)%nat ->
      c_step cf = ek -> c_finds cf = [] -> c_cur cf = Z.of_nat i ->
      next cf = RErr (EUnexpected a b (Z.of_nat (i + k)) (eof_flag (i + k))).
  Proof.
    intros w i k a b [st ss fs es ps cur] Hpos Hrun Hlen Hs Hf Hc. cbn in Hs, Hf, Hc. subst.
    destruct w as [|c w]; [discriminate|].
    unfold Scanner.next. cbn [c_finds]. unfold loop_fuel.
    destruct (8 * List.length data + 64)%nat as [|fuel] eqn:Ef; [lia|].
    apply at_pos_cons in Hpos as [Hp Hpos].
    erewrite next_loop_unfold; [|reflexivity|exact Hp]. cbn [c_step].
    cbn [kw_run_start] in Hrun. unfold step_fuel.
    destruct (Keywords.kw_trans prog nl_cond ws_cond poa ek c) as [s1|s1|x1|a0 b0|] eqn:T; try discriminate.
    rewrite (run_step_start _ _ _ _ _ T).
    simp_conf. cbn [drain]. simp_conf. unfold process_event.
    rewrite ev_KeywordBegin_is_beginning.
    simp_conf.
    replace (Z.of_nat i + 1) with (Z.of_nat (S i)) by lia.
    destruct (walk_reject w s1 (S i) 1%nat k a b ss ps ((KeywordBegin, Z.of_nat i + 0) :: es) fuel Hpos Hrun)
      as [E Hk]; [cbn [List.length] in Hlen; lia|].
    rewrite E. replace (S i + (k - 1))%nat with (i + k)%nat by lia. reflexivity.
  Qed.

  Lemma straight_ok_sound c :
    forall l d cf, straight_ok d l = true -> (d <= List.length (c_sstack cf))%nat ->
    exists cf', exec c (block l) cf = FRet KNil cf'.
  Proof.
    induction l as [|s l IH]; intros d cf H Hd; [discriminate|].
    destruct s; cbn [straight_ok] in H; try discriminate;
      cbn [block fold_right Scanner.exec]; fold (block l).
    - apply (IH d); auto.
    - apply (IH (S d)); auto. cbn. lia.
    - apply (IH (S d)); auto. cbn. lia.
    - destruct d as [|d]; [discriminate|].
      destruct (c_sstack cf) as [|st ss] eqn:E; [cbn in Hd; lia|].
      apply (IH d); auto. cbn in *. lia.
    - apply (IH d); auto.
    - apply (IH d); auto.
    - destruct l; [|discriminate]. eauto.
  Qed.

  (* what the state after a keyword does with the next byte *)
  Definition after_kw (c : byte) : option bool :=
    match body_of prog poa with
    | None => None
    | Some body =>
        match flat nl_cond ws_cond c body with
        | Some [SRetErr _ _] => Some false
        | Some l => if straight_ok 1 l then Some true else None
        | None => None
        end
    end.

  Lemma after_kw_true c cf f :
    after_kw c = Some true -> c_sstack cf <> [] ->
    exists cf', run_step (S f) poa c cf = ROk cf'.
  Proof.
    unfold after_kw. destruct (body_of prog poa) as [body|] eqn:Hb; [|discriminate].
    destruct (flat nl_cond ws_cond c body) as [l|] eqn:Hf; [|discriminate].
    intros H Hs.
    assert (Hok : straight_ok 1 l = true).
    { destruct l as [|[] [|? ?]]; try discriminate;
        match type of H with (if ?b then _ else _) = _ => destruct b; [reflexivity|discriminate] end. }
    destruct (straight_ok_sound c l 1 cf Hok) as [cf' E].
    { destruct (c_sstack cf); [congruence|cbn; lia]. }
    exists cf'. cbn [Scanner.run_step]. rewrite Hb, (flat_sound _ _ _ _ _ _ _ Hf), E. reflexivity.
  Qed.

  Lemma after_kw_false c cf f :
    after_kw c = Some false ->
    exists a b, run_step (S f) poa c cf = RErr (mk_unexpected data cf a b).
  Proof.
    unfold after_kw. destruct (body_of prog poa) as [body|] eqn:Hb; [|discriminate].
    destruct (flat nl_cond ws_cond c body) as [l|] eqn:Hf; [|discriminate].
    intros H.
    assert (exists a b, l = [SRetErr a b]) as [a [b ->]].
    { destruct l as [|[] [|? ?]]; try discriminate;
        try (match type of H with (if ?b then _ else _) = _ => destruct b; discriminate end).
      eauto. }
    exists a, b. cbn [Scanner.run_step]. rewrite Hb, (flat_sound _ _ _ _ _ _ _ Hf). reflexivity.
  Qed.

End Bridge.
