(* CoreErrLoc.v — C07 for the scanning phase of a project (scanner + directive layer + INCLUDE),
   for every scanner program, file system, oracle, include tree and fuel: whatever error
   scanProject ends with is located
     - in the file that is being scanned at that moment, or
     - on the keyword of the directive that is pending at that moment (the context errors, which
       are raised when that directive is attached to the tree);
   and, one level down, where exactly each error of JApiCore.next sits: at the first byte of the
   lexeme being processed, on the pending directive, or at the byte before the scanner's cursor
   (the closing parenthesis). *)
From JS Require Import Base Bytes Scanner Directive Core IncludeRoundTrip.
Open Scope Z_scope.

Definition on_directive (e : cerr) (d : dir) : Prop :=
  e_file e = co_file (d_kw d) /\ e_index e = co_begin (d_kw d) /\ e_trace e = d_trace d.

Lemma dir_error_on d m : on_directive (dir_error d m) d.
Proof. repeat split. Qed.

Lemma attach_error_on_directive fuel : forall f ctx d e,
  attach fuel f ctx d = CErr e -> on_directive e d.
Proof.
  induction fuel as [|fuel IH]; intros f ctx d e H; cbn [attach] in H; [discriminate|].
  destruct ctx as [p|].
  - destruct (node_at f p) as [cur|]; [|discriminate].
    destruct (is_allowed_in (d_kind cur) (d_kind d)).
    + destruct (is_http_request_method (d_kind d) && negb (beq (named d KPath) []) && N.eqb (d_kind cur) DirectiveTables.dir_URL)%bool.
      * destruct (d_explicit cur); [|discriminate]. injection H as <-. apply dir_error_on.
      * destruct (append_child f p d). discriminate.
    + destruct (d_explicit cur).
      * injection H as <-. apply dir_error_on.
      * eapply IH. exact H.
  - destruct (is_allowed_for_root (d_kind d)); [discriminate|]. injection H as <-. apply dir_error_on.
Qed.

Lemma process_current_error st e :
  process_current st = CErr e -> exists d, cs_cur st = Some d /\ on_directive e d.
Proof.
  unfold process_current. destruct (cs_cur st) as [d|]; [|discriminate].
  destruct (attach _ _ _ d) as [[f ctx]|e0|p|] eqn:Ea; try discriminate.
  intros H. injection H as <-. exists d. split; [reflexivity|]. eapply attach_error_on_directive. exact Ea.
Qed.

Section L.
  Variable prog : list (string * stmt).
  Variable nl ws : cond.
  Variable fs : fsmap.
  Variable olen : bytes -> okind -> Z -> olen_res.
  Variable init_st : state.

  (* where an error of JApiCore.next sits *)
  Definition next_error_place (st : cstate) (l : lexeme) (e : cerr) : Prop :=
    (e_file e = cs_file st /\ e_index e = lb l /\ e_trace e = []) \/
    (exists d, cs_cur st = Some d /\ on_directive e d) \/
    (e_file e = cs_file st /\ e_index e = c_cur (cs_conf st) - 1 /\ e_trace e = []).

  Theorem core_next_error_place st l e : core_next st l = CErr e -> next_error_place st l e.
  Proof.
    unfold core_next, next_error_place.
    destruct (orphan_lexeme st l) as [r|] eqn:Eo.
    { unfold orphan_lexeme in Eo. destruct (cs_cur st); [discriminate|].
      intros H. subst r. left.
      destruct (lk l); try discriminate; try (injection Eo as <-; repeat split; fail).
      destruct (lex_value st l); [injection Eo as <-; repeat split|discriminate]. }
    destruct (lk l).
    - unfold process_keyword. destruct (process_current st) as [s1|e1|p|] eqn:Ep; try discriminate.
      + destruct (process_current_frame _ _ Ep) as [[F1 _] _].
        destruct (lex_value s1 l) as [kw|]; [|discriminate].
        destruct (negb _ && beq kw jsight_kw)%bool.
        * intros H. injection H as <-. left. cbn. rewrite F1. repeat split.
        * destruct (new_directive_type kw) as [k|].
          -- destruct (directive_tracer s1). discriminate.
          -- intros H. injection H as <-. left. cbn. rewrite F1. repeat split.
      + intros H. injection H as <-. right. left. apply process_current_error. exact Ep.
    - unfold process_parameter. destruct (cs_cur st) as [d|]; [|discriminate].
      destruct (lex_value st l) as [v|]; [|discriminate].
      destruct (append_parameter d v) as [d'|m]; [discriminate|].
      intros H. injection H as <-. left. repeat split.
    - unfold process_annotation. destruct (cs_cur st) as [d|]; [|discriminate].
      destruct (lex_value st l); discriminate.
    - unfold process_body. destruct (cs_cur st); discriminate.
    - unfold process_body. destruct (cs_cur st); discriminate.
    - unfold process_body. destruct (cs_cur st); discriminate.
    - unfold process_context_begin. destruct (cs_cur st); discriminate.
    - unfold process_context_end. destruct (process_current st) as [s1|e1|p|] eqn:Ep; try discriminate.
      + destruct (process_current_frame _ _ Ep) as [[F1 [_ [_ F4]]] _].
        destruct (close_explicit _ _ _); [discriminate|].
        intros H. injection H as <-. right. right. cbn. rewrite F1, F4. repeat split.
      + intros H. injection H as <-. right. left. apply process_current_error. exact Ep.
    - unfold process_body. destruct (cs_cur st); discriminate.
  Qed.

  (* the coarse statement, for the whole scanning phase *)
  Definition located (st : cstate) (e : cerr) : Prop :=
    e_file e = cs_file st \/ exists d, cs_cur st = Some d /\ e_file e = co_file (d_kw d) /\ e_index e = co_begin (d_kw d).

  Lemma with_live_trace_file st e : e_file (with_live_trace st e) = e_file e /\ e_index (with_live_trace st e) = e_index e.
  Proof. unfold with_live_trace. destruct (e_trace e); split; reflexivity. Qed.

  Lemma located_traced st st' e : located st e -> located st (with_live_trace st' e).
  Proof.
    destruct (with_live_trace_file st' e) as [F I]. unfold located. rewrite F, I. auto.
  Qed.

  Lemma scan_error_file st e0 : e_file (scan_error st e0) = cs_file st.
  Proof. destruct e0; reflexivity. Qed.

  Lemma process_eof_error st e : process_eof st = CErr e -> located st e.
  Proof.
    unfold process_eof. destruct (process_current st) as [s1|e1|p|] eqn:Ep; try discriminate.
    - destruct (process_current_frame _ _ Ep) as [[F1 _] _].
      destruct (has_unclosed _ _ _); [|discriminate]. intros H. injection H as <-. left. cbn. exact F1.
    - intros H. injection H as <-. destruct (process_current_error _ _ Ep) as [d [Hc [O1 [O2 _]]]].
      right. exists d. auto.
  Qed.

  Lemma process_include_error st kw e st2 :
    process_include prog nl ws fs olen init_st st kw = (CErr e, st2) ->
    cs_file st2 = cs_file st /\ e_file e = cs_file st.
  Proof.
    unfold process_include.
    destruct (scan_next prog nl ws olen st) as [[ol cf]|e0|p0|]; try discriminate.
    2:{ intros H. injection H as <- <-. split; [reflexivity|apply scan_error_file]. }
    destruct ol as [pl|]; [|intros H; injection H as <- <-; split; reflexivity].
    destruct (lk pl); try (intros H; injection H as <- <-; split; reflexivity).
    destruct (lex_value (set_conf st cf) pl) as [raw|]; [|discriminate].
    destruct (beq (unquote raw) []); [intros H; injection H as <- <-; split; reflexivity|].
    destruct (validate_include IncludeName.include_checks (unquote raw)) as [[m|]|]; try discriminate.
    { intros H. injection H as <- <-. split; reflexivity. }
    cbn zeta.
    match goal with |- context [stat_path fs ?p] => destruct (stat_path fs p) as [content| | |] end;
      try (intros H; injection H as <- <-; split; reflexivity).
    match goal with |- (if ?c then _ else _) = _ -> _ => destruct c end; [|discriminate].
    intros H. injection H as <- <-. split; reflexivity.
  Qed.

  Theorem scan_phase_errors_are_located :
    forall fuel st e stx,
      scan_project prog nl ws fs olen init_st fuel st = SErr e stx -> located stx e.
  Proof.
    induction fuel as [|fuel IH]; intros st e stx H; cbn [scan_project] in H; [discriminate|].
    destruct (scan_next prog nl ws olen st) as [[[l|] cf]|e0|p0|] eqn:Es; try discriminate.
    - destruct (is_include (set_conf st cf) l).
      + destruct (process_include prog nl ws fs olen init_st (set_conf st cf) l) as [[sI|e1|p1|] st2] eqn:Ei; try discriminate.
        * eapply IH. exact H.
        * injection H as <- <-. destruct (process_include_error _ _ _ _ Ei) as [F1 F2].
          apply located_traced. left. congruence.
      + unfold lift in H. destruct (core_next (set_conf st cf) l) as [s1|e1|p1|] eqn:En; try discriminate.
        * eapply IH. exact H.
        * injection H as <- <-. apply located_traced.
          destruct (core_next_error_place _ _ _ En) as [[F _]|[[d [Hc [O1 [O2 _]]]]|[F _]]].
          -- left. exact F.
          -- right. exists d. auto.
          -- left. exact F.
    - unfold lift in H. destruct (process_eof (set_conf st cf)) as [s1|e1|p1|] eqn:Ee; try discriminate.
      + destruct (cs_stack s1) as [|it rest]; [discriminate|]. eapply IH. exact H.
      + injection H as <- <-. apply located_traced. apply process_eof_error. exact Ee.
    - injection H as <- <-. apply located_traced. left. apply scan_error_file.
  Qed.
End L.

(* both kinds of location occur *)
From JS Require ScannerProg.
Definition el_root := bytes_of_string "root.jst".
Definition el_ctx_doc := bytes_of_string "JSIGHT 0.3
Body any
GET /a
".
Definition el_par_doc := bytes_of_string "JSIGHT 0.3 0.4
".
Definition el_run (doc : bytes) :=
  scan_project ScannerProg.prog_table ScannerProg.is_newline_cond ScannerProg.is_whitespace_cond
               [(el_root, FFile doc)] (fun _ _ _ => OLen 0) ScannerProg.initial_state 100
               (initial_cstate ScannerProg.initial_state el_root doc).

Example located_nonvacuous :
  (exists e stx d, el_run el_ctx_doc = SErr e stx /\ cs_cur stx = Some d /\ e_index e = 11 /\ co_begin (d_kw d) = 11) /\
  (exists e stx, el_run el_par_doc = SErr e stx /\ e_file e = cs_file stx /\ e_index e = 11).
Proof.
  split.
  - do 3 eexists. split; [vm_compute; reflexivity|]. split; [vm_compute; reflexivity|]. split; vm_compute; reflexivity.
  - do 2 eexists. split; [vm_compute; reflexivity|]. split; vm_compute; reflexivity.
Qed.
