(* ListAux.v — small list facts missing from the 8.16 standard library. *)
From Coq Require Import List Arith Lia.
Import ListNotations.

Lemma nth_error_firstn_lt {A} : forall n (l : list A) k, k < n -> nth_error (firstn n l) k = nth_error l k.
Proof.
  induction n as [|n IH]; intros l k H; [lia|].
  destruct l as [|x l]; [destruct k; reflexivity|].
  destruct k as [|k]; [reflexivity|]. cbn. apply IH. lia.
Qed.

Lemma nth_error_skipn' {A} : forall i (l : list A) k, nth_error (skipn i l) k = nth_error l (i + k).
Proof.
  induction i as [|i IH]; intros l k; [reflexivity|].
  destruct l as [|x l]; [destruct k; reflexivity|]. cbn. apply IH.
Qed.

Lemma In_firstn {A} : forall n (l : list A) x, In x (firstn n l) -> In x l.
Proof.
  induction n as [|n IH]; intros l x H; [destruct H|].
  destruct l as [|y l]; [destruct H|]. cbn in H. destruct H as [->|H]; [left; reflexivity|right; auto].
Qed.

Lemma NoDup_app_one {A} (l : list A) x : NoDup l -> ~ In x l -> NoDup (l ++ [x]).
Proof.
  induction l as [|y l IH]; intros ND H; cbn.
  - constructor; [intros []|constructor].
  - inversion ND as [|? ? Hy ND']; subst. constructor.
    + intros Hin. apply in_app_or in Hin as [Hin|[<-|[]]]; [contradiction|]. apply H. left; reflexivity.
    + apply IH; auto. intros Hx. apply H. right; exact Hx.
Qed.
