(* C19Proofs.v — banned directives: what the pre-order ban check guarantees on the expanded
   forest, and the refutation for kinds that never reach it (INCLUDE, MACRO, PASTE, bodies of
   unused macros). *)
From JS Require Import Base Bytes Scanner Directive Core Expand Entry Ban.
From JS Require DirectiveTables ScannerProg.
Open Scope Z_scope.

(* a banned kind anywhere in the expanded forest is found, and it is the first one in
   document (pre-)order *)
Theorem ban_finds_first :
  forall fuel banned forest d,
    In d (preorder fuel forest) -> is_banned banned d = true ->
    exists d0 before after,
      first_banned fuel banned forest = Some d0 /\ is_banned banned d0 = true /\
      preorder fuel forest = before ++ d0 :: after /\
      forallb (fun x => negb (is_banned banned x)) before = true.
Proof.
  intros fuel banned forest d Hin Hb. unfold first_banned.
  induction (preorder fuel forest) as [|x l IH]; [destruct Hin|].
  cbn [List.find]. destruct (is_banned banned x) eqn:E.
  - exists x, [], l. repeat split; auto.
  - destruct Hin as [->|Hin]; [congruence|].
    destruct (IH Hin) as [d0 [before [after [F [B [P A]]]]]].
    exists d0, (x :: before), after. rewrite F, P. repeat split; auto.
    cbn [forallb]. rewrite E, A. reflexivity.
Qed.

(* no banned kind in the expanded forest: the option changes nothing *)
Theorem ban_neutral :
  forall fuel banned forest,
    forallb (fun d => negb (is_banned banned d)) (preorder fuel forest) = true ->
    first_banned fuel banned forest = None.
Proof.
  intros fuel banned forest H. unfold first_banned.
  induction (preorder fuel forest) as [|x l IH]; [reflexivity|].
  cbn [forallb] in H. apply andb_prop in H as [Hx Hl]. cbn [List.find].
  apply negb_true_iff in Hx. rewrite Hx. auto.
Qed.

(* ------------------------------------------------------------------------------------ *)
(* FULL STATEMENT (false of the current code): every project in which a banned directive
   occurs is rejected.  Refuted (finding F18): INCLUDE is consumed while scanning, MACRO
   nodes are removed and PASTE nodes replaced before the ban is consulted, and the body of a
   macro that is never pasted is never visited. *)
Definition f18_root : bytes := bytes_of_string "JSIGHT 0.3
INCLUDE a.jst
MACRO @used
(
  200 any
)
MACRO @unused
(
  Request any
)
GET /a
  PASTE @used
".
Definition f18_piece : bytes := bytes_of_string "TAG @t
".

Definition expanded_of (r : tree_result) : list rdir :=
  match r with TScanned _ _ (T2Ok _ _ ex _ _) => ex | _ => [] end.

Fixpoint rpreorder (fuel : nat) (ds : list rdir) : list rdir :=
  match fuel with
  | O => []
  | S f => flat_map (fun d => d :: rpreorder f (rd_children d)) ds
  end.

Definition rn := bytes_of_string "root.jst".

Definition f18_kinds : list N :=
  List.map rd_kind (rpreorder 10 (expanded_of
    (tree_case [(rn, FFile f18_root); (bytes_of_string "a.jst", FFile f18_piece)] rn [] [] 1000))).

(* the project is accepted by the scan and macro phases, contains INCLUDE, MACRO, PASTE and
   (inside an unused macro) Request, yet none of these four kinds is in the forest the ban
   check walks *)
Theorem ban_not_consulted_refuted :
  f18_kinds <> [] /\
  forallb (fun k => negb (existsb (N.eqb k)
     [DirectiveTables.dir_Include; DirectiveTables.dir_Macro; DirectiveTables.dir_Paste;
      DirectiveTables.dir_Request])) f18_kinds = true.
Proof. split; vm_compute; [discriminate|reflexivity]. Qed.
