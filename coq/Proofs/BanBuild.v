(* BanBuild.v — the banned-directives option through the WHOLE catalog build of the model
   (collectTags, the rule passes, addDirectives, validateCatalog), for every forest, every ban
   list, every catalog state and every body text:
     - no banned kind anywhere in the forest  ->  the build is the build without the option;
     - a banned kind somewhere in the forest  ->  the build is refused: with the not-allowed
       error on a banned directive of the forest, unless the build fails in the same way with and
       without the option (another error comes first). *)
From JS Require Import Base Bytes Scanner Directive Core Expand Catalog Ban.
From JS Require DirectiveTables ErrConsts.
Open Scope Z_scope.

(* no directive of the tree has a banned kind *)
Fixpoint unbanned (banned : list N) (d : dir) : bool :=
  match d with
  | mkDir k _ _ _ _ _ _ _ _ cs =>
      negb (existsb (N.eqb k) banned) &&
      (fix go (l : list dir) : bool := match l with [] => true | x :: r => unbanned banned x && go r end) cs
  end.

Fixpoint all_unbanned (banned : list N) (l : list dir) : bool :=
  match l with [] => true | x :: r => unbanned banned x && all_unbanned banned r end.

Lemma unbanned_unfold banned d :
  unbanned banned d = negb (is_banned banned d) && all_unbanned banned (d_children d).
Proof.
  destruct d as [k kw co nm un an bo ex tr cs]. cbn [unbanned d_children]. unfold is_banned. cbn [d_kind].
  f_equal. induction cs as [|x r IH]; [reflexivity|]. cbn [all_unbanned]. rewrite <- IH. reflexivity.
Qed.

(* d0 is d or a descendant of d *)
Inductive within (d0 : dir) : dir -> Prop :=
| within_here : within d0 d0
| within_child : forall x d, In x (d_children d) -> within d0 x -> within d0 d.

Definition within_forest (d0 : dir) (forest : list dir) : Prop := exists r, In r forest /\ within d0 r.

Definition not_allowed (d : dir) : cres catalog :=
  kerr d (mkMsg "%s (%s)" [str ErrConsts.jerr_DirectiveNotAllowed; kind_name (d_kind d)]).

Definition is_ok {A} (r : cres A) : bool := match r with COk _ => true | _ => false end.

Lemma add_directive_banned banned c d anc :
  is_banned banned d = true -> add_directive banned c d anc = not_allowed d.
Proof. intros H. unfold is_banned in H. unfold add_directive. cbv zeta. rewrite H. reflexivity. Qed.

Lemma add_directive_neutral banned c d anc :
  is_banned banned d = false -> add_directive banned c d anc = add_directive [] c d anc.
Proof. intros H. unfold is_banned in H. unfold add_directive. cbv zeta. rewrite H. reflexivity. Qed.

Section B.
  Variable read_body : coords -> bytes.
  Variable banned : list N.

  (* the refusal, or the same failure with and without the option *)
  Definition refused (scope : dir -> Prop) (r r0 : cres catalog) : Prop :=
    (exists d0, is_banned banned d0 = true /\ scope d0 /\ r = not_allowed d0) \/
    (r = r0 /\ is_ok r0 = false).

  Definition go_children (bn : list N) (fuel : nat) (d : dir) (anc : list dir) :=
    fix go (c : catalog) (cs : list dir) : cres catalog :=
      match cs with
      | [] => COk c
      | x :: rest =>
          match add_branch read_body bn fuel c x (d :: anc) with
          | COk c' => go c' rest
          | o => o
          end
      end.

  Definition head (bn : list N) (c : catalog) (d : dir) (anc : list dir) : cres catalog :=
    if existsb (N.eqb (d_kind d)) bn then add_directive bn c d anc
    else if N.eqb (d_kind d) DirectiveTables.dir_Description
         then add_description c d anc (match d_body d with Some b => read_body b | None => [] end)
         else add_directive bn c d anc.

  Lemma add_branch_S bn fuel c d anc :
    add_branch read_body bn (S fuel) c d anc =
    match head bn c d anc with
    | COk c1 => go_children bn fuel d anc c1 (d_children d)
    | _ => head bn c d anc
    end.
  Proof. reflexivity. Qed.

  Lemma head_neutral c d anc : is_banned banned d = false -> head banned c d anc = head [] c d anc.
  Proof.
    intros H. unfold head. unfold is_banned in H. rewrite H. cbn [existsb].
    destruct (N.eqb (d_kind d) DirectiveTables.dir_Description); [reflexivity|].
    apply add_directive_neutral. exact H.
  Qed.

  Lemma head_banned c d anc : is_banned banned d = true -> head banned c d anc = not_allowed d.
  Proof. intros H. unfold head. unfold is_banned in H. rewrite H. apply add_directive_banned. exact H. Qed.

  Lemma branch_both :
    forall fuel c d anc,
      (unbanned banned d = true ->
       add_branch read_body banned fuel c d anc = add_branch read_body [] fuel c d anc) /\
      (unbanned banned d = false ->
       refused (fun d0 => within d0 d) (add_branch read_body banned fuel c d anc) (add_branch read_body [] fuel c d anc)).
  Proof.
    induction fuel as [|fuel IH]; intros c d anc.
    - split; intros _; [reflexivity|]. right. split; reflexivity.
    - rewrite !add_branch_S. rewrite unbanned_unfold.
      destruct (is_banned banned d) eqn:Eb; cbn [negb andb].
      + split; [discriminate|]. intros _. left. exists d. split; [exact Eb|]. split; [constructor|].
        rewrite head_banned by exact Eb. reflexivity.
      + rewrite head_neutral by exact Eb.
        destruct (head [] c d anc) as [c1|e|p|] eqn:Eh;
          try (split; intros _; [reflexivity|]; right; split; reflexivity).
        (* the children *)
        assert (K : forall cs c1, (forall x, In x cs -> In x (d_children d)) ->
                  (all_unbanned banned cs = true ->
                   go_children banned fuel d anc c1 cs = go_children [] fuel d anc c1 cs) /\
                  (all_unbanned banned cs = false ->
                   refused (fun d0 => within d0 d) (go_children banned fuel d anc c1 cs) (go_children [] fuel d anc c1 cs))).
        { clear c1 Eh. induction cs as [|x rest IHc]; intros c1 Hsub.
          - split; [reflexivity|discriminate].
          - cbn [all_unbanned go_children].
            destruct (IH c1 x (d :: anc)) as [Hn Hr].
            assert (Hrest : forall y, In y rest -> In y (d_children d)) by (intros y Hy; apply Hsub; right; exact Hy).
            destruct (unbanned banned x) eqn:Ex; cbn [andb].
            + rewrite (Hn eq_refl).
              destruct (add_branch read_body [] fuel c1 x (d :: anc)) as [c2|e|p|] eqn:Ea;
                try (split; intros _; [reflexivity|]; right; split; reflexivity).
              exact (IHc c2 Hrest).
            + split; [discriminate|]. intros _.
              destruct (Hr eq_refl) as [[d0 [B [W E]]]|[E N]].
              * left. exists d0. split; [exact B|]. split.
                -- eapply within_child; [apply Hsub; left; reflexivity|exact W].
                -- rewrite E. reflexivity.
              * right. rewrite E.
                destruct (add_branch read_body [] fuel c1 x (d :: anc)) as [c2|e|p|]; [discriminate| | |];
                  split; reflexivity. }
        exact (K (d_children d) c1 (fun x H => H)).
  Qed.

  Lemma add_all_both :
    forall fuel ds c,
      (all_unbanned banned ds = true ->
       add_all read_body banned fuel c ds = add_all read_body [] fuel c ds) /\
      (all_unbanned banned ds = false ->
       refused (fun d0 => within_forest d0 ds) (add_all read_body banned fuel c ds) (add_all read_body [] fuel c ds)).
  Proof.
    intros fuel. induction ds as [|x rest IH]; intros c.
    - split; [reflexivity|discriminate].
    - cbn [all_unbanned add_all].
      destruct (branch_both fuel c x []) as [Hn Hr].
      destruct (unbanned banned x) eqn:Ex; cbn [andb].
      + rewrite (Hn eq_refl).
        destruct (add_branch read_body [] fuel c x []) as [c2|e|p|] eqn:Ea;
          try (split; intros _; [reflexivity|]; right; split; reflexivity).
        destruct (IH c2) as [In' Ir]. split; [exact In'|].
        intros H. destruct (Ir H) as [[d0 [B [[r [Hin W]] E]]]|[E N]].
        * left. exists d0. split; [exact B|]. split; [exists r; split; [right; exact Hin|exact W]|exact E].
        * right. split; assumption.
      + split; [discriminate|]. intros _.
        destruct (Hr eq_refl) as [[d0 [B [W E]]]|[E N]].
        * left. exists d0. split; [exact B|]. split; [exists x; split; [left; reflexivity|exact W]|].
          rewrite E. reflexivity.
        * right. rewrite E.
          destruct (add_branch read_body [] fuel c x []) as [c2|e|p|]; [discriminate| | |]; split; reflexivity.
  Qed.

  (* ---------------------------------------------------------------------------------- *)
  (* the whole build *)

  Theorem build_neutral_when_no_banned_kind_occurs :
    forall fuel forest,
      all_unbanned banned forest = true ->
      build_catalog read_body banned fuel forest = build_catalog read_body [] fuel forest.
  Proof.
    intros fuel forest H. unfold build_catalog.
    destruct (collect_tags empty_catalog forest) as [c0|e|p|]; try reflexivity.
    destruct (add_all_both fuel forest c0) as [Hn _]. rewrite (Hn H). reflexivity.
  Qed.

  Theorem build_refuses_a_banned_kind :
    forall fuel forest,
      all_unbanned banned forest = false ->
      refused (fun d0 => within_forest d0 forest)
              (build_catalog read_body banned fuel forest) (build_catalog read_body [] fuel forest).
  Proof.
    intros fuel forest H. unfold build_catalog.
    destruct (collect_tags empty_catalog forest) as [c0|e|p|]; try (right; split; reflexivity).
    destruct (dup_type_error [] forest); [right; split; reflexivity|].
    destruct (type_without_body forest); [right; split; reflexivity|].
    destruct (collect_paths fuel forest [] None); [|right; split; reflexivity].
    destruct (missed_path_errors forest); [right; split; reflexivity|].
    match goal with |- context [if ?b then _ else _] => destruct b end.
    - destruct forest as [|d rest]; [discriminate H|]. right. split; reflexivity.
    - destruct (add_all_both fuel forest c0) as [_ Hr].
      destruct (Hr H) as [[d0 [B [W E]]]|[E N]].
      + left. exists d0. split; [exact B|]. split; [exact W|]. rewrite E. reflexivity.
      + right. rewrite E.
        destruct (add_all read_body [] fuel c0 forest) as [c2|e|p|]; [discriminate| | |]; split; reflexivity.
  Qed.

  (* corollary: an accepted build contains no banned kind at all *)
  Corollary accepted_build_has_no_banned_kind :
    forall fuel forest c,
      build_catalog read_body banned fuel forest = COk c -> all_unbanned banned forest = true.
  Proof.
    intros fuel forest c H. destruct (all_unbanned banned forest) eqn:E; [reflexivity|exfalso].
    destruct (build_refuses_a_banned_kind fuel forest E) as [[d0 [_ [_ E1]]]|[E1 N]].
    - rewrite E1 in H. discriminate.
    - rewrite E1 in H. rewrite H in N. discriminate.
  Qed.
End B.

(* the hypotheses are met: a forest with a banned response code below a method *)
Definition bb_r := mkDir DirectiveTables.dir_HTTPResponseCode (str "200") (mkCoords 0 10 13) [] [] [] None false [] [].
Definition bb_get := mkDir DirectiveTables.dir_Get (str "GET") (mkCoords 0 0 3) [] [] [] None false [] [bb_r].
Example bb_nonvacuous :
  all_unbanned [DirectiveTables.dir_HTTPResponseCode] [bb_get] = false /\
  all_unbanned [DirectiveTables.dir_TAG] [bb_get] = true /\ within bb_r bb_get.
Proof. split; [reflexivity|]. split; [reflexivity|]. eapply within_child; [left; reflexivity|constructor]. Qed.
