(* Extract.v — OCaml extraction of the executable model (ExtrOcamlBasic only; N, Z, nat,
   string keep their Coq datatypes). *)
Require Extraction.
Require ExtrOcamlBasic.
From JS Require Import Base Bytes Scanner ScanRun Directive Core Expand Entry Lazy OpenApi.
From JS Require DirectiveTables.
Extraction Blacklist String List Nat Bool.
Extraction "model.ml" scan_case state_name bytes_of_string tree_case tree_case_b DirectiveTables.dir_keywords lazy_case to_openapi placed_case.
