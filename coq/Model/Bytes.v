(* Bytes.v — the byte helpers of jsight-schema-core/bytes and jerr/utils.go that this
   repository calls, modelled as total functions on [list N] (tie B: compared with the
   real functions on generated and corpus byte strings).  No proofs here. *)
From JS Require Import Base.
From Coq Require Import Ascii.
Open Scope N_scope.

Definition bytes_of_string (s : string) : bytes :=
  List.map (fun a => N_of_ascii a) (list_ascii_of_string s).

Definition beq (a b : bytes) : bool := N_eqb_list a b.

Fixpoint is_prefix (p s : bytes) : bool :=
  match p, s with
  | [], _ => true
  | x :: p', y :: s' => N.eqb x y && is_prefix p' s'
  | _ :: _, [] => false
  end.

Fixpoint contains (w s : bytes) : bool :=
  is_prefix w s ||
  match s with
  | [] => false
  | _ :: s' => contains w s'
  end.

Definition is_suffix (w s : bytes) : bool := is_prefix (rev w) (rev s).

Definition is_digit (c : N) : bool := (48 <=? c) && (c <=? 57).

(* bytes.IsValidUserTypeNameByte *)
Definition is_utn_byte (c : N) : bool :=
  (c =? 45) || (c =? 95) || ((97 <=? c) && (c <=? 122)) || ((65 <=? c) && (c <=? 90)) || is_digit c.

(* Bytes.IsUserTypeName *)
Definition is_user_type_name (b : bytes) : bool :=
  match b with
  | 64 :: (_ :: _) as rest => forallb is_utn_byte rest
  | _ => false
  end.

(* Bytes.InQuotes *)
Definition in_quotes (b : bytes) : bool :=
  match b with
  | 34 :: rest => match rev rest with 34 :: _ => true | _ => false end
  | _ => false
  end.

(* unquoteBytes restricted to the escapes that have a single-byte image; \u escapes are
   outside the model's domain (the scanner never lets one through) and yield None, as do
   the failures of the real function (bare quote, control byte, dangling backslash).
   Bytes >= 0x80 are copied: the domain is valid UTF-8. *)
Definition escape_image (e : N) : option N :=
  if (e =? 34) || (e =? 92) || (e =? 47) || (e =? 39) then Some e
  else if e =? 98 then Some 8
  else if e =? 102 then Some 12
  else if e =? 110 then Some 10
  else if e =? 114 then Some 13
  else if e =? 116 then Some 9
  else None.

Fixpoint unquote_body (s : bytes) : option bytes :=
  match s with
  | [] => Some []
  | c :: rest =>
      if c =? 92 then
        match rest with
        | [] => None
        | e :: rest' =>
            match escape_image e, unquote_body rest' with
            | Some x, Some t => Some (x :: t)
            | _, _ => None
            end
        end
      else if (c =? 34) || (c <? 32) then None
      else match unquote_body rest with Some t => Some (c :: t) | None => None end
  end.

Definition unquote (b : bytes) : bytes :=
  if in_quotes b then
    match unquote_body (removelast (tl b)) with
    | Some t => t
    | None => b
    end
  else b.

(* Bytes.TrimSquareBrackets *)
Definition trim_square_brackets (b : bytes) : bytes :=
  match b with
  | 91 :: (_ :: _) as rest =>
      match rev rest with
      | 93 :: _ => removelast rest
      | _ => b
      end
  | _ => b
  end.

(* the prefix of [s] up to (not including) the first LF or CR *)
Fixpoint to_end_of_line (s : bytes) : bytes :=
  match s with
  | [] => []
  | c :: rest => if (c =? 10) || (c =? 13) then [] else c :: to_end_of_line rest
  end.

Fixpoint skipn_N (n : nat) (s : bytes) : bytes :=
  match n, s with
  | O, _ => s
  | S n', _ :: s' => skipn_N n' s'
  | S _, [] => []
  end.

(* data[lo:hi) *)
Definition sub (data : bytes) (lo hi : Z) : bytes :=
  firstn (Z.to_nat (hi - lo)) (skipn (Z.to_nat lo) data).

Definition byte_at (data : bytes) (i : Z) : option N :=
  if (i <? 0)%Z then None else nth_error data (Z.to_nat i).
