(* Tokens.v — the token-level view of the directive layer: a document is a sequence of
   complete directives and closing parentheses; building the forest is a fold of the very
   functions the lexeme-level model uses (Core.attach, close_explicit, has_unclosed).
   Also the declarative placement specification of C11.  No proofs here. *)
From JS Require Import Base Bytes Scanner Directive Core.
From JS Require DirectiveTables.
Open Scope Z_scope.

Inductive tok := TDir (d : dir) | TClose.

Inductive tres :=
| TOk (f : list dir) (ctx : option path)
| TErr (e : cerr)
| TNothingToClose
| TUnclosed
| TPanicT
| TFuelT.

Fixpoint build_tokens (ts : list tok) (f : list dir) (ctx : option path) : tres :=
  match ts with
  | [] => if has_unclosed (attach_fuel ctx) f ctx then TUnclosed else TOk f ctx
  | TDir d :: r =>
      match attach (attach_fuel ctx) f ctx d with
      | COk (f', ctx') => build_tokens r f' ctx'
      | CErr e => TErr e
      | CPanic _ => TPanicT
      | CFuel => TFuelT
      end
  | TClose :: r =>
      match close_explicit (attach_fuel ctx) f ctx with
      | Some ctx' => build_tokens r f ctx'
      | None => TNothingToClose
      end
  end.

(* ------------------------------------------------------------------------------------ *)
(* declarative placement *)

(* the open directives from the innermost one outwards *)
Fixpoint chain (fuel : nat) (f : list dir) (ctx : option path) : list dir :=
  match fuel with
  | O => []
  | S k =>
      match ctx with
      | None => []
      | Some p =>
          match node_at f p with
          | Some d => d :: chain k f (parent_path p)
          | None => []
          end
      end
  end.

Inductive placement :=
| PRoot                    (* becomes a root; every open context is closed silently *)
| PChildOf (depth : nat)   (* child of the depth-th open directive, counted from the innermost *)
| PNewRoot (depth : nat)   (* HTTP method with its own path under the implicit URL at [depth]: a new root *)
| PReject                  (* incorrect context *)
| PRejectPath.             (* incorrect context ... with the "Path" parameter *)

Definition method_with_path (d : dir) : bool :=
  is_http_request_method (d_kind d) && negb (beq (named d KPath) []).

(* the nearest enclosing open directive that admits [d], provided every directive inside it
   is implicit *)
Fixpoint place (ch : list dir) (d : dir) (depth : nat) : placement :=
  match ch with
  | [] => if is_allowed_for_root (d_kind d) then PRoot else PReject
  | c :: rest =>
      if is_allowed_in (d_kind c) (d_kind d) then
        if method_with_path d && N.eqb (d_kind c) DirectiveTables.dir_URL
        then (if d_explicit c then PRejectPath else PNewRoot depth)
        else PChildOf depth
      else if d_explicit c then PReject
      else place rest d (S depth)
  end.

Fixpoint ancestor (p : option path) (n : nat) : option path :=
  match n with
  | O => p
  | S k => match p with Some q => ancestor (parent_path q) k | None => None end
  end.

(* what a placement means for the forest *)
Definition apply_placement (f : list dir) (ctx : option path) (d : dir) (pl : placement)
  : cres (list dir * option path) :=
  match pl with
  | PRoot | PNewRoot _ => COk (f ++ [d], Some [List.length f])
  | PChildOf n =>
      match ancestor ctx n with
      | Some p => let '(f', idx) := append_child f p d in COk (f', Some (p ++ [idx]))
      | None => CPanic (CPOther "context path does not exist")
      end
  | PReject => CErr (incorrect_context d)
  | PRejectPath => CErr (incorrect_context_path d)
  end.

(* ')' closes the innermost explicit open directive: the new context is its parent *)
Fixpoint close_place (ch : list dir) (depth : nat) : option nat :=
  match ch with
  | [] => None
  | c :: rest => if d_explicit c then Some depth else close_place rest (S depth)
  end.
