(* Lazy.v — the lazily computed part of a built catalog and the five accessors of kit.JApi
   (C16).  A built catalog lists its exchange schemas in serialisation order; each has a cell:
     JSight schema: sync.Once around buildContent+processAllOf, the outcome is kept
                    (catalog/exchange_schema_jsight.go Compile);
     regex schema:  sync.Once around the example generator (exchange_schema_regex.go exampleOnce);
     pseudo schema (any/empty): nothing.
   What the schema dependency answers is an oracle fixed by the build: whether the lazy
   compilation of schema i fails.  The bytes an accessor returns are a function of the (immutable)
   catalog and of these answers, so a result is represented by WHICH function it is:
   the marshalled catalog, or the error of the first failing schema.
   The semantics is parametrised by two switches so that the behaviour before the repairs
   (F9': the error was reported by the first call only; F16: no example cache) can be stated and
   refuted; [current] is what /repo does now and what the correspondence checks.
   No proofs here. *)
From Coq Require Import List Bool Arith.
Import ListNotations.

Inductive skind := KJsight | KRegex | KPseudo.
Record sdesc := mkSdesc { sd_kind : skind; sd_fails : bool }.

(* lazy cell: not computed / computed / computed with a failure *)
Inductive cell := LzNone | LzDone | LzErr.
(* regex generator position (number of draws so far), per schema *)
Record lstate := mkL { l_cell : cell; l_draws : nat }.

Inductive acc := AJ | AJI | AO | AOI | AT.

(* what a call returns *)
Inductive result :=
| RJson (indent : bool) (examples : list nat)   (* the catalog, with the draw number of every regex example *)
| RJsonNull (indent : bool) (examples : list nat) (nulls : list nat) (* old behaviour: "content": null for these schemas *)
| RErrAt (i : nat)                               (* marshalling schema i failed *)
| ROpenApi (indent : bool)
| RTitle.

Record sem := mkSem { keep_error : bool; cache_example : bool }.
Definition current : sem := mkSem true true.

Section Sem.
  Variable sm : sem.

  (* MarshalJSON of schema [d] in state [l]: new state, and error / example draw / null flag *)
  Definition marshal_one (d : sdesc) (l : lstate) : lstate * (bool (*err*) * option nat (*draw*) * bool (*null content*)) :=
    match sd_kind d with
    | KPseudo => (l, (false, None, false))
    | KJsight =>
        match l_cell l with
        | LzNone => if sd_fails d then (mkL LzErr (l_draws l), (true, None, false))
                   else (mkL LzDone (l_draws l), (false, None, false))
        | LzDone => (l, (false, None, false))
        | LzErr => if keep_error sm then (l, (true, None, false)) else (l, (false, None, true))
        end
    | KRegex =>
        match l_cell l with
        | LzNone => (mkL (if cache_example sm then LzDone else LzNone) (S (l_draws l)), (false, Some (l_draws l), false))
        | _ => (l, (false, Some (l_draws l - 1), false))
        end
    end.

  (* json.Marshal of the catalog: schemas in order, stop at the first failure *)
  Fixpoint marshal_all (i : nat) (ds : list sdesc) (st : list lstate) (ex nulls : list nat)
    : list lstate * (option nat * list nat * list nat) :=
    match ds, st with
    | d :: ds', l :: st' =>
        let '(l', (err, draw, null)) := marshal_one d l in
        if err then (l' :: st', (Some i, ex, nulls))
        else
          let ex' := match draw with Some n => ex ++ [n] | None => ex end in
          let nulls' := if null then nulls ++ [i] else nulls in
          let '(rest, r) := marshal_all (S i) ds' st' ex' nulls' in
          (l' :: rest, r)
    | _, _ => (st, (None, ex, nulls))
    end.

  Definition call (ds : list sdesc) (st : list lstate) (a : acc) : list lstate * result :=
    match a with
    | AJ | AJI =>
        let ind := match a with AJI => true | _ => false end in
        let '(st', (err, ex, nulls)) := marshal_all 0 ds st [] [] in
        match err with
        | Some i => (st', RErrAt i)
        | None => (st', match nulls with [] => RJson ind ex | _ => RJsonNull ind ex nulls end)
        end
    | AO => (st, ROpenApi false)        (* the OpenAPI export reads the catalog and the dependency's schemas only *)
    | AOI => (st, ROpenApi true)
    | AT => (st, RTitle)
    end.

  Fixpoint run (ds : list sdesc) (st : list lstate) (h : list acc) : list lstate * list result :=
    match h with
    | [] => (st, [])
    | a :: h' =>
        let '(st1, r) := call ds st a in
        let '(st2, rs) := run ds st1 h' in
        (st2, r :: rs)
    end.
End Sem.

Definition fresh (ds : list sdesc) : list lstate := List.map (fun _ => mkL LzNone 0) ds.

(* the observable of the correspondence: after each call, the cells and the result *)
Fixpoint trace (sm : sem) (ds : list sdesc) (st : list lstate) (h : list acc) : list (list cell * result) :=
  match h with
  | [] => []
  | a :: h' =>
      let '(st1, r) := call sm ds st a in
      (List.map l_cell st1, r) :: trace sm ds st1 h'
  end.

Definition lazy_case (ds : list sdesc) (h : list acc) : list (list cell * result) :=
  trace current ds (fresh ds) h.
