(* Json.v — encoding/json's treatment of tagged struct fields (omitempty) and the two
   marshalers of catalog.ExchangeContent over the regenerated tag tables.  No proofs here. *)
From Coq Require Import List String Bool ZArith.
Import ListNotations.
Open Scope string_scope.
From JS Require JsonTags.

Inductive json :=
| JNull | JBool (b : bool) | JStr (s : string) | JNum (z : Z)
| JArr (l : list json) | JObj (fs : list (string * json)).

(* the values encoding/json omits under omitempty *)
Definition is_empty_value (j : json) : bool :=
  match j with
  | JNull | JBool false | JStr "" | JNum 0%Z | JArr [] => true
  | _ => false
  end.

Definition marshal_struct (fields : list (string * bool)) (value : string -> json) : json :=
  JObj (flat_map (fun f => let v := value (fst f) in
                           if snd f && is_empty_value v then [] else [(fst f, v)]) fields).

Definition struct_fields (name : string) : list (string * bool) :=
  match List.find (fun r => String.eqb (fst r) name) JsonTags.json_structs with
  | Some (_, fs) => fs
  | None => []
  end.

(* a DTO is identified by fields only it has, not by its Go name: the struct(s) of the regenerated
   tag table that carry ALL the anchor fields *)
Definition has_field (fs : list (string * bool)) (f : string) : bool := existsb (fun x => String.eqb (fst x) f) fs.
Definition structs_with (anchors : list string) : list (list (string * bool)) :=
  List.map snd (List.filter (fun r => forallb (has_field (snd r)) anchors) JsonTags.json_structs).
Definition the_struct_with (anchors : list string) : list (string * bool) :=
  match structs_with anchors with fs :: _ => fs | [] => [] end.

(* the two DTOs of ExchangeContent: containers carry children + optional, scalars scalarValue + optional *)
Definition obj_fields := the_struct_with ["children"; "optional"].
Definition lit_fields := the_struct_with ["scalarValue"; "optional"].

(* an ExchangeContent node: token type, scalar value, children, and the remaining fields as
   an arbitrary assignment of already marshalled values *)
Inductive content :=
| Node (token_type : string) (scalar : string) (children : list content) (other : string -> json).

Definition is_container (tk : string) : bool := String.eqb tk "object" || String.eqb tk "array".

Fixpoint marshal_content (c : content) : json :=
  match c with
  | Node tk scalar children other =>
      if is_container tk then
        marshal_struct obj_fields
          (fun f => if String.eqb f "children" then JArr (List.map marshal_content children)
                    else if String.eqb f "tokenType" then JStr tk else other f)
      else
        marshal_struct lit_fields
          (fun f => if String.eqb f "scalarValue" then JStr scalar
                    else if String.eqb f "tokenType" then JStr tk else other f)
  end.

Fixpoint lookup (fs : list (string * json)) (k : string) : option json :=
  match fs with
  | [] => None
  | (a, v) :: r => if String.eqb a k then Some v else lookup r k
  end.

(* typed consistently: containers carry children (all consistent) and no scalar value; other
   nodes carry a scalar value and no children.  [fuel] bounds the nesting depth looked at. *)
Fixpoint content_shape (fuel : nat) (j : json) : bool :=
  match fuel with
  | O => false
  | S fuel' =>
      match j with
      | JObj fs =>
          match lookup fs "tokenType" with
          | Some (JStr tk) =>
              if is_container tk then
                match lookup fs "children", lookup fs "scalarValue" with
                | Some (JArr l), None => forallb (content_shape fuel') l
                | _, _ => false
                end
              else
                match lookup fs "children", lookup fs "scalarValue" with
                | None, Some _ => true
                | _, _ => false
                end
          | _ => false
          end
      | _ => false
      end
  end.

Fixpoint cdepth (c : content) : nat :=
  match c with
  | Node _ _ children _ => S (fold_right (fun x acc => Nat.max (cdepth x) acc) O children)
  end.
