(* Directive.v — directive/enumeration.go and directive/http_response_code.go as total
   functions over the regenerated tables (tie B: compared with the real functions).
   No proofs here. *)
From JS Require Import Base Bytes Scanner.
From JS Require DirectiveTables.
Open Scope N_scope.

Definition digits_value (ds : bytes) : N :=
  fold_left (fun acc d => acc * 10 + (d - 48)) ds 0.

(* directive.IsHTTPResponseCode: strconv.Atoi succeeds, s[0] != '0', 100 <= code <= 599.
   Atoi accepts one leading sign; a negative or huge value is outside the range anyway. *)
Definition is_http_response_code (s : bytes) : bool :=
  match s with
  | [] => false
  | c0 :: rest =>
      let digits := if (c0 =? 43) || (c0 =? 45) then rest else s in
      match digits with
      | [] => false
      | _ =>
          forallb is_digit digits && negb (c0 =? 48) && negb (c0 =? 45) &&
          (100 <=? digits_value digits) && (digits_value digits <=? 599)
      end
  end.

Definition indexed_keywords : list (N * bytes) :=
  List.combine (List.map N.of_nat (List.seq 0 (List.length keyword_bytes))) keyword_bytes.

(* directive.NewDirectiveType *)
Definition new_directive_type (w : bytes) : option N :=
  match List.find (fun p => negb (N.eqb (fst p) DirectiveTables.dir_HTTPResponseCode) && beq w (snd p))
                  indexed_keywords with
  | Some (i, _) => Some i
  | None => if is_http_response_code w then Some DirectiveTables.dir_HTTPResponseCode else None
  end.

Definition mem_N (x : N) (l : list N) : bool := existsb (N.eqb x) l.

Definition is_http_request_method (k : N) : bool := mem_N k DirectiveTables.dir_http_methods.
Definition is_allowed_for_root (k : N) : bool := mem_N k DirectiveTables.dir_root_allowed.

(* Enumeration.IsAllowedForDirectiveContext: parent.Is…(child) *)
Definition is_allowed_in (parent child : N) : bool :=
  match List.find (fun p => N.eqb (fst p) parent) DirectiveTables.dir_context_table with
  | Some (_, cs) => mem_N child cs
  | None => false
  end.
