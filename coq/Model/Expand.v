(* Expand.v — compile_core_macro.go, compile_core_paste.go and compile_core_rules.go:
   MACRO collection, the (direct-only) recursion check, PASTE expansion by re-resolving the
   context of every copied directive, and ENUM rule registration.  No proofs here. *)
From JS Require Import Base Bytes Scanner Directive Core.
From JS Require DirectiveTables ErrConsts.
Open Scope Z_scope.

Definition macros := list (bytes * dir).

Fixpoint macro_lookup (ms : macros) (name : bytes) : option dir :=
  match ms with
  | [] => None
  | (n, d) :: rest => if beq n name then Some d else macro_lookup rest name
  end.

Definition required_name (d : dir) : cerr :=
  dir_error d (mkMsg "%s (%s)" [str ErrConsts.jerr_RequiredParameterNotSpecified; str "Name"]).

(* addMacro *)
Definition add_macro (ms : macros) (d : dir) : cres macros :=
  if negb (beq (d_annot d) []) then CErr (dir_error d (msg1 ErrConsts.jerr_AnnotationIsForbiddenForTheDirective))
  else
    let name := named d KName in
    if beq name [] then CErr (required_name d)
    else match d_children d with
         | [] => CErr (dir_error d (msg1 ErrConsts.jerr_MacroIsEmpty))
         | _ =>
             match macro_lookup ms name with
             | Some _ => CErr (dir_error d (mkMsg ErrConsts.jerr_DuplicateNames [name]))
             | None => COk (ms ++ [(name, d)])
             end
         end.

(* collectMacro: MACRO roots are registered and removed, the others keep their order *)
Fixpoint collect_macro (roots : list dir) (kept : list dir) (ms : macros) : cres (list dir * macros) :=
  match roots with
  | [] => COk (rev kept, ms)
  | d :: rest =>
      if N.eqb (d_kind d) DirectiveTables.dir_Macro then
        match add_macro ms d with
        | COk ms' => collect_macro rest kept ms'
        | CErr e => CErr e
        | CPanic p => CPanic p
        | CFuel => CFuel
        end
      else collect_macro rest (d :: kept) ms
  end.

(* the PASTE directives inside a directive, in document (pre-)order *)
Fixpoint paste_nodes (fuel : nat) (d : dir) : list dir :=
  match fuel with
  | O => []
  | S fuel' =>
      if N.eqb (d_kind d) DirectiveTables.dir_Paste then [d]
      else flat_map (paste_nodes fuel') (d_children d)
  end.

Definition macro_pastes (fuel : nat) (m : dir) : list dir :=
  flat_map (paste_nodes fuel) (d_children m).

(* macroReaches: expanding the macro [from] pastes [target], directly or through other macros *)
Fixpoint reaches (fuel depth : nat) (ms : macros) (from target : bytes) : bool :=
  match fuel with
  | O => false
  | S fuel' =>
      match macro_lookup ms from with
      | None => false
      | Some m =>
          existsb (fun p => let n := named p KName in
                            beq n target || (negb (beq n []) && reaches fuel' depth ms n target))
                  (macro_pastes depth m)
      end
  end.

(* findPaste on one PASTE directive of the macro [name] *)
Definition paste_verdict (fuel depth : nat) (ms : macros) (name : bytes) (p : dir) : option cerr :=
  let n := named p KName in
  if beq n [] then Some (required_name p)
  else if beq n name then Some (dir_error p (msg1 ErrConsts.jerr_RecursionIsProhibited))
  else if reaches fuel depth ms n name then Some (dir_error p (msg1 ErrConsts.jerr_RecursionIsProhibited))
  else None.

Fixpoint first_some {A B} (f : A -> option B) (l : list A) : option B :=
  match l with
  | [] => None
  | x :: r => match f x with Some y => Some y | None => first_some f r end
  end.

(* findPaste(macroName, macro): the macro directive itself is never a PASTE *)
Definition find_paste (fuel depth : nat) (ms : macros) (name : bytes) (m : dir) : option cerr :=
  first_some (paste_verdict fuel depth ms name) (macro_pastes depth m).

Fixpoint dir_depth (fuel : nat) (d : dir) : nat :=
  match fuel with
  | O => O
  | S f => S (fold_right (fun c acc => Nat.max (dir_depth f c) acc) O (d_children d))
  end.

(* checkMacroForRecursion: macros in declaration order, the first verdict wins *)
Definition check_recursion (depth : nat) (ms : macros) : option cerr :=
  first_some (fun p => find_paste (S (List.length ms)) depth ms (fst p) (snd p)) ms.

Record xstate := mkX {
  x_forest : list dir;
  x_ctx : option path;
  x_enums : list bytes      (* names registered through buildRule / AddEnum, in order *)
}.

(* error text of KeywordError(je.Error()) *)
Definition wrap_error (d : dir) (e : cerr) : cerr :=
  let m := e_msg e in
  let extra := match e_trace e with
               | [] => []
               | t => (e_file e, e_index e) :: t
               end in
  dir_error d (mkMsgS (m_fmt m) (m_args m) (m_suffix m ++ extra)).

Section Expand.
  (* enum.New(name, body).Check(): None = valid; Some (message id, index) otherwise *)
  Variable enum_check : coords -> option (N * Z).

  (* buildRule *)
  Definition build_rule (xs : xstate) (d : dir) : cres xstate :=
    if negb (N.eqb (d_kind d) DirectiveTables.dir_Enum) then COk xs
    else match d_body d with
         | None => COk xs
         | Some body =>
             if (co_end body =? 0) then COk xs   (* Coords.IsSet: end != 0 *)
             else
             match enum_check body with
             | Some (mid, idx) =>
                 CErr (mkErr (mkMsg "ORACLE" [[mid]]) (co_file body) (co_begin body + idx) (d_trace d))
             | None =>
                 let name := named d KName in
                 if existsb (beq name) (x_enums xs)
                 then CErr (dir_error d (mkMsg ErrConsts.jerr_DuplicateNames [name]))
                 else COk (mkX (x_forest xs) (x_ctx xs) (x_enums xs ++ [name]))
             end
         end.

  Fixpoint build_rules (xs : xstate) (ds : list dir) : cres xstate :=
    match ds with
    | [] => COk xs
    | d :: rest =>
        match build_rule xs d with
        | COk xs' => build_rules xs' rest
        | r => r
        end
    end.

  Variable ms : macros.

  (* processDirective / processPasteDirectiveList / processPasteDirective *)
  Fixpoint expand_dir (fuel : nat) (xs : xstate) (d : dir) {struct fuel} : cres xstate :=
    match fuel with
    | O => CFuel
    | S fuel' =>
        let expand_list :=
          (fix go (xs : xstate) (ds : list dir) {struct ds} : cres xstate :=
             match ds with
             | [] => COk xs
             | c :: r =>
                 match expand_dir fuel' xs c with
                 | COk xs' => go xs' r
                 | o => o
                 end
             end) in
        if N.eqb (d_kind d) DirectiveTables.dir_Paste then
          let inner : cres xstate :=
            if negb (beq (d_annot d) [])
            then CErr (dir_error d (msg1 ErrConsts.jerr_AnnotationIsForbiddenForTheDirective))
            else
              let name := named d KName in
              if beq name [] then CErr (required_name d)
              else match macro_lookup ms name with
                   | None => CErr (dir_error d (msg1 ErrConsts.jerr_MacroNotFound))
                   | Some m =>
                       match build_rules xs (d_children m) with
                       | COk xs1 => expand_list xs1 (d_children m)
                       | r => r
                       end
                   end in
          match inner with
          | CErr e => CErr (wrap_error d e)
          | r => r
          end
        else
          let dd := with_children d [] in
          match attach (attach_fuel (x_ctx xs)) (x_forest xs) (x_ctx xs) dd with
          | COk (f, ctx) =>
              let restore := match ctx with Some p => parent_path p | None => None end in
              match expand_list (mkX f ctx (x_enums xs)) (d_children d) with
              | COk xs2 =>
                  if d_explicit d then COk (mkX (x_forest xs2) restore (x_enums xs2)) else COk xs2
              | r => r
              end
          | CErr e => CErr e
          | CPanic p => CPanic p
          | CFuel => CFuel
          end
    end.

  Fixpoint expand_list (fuel : nat) (xs : xstate) (ds : list dir) : cres xstate :=
    match ds with
    | [] => COk xs
    | c :: r =>
        match expand_dir fuel xs c with
        | COk xs' => expand_list fuel xs' r
        | o => o
        end
    end.
End Expand.

(* the first half of compileCore: collectMacro, checkMacroForRecursion, processPaste,
   collectRules.  [rec_errs]: see check_recursion. *)
Record expanded := mkExpanded {
  ex_roots : list dir;         (* core.directives after collectMacro *)
  ex_macros : macros;
  ex_forest : list dir;        (* core.directivesWithPastes *)
  ex_enums : list bytes
}.

Inductive xres :=
| XOk (e : expanded)
| XErr (e : cerr)
| XErrOneOf (es : list cerr)   (* the Go map order decides which *)
| XPanic (p : cpanic)
| XFuel.

Definition compile_macros (enum_check : coords -> option (N * Z)) (fuel : nat) (roots : list dir) : xres :=
  match collect_macro roots [] [] with
  | CErr e => XErr e
  | CPanic p => XPanic p
  | CFuel => XFuel
  | COk (roots', ms) =>
      match check_recursion fuel ms with
      | Some e => XErr e
      | None =>
          match expand_list enum_check ms fuel (mkX [] None []) roots' with
          | CErr e => XErr e
          | CPanic p => XPanic p
          | CFuel => XFuel
          | COk xs =>
              match build_rules enum_check xs roots' with
              | CErr e => XErr e
              | CPanic p => XPanic p
              | CFuel => XFuel
              | COk xs' => XOk (mkExpanded roots' ms (x_forest xs') (x_enums xs'))
              end
          end
      end
  end.
