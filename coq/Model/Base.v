(* Base.v — shared vocabulary of the scanner model: bytes, lexeme events, lexeme
   kinds and the action language that tools/go2coq targets.  No proofs here. *)
From Coq Require Export List NArith ZArith Bool String.
Export ListNotations.
Open Scope Z_scope.

(* A byte is an [N] below 256; file content is a [list N].  Byte 0 is the
   scanner's EOF pseudo-byte. *)
Definition byte := N.
Definition bytes := list N.

Inductive event :=
| KeywordBegin | KeywordEnd | ParameterBegin | ParameterEnd
| AnnotationBegin | AnnotationEnd | SchemaBegin | SchemaEnd
| TextBegin | TextEnd | ContextOpen | ContextClose | EnumBegin | EnumEnd.

Inductive lexkind :=
| LKeyword | LParameter | LAnnotation | LSchema | LJson | LText
| LContextOpen | LContextClose | LEnum.

Definition event_eqb (a b : event) : bool :=
  match a, b with
  | KeywordBegin, KeywordBegin | KeywordEnd, KeywordEnd
  | ParameterBegin, ParameterBegin | ParameterEnd, ParameterEnd
  | AnnotationBegin, AnnotationBegin | AnnotationEnd, AnnotationEnd
  | SchemaBegin, SchemaBegin | SchemaEnd, SchemaEnd
  | TextBegin, TextBegin | TextEnd, TextEnd
  | ContextOpen, ContextOpen | ContextClose, ContextClose
  | EnumBegin, EnumBegin | EnumEnd, EnumEnd => true
  | _, _ => false
  end.

Definition lexkind_eqb (a b : lexkind) : bool :=
  match a, b with
  | LKeyword, LKeyword | LParameter, LParameter | LAnnotation, LAnnotation
  | LSchema, LSchema | LJson, LJson | LText, LText
  | LContextOpen, LContextOpen | LContextClose, LContextClose | LEnum, LEnum => true
  | _, _ => false
  end.

(* States are indices into the generated program table. *)
Definition state := N.

(* Boolean queries a step function may ask about the scanner's context. *)
Inductive ctxq :=
| QTypeOrAnyOrEmpty   (* s.isDirectiveParameterHasTypeOrAnyOrEmpty() *)
| QAnyOrEmpty         (* s.isDirectiveParameterHasAnyOrEmpty()  (sic: true when NO any/empty) *)
| QRegex              (* s.isDirectiveParameterHasRegexNotation() *)
| QIsDirective.       (* s.isDirective() *)

Inductive cond :=
| CByte (b : N)              (* c == b *)
| CNewLine                   (* IsNewLine(c)      / label caseNewLine(c)    *)
| CWhitespace                (* isWhitespace(c)   / label caseWhitespace(c) *)
| CPrevByte (k : Z) (b : N)  (* s.data.Byte(s.curIndex-k) == b *)
| CCtx (q : ctxq)
| CNot (c : cond)
| CAnd (a b : cond)
| COr (a b : cond)
| CTrue.

Inductive okind := OJSchema | OEnum.

Inductive stmt :=
| SSetStep (st : state)            (* s.step = st                       *)
| SPush (st : state)               (* s.stepStack.Push(st)              *)
| SPushCur                         (* s.stepStack.Push(s.step)          *)
| SPop                             (* s.step = s.stepStack.Pop()        *)
| SFound (ev : event) (off : Z)    (* s.foundAt(s.curIndex+off, ev)     *)
| SAddCur (dz : Z)                 (* s.curIndex += dz                  *)
| SIf (c : cond) (t e : stmt)
| SSeq (a b : stmt)                 (* a; b *)
| SSkip
| SOracle (k : okind)              (* n, je := read…WithJsc(); je→return; n>0 → cur += n-1 *)
| SRetNil
| SRetErr (where_ expected : string)  (* return s.japiErrorUnexpectedChar(where, expected) *)
| SRetErrBasic (msg : string)         (* return s.japiErrorBasic(msg)   *)
| SRetCall (st : state)               (* return st(s, c)                *)
| SRetRedispatch.                     (* return s.step(s, c)            *)

(* a Go block: statements in sequence *)
Definition block (l : list stmt) : stmt := fold_right SSeq SSkip l.

Definition N_eqb_list (a b : list N) : bool :=
  (fix go (a b : list N) : bool :=
     match a, b with
     | [], [] => true
     | x :: a', y :: b' => N.eqb x y && go a' b'
     | _, _ => false
     end) a b.
