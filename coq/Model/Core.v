(* Core.v — executable model of the directive layer of package core: JApiCore.next and its
   process* functions (scan_project.go), processContext (context_processing.go), INCLUDE
   handling (include.go + scanner/stack.go), macro collection, recursion check and PASTE
   expansion (compile_core_macro.go, compile_core_paste.go), directive/parameter.go.
   Hand-written (tie B): compared with the implementation through the verif-tagged tree
   accessor.  No proofs here. *)
From JS Require Import Base Bytes Scanner Directive.
From JS Require DirectiveTables IncludeName ErrConsts.
Open Scope Z_scope.

Inductive pkey :=
| KPath | KSchemaNotation | KType | KName | KFormat | KQueryExample | KVersion | KTitle
| KProtocolName | KMethodName | KTagName | KOperationId.

Definition pkey_eqb (a b : pkey) : bool :=
  match a, b with
  | KPath, KPath | KSchemaNotation, KSchemaNotation | KType, KType | KName, KName
  | KFormat, KFormat | KQueryExample, KQueryExample | KVersion, KVersion | KTitle, KTitle
  | KProtocolName, KProtocolName | KMethodName, KMethodName | KTagName, KTagName
  | KOperationId, KOperationId => true
  | _, _ => false
  end.

Definition pkey_name (k : pkey) : string :=
  match k with
  | KPath => "Path" | KSchemaNotation => "SchemaNotation" | KType => "Type" | KName => "Name"
  | KFormat => "Format" | KQueryExample => "QueryExample" | KVersion => "Version"
  | KTitle => "Title" | KProtocolName => "ProtocolName" | KMethodName => "MethodName"
  | KTagName => "TagName" | KOperationId => "OperationId"
  end.

Record coords := mkCoords { co_file : N; co_begin : Z; co_end : Z }.

(* an include-trace entry: the including file and the byte offset of its INCLUDE keyword *)
Definition trace := list (N * Z).

Inductive dir := mkDir {
  d_kind : N;                        (* directive.Enumeration *)
  d_keyword : bytes;
  d_kw : coords;
  d_named : list (pkey * bytes);     (* insertion order *)
  d_unnamed : list bytes;
  d_annot : bytes;                   (* catalog.Annotation of the lexeme; [] = none *)
  d_body : option coords;
  d_explicit : bool;
  d_trace : trace;
  d_children : list dir
}.

Definition with_children (d : dir) (cs : list dir) : dir :=
  mkDir (d_kind d) (d_keyword d) (d_kw d) (d_named d) (d_unnamed d) (d_annot d) (d_body d)
        (d_explicit d) (d_trace d) cs.

Definition named (d : dir) (k : pkey) : bytes :=
  match List.find (fun p => pkey_eqb (fst p) k) (d_named d) with
  | Some (_, v) => v
  | None => []
  end.

Definition has_named (d : dir) (k : pkey) : bool :=
  existsb (fun p => pkey_eqb (fst p) k) (d_named d).

(* messages are kept as a Go format string with its arguments *)
(* [m_suffix]: location lines appended to the text when an error is re-wrapped by
   KeywordError(je.Error()): each is rendered "\n<file name>:<line>" *)
Record cmsg := mkMsgS { m_fmt : string; m_args : list bytes; m_suffix : list (N * Z) }.
Definition mkMsg (f : string) (a : list bytes) : cmsg := mkMsgS f a [].

Record cerr := mkErr { e_msg : cmsg; e_file : N; e_index : Z; e_trace : trace }.

Inductive cpanic :=
| CPNilCurrentDirective       (* core.currentDirective dereferenced while nil *)
| CPEmptyIncludeName          (* s[0] on "" in validateIncludeFileName *)
| CPLexemeValue               (* Lexeme.Value() with inverted bounds *)
| CPScanner (p : panic)
| CPOther (what : string).

Inductive cres (A : Type) :=
| COk (a : A) | CErr (e : cerr) | CPanic (p : cpanic) | CFuel.
Arguments COk {A}. Arguments CErr {A}. Arguments CPanic {A}. Arguments CFuel {A}.

Definition str (s : string) : bytes := bytes_of_string s.

Definition msg1 (s : string) : cmsg := mkMsg "%s" [str s].

(* ------------------------------------------------------------------------------------ *)
(* catalog.Annotation: TrimSpace, then every run of [\t\n\f\r ] becomes one blank.
   Domain: ASCII white space (non-ASCII Unicode spaces at the ends are outside the model) *)
Definition is_trim_space (c : N) : bool :=
  ((9 <=? c) && (c <=? 13))%N || (c =? 32)%N.
Definition is_re_space (c : N) : bool :=
  (c =? 9)%N || (c =? 10)%N || (c =? 12)%N || (c =? 13)%N || (c =? 32)%N.

Fixpoint drop_while (f : N -> bool) (l : bytes) : bytes :=
  match l with
  | [] => []
  | c :: r => if f c then drop_while f r else l
  end.

Definition trim_space (l : bytes) : bytes :=
  rev (drop_while is_trim_space (rev (drop_while is_trim_space l))).

Fixpoint collapse_spaces (l : bytes) (in_run : bool) : bytes :=
  match l with
  | [] => []
  | c :: r =>
      if is_re_space c then (if in_run then collapse_spaces r true else 32%N :: collapse_spaces r true)
      else c :: collapse_spaces r false
  end.

Definition annotation (b : bytes) : bytes := collapse_spaces (trim_space b) false.

(* ------------------------------------------------------------------------------------ *)
(* directive/parameter.go *)
Definition is_schema_notation (s : bytes) : bool :=
  beq s (str "jsight") || beq s [] || beq s (str "regex") || beq s (str "any") || beq s (str "empty").

Definition is_array_of_types (b : bytes) : bool :=
  match b with
  | 91%N :: rest =>
      (Nat.leb 4 (List.length b)) &&
      match rev rest with
      | 93%N :: _ => is_user_type_name (removelast rest)
      | _ => false
      end
  | _ => false
  end.

Inductive append_res :=
| ASet (k : pkey) (v : bytes)
| AUnnamed (v : bytes)
| ABad (v : bytes).

Definition dk := DirectiveTables.dir_URL.

Definition kind_in (k : N) (l : list N) : bool := existsb (N.eqb k) l.

Definition append_parameter_kind (kind : N) (raw : bytes) : append_res :=
  let b := unquote raw in
  if kind_in kind [DirectiveTables.dir_URL; DirectiveTables.dir_Get; DirectiveTables.dir_Post;
                   DirectiveTables.dir_Put; DirectiveTables.dir_Patch; DirectiveTables.dir_Delete]
  then ASet KPath b
  else if kind_in kind [DirectiveTables.dir_Request; DirectiveTables.dir_HTTPResponseCode;
                        DirectiveTables.dir_Body]
  then (if is_schema_notation b then ASet KSchemaNotation b
        else if is_array_of_types b then ASet KType b
        else if is_user_type_name b then ASet KType b
        else ABad b)
  else if N.eqb kind DirectiveTables.dir_Type
  then (if is_schema_notation b then ASet KSchemaNotation b
        else if is_array_of_types b then ASet KName b
        else if is_user_type_name b then ASet KName b
        else ABad b)
  else if N.eqb kind DirectiveTables.dir_Query
  then (if beq b (str "htmlFormEncoded") || beq b (str "noFormat") then ASet KFormat b
        else ASet KQueryExample b)
  else if kind_in kind [DirectiveTables.dir_Jsight; DirectiveTables.dir_Version]
  then ASet KVersion b
  else if N.eqb kind DirectiveTables.dir_Title then ASet KTitle b
  else if N.eqb kind DirectiveTables.dir_BaseURL then ASet KPath b
  else if kind_in kind [DirectiveTables.dir_Server; DirectiveTables.dir_Enum;
                        DirectiveTables.dir_Macro; DirectiveTables.dir_Paste]
  then (if is_user_type_name b then ASet KName b else ABad b)
  else if N.eqb kind DirectiveTables.dir_Protocol then ASet KProtocolName b
  else if N.eqb kind DirectiveTables.dir_Method then ASet KMethodName b
  else if N.eqb kind DirectiveTables.dir_TAG
  then (if is_user_type_name b then ASet KTagName b else ABad b)
  else if N.eqb kind DirectiveTables.dir_Tags
  then (if is_user_type_name b then AUnnamed b else ABad b)
  else if N.eqb kind DirectiveTables.dir_OperationID then ASet KOperationId b
  else ABad b.

(* Directive.AppendParameter: the new directive, or the error message *)
Definition append_parameter (d : dir) (raw : bytes) : dir + cmsg :=
  match append_parameter_kind (d_kind d) raw with
  | ASet k v =>
      if has_named d k
      then inr (mkMsg ErrConsts.jerr_ParametersIsAlreadyDefined [str (pkey_name k)])
      else inl (mkDir (d_kind d) (d_keyword d) (d_kw d) (d_named d ++ [(k, v)]) (d_unnamed d)
                      (d_annot d) (d_body d) (d_explicit d) (d_trace d) (d_children d))
  | AUnnamed v =>
      inl (mkDir (d_kind d) (d_keyword d) (d_kw d) (d_named d) (d_unnamed d ++ [v])
                 (d_annot d) (d_body d) (d_explicit d) (d_trace d) (d_children d))
  | ABad v => inr (mkMsg "%s %q" [str ErrConsts.jerr_IncorrectParameter; v])
  end.

(* ------------------------------------------------------------------------------------ *)
(* the forest under construction; a context is the path (child indices) of a node *)
Definition path := list nat.

Fixpoint node_at (f : list dir) (p : path) : option dir :=
  match p with
  | [] => None
  | i :: rest =>
      match nth_error f i with
      | None => None
      | Some d => match rest with [] => Some d | _ => node_at (d_children d) rest end
      end
  end.

Fixpoint update_nth {A} (l : list A) (i : nat) (f : A -> A) : list A :=
  match l, i with
  | [], _ => []
  | x :: r, O => f x :: r
  | x :: r, S j => x :: update_nth r j f
  end.

(* append [c] as the last child of the node at [p]; returns the index it got *)
Fixpoint append_child (f : list dir) (p : path) (c : dir) : list dir * nat :=
  match p with
  | [] => (f ++ [c], List.length f)
  | i :: rest =>
      match nth_error f i with
      | None => (f, O)
      | Some d =>
          let '(cs, idx) := append_child (d_children d) rest c in
          (update_nth f i (fun _ => with_children d cs), idx)
      end
  end.

Definition parent_path (p : path) : option path :=
  match removelast p with
  | [] => None
  | q => Some q
  end.

Definition dir_error (d : dir) (m : cmsg) : cerr :=
  mkErr m (co_file (d_kw d)) (co_begin (d_kw d)) (d_trace d).

Definition kind_name (k : N) : bytes :=
  match nth_error keyword_bytes (N.to_nat k) with
  | Some b => b
  | None => []
  end.

Definition incorrect_context (d : dir) : cerr :=
  dir_error d (mkMsg "%s %q" [str ErrConsts.jerr_IncorrectDirectiveContext; kind_name (d_kind d)]).

Definition incorrect_context_path (d : dir) : cerr :=
  dir_error d (mkMsg "%s %q with the ""Path"" parameter"
                     [str ErrConsts.jerr_IncorrectDirectiveContext; kind_name (d_kind d)]).

(* JApiCore.processContext *)
Fixpoint attach (fuel : nat) (f : list dir) (ctx : option path) (d : dir)
  : cres (list dir * option path) :=
  match fuel with
  | O => CFuel
  | S fuel' =>
      match ctx with
      | None =>
          if is_allowed_for_root (d_kind d)
          then COk (f ++ [d], Some [List.length f])
          else CErr (incorrect_context d)
      | Some p =>
          match node_at f p with
          | None => CPanic (CPOther "context path does not exist")
          | Some cur =>
              if is_allowed_in (d_kind cur) (d_kind d) then
                if is_http_request_method (d_kind d) && negb (beq (named d KPath) [])
                   && N.eqb (d_kind cur) DirectiveTables.dir_URL
                then
                  if d_explicit cur then CErr (incorrect_context_path d)
                  else COk (f ++ [d], Some [List.length f])
                else
                  let '(f', idx) := append_child f p d in
                  COk (f', Some (p ++ [idx]))
              else if d_explicit cur then CErr (incorrect_context d)
              else attach fuel' f (parent_path p) d
          end
      end
  end.

Definition attach_fuel (ctx : option path) : nat :=
  match ctx with Some p => S (S (List.length p)) | None => 2%nat end.

(* closeLastExplicitContext: Some new context, or None when there is nothing to close *)
Fixpoint close_explicit (fuel : nat) (f : list dir) (ctx : option path) : option (option path) :=
  match fuel with
  | O => None
  | S fuel' =>
      match ctx with
      | None => None
      | Some p =>
          match node_at f p with
          | None => None
          | Some cur =>
              if d_explicit cur then Some (parent_path p)
              else close_explicit fuel' f (parent_path p)
          end
      end
  end.

Fixpoint has_unclosed (fuel : nat) (f : list dir) (ctx : option path) : bool :=
  match fuel with
  | O => false
  | S fuel' =>
      match ctx with
      | None => false
      | Some p =>
          match node_at f p with
          | None => false
          | Some cur => d_explicit cur || has_unclosed fuel' f (parent_path p)
          end
      end
  end.

(* ------------------------------------------------------------------------------------ *)
(* file system and names *)
Inductive fsentry := FFile (content : bytes) | FDir.

Definition fsmap := list (bytes * fsentry).

Fixpoint fs_lookup (fs : fsmap) (name : bytes) : option fsentry :=
  match fs with
  | [] => None
  | (n, e) :: rest => if beq n name then Some e else fs_lookup rest name
  end.

(* strings.Split(s, "/") *)
Fixpoint segments (s : bytes) : list bytes :=
  match s with
  | [] => [[]]
  | c :: r =>
      if N.eqb c 47 then [] :: segments r
      else match segments r with
           | seg :: rest => (c :: seg) :: rest
           | [] => [[c]]
           end
  end.

Definition dot := [46%N].
Definition dotdot := [46%N; 46%N].

(* filepath.Clean on a relative slash path, as a list of segments (reverse accumulator) *)
Fixpoint clean_segs (segs : list bytes) (acc : list bytes) : list bytes :=
  match segs with
  | [] => rev acc
  | s :: rest =>
      if beq s [] || beq s dot then clean_segs rest acc
      else if beq s dotdot then
        match acc with
        | [] => clean_segs rest [dotdot]
        | a :: acc' => if beq a dotdot then clean_segs rest (dotdot :: acc) else clean_segs rest acc'
        end
      else clean_segs rest (s :: acc)
  end.

Fixpoint join_segs (segs : list bytes) : bytes :=
  match segs with
  | [] => []
  | [s] => s
  | s :: rest => s ++ 47%N :: join_segs rest
  end.

(* filepath.Join(filepath.Dir(includer), name), both relative to the project root *)
Definition join_dir (includer name : bytes) : bytes :=
  let dirsegs := removelast (segments includer) in
  match clean_segs (dirsegs ++ segments name) [] with
  | [] => dot
  | segs => join_segs segs
  end.

(* os.Stat on a cleaned relative path: a path component that is a regular file makes the
   lookup fail with ENOTDIR *)
Inductive stat_res := SFile (content : bytes) | SDir | SMissing | SNotDir.

Fixpoint proper_prefixes (segs : list bytes) (acc : list bytes) : list (list bytes) :=
  match segs with
  | [] => []
  | [_] => []
  | s :: rest => (acc ++ [s]) :: proper_prefixes rest (acc ++ [s])
  end.

Definition stat_path (fs : fsmap) (p : bytes) : stat_res :=
  match fs_lookup fs p with
  | Some (FFile c) => SFile c
  | Some FDir => SDir
  | None =>
      if existsb (fun pre => match fs_lookup fs (join_segs pre) with Some (FFile _) => true | _ => false end)
                 (proper_prefixes (segments p) [])
      then SNotDir else SMissing
  end.

(* validateIncludeFileName over the regenerated check list *)
Fixpoint eval_icond (c : IncludeName.icond) (s : bytes) : option bool :=
  match c with
  | IncludeName.IFirstByte b =>
      match s with
      | [] => None            (* s[0] on the empty string: index out of range *)
      | x :: _ => Some (N.eqb x b)
      end
  | IncludeName.IEquals w => Some (beq s w)
  | IncludeName.IContains w => Some (contains w s)
  | IncludeName.IHasPrefix w => Some (is_prefix w s)
  | IncludeName.IHasSuffix w => Some (is_suffix w s)
  | IncludeName.ISegmentIn ws => Some (existsb (fun seg => existsb (beq seg) ws) (segments s))
  | IncludeName.IOr a b =>
      match eval_icond a s with
      | Some false => eval_icond b s
      | r => r
      end
  | IncludeName.IAnd a b =>
      match eval_icond a s with
      | Some true => eval_icond b s
      | r => r
      end
  end.

(* None: crash; Some None: accepted; Some (Some msg): refused *)
Fixpoint validate_include (checks : list (IncludeName.icond * string)) (s : bytes)
  : option (option string) :=
  match checks with
  | [] => Some None
  | (c, m) :: rest =>
      match eval_icond c s with
      | None => None
      | Some true => Some (Some m)
      | Some false => validate_include rest s
      end
  end.

(* ------------------------------------------------------------------------------------ *)
(* Bytes.NewLineSymbol / LineAndColumn *)
Fixpoint newline_symbol_aux (s : bytes) (found : option N) : N :=
  match s with
  | [] => match found with Some c => c | None => 10%N end
  | c :: r =>
      if (c =? 10)%N || (c =? 13)%N then newline_symbol_aux r (Some c)
      else match found with Some x => x | None => newline_symbol_aux r None end
  end.
Definition newline_symbol (s : bytes) : N := newline_symbol_aux s None.

Fixpoint count_lines (nl : N) (s : bytes) (line col : Z) : Z * Z :=
  match s with
  | [] => (line, col)
  | c :: r => if N.eqb c nl then count_lines nl r (line + 1) 0 else count_lines nl r line (col + 1)
  end.

Definition line_and_column (content : bytes) (index : Z) : Z * Z :=
  if (Z.of_nat (List.length content) <=? index) || (index <? 0) then (0, 0)
  else
    let '(l, c) := count_lines (newline_symbol content) (firstn (Z.to_nat index) content) 0 0 in
    (l + 1, c + 1).

(* Bytes.BeginningOfLine / EndOfLine and jerr.quote.  None: Go indexes outside the slice *)
Fixpoint bol_loop (content : bytes) (nl : N) (index : nat) (i : nat) : option nat :=
  match nth_error content i with
  | None => None
  | Some c =>
      if N.eqb c nl && negb (Nat.eqb i index) then Some (S i)
      else match i with
           | O => Some O
           | S j => bol_loop content nl index j
           end
  end.

Definition beginning_of_line (content : bytes) (index : nat) : option nat :=
  let n := List.length content in
  match n with
  | O => None
  | S m => bol_loop content (newline_symbol content) index (Nat.min index m)
  end.

Fixpoint eol_loop (nl : N) (rest : bytes) (i : nat) : nat :=
  match rest with
  | [] => i
  | c :: r => if N.eqb c nl then i else eol_loop nl r (S i)
  end.

Definition end_of_line (content : bytes) (index : nat) : option nat :=
  let nl := newline_symbol content in
  let i := eol_loop nl (skipn index content) index in
  match i with
  | O => Some O
  | S j =>
      match nth_error content j with
      | None => None
      | Some c =>
          if (N.eqb nl 10 && N.eqb c 13) || (N.eqb nl 13 && N.eqb c 10) then Some j else Some i
      end
  end.

Definition is_blank (c : N) : bool := (c =? 32)%N || (c =? 9)%N || (c =? 10)%N || (c =? 13)%N.

(* Bytes.TrimSpacesFromLeft: an all-blank slice is returned unchanged *)
Definition trim_spaces_from_left (b : bytes) : bytes :=
  match drop_while is_blank b with
  | [] => b
  | r => r
  end.

Definition dots := [46%N; 46%N; 46%N].

Definition quote (content : bytes) (index : Z) : option bytes :=
  match content with
  | [] => Some []
  | _ =>
      if index <? 0 then None else
      match beginning_of_line content (Z.to_nat index), end_of_line content (Z.to_nat index) with
      | Some b, Some e =>
          if Nat.ltb e b then None
          else if Nat.ltb 200 (e - b)
          then Some (trim_spaces_from_left (firstn 197 (skipn b content)) ++ dots)
          else Some (trim_spaces_from_left (firstn (e - b) (skipn b content)))
      | _, _ => None
      end
  end.

(* ------------------------------------------------------------------------------------ *)
(* the scanning phase *)
Record sitem := mkSItem { si_file : N; si_conf : conf; si_at : Z }.

Record cstate := mkCState {
  cs_forest : list dir;
  cs_ctx : option path;
  cs_cur : option dir;               (* currentDirective *)
  cs_file : N;                       (* file of the active scanner *)
  cs_conf : conf;                    (* its configuration *)
  cs_stack : list sitem;             (* suspended scanners, top first *)
  cs_tracers : list (bytes * trace); (* includeTracers cache, keyed by the top file's name *)
  cs_files : list (bytes * bytes);   (* file id -> (name, content), in the order opened *)
  cs_log : list (string * bytes)     (* file-system accesses: ("stat"|"read", path) *)
}.

Definition file_name (st : cstate) (id : N) : bytes :=
  match nth_error (cs_files st) (N.to_nat id) with Some (n, _) => n | None => [] end.
Definition file_content (st : cstate) (id : N) : bytes :=
  match nth_error (cs_files st) (N.to_nat id) with Some (_, c) => c | None => [] end.

(* the live scanner stack as a trace, innermost includer first *)
Definition live_trace (st : cstate) : trace :=
  List.map (fun it => (si_file it, si_at it)) (cs_stack st).

Definition with_live_trace (st : cstate) (e : cerr) : cerr :=
  match e_trace e with
  | [] => mkErr (e_msg e) (e_file e) (e_index e) (live_trace st)
  | _ => e
  end.

Section Scan.
  Variable prog : list (string * stmt).
  Variable nl_cond ws_cond : cond.
  Variable fs : fsmap.
  Variable olen : bytes -> okind -> Z -> olen_res.   (* per file name *)
  Variable init_st : state.                      (* the scanner's initial step function *)

  Definition scan_next (st : cstate) : res (option lexeme * conf) :=
    next prog nl_cond ws_cond (file_content st (cs_file st)) (olen (file_name st (cs_file st))) (cs_conf st).

  Definition set_conf (st : cstate) (cf : conf) : cstate :=
    mkCState (cs_forest st) (cs_ctx st) (cs_cur st) (cs_file st) cf (cs_stack st)
             (cs_tracers st) (cs_files st) (cs_log st).
  Definition set_cur_dir (st : cstate) (d : option dir) : cstate :=
    mkCState (cs_forest st) (cs_ctx st) d (cs_file st) (cs_conf st) (cs_stack st)
             (cs_tracers st) (cs_files st) (cs_log st).
  Definition set_tree (st : cstate) (f : list dir) (ctx : option path) : cstate :=
    mkCState f ctx (cs_cur st) (cs_file st) (cs_conf st) (cs_stack st)
             (cs_tracers st) (cs_files st) (cs_log st).
  Definition add_log (st : cstate) (what : string) (p : bytes) : cstate :=
    mkCState (cs_forest st) (cs_ctx st) (cs_cur st) (cs_file st) (cs_conf st) (cs_stack st)
             (cs_tracers st) (cs_files st) (cs_log st ++ [(what, p)]).

  Definition core_error (st : cstate) (m : cmsg) (i : Z) : cerr :=
    mkErr m (cs_file st) i [].

  Definition scan_error (st : cstate) (e : serr) : cerr :=
    match e with
    | EUnexpected w x i eof =>
        mkErr (mkMsg (if eof then "UEOF" else "UCHAR") [str w; str x]) (cs_file st) i []
    | EBasic m i => mkErr (msg1 m) (cs_file st) i []
    | EOracle mid i => mkErr (mkMsg "ORACLE" [[mid]]) (cs_file st) i []
    end.

  (* processCurrentDirective *)
  Definition process_current (st : cstate) : cres cstate :=
    match cs_cur st with
    | None => COk st
    | Some d =>
        match attach (attach_fuel (cs_ctx st)) (cs_forest st) (cs_ctx st) d with
        | COk (f, ctx) => COk (set_cur_dir (set_tree st f ctx) None)
        | CErr e => CErr e
        | CPanic p => CPanic p
        | CFuel => CFuel
        end
    end.

  (* Stack.ToDirectiveIncludeTracer with its cache keyed by the top file's name *)
  Definition directive_tracer (st : cstate) : trace * cstate :=
    match cs_stack st with
    | [] => ([], st)
    | top :: _ =>
        let key := file_name st (si_file top) in
        match List.find (fun p => beq (fst p) key) (cs_tracers st) with
        | Some (_, t) => (t, st)
        | None =>
            let t := live_trace st in
            (t, mkCState (cs_forest st) (cs_ctx st) (cs_cur st) (cs_file st) (cs_conf st)
                         (cs_stack st) (cs_tracers st ++ [(key, t)]) (cs_files st) (cs_log st))
        end
    end.

  Definition lex_coords (st : cstate) (l : lexeme) : coords := mkCoords (cs_file st) (lb l) (le l).

  Definition lex_value (st : cstate) (l : lexeme) : option bytes :=
    lexeme_value (file_content st (cs_file st)) l.

  Definition jsight_kw := str "JSIGHT".
  Definition include_kw := str "INCLUDE".

  (* processKeyword (after the INCLUDE test) *)
  Definition process_keyword (st : cstate) (l : lexeme) : cres cstate :=
    match process_current st with
    | COk st1 =>
        match lex_value st1 l with
        | None => CPanic CPLexemeValue
        | Some kw =>
            if negb (match cs_stack st1 with [] => true | _ => false end) && beq kw jsight_kw
            then CErr (core_error st1 (mkMsg "%s %q" [str ErrConsts.jerr_IncludeDirectiveErr; kw]) (lb l))
            else
              match new_directive_type kw with
              | None => CErr (core_error st1 (mkMsg "%s %q" [str ErrConsts.jerr_UnknownDirective; kw]) (lb l))
              | Some k =>
                  let '(tr, st2) := directive_tracer st1 in
                  COk (set_cur_dir st2
                         (Some (mkDir k kw (lex_coords st2 l) [] [] [] None false tr [])))
              end
        end
    | r => r
    end.

  Definition process_parameter (st : cstate) (l : lexeme) : cres cstate :=
    match cs_cur st with
    | None => CPanic CPNilCurrentDirective
    | Some d =>
        match lex_value st l with
        | None => CPanic CPLexemeValue
        | Some v =>
            match append_parameter d v with
            | inl d' => COk (set_cur_dir st (Some d'))
            | inr m => CErr (core_error st m (lb l))
            end
        end
    end.

  Definition process_annotation (st : cstate) (l : lexeme) : cres cstate :=
    match cs_cur st with
    | None => CPanic CPNilCurrentDirective
    | Some d =>
        match lex_value st l with
        | None => CPanic CPLexemeValue
        | Some v =>
            COk (set_cur_dir st (Some (mkDir (d_kind d) (d_keyword d) (d_kw d) (d_named d)
                   (d_unnamed d) (annotation v) (d_body d) (d_explicit d) (d_trace d) (d_children d))))
        end
    end.

  Definition process_body (st : cstate) (l : lexeme) : cres cstate :=
    match cs_cur st with
    | None => CPanic CPNilCurrentDirective
    | Some d =>
        COk (set_cur_dir st (Some (mkDir (d_kind d) (d_keyword d) (d_kw d) (d_named d)
               (d_unnamed d) (d_annot d) (Some (lex_coords st l)) (d_explicit d) (d_trace d)
               (d_children d))))
    end.

  Definition process_context_begin (st : cstate) : cres cstate :=
    match cs_cur st with
    | None => CPanic CPNilCurrentDirective
    | Some d =>
        COk (set_cur_dir st (Some (mkDir (d_kind d) (d_keyword d) (d_kw d) (d_named d)
               (d_unnamed d) (d_annot d) (d_body d) true (d_trace d) (d_children d))))
    end.

  Definition process_context_end (st : cstate) : cres cstate :=
    match process_current st with
    | COk st1 =>
        match close_explicit (attach_fuel (cs_ctx st1)) (cs_forest st1) (cs_ctx st1) with
        | Some ctx => COk (set_tree st1 (cs_forest st1) ctx)
        | None =>
            CErr (core_error st1 (msg1 ErrConsts.jerr_ThereIsNoExplicitContextForClosure)
                             (c_cur (cs_conf st1) - 1))
        end
    | r => r
    end.

  (* JApiCore.next *)
  (* the guard at the top of JApiCore.next: lexemes that need a directive when there is none *)
  Definition orphan_lexeme (st : cstate) (l : lexeme) : option (cres cstate) :=
    match cs_cur st with
    | Some _ => None
    | None =>
        match lk l with
        | LParameter =>
            match lex_value st l with
            | None => Some (CPanic CPLexemeValue)
            | Some v => Some (CErr (core_error st (mkMsg "%s %q" [str ErrConsts.jerr_IncorrectParameter; unquote v]) (lb l)))
            end
        | LAnnotation =>
            Some (CErr (core_error st (msg1 ErrConsts.jerr_AnnotationIsForbiddenForTheDirective) (lb l)))
        | LSchema | LText | LJson | LEnum | LContextOpen =>
            Some (CErr (core_error st (msg1 ErrConsts.jerr_IncorrectDirectiveContext) (lb l)))
        | _ => None
        end
    end.

  Definition core_next (st : cstate) (l : lexeme) : cres cstate :=
    match orphan_lexeme st l with
    | Some r => r
    | None =>
    match lk l with
    | LKeyword => process_keyword st l
    | LParameter => process_parameter st l
    | LAnnotation => process_annotation st l
    | LSchema | LText | LJson | LEnum => process_body st l
    | LContextOpen => process_context_begin st
    | LContextClose => process_context_end st
    end
    end.

  Definition lexeme_error (st : cstate) (l : lexeme) (m : cmsg) : cerr :=
    mkErr m (cs_file st) (lb l) [].

  Definition fname := str "Filename".

  (* processInclude; [kw] is the INCLUDE keyword lexeme.  The second component is the state
     at the moment of the verdict (it carries the file-access log even when refused). *)
  Definition process_include (st : cstate) (kw : lexeme) : cres cstate * cstate :=
    match scan_next st with
    | RErr e => (CErr (scan_error st e), st)
    | RPanic p => (CPanic (CPScanner p), st)
    | RFuel => (CFuel, st)
    | ROk (ol, cf) =>
        let st := set_conf st cf in
        let required :=
          (CErr (lexeme_error st kw (mkMsg "%s (%s)" [str ErrConsts.jerr_RequiredParameterNotSpecified; fname])), st) in
        match ol with
        | None => required
        | Some pl =>
            match lk pl with
            | LParameter =>
                match lex_value st pl with
                | None => (CPanic CPLexemeValue, st)
                | Some raw =>
                    let name := unquote raw in
                    if beq name [] then required else
                    let bad (st : cstate) (why : bytes) :=
                      (CErr (lexeme_error st kw
                              (mkMsg "%s (%s) %q: %s" [str ErrConsts.jerr_IncorrectParameter; fname; name; why])), st) in
                    match validate_include IncludeName.include_checks name with
                    | None => (CPanic CPEmptyIncludeName, st)
                    | Some (Some m) => bad st (str m)
                    | Some None =>
                        let p := join_dir (file_name st (cs_file st)) name in
                        let st := add_log st "stat" p in
                        match stat_path fs p with
                        | SMissing => bad st (str "does not exist")
                        | SNotDir => bad st (str "stat " ++ p ++ str ": not a directory")
                        | SDir => bad st (str "is a directory")
                        | SFile content =>
                            let st := add_log st "read" p in
                            (* Stack.Push(core.scanner, keyword.Begin()) *)
                            let me := file_name st (cs_file st) in
                            if existsb (fun it => beq (file_name st (si_file it)) me) (cs_stack st)
                            then (CErr (lexeme_error st kw (msg1 ErrConsts.jerr_RecursionIsProhibited)), st)
                            else
                              let id := N.of_nat (List.length (cs_files st)) in
                              let st' := mkCState (cs_forest st) (cs_ctx st) (cs_cur st) id
                                     (init_conf init_st)
                                     (mkSItem (cs_file st) (cs_conf st) (lb kw) :: cs_stack st)
                                     (cs_tracers st) (cs_files st ++ [(p, content)]) (cs_log st) in
                              (COk st', st')
                        end
                    end
                end
            | _ => required
            end
        end
    end.

  Definition is_include (st : cstate) (l : lexeme) : bool :=
    match lk l with
    | LKeyword => match lex_value st l with Some v => beq v include_kw | None => false end
    | _ => false
    end.

  Definition process_eof (st : cstate) : cres cstate :=
    match process_current st with
    | COk st1 =>
        if has_unclosed (attach_fuel (cs_ctx st1)) (cs_forest st1) (cs_ctx st1)
        then CErr (core_error st1 (msg1 ErrConsts.jerr_ContextNotClosed) (c_cur (cs_conf st1) - 1))
        else COk st1
    | r => r
    end.

  Definition traced {A} (st : cstate) (r : cres A) : cres A :=
    match r with
    | CErr e => CErr (with_live_trace st e)
    | x => x
    end.

  Inductive sres :=
  | SDone (st : cstate)
  | SErr (e : cerr) (st : cstate)      (* [st]: the state when the error was raised *)
  | SPanic (p : cpanic) (st : cstate)
  | SFuel.

  Definition lift (st : cstate) (r : cres cstate) (k : cstate -> sres) : sres :=
    match r with
    | COk st1 => k st1
    | CErr e => SErr (with_live_trace st e) st
    | CPanic p => SPanic p st
    | CFuel => SFuel
    end.

  (* JApiCore.scanProject *)
  Fixpoint scan_project (fuel : nat) (st : cstate) : sres :=
    match fuel with
    | O => SFuel
    | S fuel' =>
        match scan_next st with
        | RErr e => SErr (with_live_trace st (scan_error st e)) st
        | RPanic p => SPanic (CPScanner p) st
        | RFuel => SFuel
        | ROk (None, cf) =>
            let st := set_conf st cf in
            lift st (process_eof st) (fun st1 =>
              match cs_stack st1 with
              | [] => SDone st1
              | it :: rest =>
                  scan_project fuel'
                    (mkCState (cs_forest st1) (cs_ctx st1) (cs_cur st1) (si_file it) (si_conf it)
                              rest (cs_tracers st1) (cs_files st1) (cs_log st1))
              end)
        | ROk (Some l, cf) =>
            let st := set_conf st cf in
            if is_include st l then
              match process_include st l with
              | (COk st1, _) => scan_project fuel' st1
              | (CErr e, st2) => SErr (with_live_trace st2 e) st2
              | (CPanic p, st2) => SPanic p st2
              | (CFuel, _) => SFuel
              end
            else lift st (core_next st l) (scan_project fuel')
        end
    end.

  Definition initial_cstate (root_name root_content : bytes) : cstate :=
    mkCState [] None None 0%N (init_conf init_st) [] [] [(root_name, root_content)]
             [("read"%string, root_name)].

End Scan.

