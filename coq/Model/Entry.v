(* Entry.v — entry points of the directive-layer model for the correspondence driver, with
   the regenerated program plugged in, and renderers that turn results into plain data
   (names, lines) so that the OCaml driver only prints.  No proofs here. *)
From JS Require Import Base Bytes Scanner Directive Core Expand Catalog ScanRun.
From JS Require ScannerProg.
Open Scope Z_scope.

Definition otable := list (bytes * okind * Z * olen_res).   (* file name, kind, pos, answer *)
Definition etable := list (bytes * Z * Z * (N * Z)).        (* file name, begin, end, (msg id, index) *)

Fixpoint olen_lookup (t : otable) (name : bytes) (k : okind) (pos : Z) : olen_res :=
  match t with
  | [] => OLenErr missing_oracle_id 0
  | (n, k', p', r) :: rest =>
      if beq n name && okind_eqb k k' && (pos =? p') then r else olen_lookup rest name k pos
  end.

Record rloc := mkRLoc { rl_name : bytes; rl_index : Z; rl_line : Z; rl_col : Z; rl_quote : option bytes }.

Record rerr := mkRErr {
  re_fmt : string; re_args : list bytes; re_suffix : list rloc;
  re_loc : rloc; re_trace : list rloc
}.

Definition render_loc (files : list (bytes * bytes)) (f : N) (i : Z) : rloc :=
  match nth_error files (N.to_nat f) with
  | Some (n, c) => let '(l, col) := line_and_column c i in mkRLoc n i l col (quote c i)
  | None => mkRLoc [] i 0 0 None
  end.

Definition render_err (files : list (bytes * bytes)) (e : cerr) : rerr :=
  mkRErr (m_fmt (e_msg e)) (m_args (e_msg e))
         (List.map (fun p => render_loc files (fst p) (snd p)) (m_suffix (e_msg e)))
         (render_loc files (e_file e) (e_index e))
         (List.map (fun p => render_loc files (fst p) (snd p)) (e_trace e)).

(* a directive with names and lines resolved *)
Inductive rdir := mkRDir {
  rd_kind : N; rd_keyword : bytes; rd_file : bytes; rd_begin : Z; rd_end : Z;
  rd_named : list (string * bytes); rd_unnamed : list bytes; rd_annot : bytes;
  rd_body : option (bytes * Z * Z); rd_explicit : bool; rd_trace : list rloc;
  rd_children : list rdir
}.

Definition fname_of (files : list (bytes * bytes)) (f : N) : bytes :=
  match nth_error files (N.to_nat f) with Some (n, _) => n | None => [] end.

Fixpoint render_dir (fuel : nat) (files : list (bytes * bytes)) (d : dir) : rdir :=
  mkRDir (d_kind d) (d_keyword d) (fname_of files (co_file (d_kw d))) (co_begin (d_kw d)) (co_end (d_kw d))
         (List.map (fun p => (pkey_name (fst p), snd p)) (d_named d)) (d_unnamed d) (d_annot d)
         (match d_body d with
          | Some c => Some (fname_of files (co_file c), co_begin c, co_end c)
          | None => None
          end)
         (d_explicit d)
         (List.map (fun p => render_loc files (fst p) (snd p)) (d_trace d))
         (match fuel with
          | O => []
          | S f => List.map (render_dir f files) (d_children d)
          end).

Inductive cat_result :=
| CatOk (c : catalog)
| CatErr (e : rerr)
| CatPanic (p : cpanic)
| CatFuel.

Inductive tree_result :=
| TScanErr (e : rerr) (log : list (string * bytes))
| TScanPanic (p : cpanic) (log : list (string * bytes))
| TFuel
| TScanned (dirs : list rdir) (log : list (string * bytes)) (x : tree_phase2)
with tree_phase2 :=
| T2Ok (roots : list rdir) (macro_names : list bytes) (expanded : list rdir) (enums : list bytes) (cat : cat_result)
| T2Err (e : rerr)
| T2ErrOneOf (es : list rerr)
| T2Panic (p : cpanic)
| T2Fuel.

Definition render_depth : nat := 64.

Definition tree_case_b (banned : list N) (fs : fsmap) (root : bytes) (ot : otable) (et : etable) (fuel : nat) : tree_result :=
  match fs_lookup fs root with
  | Some (FFile content) =>
      let st0 := initial_cstate ScannerProg.initial_state root content in
      match scan_project ScannerProg.prog_table ScannerProg.is_newline_cond
                         ScannerProg.is_whitespace_cond fs (olen_lookup ot)
                         ScannerProg.initial_state fuel st0 with
      | SErr e st => TScanErr (render_err (cs_files st) e) (cs_log st)
      | SPanic p st => TScanPanic p (cs_log st)
      | SFuel => TFuel
      | SDone st =>
          let files := cs_files st in
          let echeck (c : coords) : option (N * Z) :=
            let name := fname_of files (co_file c) in
            match List.find (fun r => match r with (n, b, e, _) => beq n name && (b =? co_begin c) && (e =? co_end c) end) et with
            | Some (_, _, _, v) => Some v
            | None => None
            end in
          TScanned (List.map (render_dir render_depth files) (cs_forest st)) (cs_log st)
            (match compile_macros echeck (Nat.min fuel 600) (cs_forest st) with
             | XOk ex =>
                 T2Ok (List.map (render_dir render_depth files) (ex_roots ex))
                      (List.map fst (ex_macros ex))
                      (List.map (render_dir render_depth files) (ex_forest ex))
                      (ex_enums ex)
                      (let read_body (c : coords) : bytes :=
                         match nth_error files (N.to_nat (co_file c)) with
                         | Some (_, content) => sub content (co_begin c) (co_end c + 1)
                         | None => []
                         end in
                       match build_catalog read_body banned 200 (ex_forest ex) with
                       | COk c => CatOk c
                       | CErr e => CatErr (render_err files e)
                       | CPanic p => CatPanic p
                       | CFuel => CatFuel
                       end)
             | XErr e => T2Err (render_err files e)
             | XErrOneOf es => T2ErrOneOf (List.map (render_err files) es)
             | XPanic p => T2Panic p
             | XFuel => T2Fuel
             end)
      end
  | _ => TFuel
  end.

Definition tree_case := tree_case_b [].

(* is the expanded forest nested as the context table prescribes? (hypothesis of the totality
   theorem of the catalog builder, Props/C01.v) - None when there is no expanded forest *)
Definition placed_case (fs : fsmap) (root : bytes) (ot : otable) (et : etable) (fuel : nat) : option (bool * bool) :=
  match fs_lookup fs root with
  | Some (FFile content) =>
      let st0 := initial_cstate ScannerProg.initial_state root content in
      match scan_project ScannerProg.prog_table ScannerProg.is_newline_cond
                         ScannerProg.is_whitespace_cond fs (olen_lookup ot)
                         ScannerProg.initial_state fuel st0 with
      | SDone st =>
          let files := cs_files st in
          let echeck (c : coords) : option (N * Z) :=
            let name := fname_of files (co_file c) in
            match List.find (fun r => match r with (n, b, e, _) => beq n name && (b =? co_begin c) && (e =? co_end c) end) et with
            | Some (_, _, _, v) => Some v
            | None => None
            end in
          match compile_macros echeck (Nat.min fuel 600) (cs_forest st) with
          | XOk ex => Some (forallb (placed None) (ex_forest ex), macros_on_top (cs_forest st))
          | _ => None
          end
      | _ => None
      end
  | _ => None
  end.
