(* Catalog.v — skeleton model of the semantic layer: collectTags, the JSIGHT-first check,
   addDirectives with every add* function of core/build_catalog_directives.go and the setters
   of catalog/setters.go they call, validateCatalog; path parameters and similar paths.
   Schemas are opaque and assumed valid (oracle): what is modelled is WHICH entity is created
   or updated, under which key, in which order, and which rule error is raised where.
   Hand-written (tie B): compared with a projection of the implementation's catalog JSON.
   No proofs here. *)
From JS Require Import Base Bytes Scanner Directive Core Expand.
From JS Require DirectiveTables ErrConsts.
Open Scope Z_scope.



Inductive bodyfmt := FJson | FPlain | FBinary.

Record response := mkResp {
  rs_code : bytes; rs_annot : bytes; rs_dir : dir;
  rs_headers : option dir;          (* the Headers directive *)
  rs_body : option bodyfmt
}.

Record request := mkReq { rq_dir : dir; rq_headers : option dir; rq_body : option bodyfmt }.

Record http_inter := mkHttp {
  hi_id : bytes; hi_method : bytes; hi_path : bytes; hi_annot : bytes;
  hi_descr : option bytes; hi_tags : list bytes;
  hi_query : option (bytes * bytes);       (* format, example *)
  hi_request : option request;
  hi_responses : list response;
  hi_opid : option bytes
}.

Record rpc_inter := mkRpc {
  ri_id : bytes; ri_method : bytes; ri_path : bytes; ri_annot : bytes;
  ri_descr : option bytes; ri_tags : list bytes; ri_params : bool; ri_result : bool
}.

Inductive inter := IHttp (h : http_inter) | IRpc (r : rpc_inter).

Definition inter_id (i : inter) : bytes := match i with IHttp h => hi_id h | IRpc r => ri_id r end.

Record tag := mkTag {
  tg_name : bytes; tg_title : bytes; tg_descr : option bytes;
  tg_http : list bytes; tg_rpc : list bytes      (* interaction ids per protocol *)
}.

Record info := mkInfo { in_dir : dir; in_title : bytes; in_version : bytes; in_descr : option bytes }.

Record catalog := mkCat {
  c_jsight : bytes;
  c_info : option info;
  c_servers : list (bytes * bytes * bytes);        (* name, annotation, baseUrl *)
  c_tags : list tag;
  c_types : list (bytes * bytes * bytes);          (* name, annotation, notation *)
  c_inters : list inter;
  (* the uniqueness sets of JApiCore *)
  c_url_paths : list bytes;
  c_similar : list (bytes * bytes);
  c_opids : list bytes;
  c_protocol_urls : list coords                    (* URL directives that already have a Protocol *)
}.

Definition empty_catalog : catalog := mkCat [] None [] [] [] [] [] [] [] [].

Definition kerr (d : dir) (m : cmsg) : cres catalog := CErr (dir_error d m).
Definition kerr1 (d : dir) (s : string) : cres catalog := kerr d (msg1 s).
Definition required (d : dir) (p : string) : cres catalog :=
  kerr d (mkMsg "%s (%s)" [str ErrConsts.jerr_RequiredParameterNotSpecified; str p]).

Definition has_annot (d : dir) : bool := negb (beq (d_annot d) []).
Definition has_body (d : dir) : bool :=
  match d_body d with Some c => negb (co_end c =? 0) | None => false end.

Definition is_method (k : N) : bool := is_http_request_method k.

(* ------------------------------------------------------------------------------------ *)
(* Directive.Path / HTTPMethod / JsonRpcMethodName through the parent chain (innermost first) *)
Fixpoint dir_path (d : dir) (anc : list dir) : bytes + string :=
  let own := named d KPath in
  let check (p : bytes) : bytes + string :=
    match p with 47%N :: _ => inl p | _ => inr ErrConsts.jerr_IncorrectPath end in
  let up := match anc with
            | [] => inr ErrConsts.jerr_PathNotFound
            | p :: rest => dir_path p rest
            end in
  if N.eqb (d_kind d) DirectiveTables.dir_URL then check own
  else if is_method (d_kind d) then (if beq own [] then up else check own)
  else up.

Fixpoint dir_method (d : dir) (anc : list dir) : option N :=
  if is_method (d_kind d) then Some (d_kind d)
  else match anc with [] => None | p :: rest => dir_method p rest end.

Fixpoint dir_rpc_method (d : dir) (anc : list dir) : option bytes :=
  if N.eqb (d_kind d) DirectiveTables.dir_Method then Some (named d KMethodName)
  else match anc with [] => None | p :: rest => dir_rpc_method p rest end.

Definition sp := [32%N].

Definition http_id (d : dir) (anc : list dir) : (bytes * bytes * bytes) + string :=
  match dir_path d anc with
  | inr e => inr e
  | inl p =>
      match dir_method d anc with
      | None => inr ErrConsts.jerr_HTTPMethodNotFound
      | Some k => let m := kind_name k in inl (str "http " ++ m ++ sp ++ p, m, p)
      end
  end.

Definition rpc_id (d : dir) (anc : list dir) : (bytes * bytes * bytes) + string :=
  match dir_path d anc with
  | inr e => inr e
  | inl p =>
      match dir_rpc_method d anc with
      | None => inr ErrConsts.jerr_JsonRpcMethodNotFound
      | Some m => inl (str "json-rpc-2.0 " ++ m ++ sp ++ p, m, p)
      end
  end.

(* ------------------------------------------------------------------------------------ *)
(* core/path_parameter.go *)
Definition path_segments (p : bytes) : list bytes :=
  List.filter (fun s => negb (beq s [])) (segments p).

Definition is_param_seg (s : bytes) : bool :=
  match s with
  | 123%N :: _ => match rev s with 125%N :: _ => true | _ => false end
  | _ => false
  end.

Fixpoint join_slash (l : list bytes) : bytes :=
  match l with [] => [] | [x] => x | x :: r => x ++ 47%N :: join_slash r end.

(* (path prefix up to and including the segment, parameter name) *)
Fixpoint path_params_aux (pre : list bytes) (segs : list bytes) : list (bytes * bytes) :=
  match segs with
  | [] => []
  | s :: r =>
      let pre' := pre ++ [s] in
      (if is_param_seg s then [(join_slash pre', removelast (tl s))] else []) ++ path_params_aux pre' r
  end.

Definition path_params (p : bytes) : list (bytes * bytes) := path_params_aux [] (path_segments p).

Fixpoint first_dup (seen : list bytes) (l : list bytes) : option bytes :=
  match l with
  | [] => None
  | x :: r => if existsb (beq x) seen then Some x else first_dup (x :: seen) r
  end.

(* PathParameters: Some error message, or None *)
Definition path_params_error (p : bytes) : option cmsg :=
  let pp := path_params p in
  if existsb (fun x => beq (snd x) []) pp
  then Some (mkMsg "%s in %q" [str ErrConsts.jerr_PathEmptyParameter; p])
  else match pp with
       | [] | [_] => None
       | _ => match first_dup [] (List.map snd pp) with
              | Some s => Some (mkMsg "%s: %q" [str ErrConsts.jerr_PathParameterIsDuplicatedInThePath; s])
              | None => None
              end
       end.

Fixpoint assoc_get (l : list (bytes * bytes)) (k : bytes) : option bytes :=
  match l with [] => None | (a, b) :: r => if beq a k then Some b else assoc_get r k end.
Fixpoint assoc_set (l : list (bytes * bytes)) (k v : bytes) : list (bytes * bytes) :=
  match l with
  | [] => [(k, v)]
  | (a, b) :: r => if beq a k then (a, v) :: r else (a, b) :: assoc_set r k v
  end.

(* checkSimilarPaths *)
Fixpoint check_similar (sim : list (bytes * bytes)) (pp : list (bytes * bytes))
  : list (bytes * bytes) + cmsg :=
  match pp with
  | [] => inl sim
  | (pth, par) :: r =>
      let parent := join_slash (removelast (path_segments pth)) in
      match assoc_get sim parent with
      | Some v =>
          if beq v par then check_similar (assoc_set sim parent par) r
          else
            let similar := if beq parent [] then str "{" ++ v ++ str "}"
                           else parent ++ str "/{" ++ v ++ str "}" in
            inr (mkMsg ErrConsts.jerr_PathsAreSimilar [similar; pth])
      | None => check_similar (assoc_set sim parent par) r
      end
  end.

(* ------------------------------------------------------------------------------------ *)
(* core/description.go *)
Fixpoint crlf_to_lf (s : bytes) : bytes :=
  match s with
  | [] => []
  | 13%N :: 10%N :: r => 10%N :: crlf_to_lf r
  | 13%N :: r => 10%N :: crlf_to_lf r
  | c :: r => c :: crlf_to_lf r
  end.

Definition is_nl (c : N) : bool := (c =? 10)%N || (c =? 13)%N.
Definition is_sp_tab (c : N) : bool := (c =? 32)%N || (c =? 9)%N.
Definition is_unicode_space_ascii (c : N) : bool := is_trim_space c.

Definition trim_left (f : N -> bool) (s : bytes) : bytes := drop_while f s.
Definition trim_right (f : N -> bool) (s : bytes) : bytes := rev (drop_while f (rev s)).
Definition trim_both (f : N -> bool) (s : bytes) : bytes := trim_right f (trim_left f s).

(* descriptionRemoveParentheses: inl text | inr error *)
Definition remove_parens (b : bytes) : bytes + string :=
  let bb := trim_both is_unicode_space_ascii b in
  match bb with
  | 40%N :: rest =>
      match rev rest with
      | 41%N :: _ =>
          let inner := trim_both is_sp_tab (removelast rest) in
          match inner with
          | [] => inr ErrConsts.jerr_ApartFromTheOpeningParenthesis
          | c :: _ =>
              if is_nl c && is_nl (last inner 0%N) then inl (trim_both is_nl inner)
              else inr ErrConsts.jerr_ApartFromTheOpeningParenthesis
          end
      | _ => inl b
      end
  | _ => inl b
  end.

Fixpoint split_lines (s : bytes) (cur : bytes) : list bytes :=
  match s with
  | [] => [rev cur]
  | c :: r => if (c =? 10)%N then rev cur :: split_lines r [] else split_lines r (c :: cur)
  end.

(* the blank prefix of the first line (never the whole line) *)
Fixpoint first_prefix (l : bytes) : bytes :=
  match l with
  | [] => []
  | [_] => []
  | c :: r => if is_sp_tab c then c :: first_prefix r else []
  end.

Fixpoint common_prefix (a b : bytes) : bytes :=
  match a, b with
  | x :: a', y :: b' => if N.eqb x y then x :: common_prefix a' b' else []
  | _, _ => []
  end.

Definition longest_ws_prefix (lines : list bytes) : bytes :=
  match lines with
  | [] => []
  | l0 :: rest =>
      fold_left (fun p l => match l with [] => p | _ => common_prefix p l end) rest (first_prefix l0)
  end.

Fixpoint strip_prefix (p l : bytes) : bytes :=
  match p, l with
  | [], _ => l
  | x :: p', y :: l' => if N.eqb x y then strip_prefix p' l' else l
  | _ :: _, [] => l
  end.

Definition has_prefix_b (p l : bytes) : bool := is_prefix p l.

Fixpoint join_nl (l : list bytes) : bytes :=
  match l with [] => [] | [x] => x | x :: r => x ++ 10%N :: join_nl r end.

Definition description (b : bytes) : bytes + string :=
  match remove_parens (crlf_to_lf b) with
  | inr e => inr e
  | inl t =>
      let t := trim_right (fun c => is_nl c || is_sp_tab c) (trim_left is_nl t) in
      let lines := split_lines t [] in
      let p := longest_ws_prefix lines in
      inl (join_nl (List.map (fun l => if has_prefix_b p l then strip_prefix p l else l) lines))
  end.

(* ------------------------------------------------------------------------------------ *)
(* tags *)
Fixpoint find_tag (ts : list tag) (n : bytes) : option tag :=
  match ts with [] => None | t :: r => if beq (tg_name t) n then Some t else find_tag r n end.

Fixpoint update_tag (ts : list tag) (n : bytes) (f : tag -> tag) : list tag :=
  match ts with [] => [] | t :: r => if beq (tg_name t) n then f t :: r else t :: update_tag r n f end.

Fixpoint drop_while_list {A} (f : A -> bool) (l : list A) : list A :=
  match l with [] => [] | x :: r => if f x then drop_while_list f r else l end.

(* catalog.pathTagTitle *)
Definition path_tag_title (p : bytes) : bytes :=
  match drop_while_list (fun s => beq s [] || beq s dot) (segments p) with
  | s :: _ => 47%N :: s
  | [] => [47%N]
  end.

(* url.PathEscape, byte-wise *)
Definition hex_digit (n : N) : N := if (n <? 10)%N then (48 + n)%N else (55 + n)%N.
Definition path_unescaped (c : N) : bool :=
  ((48 <=? c) && (c <=? 57))%N || ((65 <=? c) && (c <=? 90))%N || ((97 <=? c) && (c <=? 122))%N ||
  existsb (N.eqb c) [45; 95; 46; 126; 36; 38; 43; 61; 58; 64]%N.
Fixpoint path_escape (s : bytes) : bytes :=
  match s with
  | [] => []
  | c :: r => if path_unescaped c then c :: path_escape r
              else 37%N :: hex_digit (c / 16) :: hex_digit (c mod 16) :: path_escape r
  end.

Fixpoint replace_first (x y : N) (s : bytes) : bytes :=
  match s with [] => [] | c :: r => if N.eqb c x then y :: r else c :: replace_first x y r end.

(* catalog.tagName *)
Definition tag_name (title : bytes) : bytes :=
  if beq title [47%N] then str "@_"
  else
    let t := replace_first 47 64 title in
    let t := flat_map (fun c => if N.eqb c 95 then [95%N; 95%N] else [c]) t in
    List.map (fun c => if N.eqb c 37 then 95%N else c) (path_escape t).

Definition add_id_to_tag (proto_http : bool) (id : bytes) (t : tag) : tag :=
  if proto_http then mkTag (tg_name t) (tg_title t) (tg_descr t) (tg_http t ++ [id]) (tg_rpc t)
  else mkTag (tg_name t) (tg_title t) (tg_descr t) (tg_http t) (tg_rpc t ++ [id]).

Definition tags_child (d : dir) : option dir :=
  List.find (fun c => N.eqb (d_kind c) DirectiveTables.dir_Tags) (d_children d).

(* Catalog.tags + tagNames: the tag names of an interaction, each tag receiving the id *)
Definition interaction_tags (c : catalog) (d : dir) (anc : list dir) (http : bool) (id path : bytes)
  : (list tag * list bytes) + cerr :=
  let from_tags (td : dir) : (list tag * list bytes) + cerr :=
    if has_annot td then inr (dir_error td (msg1 ErrConsts.jerr_AnnotationIsForbiddenForTheDirective))
    else match d_unnamed td with
         | [] => inr (dir_error td (msg1 ErrConsts.jerr_RequiredParameterNotSpecified))
         | names =>
             match List.find (fun n => match find_tag (c_tags c) n with None => true | Some _ => false end) names with
             | Some missing => inr (dir_error td (mkMsg "%s %q" [str ErrConsts.jerr_TagNotFound; missing]))
             | None =>
                 inl (fold_left (fun ts n => update_tag ts n (add_id_to_tag http id)) names (c_tags c), names)
             end
         end in
  match tags_child d with
  | Some td => from_tags td
  | None =>
      let parent_tags :=
        match anc with
        | p :: _ => if N.eqb (d_kind p) DirectiveTables.dir_URL then tags_child p else None
        | [] => None
        end in
      match parent_tags with
      | Some td => from_tags td
      | None =>
          let title := path_tag_title path in
          let name := tag_name title in
          match find_tag (c_tags c) name with
          | Some _ => inl (update_tag (c_tags c) name (add_id_to_tag http id), [name])
          | None => inl (c_tags c ++ [add_id_to_tag http id (mkTag name title None [] [])], [name])
          end
      end
  end.

Definition set_tags (c : catalog) (ts : list tag) : catalog :=
  mkCat (c_jsight c) (c_info c) (c_servers c) ts (c_types c) (c_inters c)
        (c_url_paths c) (c_similar c) (c_opids c) (c_protocol_urls c).
Definition set_inters (c : catalog) (is : list inter) : catalog :=
  mkCat (c_jsight c) (c_info c) (c_servers c) (c_tags c) (c_types c) is
        (c_url_paths c) (c_similar c) (c_opids c) (c_protocol_urls c).
Definition set_similar (c : catalog) (sim : list (bytes * bytes)) : catalog :=
  mkCat (c_jsight c) (c_info c) (c_servers c) (c_tags c) (c_types c) (c_inters c)
        (c_url_paths c) sim (c_opids c) (c_protocol_urls c).

Fixpoint find_inter (is : list inter) (id : bytes) : option inter :=
  match is with [] => None | i :: r => if beq (inter_id i) id then Some i else find_inter r id end.

Fixpoint update_inter (is : list inter) (id : bytes) (f : inter -> inter) : list inter :=
  match is with [] => [] | i :: r => if beq (inter_id i) id then f i :: r else i :: update_inter r id f end.

Definition upd_http (c : catalog) (id : bytes) (f : http_inter -> http_inter) : catalog :=
  set_inters c (update_inter (c_inters c) id (fun i => match i with IHttp h => IHttp (f h) | x => x end)).
Definition upd_rpc (c : catalog) (id : bytes) (f : rpc_inter -> rpc_inter) : catalog :=
  set_inters c (update_inter (c_inters c) id (fun i => match i with IRpc h => IRpc (f h) | x => x end)).

Definition find_http (c : catalog) (id : bytes) : option http_inter :=
  match find_inter (c_inters c) id with Some (IHttp h) => Some h | _ => None end.
Definition find_rpc (c : catalog) (id : bytes) : option rpc_inter :=
  match find_inter (c_inters c) id with Some (IRpc h) => Some h | _ => None end.

Definition not_found (d : dir) (what : string) (id : bytes) : cres catalog :=
  kerr d (mkMsg "%s %q" [str what; id]).

(* ------------------------------------------------------------------------------------ *)
(* notation / format of a Request, response or Body directive *)
Definition notation_format (sn : bytes) : bodyfmt :=
  if beq sn (str "regex") then FPlain
  else if beq sn (str "any") || beq sn (str "empty") then FBinary
  else FJson.

Definition is_any_or_empty (sn : bytes) : bool := beq sn (str "any") || beq sn (str "empty").
Definition is_jsight (sn : bytes) : bool := beq sn [] || beq sn (str "jsight").

(* path and similar-paths checks shared by addURL and addHTTPMethod *)
Definition check_paths (c : catalog) (d : dir) (anc : list dir) : (catalog * bytes) + cerr :=
  match dir_path d anc with
  | inr e => inr (dir_error d (msg1 e))
  | inl p =>
      match path_params_error p with
      | Some m => inr (dir_error d m)
      | None =>
          match check_similar (c_similar c) (path_params p) with
          | inr m => inr (dir_error d m)
          | inl sim => inl (set_similar c sim, p)
          end
      end
  end.

Definition is_rpc_child (d : dir) : bool :=
  N.eqb (d_kind d) DirectiveTables.dir_Protocol || N.eqb (d_kind d) DirectiveTables.dir_Method.

(* checkJsonRpcUrlChildCompatible *)
Definition url_children_compatible (d : dir) : option cerr :=
  match d_children d with
  | [] => None
  | base :: rest =>
      match List.find (fun x => negb (Bool.eqb (is_rpc_child x) (is_rpc_child base))) rest with
      | Some x => Some (dir_error x (mkMsg "directives %q and %q cannot be within the same URL directive"
                                           [kind_name (d_kind base); kind_name (d_kind x)]))
      | None => None
      end
  end.

Definition parent_kind (anc : list dir) : N :=
  match anc with p :: _ => d_kind p | [] => 999%N end.

(* addRequest, for a Request directive or a Body directive inside one *)
Definition add_request (c : catalog) (d : dir) (anc : list dir) : cres catalog :=
  if has_annot d then kerr1 d ErrConsts.jerr_AnnotationIsForbiddenForTheDirective else
  let sn := named d KSchemaNotation in
  let typ := named d KType in
  if negb (beq sn []) && negb (beq typ []) then kerr1 d ErrConsts.jerr_CannotUseTheTypeAndSchemaNotationParametersTogether else
  match http_id d anc with
  | inr e => kerr1 d e
  | inl (id, _, _) =>
      let c1 := if N.eqb (d_kind d) DirectiveTables.dir_Request
                then upd_http c id (fun h => match hi_request h with
                                             | Some _ => h
                                             | None => mkHttp (hi_id h) (hi_method h) (hi_path h) (hi_annot h) (hi_descr h) (hi_tags h)
                                                              (hi_query h) (Some (mkReq d None None)) (hi_responses h) (hi_opid h)
                                             end)
                else c in
      let with_body : bool :=
        (is_jsight sn && negb (beq typ []) && negb (has_body d)) ||
        (is_jsight sn && beq typ [] && has_body d) ||
        (beq sn (str "regex") && beq typ [] && has_body d) ||
        (is_any_or_empty sn && negb (has_body d)) in
      if with_body then
        match find_http c1 id with
        | None => not_found d ErrConsts.jerr_HTTPResourceNotFound id
        | Some h =>
            match hi_request h with
            | None => kerr d (mkMsg "%s for %q" [str ErrConsts.jerr_RequestIsEmpty; id])
            | Some r =>
                match rq_body r with
                | Some _ => kerr1 d ErrConsts.jerr_NotUniqueDirective
                | None =>
                    COk (upd_http c1 id (fun h => mkHttp (hi_id h) (hi_method h) (hi_path h) (hi_annot h) (hi_descr h) (hi_tags h)
                                                   (hi_query h) (Some (mkReq (rq_dir r) (rq_headers r) (Some (notation_format sn))))
                                                   (hi_responses h) (hi_opid h)))
                end
            end
        end
      else if N.eqb (d_kind d) DirectiveTables.dir_Body then kerr1 d ErrConsts.jerr_IncorrectRequest
      else COk c1
  end.

(* addResponse, for a response-code directive or a Body directive inside one *)
Definition add_response (c : catalog) (d : dir) (anc : list dir) : cres catalog :=
  let sn := named d KSchemaNotation in
  let typ := named d KType in
  if negb (beq sn []) && negb (beq typ []) then kerr1 d ErrConsts.jerr_CannotUseTheTypeAndSchemaNotationParametersTogether else
  let parent_has_type :=
    match anc with
    | p :: _ => N.eqb (d_kind p) DirectiveTables.dir_HTTPResponseCode && negb (beq (named p KType) [])
    | [] => false
    end in
  if N.eqb (d_kind d) DirectiveTables.dir_Body && negb (beq typ []) && parent_has_type
  then kerr d (msg1 "You cannot specify User Type in the response directive if it has a child Body directive.") else
  match http_id d anc with
  | inr e => kerr1 d e
  | inl (id, _, _) =>
      let c1 := if N.eqb (d_kind d) DirectiveTables.dir_HTTPResponseCode
                then upd_http c id (fun h => mkHttp (hi_id h) (hi_method h) (hi_path h) (hi_annot h) (hi_descr h) (hi_tags h)
                                               (hi_query h) (hi_request h)
                                               (hi_responses h ++ [mkResp (d_keyword d) (d_annot d) d None None]) (hi_opid h))
                else c in
      let with_body : bool := negb (beq typ []) || has_body d || is_any_or_empty sn in
      if with_body then
        match find_http c1 id with
        | None => not_found d ErrConsts.jerr_HTTPResourceNotFound id
        | Some h =>
            match rev (hi_responses h) with
            | [] => kerr d (mkMsg "%s for %q" [str ErrConsts.jerr_ResponsesIsEmpty; id])
            | lastr :: before =>
                let r' := mkResp (rs_code lastr) (rs_annot lastr) (rs_dir lastr) (rs_headers lastr) (Some (notation_format sn)) in
                COk (upd_http c1 id (fun h => mkHttp (hi_id h) (hi_method h) (hi_path h) (hi_annot h) (hi_descr h) (hi_tags h)
                                               (hi_query h) (hi_request h) (rev (r' :: before)) (hi_opid h)))
            end
        end
      else if N.eqb (d_kind d) DirectiveTables.dir_Body then kerr1 d ErrConsts.jerr_BodyIsEmpty
      else COk c1
  end.

(* one directive of the expanded forest; [anc]: its ancestors, innermost first *)
Definition add_directive (banned : list N) (c : catalog) (d : dir) (anc : list dir) : cres catalog :=
  let k := d_kind d in
  if existsb (N.eqb k) banned
  then kerr d (mkMsg "%s (%s)" [str ErrConsts.jerr_DirectiveNotAllowed; kind_name k])
  else if N.eqb k DirectiveTables.dir_Jsight then
    let v := named d KVersion in
    if beq v [] then required d "Version"
    else if negb (beq v (str "0.3")) then kerr1 d ErrConsts.jerr_UnsupportedVersion
    else if has_annot d then kerr1 d ErrConsts.jerr_AnnotationIsForbiddenForTheDirective
    else if negb (beq (c_jsight c) []) then kerr1 d ErrConsts.jerr_DirectiveJSIGHTGottaBeOnlyOneTime
    else COk (mkCat v (c_info c) (c_servers c) (c_tags c) (c_types c) (c_inters c) (c_url_paths c) (c_similar c) (c_opids c) (c_protocol_urls c))
  else if N.eqb k DirectiveTables.dir_Info then
    if negb (match d_named d with [] => true | _ => false end) then kerr1 d ErrConsts.jerr_ParametersAreForbiddenForTheDirective
    else if has_annot d then kerr1 d ErrConsts.jerr_AnnotationIsForbiddenForTheDirective
    else match c_info c with
         | Some _ => kerr1 d ErrConsts.jerr_DirectiveINFOGottaBeOnlyOneTime
         | None => COk (mkCat (c_jsight c) (Some (mkInfo d [] [] None)) (c_servers c) (c_tags c) (c_types c) (c_inters c)
                              (c_url_paths c) (c_similar c) (c_opids c) (c_protocol_urls c))
         end
  else if N.eqb k DirectiveTables.dir_Title || N.eqb k DirectiveTables.dir_Version then
    let is_title := N.eqb k DirectiveTables.dir_Title in
    let v := if is_title then named d KTitle else named d KVersion in
    if beq v [] then required d (if is_title then "Title" else "Version")
    else if has_annot d then kerr1 d ErrConsts.jerr_AnnotationIsForbiddenForTheDirective
    else match c_info c with
         | None => CPanic (CPOther "c.Info is nil")
         | Some i =>
             if negb (beq (if is_title then in_title i else in_version i) []) then kerr1 d ErrConsts.jerr_NotUniqueDirective
             else COk (mkCat (c_jsight c)
                             (Some (if is_title then mkInfo (in_dir i) v (in_version i) (in_descr i)
                                    else mkInfo (in_dir i) (in_title i) v (in_descr i)))
                             (c_servers c) (c_tags c) (c_types c) (c_inters c) (c_url_paths c) (c_similar c) (c_opids c) (c_protocol_urls c))
         end
  else if N.eqb k DirectiveTables.dir_Description then
    if has_annot d then kerr1 d ErrConsts.jerr_AnnotationIsForbiddenForTheDirective
    else if negb (has_body d) then kerr1 d ErrConsts.jerr_DescriptionIsEmpty
    else CPanic (CPOther "description needs the body bytes")   (* handled by add_description below *)
  else if N.eqb k DirectiveTables.dir_Server then
    let n := named d KName in
    if beq n [] then required d "Name"
    else if existsb (fun s => beq (fst (fst s)) n) (c_servers c) then kerr d (mkMsg ErrConsts.jerr_DuplicateNames [n])
    else COk (mkCat (c_jsight c) (c_info c) (c_servers c ++ [(n, d_annot d, [])]) (c_tags c) (c_types c) (c_inters c)
                    (c_url_paths c) (c_similar c) (c_opids c) (c_protocol_urls c))
  else if N.eqb k DirectiveTables.dir_BaseURL then
    let p := named d KPath in
    if beq p [] then kerr d (mkMsg "%s %q" [str ErrConsts.jerr_RequiredParameterNotSpecified; str "Path"])
    else if has_annot d then kerr1 d ErrConsts.jerr_AnnotationIsForbiddenForTheDirective
    else match anc with
         | [] => CPanic (CPOther "BaseUrl without a parent")
         | srv :: _ =>
             let sn := named srv KName in
             match List.find (fun s => beq (fst (fst s)) sn) (c_servers c) with
             | None => kerr d (mkMsg "%s for %q" [str ErrConsts.jerr_ServerNotFound; sn])
             | Some (_, _, b) =>
                 if negb (beq b []) then kerr1 d ErrConsts.jerr_DirectiveBaseURLAlreadyDefined
                 else COk (mkCat (c_jsight c) (c_info c)
                                 (List.map (fun s => if beq (fst (fst s)) sn then (fst (fst s), snd (fst s), p) else s) (c_servers c))
                                 (c_tags c) (c_types c) (c_inters c) (c_url_paths c) (c_similar c) (c_opids c) (c_protocol_urls c))
             end
         end
  else if N.eqb k DirectiveTables.dir_Type then
    let n := named d KName in
    if beq n [] then required d "Name"
    else if existsb (fun s => beq (fst (fst s)) n) (c_types c) then kerr d (mkMsg ErrConsts.jerr_DuplicateNames [n])
    else
      let sn := named d KSchemaNotation in
      COk (mkCat (c_jsight c) (c_info c) (c_servers c) (c_tags c)
                 (c_types c ++ [(n, d_annot d, if beq sn [] then str "jsight" else sn)]) (c_inters c)
                 (c_url_paths c) (c_similar c) (c_opids c) (c_protocol_urls c))
  else if N.eqb k DirectiveTables.dir_URL then
    if has_annot d then kerr1 d ErrConsts.jerr_AnnotationIsForbiddenForTheDirective
    else match check_paths c d anc with
         | inr e => CErr e
         | inl (c1, p) =>
             if existsb (beq p) (c_url_paths c1) then kerr d (mkMsg ErrConsts.jerr_NotUniquePath [p])
             else
               let c2 := mkCat (c_jsight c1) (c_info c1) (c_servers c1) (c_tags c1) (c_types c1) (c_inters c1)
                               (c_url_paths c1 ++ [p]) (c_similar c1) (c_opids c1) (c_protocol_urls c1) in
               match url_children_compatible d with
               | Some e => CErr e
               | None => COk c2
               end
         end
  else if is_method k then
    match check_paths c d anc with
    | inr e => CErr e
    | inl (c1, _) =>
        match http_id d anc with
        | inr e => kerr1 d e
        | inl (id, m, p) =>
            match find_inter (c_inters c1) id with
            | Some _ => kerr d (mkMsg "%s %q" [str ErrConsts.jerr_MethodIsAlreadyDefinedInResource; id])
            | None =>
                match interaction_tags c1 d anc true id p with
                | inr e => CErr e
                | inl (ts, names) =>
                    COk (set_inters (set_tags c1 ts)
                           (c_inters c1 ++ [IHttp (mkHttp id m p (d_annot d) None names None None [] None)]))
                end
            end
        end
    end
  else if N.eqb k DirectiveTables.dir_Query then
    if has_annot d then kerr1 d ErrConsts.jerr_AnnotationIsForbiddenForTheDirective
    else if negb (has_body d) then kerr1 d ErrConsts.jerr_BodyIsEmpty
    else match http_id d anc with
         | inr e => kerr1 d e
         | inl (id, _, _) =>
             match find_http c id with
             | None => not_found d ErrConsts.jerr_HTTPResourceNotFound id
             | Some h =>
                 match hi_query h with
                 | Some _ => kerr1 d ErrConsts.jerr_NotUniqueDirective
                 | None =>
                     let f := named d KFormat in
                     COk (upd_http c id (fun h => mkHttp (hi_id h) (hi_method h) (hi_path h) (hi_annot h) (hi_descr h) (hi_tags h)
                                                   (Some (if beq f [] then str "htmlFormEncoded" else f, named d KQueryExample))
                                                   (hi_request h) (hi_responses h) (hi_opid h)))
                 end
             end
         end
  else if N.eqb k DirectiveTables.dir_Request then add_request c d anc
  else if N.eqb k DirectiveTables.dir_HTTPResponseCode then add_response c d anc
  else if N.eqb k DirectiveTables.dir_Headers then
    if has_annot d then kerr1 d ErrConsts.jerr_AnnotationIsForbiddenForTheDirective
    else if negb (has_body d) then kerr1 d ErrConsts.jerr_BodyIsEmpty
    else
      let pk := parent_kind anc in
      if N.eqb pk DirectiveTables.dir_Request then
        match http_id d anc with
        | inr e => kerr1 d e
        | inl (id, _, _) =>
            match find_http c id with
            | None => not_found d ErrConsts.jerr_HTTPResourceNotFound id
            | Some h =>
                match hi_request h with
                | None => kerr d (mkMsg "%s for %q" [str ErrConsts.jerr_RequestIsEmpty; id])
                | Some r =>
                    match rq_headers r with
                    | Some _ => kerr1 d ErrConsts.jerr_NotUniqueDirective
                    | None => COk (upd_http c id (fun h => mkHttp (hi_id h) (hi_method h) (hi_path h) (hi_annot h) (hi_descr h) (hi_tags h)
                                                            (hi_query h) (Some (mkReq (rq_dir r) (Some d) (rq_body r))) (hi_responses h) (hi_opid h)))
                    end
                end
            end
        end
      else if N.eqb pk DirectiveTables.dir_HTTPResponseCode then
        match http_id d anc with
        | inr e => kerr1 d e
        | inl (id, _, _) =>
            match find_http c id with
            | None => not_found d ErrConsts.jerr_HTTPResourceNotFound id
            | Some h =>
                match rev (hi_responses h) with
                | [] => kerr d (mkMsg "%s for %q" [str ErrConsts.jerr_ResponsesIsEmpty; id])
                | lastr :: before =>
                    match rs_headers lastr with
                    | Some _ => kerr1 d ErrConsts.jerr_NotUniqueDirective
                    | None =>
                        let r' := mkResp (rs_code lastr) (rs_annot lastr) (rs_dir lastr) (Some d) (rs_body lastr) in
                        COk (upd_http c id (fun h => mkHttp (hi_id h) (hi_method h) (hi_path h) (hi_annot h) (hi_descr h) (hi_tags h)
                                                      (hi_query h) (hi_request h) (rev (r' :: before)) (hi_opid h)))
                    end
                end
            end
        end
      else kerr1 d ErrConsts.jerr_IncorrectDirectiveContext
  else if N.eqb k DirectiveTables.dir_Body then
    match anc with
    | [] => CPanic (CPOther "Body without a parent")
    | p :: _ =>
        if negb (match d_named p with [] => true | _ => false end) && negb (N.eqb (d_kind p) DirectiveTables.dir_Macro)
        then CErr (dir_error p (msg1 ErrConsts.jerr_ParametersAreForbiddenForTheDirective))
        else if N.eqb (d_kind p) DirectiveTables.dir_Request then add_request c d anc
        else if N.eqb (d_kind p) DirectiveTables.dir_HTTPResponseCode then add_response c d anc
        else COk c
    end
  else if N.eqb k DirectiveTables.dir_Protocol then
    if has_annot d then kerr1 d ErrConsts.jerr_AnnotationIsForbiddenForTheDirective
    else
      let pn := named d KProtocolName in
      if beq pn [] then required d "ProtocolName"
      else if negb (beq pn (str "json-rpc-2.0")) then kerr1 d ErrConsts.jerr_ProtocolParameterErr
      else match anc with
           | [] => CPanic (CPOther "Protocol without a parent")
           | p :: _ =>
               if existsb (fun x => N.eqb (co_file x) (co_file (d_kw p)) && (co_begin x =? co_begin (d_kw p))) (c_protocol_urls c)
               then kerr1 d ErrConsts.jerr_NotUniqueDirective
               else COk (mkCat (c_jsight c) (c_info c) (c_servers c) (c_tags c) (c_types c) (c_inters c)
                               (c_url_paths c) (c_similar c) (c_opids c) (c_protocol_urls c ++ [d_kw p]))
           end
  else if N.eqb k DirectiveTables.dir_Method then
    if beq (named d KMethodName) [] then required d "MethodName"
    else
      let has_protocol := match anc with
                          | p :: _ => existsb (fun x => N.eqb (d_kind x) DirectiveTables.dir_Protocol) (d_children p)
                          | [] => false
                          end in
      if negb has_protocol then kerr1 d ErrConsts.jerr_ProtocolNotFound
      else match rpc_id d anc with
           | inr e => kerr1 d e
           | inl (id, m, p) =>
               match find_inter (c_inters c) id with
               | Some _ => kerr d (mkMsg "%s %q" [str ErrConsts.jerr_MethodIsAlreadyDefinedInResource; id])
               | None =>
                   match interaction_tags c d anc false id p with
                   | inr e => CErr e
                   | inl (ts, names) =>
                       COk (set_inters (set_tags c ts) (c_inters c ++ [IRpc (mkRpc id m p (d_annot d) None names false false)]))
                   end
               end
           end
  else if N.eqb k DirectiveTables.dir_Params || N.eqb k DirectiveTables.dir_Result then
    if has_annot d then kerr1 d ErrConsts.jerr_AnnotationIsForbiddenForTheDirective
    else if negb (has_body d) then kerr1 d ErrConsts.jerr_BodyIsEmpty
    else match rpc_id d anc with
         | inr e => kerr1 d e
         | inl (id, _, _) =>
             match find_rpc c id with
             | None => not_found d ErrConsts.jerr_JsonRpcResourceNotFound id
             | Some r =>
                 let is_params := N.eqb k DirectiveTables.dir_Params in
                 if (if is_params then ri_params r else ri_result r) then kerr1 d ErrConsts.jerr_NotUniqueDirective
                 else COk (upd_rpc c id (fun r => if is_params
                                                  then mkRpc (ri_id r) (ri_method r) (ri_path r) (ri_annot r) (ri_descr r) (ri_tags r) true (ri_result r)
                                                  else mkRpc (ri_id r) (ri_method r) (ri_path r) (ri_annot r) (ri_descr r) (ri_tags r) (ri_params r) true))
             end
         end
  else if N.eqb k DirectiveTables.dir_OperationID then
    let id := named d KOperationId in
    if beq id [] then required d "OperationId"
    else if has_annot d then kerr1 d ErrConsts.jerr_AnnotationIsForbiddenForTheDirective
    else if existsb (beq id) (c_opids c) then kerr d (mkMsg ErrConsts.jerr_NotUniqueOperationID [id])
    else
      let c1 := mkCat (c_jsight c) (c_info c) (c_servers c) (c_tags c) (c_types c) (c_inters c)
                      (c_url_paths c) (c_similar c) (c_opids c ++ [id]) (c_protocol_urls c) in
      match http_id d anc with
      | inr e => kerr1 d e
      | inl (hid, _, _) =>
          match find_http c1 hid with
          | None => not_found d ErrConsts.jerr_HTTPResourceNotFound hid
          | Some _ => COk (upd_http c1 hid (fun h => mkHttp (hi_id h) (hi_method h) (hi_path h) (hi_annot h) (hi_descr h) (hi_tags h)
                                                      (hi_query h) (hi_request h) (hi_responses h) (Some id)))
          end
      end
  else COk c.   (* Path, Tags, TAG, ENUM, PASTE ...: no add-function *)

(* addDescription needs the text *)
Definition add_description (c : catalog) (d : dir) (anc : list dir) (body : bytes) : cres catalog :=
  if has_annot d then kerr1 d ErrConsts.jerr_AnnotationIsForbiddenForTheDirective
  else if negb (has_body d) then kerr1 d ErrConsts.jerr_DescriptionIsEmpty
  else match description body with
       | inr e => CErr (mkErr (msg1 e) (match d_body d with Some b => co_file b | None => 0%N end)
                              (match d_body d with Some b => co_begin b | None => 0 end) (d_trace d))
       | inl [] => kerr1 d ErrConsts.jerr_DescriptionIsEmpty
       | inl text =>
           let pk := parent_kind anc in
           if N.eqb pk DirectiveTables.dir_Info then
             match c_info c with
             | None => CPanic (CPOther "c.Info is nil")
             | Some i =>
                 match in_descr i with
                 | Some _ => kerr1 d ErrConsts.jerr_NotUniqueDirective
                 | None => COk (mkCat (c_jsight c) (Some (mkInfo (in_dir i) (in_title i) (in_version i) (Some text)))
                                      (c_servers c) (c_tags c) (c_types c) (c_inters c) (c_url_paths c) (c_similar c) (c_opids c) (c_protocol_urls c))
                 end
             end
           else if is_method pk then
             match http_id d anc with
             | inr e => kerr1 d e
             | inl (id, _, _) =>
                 match find_http c id with
                 | None => not_found d ErrConsts.jerr_HTTPResourceNotFound id
                 | Some h =>
                     match hi_descr h with
                     | Some _ => kerr1 d ErrConsts.jerr_NotUniqueDirective
                     | None => COk (upd_http c id (fun h => mkHttp (hi_id h) (hi_method h) (hi_path h) (hi_annot h) (Some text) (hi_tags h)
                                                             (hi_query h) (hi_request h) (hi_responses h) (hi_opid h)))
                     end
                 end
             end
           else if N.eqb pk DirectiveTables.dir_Method then
             match rpc_id d anc with
             | inr e => kerr1 d e
             | inl (id, _, _) =>
                 match find_rpc c id with
                 | None => not_found d ErrConsts.jerr_HTTPResourceNotFound id
                 | Some r =>
                     match ri_descr r with
                     | Some _ => kerr1 d ErrConsts.jerr_NotUniqueDirective
                     | None => COk (upd_rpc c id (fun r => mkRpc (ri_id r) (ri_method r) (ri_path r) (ri_annot r) (Some text) (ri_tags r) (ri_params r) (ri_result r)))
                     end
                 end
             end
           else if N.eqb pk DirectiveTables.dir_TAG then
             let tn := match anc with p :: _ => named p KTagName | [] => [] end in
             match find_tag (c_tags c) tn with
             | None => kerr d (mkMsg "%s %q" [str ErrConsts.jerr_TagNotFound; tn])
             | Some t =>
                 match tg_descr t with
                 | Some _ => kerr1 d ErrConsts.jerr_NotUniqueDirective
                 | None => COk (set_tags c (update_tag (c_tags c) tn (fun t => mkTag (tg_name t) (tg_title t) (Some text) (tg_http t) (tg_rpc t))))
                 end
             end
           else kerr1 d ErrConsts.jerr_WrongDescriptionContext
       end.

Section Build.
  Variable read_body : coords -> bytes.   (* Coords.Read() *)
  Variable banned : list N.

  (* addDirectiveBranch *)
  Fixpoint add_branch (fuel : nat) (c : catalog) (d : dir) (anc : list dir) : cres catalog :=
    match fuel with
    | O => CFuel
    | S fuel' =>
        let r :=
          if existsb (N.eqb (d_kind d)) banned then add_directive banned c d anc
          else if N.eqb (d_kind d) DirectiveTables.dir_Description
          then add_description c d anc (match d_body d with Some b => read_body b | None => [] end)
          else add_directive banned c d anc in
        match r with
        | COk c1 =>
            (fix go (c : catalog) (cs : list dir) : cres catalog :=
               match cs with
               | [] => COk c
               | x :: rest =>
                   match add_branch fuel' c x (d :: anc) with
                   | COk c' => go c' rest
                   | o => o
                   end
               end) c1 (d_children d)
        | o => o
        end
    end.

  Fixpoint add_all (fuel : nat) (c : catalog) (ds : list dir) : cres catalog :=
    match ds with
    | [] => COk c
    | d :: rest =>
        match add_branch fuel c d [] with
        | COk c' => add_all fuel c' rest
        | o => o
        end
    end.

  (* collectTags: top-level TAG directives of the expanded forest *)
  Fixpoint collect_tags (c : catalog) (ds : list dir) : cres catalog :=
    match ds with
    | [] => COk c
    | d :: rest =>
        if N.eqb (d_kind d) DirectiveTables.dir_TAG then
          let n := named d KTagName in
          if beq n [] then required d "TagName"
          else match find_tag (c_tags c) n with
               | Some _ => kerr d (mkMsg ErrConsts.jerr_DuplicateNames [n])
               | None => collect_tags (set_tags c (c_tags c ++ [mkTag n (if beq (d_annot d) [] then n else d_annot d) None [] []])) rest
               end
        else collect_tags c rest
    end.

  (* validateCatalog *)
  Definition validate (c : catalog) : option cerr :=
    let info_err :=
      match c_info c with
      | Some i => if beq (in_title i) [] && beq (in_version i) [] && match in_descr i with None => true | Some _ => false end
                  then Some (dir_error (in_dir i) (msg1 ErrConsts.jerr_InfoIsEmpty)) else None
      | None => None
      end in
    match info_err with
    | Some e => Some e
    | None =>
        let https := flat_map (fun i => match i with IHttp h => [h] | _ => [] end) (c_inters c) in
        match List.find (fun h => match hi_request h with Some r => match rq_body r with None => true | _ => false end | None => false end) https with
        | Some h =>
            match hi_request h with
            | Some r => Some (dir_error (rq_dir r) (mkMsg "%s %q" [str ErrConsts.jerr_UndefinedRequestBodyForResource; hi_id h]))
            | None => None
            end
        | None =>
            first_some (fun h =>
              first_some (fun r => match rs_body r with
                                   | None => Some (dir_error (rs_dir r)
                                       (mkMsg "undefined response body for resource %q, HTTP-code %q" [hi_id h; rs_code r]))
                                   | Some _ => None
                                   end) (hi_responses h)) https
        end
    end.

  (* collectRawUserTypes: a second TYPE directive with a (non-empty) name already collected is
     refused where the directives are collected (fix 5c83d2c) *)
  Fixpoint dup_type_error (seen : list bytes) (ds : list dir) : option cerr :=
    match ds with
    | [] => None
    | d :: rest =>
        if N.eqb (d_kind d) DirectiveTables.dir_Type then
          let n := named d KName in
          if negb (beq n []) && existsb (beq n) seen
          then Some (dir_error d (mkMsg ErrConsts.jerr_DuplicateNames [n]))
          else dup_type_error (n :: seen) rest
        else dup_type_error seen rest
    end.

  (* buildUserTypes: rawUserTypes keeps one directive per name (the last one written), in the
     order the names first appear; a jsight or regex type needs a body *)
  Definition type_without_body (forest : list dir) : option cerr :=
    let types := List.filter (fun d => N.eqb (d_kind d) DirectiveTables.dir_Type) forest in
    let names := fold_left (fun acc d => if existsb (beq (named d KName)) acc then acc else acc ++ [named d KName]) types [] in
    first_some (fun n =>
      match List.find (fun d => beq (named d KName) n) (rev types) with
      | Some d =>
          let sn := named d KSchemaNotation in
          if (beq sn [] || beq sn (str "jsight") || beq sn (str "regex")) && negb (has_body d)
          then Some (dir_error d (msg1 ErrConsts.jerr_BodyIsEmpty)) else None
      | None => None
      end) names.

  (* collectPaths: the rule checks on Path directives (their schemas are the dependency's);
     [prev]: keyword coordinates of the parent of the previously registered Path *)
  Definition same_dir (a b : coords) : bool := N.eqb (co_file a) (co_file b) && (co_begin a =? co_begin b).

  Fixpoint collect_paths (fuel : nat) (ds : list dir) (anc : list dir) (prev : option coords)
    : option coords + cerr :=
    match fuel with
    | O => inl prev
    | S fuel' =>
        (fix go (ds : list dir) (prev : option coords) : option coords + cerr :=
           match ds with
           | [] => inl prev
           | d :: rest =>
               if N.eqb (d_kind d) DirectiveTables.dir_Macro then go rest prev
               else
                 let here : option coords + cerr :=
                   if N.eqb (d_kind d) DirectiveTables.dir_Path then
                     if has_annot d then inr (dir_error d (msg1 ErrConsts.jerr_AnnotationIsForbiddenForTheDirective))
                     else if negb (has_body d) then inr (dir_error d (msg1 ErrConsts.jerr_BodyIsEmpty))
                     else match dir_path d anc with
                          | inr e => inr (dir_error d (msg1 e))
                          | inl p =>
                              match path_params_error p with
                              | Some m => inr (dir_error d m)
                              | None =>
                                  match anc with
                                  | [] => inr (dir_error d (msg1 ErrConsts.jerr_ParentNotFound))
                                  | par :: _ =>
                                      match prev with
                                      | Some pc => if same_dir pc (d_kw par)
                                                   then inr (dir_error d (msg1 ErrConsts.jerr_NotUniqueDirective))
                                                   else inl (Some (d_kw par))
                                      | None => inl (Some (d_kw par))
                                      end
                                  end
                              end
                          end
                   else inl prev in
                 match here with
                 | inr e => inr e
                 | inl prev1 =>
                     match collect_paths fuel' (d_children d) (d :: anc) prev1 with
                     | inr e => inr e
                     | inl prev2 => go rest prev2
                     end
                 end
           end) ds prev
    end.

  (* addMissedUndefindedPathVariables: top-level URL / method directives without a Path child *)
  Definition missed_path_errors (forest : list dir) : option cerr :=
    first_some (fun d =>
      if (N.eqb (d_kind d) DirectiveTables.dir_URL || is_method (d_kind d)) &&
         negb (existsb (fun c => N.eqb (d_kind c) DirectiveTables.dir_Path) (d_children d))
      then match dir_path d [] with
           | inr e => Some (dir_error d (msg1 e))
           | inl p => match path_params_error p with Some m => Some (dir_error d m) | None => None end
           end
      else None) forest.

  (* buildCatalog + validateCatalog on the expanded forest, after collectTags.  The passes in
     between that only consult the schema dependency (collectUserTypes, collectPaths,
     compileCatalog) are assumed to succeed. *)
  Definition build_catalog (fuel : nat) (forest : list dir) : cres catalog :=
    match collect_tags empty_catalog forest with
    | COk c0 =>
        let first_ok := match forest with
                        | d :: _ => N.eqb (d_kind d) DirectiveTables.dir_Jsight
                        | [] => true
                        end in
        match dup_type_error [] forest with
        | Some e => CErr e
        | None =>
        match type_without_body forest with
        | Some e => CErr e
        | None =>
        match collect_paths fuel forest [] None with
        | inr e => CErr e
        | inl _ =>
        match missed_path_errors forest with
        | Some e => CErr e
        | None =>
        if negb first_ok
        then match forest with d :: _ => kerr1 d ErrConsts.jerr_DirectiveJSIGHTShouldBeTheFirst | [] => COk c0 end
        else
             match add_all fuel c0 forest with
             | COk c => match validate c with Some e => CErr e | None => COk c end
             | o => o
             end
        end end end end
    | o => o
    end.
End Build.

(* nesting follows the context table (every child allowed in its parent, every root allowed at
   the root) and the MACROs are gone: what the directive layer hands to the catalog builder *)
Fixpoint placed (parent : option N) (d : dir) : bool :=
  match d with
  | mkDir k _ _ _ _ _ _ _ _ cs =>
      negb (N.eqb k DirectiveTables.dir_Macro) &&
      (match parent with
       | None => is_allowed_for_root k
       | Some p => is_allowed_in p k
       end) &&
      (fix go (l : list dir) : bool := match l with [] => true | x :: r => placed (Some k) x && go r end) cs
  end.

(* a tree without MACRO nodes; MACRO directives only at the top level of a scanned forest *)
Fixpoint nmtree (d : dir) : bool :=
  match d with
  | mkDir k _ _ _ _ _ _ _ _ cs =>
      negb (N.eqb k DirectiveTables.dir_Macro) &&
      (fix go (l : list dir) : bool := match l with [] => true | x :: r => nmtree x && go r end) cs
  end.
Definition macros_on_top (roots : list dir) : bool := forallb (fun r => forallb nmtree (d_children r)) roots.
