(* ScanRun.v — entry points the correspondence driver evaluates: the whole-file scan with
   the per-Next() trajectory, instantiated with the regenerated program.  No proofs here. *)
From JS Require Import Base Bytes Scanner.
From JS Require ScannerProg.
Open Scope Z_scope.

Definition okind_eqb (a b : okind) : bool :=
  match a, b with OJSchema, OJSchema | OEnum, OEnum => true | _, _ => false end.

(* id reserved for "the harness recorded no answer at this position" *)
Definition missing_oracle_id : N := 999999%N.

Fixpoint olen_of_table (tbl : list (okind * Z * olen_res)) (k : okind) (pos : Z) : olen_res :=
  match tbl with
  | [] => OLenErr missing_oracle_id 0
  | (k', p', r) :: rest => if okind_eqb k k' && (pos =? p') then r else olen_of_table rest k pos
  end.

Section Run.
  Variable data : bytes.
  Variable tbl : list (okind * Z * olen_res).

  Definition the_next :=
    next ScannerProg.prog_table ScannerProg.is_newline_cond ScannerProg.is_whitespace_cond
         data (olen_of_table tbl).

  (* lexemes, how the scan ended, and the configuration after every Next() that returned *)
  Fixpoint lex_traj (fuel : nat) (cf : conf) : list lexeme * scan_end * list conf :=
    match fuel with
    | O => ([], EndFuel, [])
    | S fuel' =>
        match the_next cf with
        | ROk (Some l, cf') =>
            let '(ls, e, tr) := lex_traj fuel' cf' in (l :: ls, e, cf' :: tr)
        | ROk (None, cf') => ([], EndOk, [cf'])
        | RErr e => ([], EndErr e, [])
        | RPanic p => ([], EndPanic p, [])
        | RFuel => ([], EndFuel, [])
        end
    end.

  Definition scan_case : list lexeme * scan_end * list conf :=
    lex_traj (8 * List.length data + 64) (init_conf ScannerProg.initial_state).
End Run.

Definition state_name (st : state) : string :=
  match nth_error ScannerProg.prog_table (N.to_nat st) with
  | Some (n, _) => n
  | None => "?"
  end.
