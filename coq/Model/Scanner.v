(* Scanner.v — executable model of scanner.Scanner: the interpreter of the action language
   (the step functions themselves are regenerated into Gen/ScannerProg.v), Next(),
   processLexemeEvent and the context queries of step-helpers.go.  No proofs here. *)
From JS Require Import Base Bytes.
From JS Require LexemeEvents DirectiveTables.
Open Scope Z_scope.

Record lexeme := mkLex { lk : lexkind; lb : Z; le : Z }.

Record conf := mkConf {
  c_step : state;
  c_sstack : list state;              (* top first *)
  c_finds : list (event * Z);         (* queue, oldest first *)
  c_estack : list (event * Z);        (* top first *)
  c_params : list lexeme;             (* lastDirectiveParameters *)
  c_cur : Z
}.

Inductive serr :=
| EUnexpected (where_ expected : string) (idx : Z) (at_eof : bool)
| EBasic (msg : string) (idx : Z)
| EOracle (msgid : N) (idx : Z).

Inductive panic :=
| PStepStackEmpty | PEventStackEmpty | PFindsEmpty | PIndexRange
| PFallthrough | PNoState | PLexemeType | PValueSlice.

Inductive res (A : Type) :=
| ROk (a : A) | RErr (e : serr) | RPanic (p : panic) | RFuel.
Arguments ROk {A}. Arguments RErr {A}. Arguments RPanic {A}. Arguments RFuel {A}.

Inductive olen_res := OLen (n : Z) | OLenErr (msgid : N) (idx : Z).

Inductive retk := KNil | KCall (st : state) | KRedispatch.
Inductive flow :=
| FFall (cf : conf) | FRet (k : retk) (cf : conf) | FErr (e : serr) | FPanic (p : panic).

Definition set_step cf st := mkConf st (c_sstack cf) (c_finds cf) (c_estack cf) (c_params cf) (c_cur cf).
Definition set_sstack cf ss := mkConf (c_step cf) ss (c_finds cf) (c_estack cf) (c_params cf) (c_cur cf).
Definition set_finds cf fs := mkConf (c_step cf) (c_sstack cf) fs (c_estack cf) (c_params cf) (c_cur cf).
Definition set_estack cf es := mkConf (c_step cf) (c_sstack cf) (c_finds cf) es (c_params cf) (c_cur cf).
Definition set_params cf ps := mkConf (c_step cf) (c_sstack cf) (c_finds cf) (c_estack cf) ps (c_cur cf).
Definition set_cur cf i := mkConf (c_step cf) (c_sstack cf) (c_finds cf) (c_estack cf) (c_params cf) i.

Definition init_conf (st : state) : conf := mkConf st [] [] [] [] 0.

(* Lexeme.Value(): data[begin : end+1]; Go panics when the slice bounds are inverted or
   outside the file. *)
Definition lexeme_value (data : bytes) (l : lexeme) : option bytes :=
  if (lb l <? 0) || (le l + 1 <? lb l) || (Z.of_nat (List.length data) <? le l + 1) then None
  else Some (sub data (lb l) (le l + 1)).

Definition kw_any := bytes_of_string "any".
Definition kw_empty := bytes_of_string "empty".
Definition kw_regex := bytes_of_string "regex".

(* directive.IsHTTPResponseCode on a 3-byte string whose first byte is '1'..'5' *)
Definition is_response_code3 (b : bytes) : bool :=
  match b with
  | a :: b1 :: b2 :: _ => ((49 <=? a) && (a <=? 53))%N && is_digit b1 && is_digit b2
  | _ => false
  end.

Definition keyword_bytes : list bytes :=
  List.map bytes_of_string DirectiveTables.dir_keywords.

(* the keyword strings a directive may start with: every entry of ss except the pseudo
   entry of HTTPResponseCode *)
Definition real_keywords : list bytes :=
  List.map snd
    (List.filter (fun p => negb (N.eqb (fst p) DirectiveTables.dir_HTTPResponseCode))
       (List.combine (List.map N.of_nat (List.seq 0 (List.length keyword_bytes))) keyword_bytes)).

(* directive.IsStartWithDirective *)
Definition is_start_with_directive (b : bytes) : bool :=
  if (Nat.ltb (List.length b) 3) then false
  else is_response_code3 b || existsb (fun k => is_prefix k b) real_keywords.

Section WithInput.
  Variable prog : list (string * stmt).
  Variable nl_cond ws_cond : cond.
  Variable data : bytes.
  Variable olen : okind -> Z -> olen_res.

  Definition data_size : Z := Z.of_nat (List.length data).

  (* None: one of the parameter lexemes cannot be read (Go would panic) *)
  Fixpoint param_values (ps : list lexeme) : option (list bytes) :=
    match ps with
    | [] => Some []
    | p :: rest =>
        match lexeme_value data p, param_values rest with
        | Some v, Some vs => Some (v :: vs)
        | _, _ => None
        end
    end.

  Definition eval_ctx (cf : conf) (q : ctxq) : option bool :=
    match q with
    | QTypeOrAnyOrEmpty =>
        match param_values (c_params cf) with
        | None => None
        | Some vs => Some (existsb (fun v =>
            let v' := trim_square_brackets (unquote v) in
            beq v' kw_any || beq v' kw_empty || is_user_type_name v') vs)
        end
    | QAnyOrEmpty =>
        match param_values (c_params cf) with
        | None => None
        | Some vs => Some (negb (existsb (fun v =>
            let v' := trim_square_brackets (unquote v) in
            beq v' kw_any || beq v' kw_empty) vs))
        end
    | QRegex =>
        match param_values (c_params cf) with
        | None => None
        | Some vs => Some (existsb (fun v => beq (unquote v) kw_regex) vs)
        end
    | QIsDirective =>
        if (c_cur cf <? 0) || (data_size <? c_cur cf) then Some false
        else Some (is_start_with_directive (to_end_of_line (skipn (Z.to_nat (c_cur cf)) data)))
    end.

  (* IsNewLine / isWhitespace are translated from step-helpers.go as conditions over the
     byte alone *)
  Fixpoint eval_cond_simple (c : byte) (k : cond) : option bool :=
    match k with
    | CByte b => Some (N.eqb c b)
    | COr a b =>
        match eval_cond_simple c a with
        | Some false => eval_cond_simple c b
        | r => r
        end
    | CAnd a b =>
        match eval_cond_simple c a with
        | Some true => eval_cond_simple c b
        | r => r
        end
    | CNot a => option_map negb (eval_cond_simple c a)
    | CTrue => Some true
    | _ => None
    end.

  (* [c] is the byte under the cursor as Next() presents it: EOF (0) at the end of the data.
     && and || short-circuit as in Go. *)
  Fixpoint eval_cond (cf : conf) (c : byte) (k : cond) : option bool :=
    match k with
    | CByte b => Some (N.eqb c b)
    | CNewLine => eval_cond_simple c nl_cond
    | CWhitespace => eval_cond_simple c ws_cond
    | CPrevByte d b =>
        match byte_at data (c_cur cf - d) with
        | Some x => Some (N.eqb x b)
        | None => None
        end
    | CCtx q => eval_ctx cf q
    | CNot a => option_map negb (eval_cond cf c a)
    | CAnd a b =>
        match eval_cond cf c a with
        | Some true => eval_cond cf c b
        | r => r
        end
    | COr a b =>
        match eval_cond cf c a with
        | Some false => eval_cond cf c b
        | r => r
        end
    | CTrue => Some true
    end.

  Definition mk_unexpected (cf : conf) (w e : string) : serr :=
    EUnexpected w e (c_cur cf) (negb (c_cur cf <? data_size)).

  (* statements fall through (FFall) or leave the step function (FRet/FErr/FPanic) *)
  Fixpoint exec (c : byte) (s : stmt) (cf : conf) {struct s} : flow :=
    match s with
    | SSkip => FFall cf
    | SSeq a b =>
        match exec c a cf with
        | FFall cf' => exec c b cf'
        | o => o
        end
    | SSetStep st => FFall (set_step cf st)
    | SPush st => FFall (set_sstack cf (st :: c_sstack cf))
    | SPushCur => FFall (set_sstack cf (c_step cf :: c_sstack cf))
    | SPop =>
        match c_sstack cf with
        | [] => FPanic PStepStackEmpty
        | st :: ss' => FFall (set_step (set_sstack cf ss') st)
        end
    | SFound ev off => FFall (set_finds cf (c_finds cf ++ [(ev, c_cur cf + off)]))
    | SAddCur dz => FFall (set_cur cf (c_cur cf + dz))
    | SIf k t e =>
        match eval_cond cf c k with
        | None => FPanic PIndexRange
        | Some true => exec c t cf
        | Some false => exec c e cf
        end
    | SOracle k =>
        match olen k (c_cur cf) with
        | OLenErr m i => FErr (EOracle m (c_cur cf + i))
        | OLen n => FFall (if 0 <? n then set_cur cf (c_cur cf + n - 1) else cf)
        end
    | SRetNil => FRet KNil cf
    | SRetErr w e => FErr (mk_unexpected cf w e)
    | SRetErrBasic m => FErr (EBasic m (c_cur cf))
    | SRetCall st => FRet (KCall st) cf
    | SRetRedispatch => FRet KRedispatch cf
    end.

  Definition body_of (st : state) : option stmt :=
    option_map snd (nth_error prog (N.to_nat st)).

  (* one invocation of s.step(s, c), following direct calls and re-dispatches *)
  Fixpoint run_step (fuel : nat) (st : state) (c : byte) (cf : conf) : res conf :=
    match fuel with
    | O => RFuel
    | S fuel' =>
        match body_of st with
        | None => RPanic PNoState
        | Some body =>
            match exec c body cf with
            | FFall _ => RPanic PFallthrough
            | FErr e => RErr e
            | FPanic p => RPanic p
            | FRet KNil cf' => ROk cf'
            | FRet (KCall st') cf' => run_step fuel' st' c cf'
            | FRet KRedispatch cf' => run_step fuel' (c_step cf') c cf'
            end
        end
    end.

  Definition pair_ok (b e : event) : bool :=
    match b, e with
    | KeywordBegin, KeywordEnd | AnnotationBegin, AnnotationEnd | SchemaBegin, SchemaEnd
    | TextBegin, TextEnd | ParameterBegin, ParameterEnd | EnumBegin, EnumEnd => true
    | _, _ => false
    end.

  (* Scanner.processLexemeEvent *)
  Definition process_event (cf : conf) (ev : event * Z) : res (option lexeme * conf) :=
    let (t, pos) := ev in
    if LexemeEvents.ev_IsBeginning t then ROk (None, set_estack cf (ev :: c_estack cf))
    else if LexemeEvents.ev_IsEnding t then
      match c_estack cf with
      | [] => RPanic PEventStackEmpty
      | (bt, bpos) :: es =>
          let cf' := set_estack cf es in
          if pair_ok bt t then
            match LexemeEvents.ev_ToLexemeType t with
            | Some k => ROk (Some (mkLex k bpos pos), cf')
            | None => RPanic PLexemeType
            end
          else RErr (EBasic "Ending lexeme event does not match beginning event" (c_cur cf))
      end
    else if LexemeEvents.ev_IsSingle t then
      match LexemeEvents.ev_ToLexemeType t with
      | Some k => ROk (Some (mkLex k pos pos), cf)
      | None => RPanic PLexemeType
      end
    else RErr (EBasic "Unsupported lexeme event type" (c_cur cf)).

  Definition note_lexeme (cf : conf) (l : lexeme) : conf :=
    match lk l with
    | LParameter => set_params cf (c_params cf ++ [l])
    | LKeyword => set_params cf []
    | _ => cf
    end.

  (* the `for range s.finds` loop inside Next(): [n] iterations, each shifting one event *)
  Fixpoint drain (n : nat) (cf : conf) : res (option lexeme * conf) :=
    match n with
    | O => ROk (None, cf)
    | S n' =>
        match c_finds cf with
        | [] => RPanic PFindsEmpty
        | ev :: fs =>
            match process_event (set_finds cf fs) ev with
            | ROk (Some l, cf') => ROk (Some l, note_lexeme cf' l)
            | ROk (None, cf') => drain n' cf'
            | RErr e => RErr e
            | RPanic p => RPanic p
            | RFuel => RFuel
            end
        end
    end.

  Definition step_fuel : nat := 8.

  (* the main loop of Next() *)
  Fixpoint next_loop (fuel : nat) (cf : conf) : res (option lexeme * conf) :=
    match fuel with
    | O => RFuel
    | S fuel' =>
        if data_size <? c_cur cf then ROk (None, cf)
        else if c_cur cf <? 0 then RPanic PIndexRange
        else
          let at_end := c_cur cf =? data_size in
          let c := if at_end then 0%N
                   else match byte_at data (c_cur cf) with Some b => b | None => 0%N end in
          if negb at_end && N.eqb c 0 then RErr (EBasic "File cannot contain byte zero" (c_cur cf))
          else
            match run_step step_fuel (c_step cf) c cf with
            | ROk cf1 =>
                let cf2 := set_cur cf1 (c_cur cf1 + 1) in
                match drain (List.length (c_finds cf2)) cf2 with
                | ROk (None, cf3) => next_loop fuel' cf3
                | r => r
                end
            | RErr e => RErr e
            | RPanic p => RPanic p
            | RFuel => RFuel
            end
    end.

  Definition loop_fuel : nat := 8 * List.length data + 64.

  (* Scanner.Next() *)
  Definition next (cf : conf) : res (option lexeme * conf) :=
    match c_finds cf with
    | ev :: fs =>
        match process_event (set_finds cf fs) ev with
        | ROk (Some l, cf') => ROk (Some l, cf')
        | ROk (None, cf') => next_loop loop_fuel cf'
        | r => r
        end
    | [] => next_loop loop_fuel cf
    end.

  Inductive scan_end := EndOk | EndErr (e : serr) | EndPanic (p : panic) | EndFuel.

  (* call Next() until it returns no lexeme or fails *)
  Fixpoint lex_all (fuel : nat) (cf : conf) : list lexeme * scan_end * conf :=
    match fuel with
    | O => ([], EndFuel, cf)
    | S fuel' =>
        match next cf with
        | ROk (Some l, cf') =>
            let '(ls, e, cf'') := lex_all fuel' cf' in (l :: ls, e, cf'')
        | ROk (None, cf') => ([], EndOk, cf')
        | RErr e => ([], EndErr e, cf)
        | RPanic p => ([], EndPanic p, cf)
        | RFuel => ([], EndFuel, cf)
        end
    end.

End WithInput.
