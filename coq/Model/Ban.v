(* Ban.v — the banned-directives option (core.WithBannedDirectives): addDirectives walks the
   expanded forest in pre-order and addDirective refuses the first directive whose kind is in
   the set, before looking at the dispatch table.  No proofs here. *)
From JS Require Import Base Bytes Scanner Directive Core Expand.
Open Scope Z_scope.

Fixpoint preorder (fuel : nat) (ds : list dir) : list dir :=
  match fuel with
  | O => []
  | S f => flat_map (fun d => d :: preorder f (d_children d)) ds
  end.

Definition is_banned (banned : list N) (d : dir) : bool := existsb (N.eqb (d_kind d)) banned.

(* the directive addDirectives stops at because of the ban, if no other error comes first *)
Definition first_banned (fuel : nat) (banned : list N) (forest : list dir) : option dir :=
  List.find (is_banned banned) (preorder fuel forest).
