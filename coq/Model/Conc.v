(* Conc.v — interleavings (C18).
   (a) Several goroutines serialise ONE built catalog: each walks the schemas in order; a visit
       of a lazy cell is atomic (sync.Once.Do blocks the other callers until the first has
       finished, and afterwards the cell is only read).  A schedule is the list of goroutine
       numbers in the order they take their steps.
   (b) Several goroutines build DIFFERENT projects: each has its own JApiCore; the only state
       they share is package-level and write-once under sync.Once (the keyword table
       directive.ee), with a value that does not depend on who initialises it.
   What this model cannot exhibit: data races at the memory level and the schema dependency's
   package-level buffer pools; those are the race detector's (checks/C18.py).
   No proofs here. *)
From JS Require Import Lazy.
From Coq Require Import List Bool Arith.
Import ListNotations.

(* ---------------- (a) serialisers of one catalog ---------------- *)
Record sthread := mkT { t_indent : bool; t_pos : nat; t_ex : list nat; t_done : option result }.

Definition new_thread (indent : bool) : sthread := mkT indent 0 [] None.

Fixpoint set_nth {A} (n : nat) (x : A) (l : list A) : list A :=
  match l, n with
  | [], _ => []
  | _ :: r, O => x :: r
  | y :: r, S n' => y :: set_nth n' x r
  end.

Definition tstep (ds : list sdesc) (st : list lstate) (t : sthread) : list lstate * sthread :=
  match t_done t with
  | Some _ => (st, t)
  | None =>
      match nth_error ds (t_pos t), nth_error st (t_pos t) with
      | Some d, Some l =>
          let '(l', (err, draw, _)) := marshal_one current d l in
          let st' := set_nth (t_pos t) l' st in
          if err then (st', mkT (t_indent t) (t_pos t) (t_ex t) (Some (RErrAt (t_pos t))))
          else (st', mkT (t_indent t) (S (t_pos t))
                         (match draw with Some n => t_ex t ++ [n] | None => t_ex t end) None)
      | _, _ => (st, mkT (t_indent t) (t_pos t) (t_ex t) (Some (RJson (t_indent t) (t_ex t))))
      end
  end.

(* one scheduled step: goroutine [i] moves *)
Definition sched_step (ds : list sdesc) (cfg : list lstate * list sthread) (i : nat) : list lstate * list sthread :=
  let '(st, ts) := cfg in
  match nth_error ts i with
  | Some t => let '(st', t') := tstep ds st t in (st', set_nth i t' ts)
  | None => cfg
  end.

Definition sched_run (ds : list sdesc) (cfg : list lstate * list sthread) (sched : list nat) :=
  fold_left (sched_step ds) sched cfg.

(* ---------------- (b) builders sharing a write-once table ---------------- *)
Section Builders.
  Variable Table Priv Op : Type.
  Variable the_table : Table.                       (* what NewDirectiveType's Once.Do computes *)
  Variable bstep : Table -> Priv -> Op -> Priv.     (* one step of a build: private state + table *)

  (* shared cell: None until the first use *)
  Definition use_table (cell : option Table) : option Table * Table :=
    match cell with Some t => (Some t, t) | None => (Some the_table, the_table) end.

  Record builder := mkB { b_priv : Priv; b_todo : list Op }.

  Definition bsched_step (cfg : option Table * list builder) (i : nat) : option Table * list builder :=
    let '(cell, bs) := cfg in
    match nth_error bs i with
    | Some b =>
        match b_todo b with
        | [] => cfg
        | o :: rest =>
            let '(cell', tb) := use_table cell in
            (cell', set_nth i (mkB (bstep tb (b_priv b) o) rest) bs)
        end
    | None => cfg
    end.

  Definition bsched_run (cfg : option Table * list builder) (sched : list nat) := fold_left bsched_step sched cfg.

  (* running alone *)
  Definition solo (b : builder) : Priv := fold_left (bstep the_table) (b_todo b) (b_priv b).
End Builders.
