(* OpenApi.v — the skeleton of the OpenAPI export (catalog/ser/openapi): which paths, which
   operations, which path parameters, which response keys, which components.  The schema
   objects themselves are the dependency's (jsight-schema-core/openapi) and are not modelled;
   neither are the conversions the exporter refuses with an error value.  No proofs here. *)
From JS Require Import Base Bytes Scanner Directive Core Expand Catalog.
Open Scope N_scope.

Record oas_op := mkOp { op_method : bytes; op_responses : list bytes }.
Record oas_item := mkItem { it_path : bytes; it_params : list bytes; it_ops : list oas_op }.
Record oas := mkOas { oa_paths : list oas_item; oa_components : list bytes }.

Definition lower (c : N) : N := if (65 <=? c) && (c <=? 90) then c + 32 else c.
Definition lower_bytes (b : bytes) : bytes := List.map lower b.

(* the keys of the Responses map: one per distinct code (newResponses groups by code) *)
Fixpoint dedup (l : list bytes) : list bytes :=
  match l with
  | [] => []
  | x :: r => if existsb (beq x) r then dedup r else x :: dedup r
  end.

(* newResponses: an interaction without responses gets the single key "default" *)
Definition response_keys (h : http_inter) : list bytes :=
  match hi_responses h with
  | [] => [str "default"]
  | rs => dedup (List.map rs_code rs)
  end.

Definition op_of (h : http_inter) : oas_op :=
  mkOp (lower_bytes (hi_method h)) (response_keys h).

(* PathItem.assignOperation: one slot per method *)
Fixpoint assign_op (ops : list oas_op) (o : oas_op) : list oas_op :=
  match ops with
  | [] => [o]
  | x :: r => if beq (op_method x) (op_method o) then o :: r else x :: assign_op r o
  end.

(* fillPaths: the first interaction of a path creates the path item (with the path parameters
   of that interaction: one per {parameter}); every interaction assigns its operation *)
Fixpoint add_http (items : list oas_item) (h : http_inter) : list oas_item :=
  match items with
  | [] => [mkItem (hi_path h) (List.map snd (path_params (hi_path h))) [op_of h]]
  | it :: r =>
      if beq (it_path it) (hi_path h)
      then mkItem (it_path it) (it_params it) (assign_op (it_ops it) (op_of h)) :: r
      else it :: add_http r h
  end.

Definition fill_paths (is : list inter) : list oas_item :=
  fold_left (fun acc i => match i with IHttp h => add_http acc h | IRpc _ => acc end) is [].

(* typeNameToSchemaName *)
Definition schema_name (n : bytes) : bytes := tl n.

Definition to_openapi (c : catalog) : oas :=
  mkOas (fill_paths (c_inters c)) (List.map (fun t => schema_name (fst (fst t))) (c_types c)).
