"""C15 — declaration order of independent top-level blocks does not matter."""
import copy, random, re, json, os
from common import *
import treecorr, docgen, layout, catcorr, expected, typedgen
N = treecorr.Node

SECTIONS = ["servers", "userTypes", "userEnums", "interactions"]


def entry_diff(a, b):
    """None when the two catalogs have the same entries with the same content (order of
    entries inside sections and of interactions inside tag groups ignored)"""
    if set(a) != set(b):
        return "top-level keys %s vs %s" % (sorted(a), sorted(b))
    for k in a:
        if k in SECTIONS:
            x, y = a[k] or {}, b[k] or {}
            if set(x) != set(y):
                return "%s: entries %s vs %s" % (k, sorted(set(x) - set(y)), sorted(set(y) - set(x)))
            for e in x:
                if x[e] != y[e]:
                    return "%s[%s]: %s" % (k, e, docgen.json_diff(x[e], y[e]))
        elif k == "tags":
            x, y = a[k] or {}, b[k] or {}
            if set(x) != set(y):
                return "tags: entries %s vs %s" % (sorted(set(x) - set(y)), sorted(set(y) - set(x)))
            for t in x:
                p, q = dict(x[t]), dict(y[t])
                gp = {g["protocol"]: sorted(g["interactions"]) for g in p.pop("interactionGroups", [])}
                gq = {g["protocol"]: sorted(g["interactions"]) for g in q.pop("interactionGroups", [])}
                if gp != gq:
                    return "tags[%s].interactionGroups: %s vs %s" % (t, gp, gq)
                if p != q:
                    return "tags[%s]: %s" % (t, docgen.json_diff(p, q))
        else:
            if a[k] != b[k]:
                return "%s: %s" % (k, docgen.json_diff(a[k], b[k]))
    return None


def regex_dependent_types(j):
    """names of user types whose example may contain a regex-generated string"""
    ut = j.get("userTypes") or {}
    dep = {n for n, t in ut.items() if t.get("schema", {}).get("notation") == "regex"}
    changed = True
    while changed:
        changed = False
        for n, t in ut.items():
            if n not in dep and set(t.get("schema", {}).get("usedUserTypes", [])) & dep:
                dep.add(n)
                changed = True
    return dep


def mask_regex_examples(v, dep):
    """blank the example of every schema that uses a regex-dependent user type (finding F25)"""
    if isinstance(v, list):
        return [mask_regex_examples(x, dep) for x in v]
    if isinstance(v, dict):
        o = {k: mask_regex_examples(x, dep) for k, x in v.items()}
        if "example" in o and "notation" in o and set(o.get("usedUserTypes", [])) & dep:
            o["example"] = "<depends on a regex user type>"
        return o
    return v


def special_models():
    J = N("JSIGHT 0.3")
    out = []
    # forward / mutual / allOf / enum / or references in every direction
    out.append([J, N('TYPE @a\n{\n  "b": @b\n}'), N('TYPE @b\n{\n  "e": 1 // {enum: @e}\n}'), N("ENUM @e\n[1, 2]"),
                N("GET /x", [N("200 @a")])])
    out.append([J, N('URL /r', [N("Protocol json-rpc-2.0"), N("Method m", [N('Params\n{ // {allOf: "@base"}\n  "own": 1\n}'), N("Result\n@base")])]),
                N('TYPE @base\n{\n  "b": 1\n}')])
    out.append([J, N('POST /p', [N('Request\n{ // {allOf: "@d"}\n  "own": 1\n}'), N('200\n{"x": @d | @c}')]),
                N('TYPE @d\n{ // {allOf: "@c"}\n  "dd": 1\n}'), N('TYPE @c\n{\n  "cc": 1\n}')])
    out.append([J, N('TYPE @n\n{\n  "next": @n, // {optional: true}\n  "m": @m\n}'), N('TYPE @m\n{\n  "back": @n // {optional: true}\n}'),
                N("GET /n", [N("200 @m")])])
    out.append([J, N("TAG @x // X"), N("GET /a/{id}", [N("Tags @x"), N("200 any")]), N("GET /a/{id}/b", [N("200 any")]),
                N("URL /a/{id}", [N('Path\n{"id": 1}'), N("POST", [N("Tags @x"), N("201 any")])])])
    out.append([J, N("SERVER @s1", [N('BaseUrl "https://a/"')]), N("SERVER @s2", [N('BaseUrl "https://b/"')]),
                N("INFO", [N('Title "T"')]), N("TYPE @rx regex\n/a+/"), N("GET /rx", [N("200 @rx")])])
    out.append([J, N("TYPE @rx regex\n/ab[0-9]{2}/"), N("GET /a", [N('200\n{"z": @rx}')]), N("GET /b", [N('200\n{"z": @rx}')])])
    out.append([J, N('TYPE @i\n1 // {enum: @en}'), N("ENUM @en\n[1, 2]"),
                N("URL /e/{id}", [N('Path\n{\n  "id": @i\n}'), N("GET", [N("200 any")])]), N("GET /e/{id}/z", [N("200 @i")])])
    # every consumer of a user type through an ALIAS type (a type whose body is a bare reference): the alias
    # may stand before the consumer and its target after it
    obj, alias = N('TYPE @obj\n{\n  "h": "v"\n}'), N("TYPE @alias\n@obj")
    out.append([J, obj, alias, N("GET /h", [N("200", [N("Headers\n@alias"), N("Body any")])]),
                N("POST /h", [N("Request", [N("Headers\n@alias"), N("Body @alias")]), N("201 any")])])
    out.append([J, obj, alias, N("GET /q", [N('Query "h=v"\n@alias'), N("200 @alias")]), N("GET /arr", [N("200 [@alias]")])])
    out.append([J, N('TYPE @pid\n{\n  "id": 1\n}'), N("TYPE @palias\n@pid"), N("URL /p/{id}", [N("Path\n@palias"), N("GET", [N("200 any")])]),
                N("GET /p/{id}/sub", [N("200 any")])])
    out.append([J, obj, alias, N('URL /rpc', [N("Protocol json-rpc-2.0"), N("Method m", [N("Params\n@alias"), N("Result\n[@alias]")])])])
    # Tags naming a tag that exists only because another interaction's path created it (finding F29)
    out.append([J, N("GET /x/a", [N("200 any")]), N("GET /y", [N("Tags @x"), N("200 any")])])
    return out


def implicit_tag_used(src):
    """does a Tags directive name a tag that no TAG directive declares (it can only be the tag
    generated from some interaction's path)?"""
    declared, used = set(), set()
    for line in src.split("\n"):
        w = line.split()
        if len(w) >= 2 and w[0] == "TAG":
            declared.add(w[1].strip('"'))
        if w and w[0] == "Tags":
            used.update(x.strip('"') for x in w[1:] if x.startswith("@") or x.startswith('"@'))
    return bool(used - declared)


def render(roots):
    return layout.render([docgen.node_to_D(n) for n in roots], layout.Layout(random.Random(0)))[0]


def corpus_blocks():
    """accepted single-file corpus documents without MACRO/PASTE/INCLUDE, cut into top-level
    blocks at the keyword offsets the implementation itself reports"""
    cands = []
    for f in corpus_files():
        data = open(f, "rb").read()
        if re.search(rb"\b(MACRO|PASTE|INCLUDE)\b", data):
            continue
        cands.append((f, data))
    cases = [treecorr.project_case("k%d" % i, {"root.jst": d}) for i, (f, d) in enumerate(cands)]
    tres, _ = treecorr.run_isolated(os.path.join(BUILD, "harness"), ["tree"], [json.dumps(c) for c in cases])
    out = []
    for i, (f, d) in enumerate(cands):
        r = tres.get("k%d" % i)
        if not r or r.get("scan") != "ok" or r.get("p2") != "ok":
            continue
        offs = []
        for s in r["roots"]:
            m = re.match(r"\((\w+) \w* \w*:(\d+)-", s)
            if not m:
                offs = None
                break
            offs.append((m.group(1), int(m.group(2))))
        if not offs or len(offs) < 3 or offs[0][0] != "JSIGHT":
            continue
        # a block starts at the beginning of its keyword's line
        starts = []
        for kind, o in offs:
            while o > 0 and d[o - 1:o] not in (b"\n", b"\r"):
                o -= 1
            starts.append(o)
        if starts != sorted(set(starts)):
            continue
        blocks = []
        for k, s in enumerate(starts):
            e = starts[k + 1] if k + 1 < len(starts) else len(d)
            b = d[s:e]
            if not b.endswith((b"\n", b"\r")):
                b += b"\n"
            blocks.append(b)
        out.append((f, d[:starts[0]], blocks))
    return out


def matches_finding(v, f):
    return v.get("class") == f.get("class")


def run(tier, out, model_ok, proof):
    rng = random.Random(seed())
    big = tier == "thorough"
    models = special_models()
    for i in range(700 if big else 90):
        models.append(typedgen.gen_typed(rng))
    for i in range(400 if big else 60):
        r = typedgen.gen_typed(rng)
        models.append(r[:1] + r[1:][:rng.randint(2, 5)] if False else r)
    for i in range(500 if big else 70):
        models.append(treecorr.gen_structured(rng, with_macros=False))
    # small documents (<= 5 blocks): every permutation
    for i in range(250 if big else 40):
        rs = random.Random(rng.random())
        blocks, objs, extra, enums = typedgen.gen_types(rs, nt=rs.randint(2, 3), ne=rs.randint(0, 1), exotic=False)
        blocks.append(N("GET /s%d" % i, [N("200\n" + typedgen.body_using(rs, objs, extra, enums))]))
        rs.shuffle(blocks)
        models.append([N("JSIGHT 0.3")] + blocks[:5] if len(blocks) <= 5 else [N("JSIGHT 0.3")] + blocks)
    cases, info = [], {}
    nperm = 8 if big else 3
    exhaustive_docs = 0
    for i, roots in enumerate(models):
        base = "g%d" % i
        cases.append(treecorr.project_case(base, {"root.jst": render(roots)}))
        info[base] = ("orig", None, roots)
        n = len(roots) - 1
        perms = typedgen.permutations_of(rng, roots, 119 if (n <= 5 and big) else (23 if n <= 4 else nperm))
        if n <= 4 or (n <= 5 and big):
            exhaustive_docs += 1
        for k, p in enumerate(perms):
            r2 = roots[:1] + [roots[1 + j] for j in p]
            cid = "%s_p%d" % (base, k)
            cases.append(treecorr.project_case(cid, {"root.jst": render(r2)}))
            info[cid] = ("perm", base, r2)
    # corpus documents
    ncorp = 0
    for ci, (f, pre, blocks) in enumerate(corpus_blocks()):
        if not big and ci % 4:
            continue
        base = "c%d" % ci
        ncorp += 1
        cases.append(treecorr.project_case(base, {"root.jst": pre + b"".join(blocks)}))
        info[base] = ("orig", None, None)
        n = len(blocks) - 1
        for k in range(4 if big else 2):
            p = list(range(n))
            if k == 0:
                p.reverse()
            else:
                rng.shuffle(p)
            if p == list(range(n)):
                continue
            cid = "%s_p%d" % (base, k)
            cases.append(treecorr.project_case(cid, {"root.jst": pre + blocks[0] + b"".join(blocks[1 + j] for j in p)}))
            info[cid] = ("perm", base, None)
    if model_ok:
        res, crashes, mres, mism, skipped = catcorr.run_catalog(cases)
    else:
        res, crashes = docgen.run_build(cases)
        mism, skipped = [], 0
    for i in range(len(special_models())):
        b = res.get("g%d" % i)
        if b is not None and b["end"] != "ok":
            out.broken.append({"what": "hand-picked model %d is not accepted (the generator of this check has drifted from the code)" % i,
                               "detail": (docgen.err_text(b) or b.get("panic", ""))[:200]})
    ok = accepted = 0
    for c in cases:
        cid = c["id"]
        kind, base, roots = info[cid]
        r = res.get(cid)
        if r is None or kind != "perm":
            continue
        b = res.get(base)
        if b is None or b["end"] != "ok" or "json" not in b:
            continue          # the property quantifies over accepted documents
        accepted += 1
        show = {"original": bytes.fromhex(next(x for x in cases if x["id"] == base)["files"]["root.jst"]).decode("latin1")[:2500],
                "permuted": bytes.fromhex(c["files"]["root.jst"]).decode("latin1")[:2500]}
        if r["end"] != "ok":
            msg = docgen.err_text(r) or r.get("panic", "")
            cls = "tags-names-implicit-path-tag" if msg.startswith("tag not found") and implicit_tag_used(show["original"]) else "permutation-rejected"
            out.violations.append({"what": "a permutation of the top-level blocks of an accepted document is rejected: %s" % msg[:140], "class": cls, "input": show})
            continue
        if "json" not in r:
            out.violations.append({"what": "the permuted document builds but ToJson fails: %s" % r.get("jsonerr", "")[:120],
                                   "class": "permutation-json-fails", "input": show})
            continue
        ja, jb = docgen.norm_json(b["json"]), docgen.norm_json(r["json"])
        d = entry_diff(ja, jb)
        if d:
            dep = regex_dependent_types(ja)
            if dep and entry_diff(mask_regex_examples(ja, dep), mask_regex_examples(jb, dep)) is None:
                out.violations.append({"what": "the example of a schema that uses a regex user type depends on the position of its block: %s" % d[:200],
                                       "class": "regex-example-position", "input": show})
            else:
                out.violations.append({"what": "entries differ after permuting top-level blocks: %s" % d[:200], "class": "entries-differ", "input": show})
            continue
        if roots is not None:
            e = expected.expected(copy.deepcopy(roots))
            if e is not None:
                p = catcorr.project(docgen.norm_json(r["json"]))
                for i in p["inters"]:
                    del i["_key"]
                d = docgen.json_diff(p, e)
                if d:
                    out.violations.append({"what": "order of entries does not follow the new text order: %s" % d[:200], "class": "order", "input": show})
                    continue
        ok += 1
    for x in mism[:30]:
        out.broken.append({"what": "catalog model and implementation disagree: " + x["what"],
                           "detail": {n: bytes.fromhex(h).decode("latin1")[:1500] for n, h in x["case"]["files"].items()}})
    out.coverage.update({
        "evaluations": len(cases),
        "distinct_nontrivial": ok,
        "rule": "accepted documents = hand-picked dependency shapes (forward/mutual/recursive type references, allOf from HTTP and JSON-RPC bodies, enum and or rules, path variables, shared path prefixes) + generated documents with random type graphs (lib/typedgen.py) + structured documents without macros + corpus files cut into top-level blocks at the offsets the implementation reports; permutations keep JSIGHT first: ALL permutations for documents of <= 4 blocks (<= 5 in the thorough tier), reversed + random otherwise; checked: permuted document accepted, ToJson succeeds, every section has the same entries with the same content (order of entries and of interactions inside tag groups ignored), and for generated documents the order of entries equals the order computed from the NEW text by the independent oracle lib/expected.py; the same cases are compared with the extracted Coq catalog model; non-trivial = permuted document of an accepted original passing all checks",
        "samples": [bytes.fromhex(cases[1]["files"]["root.jst"]).decode("latin1")[:300]],
        "traces_validated_against_impl": (len(cases) - len(mism) - skipped) if model_ok else 0,
        "correspondence_mismatches": len(mism),
        "documents_with_all_permutations": exhaustive_docs,
        "corpus_documents": ncorp,
        "accepted_originals_permuted": accepted,
        "exhaustive": False,
    })
    out.assumptions += ["documents with MACRO/PASTE/INCLUDE are excluded from the corpus part (the property excludes implicit-context MACROs; INCLUDE is C09's)",
                        "PARTIAL proof, see Props/C15.v: the whole-document collection passes are proved permutation-invariant on the model; for the interaction pass the theorem reduces the property to adjacent swaps of independent blocks, which this search exercises"]
