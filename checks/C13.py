"""C13 — exactly the language's keywords are recognised as directives."""
import random
from common import *
import scancorr

WORDS = [k.encode() for k in scancorr.KEYWORDS] + [b"%d" % i for i in range(100, 600)]
WORDSET = set(WORDS)
PREFIXES = set(w[:k] for w in WORDS for k in range(len(w) + 1))
TERMS = set(b" \t\n\r#/")
NEUTRAL_START = set(b" \t\n\r#()")


def expect(data):
    """Reference behaviour at the start of a file, written from the property text.
    -> None (not applicable) | ("err", idx) | ("kw", last, None | idx_of_error_after)"""
    if not data or data[0] in NEUTRAL_START or 0 in data:
        return None
    for k in range(0, len(data) + 1):
        p = data[:k]
        if p in WORDSET:
            if k == len(data) or data[k] in TERMS:
                return ("kw", k - 1, None)
            return ("kw", k - 1, k)
        if k == len(data) or data[:k + 1] not in PREFIXES:
            return ("err", k)
    return None


def judge(data, res):
    """compare the implementation's observable with the reference; -> None or description"""
    e = expect(data)
    if e is None:
        return None
    lex, end = res["lex"], res["end"]
    if e[0] == "err":
        if lex or end[0] not in ("errU",) or end[1] != e[1]:
            return "expected an error at byte %d, got lexemes=%s end=%s" % (e[1], lex[:2], list(end))
        return None
    want = "K:0:%d" % e[1]
    if e[2] is None:
        if not lex or lex[0] != want:
            return "expected keyword lexeme %s, got lexemes=%s end=%s" % (want, lex[:2], list(end))
        if end[0] == "errU" and end[1] == e[1] + 1 and "after directive keyword" in end[2]:
            return "terminator refused after keyword: end=%s" % (list(end),)
        return None
    if not lex or lex[0] != want or len(lex) != 1 or end[0] != "errU" or end[1] != e[2]:
        return "expected keyword %s then an error at byte %d, got lexemes=%s end=%s" % (want, e[2], lex[:2], list(end))
    return None


def gen(tier, rng):
    cases = []
    i = 0
    words = [k.encode() for k in scancorr.KEYWORDS] + [b"100", b"199", b"200", b"404", b"599", b"500", b"310"]
    tails = [b"", b" x", b"\n", b"/", b"#", b"x"]
    full = tier == "thorough"
    for w in words:
        for cut in range(len(w) + 1):
            for c in range(1, 256):
                nxt = w[cut] if cut < len(w) else 0
                flipped = nxt ^ 0x20 if bytes([nxt]).isalpha() else nxt
                if not full and rng.random() > 0.25 and c not in (nxt, flipped, 0x20, 0x0a, 0x23, 0x2f, 0x09, 0x0d, 0x2d, 0x5f):
                    continue
                t = tails[(i + c) % len(tails)]
                cases.append(("n%d" % i, w[:cut] + bytes([c]) + t))
                i += 1
    # response codes: all three-digit strings and their neighbours
    for n in range(0, 1000):
        for t in (b" ", b"", b"0", b"x", b"\n"):
            if not full and t in (b"0", b"x") and n % 7:
                continue
            cases.append(("n%d" % i, b"%03d" % n + t))
            i += 1
    # spliced keywords: the head of one keyword continued by the tail of another (same or neighbouring offset)
    kws = [k.encode() for k in scancorr.KEYWORDS]
    seen = set()
    for a in kws:
        for b in kws:
            if a == b:
                continue
            for cut in range(1, len(a)):
                for off in (-1, 0, 1):
                    j = cut + off
                    if 0 < j < len(b):
                        w2 = a[:cut] + b[j:]
                        if w2 not in seen and w2 not in WORDSET:
                            seen.add(w2)
                            cases.append(("n%d" % i, w2 + tails[i % len(tails)]))
                            i += 1
    for w in words:
        for v in (w.lower(), w.upper(), w.swapcase(), w + w, w[::-1]):
            cases.append(("n%d" % i, v + b" "))
            i += 1
    return cases


DESCR = [b"Description\n  text\n", b"URL /a\n  Description\n    two\n    lines\n", b"Description\ntext\n\n"]


def gen_after_description(tier, rng):
    """the other place where a directive may start: the line that ends the text of a Description
    (scanner/steps-description.go asks directive.IsStartWithDirective there).  Every word the
    property makes a keyword, with every terminator glued to it."""
    words = [k.encode() for k in scancorr.KEYWORDS] + [b"100", b"200", b"404", b"599"]
    tails = [b"", b" x", b"\n", b"\r\n", b"\tx", b"/p", b"// a", b"/* a */", b"#c", b"# c\n", b"###\nc\n###\n"]
    out = []
    for pi, pre in enumerate(DESCR):
        for w in words:
            for t in tails:
                if tier != "thorough" and pi and rng.random() > 0.3:
                    continue
                out.append((pre, w, t))
    return out


def judge_after_description(pre, w, t, res):
    """a word accepted as a keyword at the start of a file is accepted on the line after a
    Description text too: the keyword lexeme covers exactly the word"""
    if expect(w + t) is None or expect(w + t)[0] != "kw" or expect(w + t)[2] is not None:
        return None
    want = "K:%d:%d" % (len(pre), len(pre) + len(w) - 1)
    if want not in res["lex"]:
        return "keyword %r followed by %r on the line after a Description text: expected lexeme %s, got lexemes=%s end=%s" % (
            w.decode(), t.decode(), want, res["lex"], list(res["end"]))
    return None


def matches_finding(v, f):
    return False


def run(tier, out, model_ok, proof):
    rng = random.Random(seed())
    cases = gen(tier, rng) + scancorr.gen_keywords_near(rng, 2000 if tier == "thorough" else 300)
    # unique ids
    cases = [("c%d" % i, d) for i, (_, d) in enumerate(cases)]
    after = gen_after_description(tier, rng)
    after_ids = {}
    for j, (pre, w, t) in enumerate(after):
        after_ids["d%d" % j] = (pre, w, t)
        cases.append(("d%d" % j, pre + w + t))
    if model_ok:
        results, mism = scancorr.run_scan(cases, traj=True)
    else:
        results, mism = scancorr.run_scan_impl_only(cases)
    byid = dict(cases)
    judged = 0
    kinds = {}
    for cid, r in results.items():
        d = byid[cid]
        if cid in after_ids:
            why = judge_after_description(*after_ids[cid], r)
            if why:
                out.violations.append({"what": why, "input_hex": d.hex(), "input": d.decode("latin1")})
            continue
        e = expect(d)
        kinds[str(e[0] if e else None)] = kinds.get(str(e[0] if e else None), 0) + 1
        if e is not None:
            judged += 1
        why = judge(d, r)
        if why:
            out.violations.append({"what": why, "input_hex": d.hex(), "input": d.decode("latin1")})
    for m in mism[:50]:
        out.broken.append({"what": "scanner model and implementation disagree (%s) on input %r" % (m["what"], bytes.fromhex(m["data"]).decode("latin1")),
                           "detail": m})
    out.coverage.update({
        "evaluations": len(cases),
        "distinct_nontrivial": len(set(d for _, d in cases if expect(d) is not None)),
        "rule": "words within one byte of every prefix of every keyword / response code (all 255 non-zero bytes at each cut%s; the next byte of the word, its other letter case and the terminators always), all 3-digit strings, every keyword head continued by the tail of every other keyword, case variants, x terminators; every keyword and four response codes x 11 terminators on the line that ends a Description text (the second place where a directive may start), judged against the same reference shifted; non-trivial = starts with a byte that can begin a keyword; each case: lexemes, error class/index and per-Next() configuration compared between scanner.Scanner and the extracted Coq model, and the implementation's result judged against a reference written from the property text" % ("" if tier == "thorough" else "; 25% sample in quick tier"),
        "samples": [{"input": d.decode("latin1"), "impl": {"lex": results[c]["lex"], "end": list(results[c]["end"])}} for c, d in cases[:3] + cases[-2:]],
        "after_description_text": len(after),
        "traces_validated_against_impl": len(cases) - len(mism) if model_ok else 0,
        "reference_kinds": kinds,
        "correspondence_mismatches": len(mism),
        "exhaustive": tier == "thorough",
    })
    out.assumptions += [
        "theorems are about the action-language program regenerated from scanner/*.go by tools/go2coq; the translator and the interpreter (Model/Scanner.v) are validated by the per-Next() trajectory correspondence",
        "directive.NewDirectiveType is modelled by hand (Model/Directive.v) over the regenerated keyword table",
    ]
