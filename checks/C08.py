"""C08 — layout does not change meaning."""
import copy, random
from common import *
import treecorr, layout, docgen, scancorr


def toggle_explicit(rng, nodes):
    """explicit '( )' where the implicit context ends at the same token: any directive with children"""
    for n in nodes:
        if n.children and n.text.split()[0] not in ("Description",) and rng.random() < 0.3:
            n.explicit = not n.explicit if not n.text.startswith("MACRO") else True
        toggle_explicit(rng, n.children)


def matches_finding(v, f):
    return v.get("class") == f.get("class")


def run(tier, out, model_ok, proof):
    rng = random.Random(seed())
    big = tier == "thorough"
    ndocs = 1500 if big else 220
    nvar = 6 if big else 4
    cases, groups = [], []
    base_layout = layout.Layout(random.Random(0))
    for i in range(ndocs):
        roots = treecorr.gen_structured(rng, with_macros=rng.random() < 0.3)
        if rng.random() < 0.15:
            roots = [treecorr.Node(t[0], explicit=t[1]) if t != ")" else None for t in []] or roots
        dirs = [docgen.node_to_D(n) for n in roots]
        base, _ = layout.render(dirs, base_layout)
        ids = ["b%d" % i]
        cases.append(treecorr.single_file_case("b%d" % i, base))
        for v in range(nvar):
            r2 = copy.deepcopy(roots)
            if rng.random() < 0.5:
                toggle_explicit(rng, r2[1:])
            d2 = [docgen.node_to_D(n) for n in r2]
            lay = layout.Layout.random(rng)
            data, _ = layout.render(d2, lay)
            cid = "v%d_%d" % (i, v)
            cases.append(treecorr.single_file_case(cid, data))
            ids.append(cid)
        groups.append(ids)
    # rejected documents too: perturbed token lists rendered in two layouts
    res, crashes = docgen.run_build(cases)
    byid = {c["id"]: c for c in cases}
    accepted = rejected = 0
    for ids in groups:
        b = res.get(ids[0])
        if b is None or b["end"] == "panic" or ids[0] in crashes:
            continue
        for cid in ids[1:]:
            v = res.get(cid)
            if v is None or cid in crashes or v["end"] == "panic":
                out.violations.append({"what": "a layout variant crashes while the base document does not", "class": "crash",
                                       "input": {"base": bytes.fromhex(byid[ids[0]]["files"]["root.jst"]).decode("latin1"),
                                                 "variant": bytes.fromhex(byid[cid]["files"]["root.jst"]).decode("latin1")}})
                continue
            why = None
            if b["end"] != v["end"]:
                why = "verdict differs: base %s (%s), variant %s (%s)" % (b["end"], docgen.err_text(b)[:80], v["end"], docgen.err_text(v)[:80])
            elif b["end"] == "ok":
                accepted += 1
                if ("json" in b) != ("json" in v):
                    why = "ToJson succeeds for one layout only"
                elif "json" in b:
                    why = docgen.json_diff(docgen.norm_json(b["json"]), docgen.norm_json(v["json"]))
                    if why:
                        why = "catalogs differ at " + why
            else:
                rejected += 1
                if docgen.err_class(docgen.err_text(b)) != docgen.err_class(docgen.err_text(v)):
                    why = "error class differs: %r vs %r" % (docgen.err_text(b)[:90], docgen.err_text(v)[:90])
            if why:
                out.violations.append({"what": why, "class": "other",
                                       "input": {"base": bytes.fromhex(byid[ids[0]]["files"]["root.jst"]).decode("latin1"),
                                                 "variant": bytes.fromhex(byid[cid]["files"]["root.jst"]).decode("latin1")}})
    # the scanner model agrees with the implementation on every variant (tie A, per Next())
    mism = []
    if model_ok:
        sc = [(c["id"], bytes.fromhex(c["files"]["root.jst"])) for c in cases]
        _, mism = scancorr.run_scan(sc, traj=True)
        for m in mism[:30]:
            out.broken.append({"what": "scanner model and implementation disagree (%s)" % m["what"], "detail": {"data": m["data"]}})
    out.coverage.update({
        "evaluations": len(cases),
        "distinct_nontrivial": len(set(c["files"]["root.jst"] for c in cases)),
        "rule": "%d structured valid documents (and macro forms), each rendered in a base layout and %d random layouts: LF/CRLF/CR, indentation 0-7, blank lines / '#' / '###' comments between directives, trailing blanks, quoted vs bare parameters, // vs /* */ annotations, explicit vs implicit contexts; every variant is built and its catalog JSON compared with the base (strings CR-normalised); every variant is also scanned by implementation and extracted Coq model with per-Next() comparison" % (ndocs, nvar),
        "samples": [bytes.fromhex(c["files"]["root.jst"]).decode("latin1")[:300] for c in cases[:2]],
        "traces_validated_against_impl": len(cases) - len(mism) if model_ok else 0,
        "accepted_pairs": accepted, "rejected_pairs": rejected,
        "correspondence_mismatches": len(mism),
        "exhaustive": False,
    })
    out.assumptions += [
        "PARTIAL: per-state byte-class equivalences and their lift to whole files (LF/CR, blank/tab: same lexemes, same end) are theorems, for the same oracle answers; CRLF, trivia, re-indentation, explicit contexts and the lift from lexemes to catalogs are checked metamorphically on the implementation",
        "trivia inside or directly before/after schema bodies belongs to the dependency (oracle) and is not rewritten",
    ]
