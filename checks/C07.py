"""C07 — every error carries a truthful location and include trace."""
import os
import random
from common import *
import treecorr, docgen, layout, meta
import importlib
C09 = importlib.import_module("checks.C09")
N = treecorr.Node


def convention(data):
    if b"\r\n" in data:
        return b"\r\n"
    if b"\r" in data:
        return b"\r"
    return b"\n"


def ref_location(data, index):
    """(line, column, quote) of a byte index, recomputed from the file bytes; None when the index
    is not inside the file or falls inside a line terminator"""
    if index < 0 or index >= len(data):
        return None
    nl = convention(data)
    rest = data.replace(nl, b"")
    if b"\n" in rest or b"\r" in rest:
        return None     # mixed line-ending conventions: not judged
    line, start, i = 1, 0, 0
    while True:
        j = data.find(nl, i)
        if j < 0 or j >= index:
            if 0 <= j < index < j + len(nl):
                return None
            break
        if index < j + len(nl):
            return None
        line += 1
        start = j + len(nl)
        i = start
    end = data.find(nl, start)
    if end < 0:
        end = len(data)
    text = data[start:end]
    return line, index - start + 1, text.lstrip(b" \t")


def include_chains(files, target, root="root.jst"):
    """all chains of (includer, INCLUDE line) leading from root to target, innermost first"""
    out = []

    def walk(name, chain, stack):
        if name == target:
            out.append(list(reversed(chain)))
        if name in stack or name not in files:
            return
        for i, line in enumerate(files[name].replace(b"\r\n", b"\n").replace(b"\r", b"\n").split(b"\n")):
            s = line.strip()
            if s.startswith(b"INCLUDE "):
                t = s[8:].strip().decode("latin1").strip('"')
                walk(os.path.normpath(os.path.join(os.path.dirname(name), t)), chain + [(name, i + 1)], stack + (name,))
    walk(root, [], ())
    return out


FAULTS = ['TYPE @t\n{"dup": 1}', "TAG @tg", "ENUM @e\n[3]", "SERVER @s0", "GET /m0", "Body any", "Title \"x\"",
          "PASTE @nomacro", "URL /u0", "200 any", "TYPE @bad\n{\"a\": @undefined}", "Tags @notag",
          # non-ASCII text in front of the offending position, on the same line
          'TYPE @u8\n{"\u043a\u043b\u044e\u0447": @undefined8}', 'TYPE @cjk\n{"\u6f22\u5b57": 1, "a": @undefined9}',
          'URL "/caf\u00e9" /second', 'TYPE @u9\n{"\u00fc": 1, "\u00fc": 2}', 'GET /\u00e9 "x y" z']


def matches_finding(v, f):
    return v.get("class") == f.get("class")


def run(tier, out, model_ok, proof):
    rng = random.Random(seed())
    big = tier == "thorough"
    projects = []
    # the two known shapes always run
    projects.append({"root.jst": b"JSIGHT 0.3\nURL /a\n(\n"})
    projects.append({"root.jst": b"JSIGHT 0.3\nINCLUDE a.jst\nINCLUDE b.jst\n", "a.jst": b"TYPE @a any\n", "b.jst": b"TYPE @b any\nBody any\n"})
    # an error inside a type that is used by other (mutually recursive) types, in every order (F12)
    ta = b'TYPE @ra\n{\n  "x": @rb, // {optional: true}\n  "bad": @nosuchtype\n}\n'
    tb = b'TYPE @rb\n{\n  "y": @ra // {optional: true}\n}\n'
    tc = b'TYPE @rc\n{\n  "z": @rb\n}\n'
    for perm in ([ta, tb, tc], [tb, ta, tc], [tc, tb, ta], [tb, tc, ta], [ta, tc, tb], [tc, ta, tb]):
        projects.append({"root.jst": b"JSIGHT 0.3\n" + b"".join(perm) + b"GET /x\n  200 @rc\n"})
        projects.append({"root.jst": b"JSIGHT 0.3\nINCLUDE t1.jst\nINCLUDE t2.jst\nGET /x\n  200 @rc\n", "t1.jst": perm[0] + perm[1], "t2.jst": perm[2]})
    for i in range(3000 if big else 400):
        roots = treecorr.gen_structured(rng, with_macros=rng.random() < 0.2)
        pos = rng.randint(1, len(roots))
        roots.insert(pos, N(rng.choice(FAULTS)))
        nl = rng.choice([b"\n", b"\r\n", b"\r"])
        files = C09.split_project(rng, roots) if rng.random() < 0.6 else {"root.jst": C09.render_nodes(roots)}
        if nl != b"\n":
            files = {n: d.replace(b"\n", nl) for n, d in files.items()}
        if rng.random() < 0.15:
            # a lexical fault somewhere
            n = rng.choice(sorted(files))
            d = bytearray(files[n])
            if d:
                d[rng.randrange(len(d))] = rng.choice(b"\x01~`$")
            files[n] = bytes(d)
        projects.append(files)
    # marker faults: a schema body whose fault sits on a line of its own, several lines into the body; the
    # error has to point at THAT line (in the file that holds it), whatever directive the body belongs to
    markers = {}
    def body(k, fault):
        return '{\n  "ok1": 1,\n  "ok2": "two",\n  %s,\n  "ok3": true\n}' % fault
    hosts = [
        ("POST /m%d\n  Request\n%s\n  200 any\n", 4), ("POST /m%d\n  Request\n    Body\n%s\n  200 any\n", 6), ("GET /m%d\n  200\n%s\n", 4),
        ("GET /m%d\n  200\n    Body\n%s\n", 6), ("GET /m%d\n  Query \"a=1\"\n%s\n  200 any\n", 4), ("GET /m%d\n  200\n    Headers\n%s\n    Body any\n", 6),
        ("POST /m%d\n  Request\n    Headers\n%s\n    Body any\n  200 any\n", 6), ("TYPE @host%d\n%s\n", 2),
        ("URL /r%d\n  Protocol json-rpc-2.0\n  Method go\n    Params\n%s\n", 6), ("URL /r%d\n  Protocol json-rpc-2.0\n  Method go\n    Result\n%s\n", 6),
    ]
    faults = ['"zzmark": @zznosuchtype', '"zzmark": 5 // {min: 9}', '"zzmark": "x" // {enum: @zznosuchenum}', '"zzmark": 1 // {type: "string"}']
    for hi, (tmpl, ind) in enumerate(hosts):
        for fi, fault in enumerate(faults):
            for nl in (b"\n", b"\r\n"):
                k = len(projects)
                btxt = "\n".join(" " * ind + l for l in body(k, fault).split("\n"))
                doc = ("JSIGHT 0.3\n# marker fault\n\n" + tmpl % (k, btxt)).encode().replace(b"\n", nl)
                if (hi + fi) % 3 == 0:
                    files = {"root.jst": b"JSIGHT 0.3" + nl + b"INCLUDE inc/part.jst" + nl, "inc/part.jst": nl + doc.split(nl, 1)[1]}
                else:
                    files = {"root.jst": doc}
                markers[k] = True
                projects.append(files)
    # build-time faults in a file reached through the SECOND of two includers that share a base name
    # (different directories, or names that differ only by letter case), each on different lines:
    # the trace has to name the includer that was really followed
    bad_schema = b'TYPE @tb\n{\n  "bad": @zznosuchtype\n}\n'
    for fault in (bad_schema, b"TYPE @ta any\n", b"GET /dup\n  200 any\n  200\n"):
        for first, second in (("a/inc.jst", "b/inc.jst"), ("Inc.jst", "inc.jst"), ("a/inc.jst", "a/sub/inc.jst")):
            d1, d2 = os.path.dirname(first), os.path.dirname(second)
            j = lambda d, n: (d + "/" if d else "") + n
            files = {"root.jst": ("JSIGHT 0.3\nINCLUDE %s\nGET /mid\n  200 any\n\nINCLUDE %s\n" % (first, second)).encode(),
                     first: b"INCLUDE ta.jst\n", j(d1, "ta.jst"): b"TYPE @ta any\n",
                     second: b"# second includer\n\nINCLUDE tb.jst\n", j(d2, "tb.jst"): fault}
            projects.append(files)
            projects.append(dict(files, **{"root.jst": ("JSIGHT 0.3\nINCLUDE %s\n" % first).encode(),
                                           first: ("INCLUDE ta.jst\n\n\nINCLUDE %s\n" % os.path.relpath(second, d1 or ".")).encode()})
                            if second.startswith(d1 + "/") and d1 else files)
    cases = [treecorr.project_case("e%d" % i, f) for i, f in enumerate(projects)]
    res, crashes = docgen.run_build(cases)
    nerr = 0
    classes = {}
    for i, files in enumerate(projects):
        r = res.get("e%d" % i)
        if r is None or r["end"] != "err":
            continue
        nerr += 1
        e = r["err"]
        fname = bytes.fromhex(e["file"]).decode()
        show = {n: d.decode("latin1")[:1200] for n, d in files.items()}
        show["error"] = {"file": fname, "index": e["index"], "line": e["line"], "col": e["col"], "quote": bytes.fromhex(e["quote"]).decode("latin1"),
                         "trace": [(bytes.fromhex(a).decode(), b) for a, b in e["trace"]], "msg": docgen.err_text(r)[:100]}
        why, cls = None, "other"
        if i in markers and fname in files:
            data0 = files[fname]
            ln = data0[:e["index"]].count(b"\n" if b"\r\n" not in data0 else b"\r\n")
            sep = b"\r\n" if b"\r\n" in data0 else b"\n"
            the_line = data0.split(sep)[ln] if ln < len(data0.split(sep)) else b""
            if b"zzmark" not in the_line:
                why = "the fault is on the line holding \"zzmark\", the error points at index %d (line %r)" % (e["index"], the_line[:50].decode("latin1"))
        if why is None and fname not in files:
            why = "the error names a file that does not belong to the project: %s" % fname
        else:
            data = files[fname]
            if e["index"] >= len(data):
                why, cls = "the error index %d is not inside %s (%d bytes); reported line %d column %d" % (e["index"], fname, len(data), e["line"], e["col"]), \
                           ("error-at-end-of-file" if e["index"] == len(data) else "other")
            else:
                ref = ref_location(data, e["index"])
                if ref is not None:
                    line, col, q = ref
                    gq = bytes.fromhex(e["quote"])
                    okq = gq == q or (len(q) > 197 and gq.endswith(b"...") and q.startswith(gq[:-3])) or (q.strip() == b"" and gq.strip() == b"")
                    if (e["line"], e["col"]) != (line, col):
                        why = "line/column of index %d in %s is %d:%d, reported %d:%d" % (e["index"], fname, line, col, e["line"], e["col"])
                    elif not okq:
                        why = "quote %r is not the text of line %d (%r)" % (gq[:60], line, q[:60])
        if why is None and fname in files:
            chains = include_chains(files, fname)
            got = [(bytes.fromhex(a).decode(), int(b)) for a, b in e["trace"]]
            if chains and got not in chains:
                # a trace that is right for an earlier INCLUDE of the same includer: the tracer cache
                if any(len(got) > len(c) and got[len(got) - len(c):] == c and got[len(got) - len(c) - 1][0] == fname for c in chains):
                    cls = "pending-directive-error-gets-live-include-trace"
                else:
                    def include_lines(fn):
                        d = files.get(fn, b"").replace(b"\r\n", b"\n").replace(b"\r", b"\n").split(b"\n")
                        return set(i + 1 for i, l in enumerate(d) if l.strip().startswith(b"INCLUDE "))
                    cached = any(len(c) == len(got) and all(a[0] == b[0] and b[1] in include_lines(b[0]) and b[1] <= a[1]
                                                            for a, b in zip(c, got)) for c in chains)
                    cls = "trace-from-tracer-cache" if cached else "other"
                why = "the trace %s is not the chain of INCLUDE directives that leads to %s (expected one of %s)" % (got, fname, chains[:3])
        classes[cls if why else "ok"] = classes.get(cls if why else "ok", 0) + 1
        if why:
            out.violations.append({"what": why, "class": cls, "input": show})
    mism = []
    if model_ok:
        g, tcr, mm, mism = treecorr.run_tree(cases)
        treecorr.placed_check(mm, cases, out)
        for x in mism[:30]:
            out.broken.append({"what": "directive-layer model and implementation disagree: " + x["what"],
                               "detail": {n: bytes.fromhex(h).decode("latin1")[:800] for n, h in x["case"]["files"].items()}})
    out.coverage.update({
        "evaluations": len(cases),
        "distinct_nontrivial": nerr,
        "rule": "structured projects with one injected rule fault (duplicate/undefined names, wrong context, ...) or a lexical fault, as single files or include trees (nested, repeated, sub-directories), in LF / CRLF / CR; for every error: file belongs to the project, index inside the file, line/column/quote recomputed from the bytes, trace = the chain of INCLUDE lines computed from the project; scan-phase errors are also compared field by field (incl. quote) with the extracted Coq model; non-trivial = the build was rejected",
        "samples": [{n: d.decode("latin1")[:200] for n, d in projects[2].items()}],
        "traces_validated_against_impl": (len(cases) - len(mism)) if model_ok else 0,
        "verdict_classes": classes,
        "correspondence_mismatches": len(mism),
        "exhaustive": False,
    })
    out.assumptions += ["PARTIAL: see Props/C07.v; uniform line-ending convention per file; indices inside a line terminator are not judged"]
