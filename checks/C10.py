"""C10 — PASTE is transparent: a macro call equals its body written in place."""
import copy, random
from common import *
import treecorr, docgen, layout, meta

N = treecorr.Node


def special_docs(rng):
    """shapes the random generator rarely makes: macro with an ENUM/TYPE used 0, 1, 2 times, nested
    macros with explicit contexts, use before definition, undefined macro, cycles of length 1-3"""
    out = []
    base = lambda: [N("JSIGHT 0.3")]
    for uses in (0, 1, 2):
        r = base() + [N("MACRO @me", [N("ENUM @e%d\n[1, 2]" % uses), N('TYPE @mt\n{"x": 1}')], explicit=True)]
        r += [N("PASTE @me") for _ in range(uses)]
        r += [N("GET /a", [N("200 any")])]
        out.append(r)
    # an ENUM brought by a PASTE that is NOT at the root of the tree as written: after an unbraced
    # GET / 200 run (the PASTE hangs below the method, its ENUM climbs back to the root), after INFO
    # and SERVER, and through a nested macro; with and without a schema that uses the enum
    enm = lambda: N("MACRO @names", [N('ENUM @catName\n["Tom", "Tim"]')], explicit=True)
    user = lambda: N("GET /cats", [N('200\n{\n  "name": "Tom" // {enum: @catName}\n}')])
    for with_user in (False, True):
        tail = [user()] if with_user else []
        out.append(base() + [N("GET /dogs", [N("200 any"), N("PASTE @names")])] + tail + [enm()])
        out.append(base() + [enm(), N("URL /u", [N("GET", [N("200 any")]), N("PASTE @names")])] + tail)
        out.append(base() + [N("INFO", [N('Title "T"'), N("PASTE @names")])] + tail + [enm()])
        out.append(base() + [N("SERVER @s // srv", [N('BaseUrl "https://h/"'), N("PASTE @names")]), enm()] + tail)
        out.append(base() + [N("PASTE @outer")] + tail + [N("MACRO @outer", [N("PASTE @names")], explicit=True), enm()])
        out.append(base() + [N("MACRO @outer", [N("GET /o", [N("200 any")]), N("PASTE @names")], explicit=True), enm(), N("PASTE @outer")] + tail)
    out.append(base() + [N("GET /a", [N("PASTE @resp")]), N("MACRO @resp", [N("200 any"), N("404 any")], explicit=True)])
    # a PASTE written directly after a directive that cannot hold a PASTE itself but can hold what the
    # macro brings (TAG, JSON-RPC Method): the body is resolved from the same context as in-place text
    dsc = lambda: N("MACRO @dsc", [N("Description\n  shared words")], explicit=True)
    out.append(base() + [N("TAG @cats // Cats", [N("PASTE @dsc")]), N("GET /cats", [N("Tags @cats"), N("200 any")]), dsc()])
    out.append(base() + [dsc(), N("TAG @cats", [N("PASTE @dsc")]), N("TAG @dogs // Dogs", [N("PASTE @dsc")]), N("GET /cats", [N("Tags @cats @dogs"), N("200 any")])])
    out.append(base() + [N("URL /rpc", [N("Protocol json-rpc-2.0"), N("Method go", [N('Params\n{"p": 1}'), N("PASTE @dsc")]),
                                        N("Method back", [N('Result\n{"r": 1}'), N("PASTE @dsc")])]), dsc()])
    out.append(base() + [N("MACRO @outer", [N("PASTE @dsc")], explicit=True), dsc(), N("TAG @deep", [N("PASTE @outer")]),
                         N("GET /d", [N("Tags @deep"), N("200 any")])])
    out.append(base() + [dsc(), N("INFO", [N('Title "T"'), N("PASTE @dsc")]), N("GET /i", [N("200 any")])])
    out.append(base() + [dsc(), N("GET /m", [N("200 any"), N("PASTE @dsc")]), N("SERVER @s // srv", [N('BaseUrl "https://h/"')])])
    out.append(base() + [N("MACRO @inner", [N("Body any")], explicit=True),
                         N("MACRO @outer", [N("200", [N("PASTE @inner")], explicit=True)], explicit=True),
                         N("GET /a", [N("PASTE @outer")]), N("POST /a", [N("PASTE @outer"), N("Request any")])])
    out.append(base() + [N("GET /a", [N("PASTE @nope")])])
    out.append(base() + [N("MACRO @a", [N("PASTE @a")], explicit=True), N("PASTE @a")])
    out.append(base() + [N("MACRO @a", [N("PASTE @b")], explicit=True), N("MACRO @b", [N("PASTE @a")], explicit=True), N("PASTE @a")])
    out.append(base() + [N("MACRO @a", [N("PASTE @b")], explicit=True), N("MACRO @b", [N("PASTE @c")], explicit=True),
                         N("MACRO @c", [N("PASTE @a")], explicit=True), N("GET /x", [N("200 any")]), N("PASTE @b")])
    out.append(base() + [N("MACRO @a", [N("PASTE @b")], explicit=True), N("MACRO @b", [N("PASTE @a")], explicit=True),
                         N("GET /x", [N("200 any")])])   # cyclic but never used
    out.append(base() + [N("URL /u", [N("PASTE @m"), N("POST", [N("200 any")])]),
                         N("MACRO @m", [N("GET", [N("200 any")], explicit=True)], explicit=True)])
    # reuse without a cycle: one macro pasted twice by another, a diamond
    out.append(base() + [N("MACRO @inner", [N("Body any")], explicit=True),
                         N("MACRO @outer", [N("200", [N("PASTE @inner")], explicit=True), N("404", [N("PASTE @inner")], explicit=True)], explicit=True),
                         N("GET /a", [N("PASTE @outer")])])
    out.append(base() + [N("MACRO @d", [N("Body any")], explicit=True),
                         N("MACRO @b", [N("200", [N("PASTE @d")], explicit=True)], explicit=True),
                         N("MACRO @c", [N("404", [N("PASTE @d")], explicit=True)], explicit=True),
                         N("MACRO @a", [N("PASTE @b"), N("PASTE @c")], explicit=True),
                         N("GET /x", [N("PASTE @a")]), N("POST /x", [N("PASTE @b"), N("PASTE @b")])])
    return out


def gen_macro_dag(rng):
    """an acyclic macro graph with reuse: macro i pastes macros j < i, possibly the same one twice"""
    k = rng.randint(2, 5)
    roots = [N("JSIGHT 0.3")]
    macros = []
    for i in range(k):
        body = []
        for _ in range(rng.randint(1, 3)):
            if i > 0 and rng.random() < 0.6:
                body.append(N("PASTE @m%d" % rng.randrange(i)))
            else:
                body.append(N("%d any" % rng.choice([200, 201, 400, 404, 500])))
        macros.append(N("MACRO @m%d" % i, body, explicit=True))
    uses = [N(rng.choice(["GET", "POST", "PUT"]) + " /p%d" % j, [N("PASTE @m%d" % rng.randrange(k)) for _ in range(rng.randint(1, 2))])
            for j in range(rng.randint(1, 3))]
    blocks = macros + uses
    rng.shuffle(blocks)
    return roots + blocks


def gen_macro_reuse(rng):
    """macros whose bodies are directives WITH children (responses with Headers/Body, requests,
    whole methods), pasted from several places, directly and through another macro"""
    roots = [N("JSIGHT 0.3"), N('TYPE @t\n{"x": 1}')]
    resp = lambda c: N(str(c), [N('Headers\n{"h%d": "v"}' % c), N(rng.choice(["Body any", "Body @t", 'Body\n{"b": %d}' % c]))])
    bodies = [
        [resp(200)], [resp(201), N("404 any")], [N("Request", [N('Headers\n{"rh": "v"}'), N('Body\n{"r": 1}')]), resp(200)],
        [N('Query "q=1"\n{"q": 1}'), resp(200)], [N("Description\n  shared text"), resp(400)],
    ]
    k = rng.randint(1, 3)
    macros = []
    for i in range(k):
        body = [copy_node(n) for n in rng.choice(bodies)]
        if i > 0 and rng.random() < 0.5:
            body.append(N("PASTE @r%d" % rng.randrange(i)) if not any(b.text.startswith("2") or b.text.startswith("4") for b in body) else N("500 any"))
        macros.append(N("MACRO @r%d" % i, body, explicit=True))
    uses = []
    for j in range(rng.randint(2, 4)):
        m = rng.choice(["POST", "PUT", "PATCH"])
        uses.append(N("%s /u%d" % (m, j), [N("PASTE @r%d" % rng.randrange(k))]))
    if rng.random() < 0.5:
        # a macro holding whole methods, pasted into two URL blocks
        macros.append(N("MACRO @meth", [N("GET", [resp(200)]), N("DELETE", [N("204 any"), resp(404)])], explicit=True))
        uses.append(N("URL /a", [N("PASTE @meth")]))
        uses.append(N("URL /b/{id}", [N("PASTE @meth")]))
    blocks = macros + uses
    rng.shuffle(blocks)
    return roots + blocks


def gen_macro_attach(rng):
    """a macro whose body is a run of PASTEs where a later one supplies children of the directive the
    previous one ended with (a response code or a Request): the context after a PASTE is the last
    pasted directive, inside a macro body just as at a call site written directly in the API"""
    roots = [N("JSIGHT 0.3")]
    # (a body directive without a body cannot be the last thing before the closing parenthesis of a
    # macro, so the open directives carry their Headers already and the next PASTE brings the Body)
    H = lambda k: N('Headers\n{"h%d": "v"}' % k)
    tails = [[N("401 any"), N("404 any")], [N("Request any")], [N("201", [H(1)])], [N("Request", [H(2)])], [N("403 // forbidden", [H(3)])],
             [N("Query \"q=1\"\n{\"q\": 1}"), N("Request", [H(4)])], [N("200 any"), N("Request any")]]
    fills = [[N('Headers\n{"h": "v"}')], [N('Body\n{"b": 1}')], [N('Headers\n{"h": "v"}'), N("Body any")], [N("Body any")]]
    t, f = rng.choice(tails), rng.choice(fills)
    macros = [N("MACRO @tail", [copy_node(n) for n in t], explicit=True), N("MACRO @fill", [copy_node(n) for n in f], explicit=True)]
    body = [N("PASTE @tail"), N("PASTE @fill")]
    if rng.random() < 0.3:
        macros.append(N("MACRO @fill2", [N("PASTE @fill")], explicit=True))
        body = [N("PASTE @tail"), N("PASTE @fill2")]
    if rng.random() < 0.3:
        body.append(N("500 any"))
    macros.append(N("MACRO @w", body, explicit=True))
    top = "@w"
    if rng.random() < 0.4:
        macros.append(N("MACRO @outer", [N("PASTE @w")] + ([N("502 any")] if rng.random() < 0.5 else []), explicit=True))
        top = "@outer"
    uses = []
    for j in range(rng.randint(1, 2)):
        kids = ([N("200 any")] if rng.random() < 0.7 else []) + [N("PASTE " + top)]
        if rng.random() < 0.3:
            kids.append(N("503 any"))
        uses.append(N("%s /w%d" % (rng.choice(["POST", "PUT", "PATCH"]), j), kids))
    # the same pair written directly at a call site, for comparison
    if rng.random() < 0.5:
        uses.append(N("POST /direct", [N("200 any"), N("PASTE @tail"), N("PASTE @fill")]))
    blocks = macros + uses
    rng.shuffle(blocks)
    return roots + blocks


def copy_node(n):
    return N(n.text, [copy_node(c) for c in n.children], n.explicit)


def gen_macro_digraph(rng):
    """an arbitrary PASTE graph over 2-6 macros - chains leading into cycles, cycles, diamonds,
    unused parts - in a random declaration order, used from 1-3 places"""
    k = rng.randint(2, 6)
    roots = [N("JSIGHT 0.3")]
    macros = []
    for i in range(k):
        body = []
        for _ in range(rng.randint(1, 3)):
            r = rng.random()
            if r < 0.55:
                body.append(N("PASTE @g%d" % rng.randrange(k)))
            elif r < 0.7:
                body.append(N("200", [N("PASTE @g%d" % rng.randrange(k))], explicit=True))
            else:
                body.append(N("%d any" % rng.choice([200, 201, 400, 404, 500])))
        macros.append(N("MACRO @g%d" % i, body, explicit=True))
    uses = [N(rng.choice(["GET", "POST", "PUT"]) + " /q%d" % j, [N("PASTE @g%d" % rng.randrange(k))]) for j in range(rng.randint(1, 3))]
    blocks = macros + uses
    rng.shuffle(blocks)
    return roots + blocks


def classify(roots, what):
    if meta.has_cycle_reachable(roots):
        g = meta.macro_graph(roots)
        if not any(k in v for k, v in g.items()):   # no direct self-paste: a longer cycle
            return "paste-cycle-longer-than-one"
    toks = treecorr.flatten_nodes(roots)
    import ctxref
    v, i, flags, _ = ctxref.ref_build([t for t in toks])
    if "explicit-abandoned-by-method-with-path" in flags:
        return "explicit-abandoned-by-method-with-path"
    return "other"


def matches_finding(v, f):
    return v.get("class") == f.get("class")


def run(tier, out, model_ok, proof):
    rng = random.Random(seed())
    big = tier == "thorough"
    docs = special_docs(rng)
    for i in range(3000 if big else 350):
        docs.append(treecorr.gen_structured(rng, with_macros=True))
    for i in range(1500 if big else 150):
        docs.append(gen_macro_dag(rng))
    for i in range(2500 if big else 300):
        docs.append(gen_macro_digraph(rng))
    for i in range(1500 if big else 200):
        docs.append(gen_macro_reuse(rng))
    for i in range(600 if big else 100):
        docs.append(gen_macro_attach(rng))
    # a chain declared BEFORE the cycle it leads into
    docs.append([N("JSIGHT 0.3"), N("MACRO @t", [N("PASTE @c1")], explicit=True), N("MACRO @c1", [N("PASTE @c2")], explicit=True),
                 N("MACRO @c2", [N("PASTE @c1")], explicit=True), N("GET /cats", [N("200 any"), N("PASTE @t")])])
    lay = layout.Layout(random.Random(0))
    cases, pairs = [], []
    for i, roots in enumerate(docs):
        dm = [docgen.node_to_D(n) for n in roots]
        data_m, _ = layout.render(dm, lay)
        cases.append(treecorr.single_file_case("m%d" % i, data_m))
        inl = meta.inline_macros(roots)
        if inl is not None:
            di = [docgen.node_to_D(n) for n in inl]
            data_i, _ = layout.render(di, lay)
            cases.append(treecorr.single_file_case("i%d" % i, data_i))
        pairs.append((i, roots, inl))
    res, crashes = docgen.run_build(cases)
    byid = {c["id"]: c for c in cases}
    acc = rej = 0
    for i, roots, inl in pairs:
        m = res.get("m%d" % i)
        src = bytes.fromhex(byid["m%d" % i]["files"]["root.jst"]).decode("latin1")
        if ("m%d" % i) in crashes or m is None or m["end"] == "panic":
            out.violations.append({"what": "building the macro form crashes (%s)" % (crashes.get("m%d" % i, "") or (m or {}).get("panic", ""))[:80],
                                   "class": classify(roots, "crash"), "input": src})
            continue
        cyc = meta.has_cycle_reachable(roots)
        if inl is None:
            # undefined macro or a cycle among used macros: must be an error
            if m["end"] == "ok":
                out.violations.append({"what": "an undefined or cyclic macro use was accepted", "class": classify(roots, "accepted"), "input": src})
            else:
                rej += 1
            continue
        im = res.get("i%d" % i)
        if im is None:
            continue
        if m["end"] == "ok":
            acc += 1
            if im["end"] != "ok":
                out.violations.append({"what": "macro form accepted but inlined form rejected: %s" % docgen.err_text(im)[:100],
                                       "class": classify(roots, "verdict"), "input": src})
            elif "json" in m and "json" in im:
                d = docgen.json_diff(docgen.norm_json(m["json"]), docgen.norm_json(im["json"]))
                if d:
                    out.violations.append({"what": "catalog of the macro form differs from the inlined form at " + d,
                                           "class": classify(roots, "catalog"), "input": src})
        else:
            rej += 1
            # the other direction, for the two errors that are about the macro graph itself: every
            # macro is defined and there is no cycle, used or not, so neither may be reported
            msg = docgen.err_text(m)
            if im["end"] == "ok" and not meta.has_cycle_anywhere(roots):
                out.violations.append({"what": "the macro form is rejected (%s) although the inlined form is accepted and every macro is defined and acyclic" % msg[:70],
                                       "class": classify(roots, "graph"), "input": src})
    # tie B: expanded forests, macro table, registered enums — implementation vs model
    mism = []
    if model_ok:
        tcases = [c for c in cases if c["id"].startswith("m")]
        g, tcr, mm, mism = treecorr.run_tree(tcases)
        treecorr.placed_check(mm, tcases, out)
        for x in mism[:30]:
            out.broken.append({"what": "directive-layer model and implementation disagree: " + x["what"],
                               "detail": {"input": bytes.fromhex(x["case"]["files"]["root.jst"]).decode("latin1")}})
    out.coverage.update({
        "evaluations": len(cases),
        "distinct_nontrivial": sum(1 for _, r, _ in pairs if any(n.text.startswith("PASTE") for n in treecorr_flat(r))),
        "rule": "structured valid documents with sibling runs abstracted into (nested, explicit-body) MACROs + hand-picked shapes (macro with ENUM/TYPE used 0/1/2 times, an ENUM brought by a PASTE below a method / URL / INFO / SERVER or through a nested macro, with and without a schema that uses it, use before definition, undefined macro, cycles of length 1-3, cyclic but unused, a macro pasted twice by another, diamonds) + random acyclic macro graphs with reuse + arbitrary PASTE graphs (chains into cycles, any declaration order) + macro bodies that are runs of PASTEs where a later one supplies the children of the directive the previous one ended with; each macro form is built and compared with its inlined form (reference inliner lib/meta.py) and its expanded forest / macro table / enum registrations are compared with the extracted Coq model; non-trivial = contains a PASTE",
        "samples": [bytes.fromhex(c["files"]["root.jst"]).decode("latin1")[:300] for c in cases[:2]],
        "traces_validated_against_impl": (len([c for c in cases if c["id"].startswith("m")]) - len(mism)) if model_ok else 0,
        "accepted_pairs": acc, "rejected": rej,
        "correspondence_mismatches": len(mism),
        "exhaustive": False,
    })
    out.assumptions += [
        "PARTIAL: expand/inline equivalence is checked, not proved; checked: macro form accepted => inlined form accepted with the same catalog, and an acyclic fully defined macro graph is never rejected for recursion or an undefined macro",
    ]


def treecorr_flat(nodes):
    out = []
    for n in nodes:
        out.append(n)
        out.extend(treecorr_flat(n.children))
    return out
