"""C04 — a successfully built catalog always serialises to well-formed JDoc Exchange JSON."""
import random
from common import *
import treecorr, docgen, jsoninv, scancorr
import importlib
C09 = importlib.import_module("checks.C09")
N = treecorr.Node

SCHEMAS = ['{}', '[]', '{"a": {}}', '{"a": []}', '[[]]', '[{}]', '{"a": [1, {"b": []}]}', 'null', 'true', '1.5', '"s"',
           '{"a": null}', '@t', '{"x": @t}', '[@t]', '@t | @u', '{"a": 1} // {allOf: "@t"}', '{\n "k": "v" // {optional: true}\n}',
           '{"e": 1 // {enum: [1, 2]}\n}', '{"o": 1 // {or: [{type: "integer"}, {type: "string"}]}\n}', '{} // {additionalProperties: "any"}',
           '{"d": "2021-01-01" // {type: "date"}\n}', '{"@t": 1}', '{"n": {"m": {"l": []}}}',
           # property names that are empty or odd, with scalar and container values
           '{"": {"inner": 1}}', '{"": [1, 2]}', '{"": 1, "x": {"": {"": []}}}', '{" ": {"a": 1}, "0": [], "null": {}}']


def shaped_docs(rng, n):
    out = []
    for i in range(n):
        roots = [N("JSIGHT 0.3"), N('TYPE @t\n{"x": 1}'), N('TYPE @u\n[]')]
        if rng.random() < 0.5:
            roots.append(N("TAG @unused // never referenced"))
        if rng.random() < 0.5:
            roots.append(N("TAG @tg"))
        if rng.random() < 0.3:
            roots.append(N("SERVER @s // ann"))
        kids = [N("200\n" + rng.choice(SCHEMAS))]
        if rng.random() < 0.5:
            kids.append(N("404", [N("Body\n" + rng.choice(SCHEMAS))]))
        if rng.random() < 0.4:
            kids.append(N("Request\n" + rng.choice(SCHEMAS)))
        if rng.random() < 0.3:
            kids.append(N('Query "q=1"\n{"q": ' + rng.choice(["1", "[]", "{}"]) + "}"))
        if rng.random() < 0.3:
            kids.append(N("Tags @tg")) if any(r.text.startswith("TAG @tg") for r in roots) else None
        roots.append(N(rng.choice(["GET", "POST", "PUT"]) + " /p%d/{id}" % i, kids))
        if rng.random() < 0.3:
            roots.append(N("TYPE @r regex\n/a[b-d]+/"))
        if rng.random() < 0.3:
            roots.append(N("TYPE @any any"))
        if rng.random() < 0.3:
            roots.append(N("ENUM @en\n" + rng.choice(["[1, 2]", "[]", '["a", null, true, 1.5]'])))
        if rng.random() < 0.3:
            roots.append(N("URL /rpc%d" % i, [N("Protocol json-rpc-2.0"), N("Method m", [N("Params\n" + rng.choice(['{}', '[]', '{"a": []}'])),
                                                                                          N("Result\n" + rng.choice(['{}', '[]', 'null']))])]))
        out.append(roots)
    return out


def classify(files, why):
    text = b"\n".join(files.values())
    if "Empty schema" in why and ("ToJson fails" in why or "ToJsonIndent failed" in why):
        return "empty-schema-accepted-at-build"
    if b"Path" in text and ("ToJson fails" in why or "ToJsonIndent failed" in why):
        # F9 is about faults the document really has in a Path body (a value that breaks its rule, a
        # type that is declared nowhere); a DECLARED type that serialisation cannot find is something else
        import re
        m = re.search(r'Type \\?"(@[^"\\]+)\\?" not found', why)
        if m and re.search(rb"^\s*TYPE\s+" + re.escape(m.group(1).encode()) + rb"\b", text, re.M):
            return "other"
        return "path-schema-not-validated-at-build"
    return "other"


# schemas that are only found out at serialisation time if the build does not look (F9, F30, F31)
LATE = [
    b'JSIGHT 0.3\nGET /a\n  200 regex\n    /[a-/\n',
    b'JSIGHT 0.3\nPOST /a\n  Request regex\n    /^[A-Z]+\\s[d+$/\n  200 any\n',
    b'JSIGHT 0.3\nGET /a\n  200\n    Body regex\n      /(/\n',
    b'JSIGHT 0.3\nPOST /a\n  Request\n    Body regex\n      /a{2,1}/\n  200 any\n',
    b'JSIGHT 0.3\nTYPE @r regex\n  /[a-/\nGET /a\n  200 @r\n',
    b'JSIGHT 0.3\nTYPE @t\n  //\n',
    b'JSIGHT 0.3\nGET /a\n  200 any\nTYPE @t\n  // only a comment',
    b'JSIGHT 0.3\n\nTYPE @tzregex\n  /',
    b'JSIGHT 0.3\nTYPE @a any\nURL /x/{id}\n  Path\n  {\n    "id": @a\n  }\n  GET\n    200 any\n',
    b'JSIGHT 0.3\nTYPE @e empty\nGET /x/{id}\n  Path\n  {\n    "id": @e\n  }\n  200 any\n',
    b'JSIGHT 0.3\nTYPE @rx regex\n  /[a-z]+/\nGET /x/{id}\n  Path\n  {\n    "id": @rx\n  }\n  200 any\n',
]


def matches_finding(v, f):
    return v.get("class") == f.get("class")


def run(tier, out, model_ok, proof):
    rng = random.Random(seed())
    big = tier == "thorough"
    cases = []
    docs = shaped_docs(rng, 3000 if big else 400)
    for i in range(2000 if big else 300):
        docs.append(treecorr.gen_structured(rng, with_macros=rng.random() < 0.3))
    for i, roots in enumerate(docs):
        cases.append(treecorr.single_file_case("a%d" % i, C09.render_nodes(roots)))
    # every consumer of a type reference x every kind of type (checks/C01.py): the accepted ones must serialise
    for name, d in importlib.import_module("checks.C01").reference_matrix():
        cases.append(treecorr.single_file_case("rm_" + name, d))
    for k, d in enumerate(LATE):
        cases.append(treecorr.single_file_case("late%d" % k, d))
    # names that become JSON object keys (interaction ids, tag / server / type / enum names) and
    # annotations with bytes that need escaping: control characters, DEL, invalid or unusual UTF-8
    odd = [b"\x07", b"\x01", b"\x1b[0m", b"\x7f", b"\xf3\xa0\x80\x81", b"\xff", b"\xe2\x82", b"\xc3\xa9", b"\xe6\xbc\xa2", b'\\', b"\x0b", b"\xf0\x9f\x98\x80"]
    for k, o in enumerate(odd):
        cases.append(treecorr.single_file_case("odd%d" % k,
            b"JSIGHT 0.3\nGET /p" + o + b"q/{id} // ann " + o + b"\n  200 any\nURL /rpc" + o + b"\n  Protocol json-rpc-2.0\n  Method m" + o + b"x // " + o + b"\n    Params\n      {}\n"
            b"SERVER @s // srv " + o + b"\n  BaseUrl \"https://h/" + o + b"\"\nTAG @t // tag " + o + b"\n  Description\n    text " + o + b"\nINFO\n  Title \"T" + o + b"\"\n"))
    cases.append(treecorr.single_file_case("f9", b'JSIGHT 0.3\nURL /a/{id}\n  Path\n  {\n    "id": 1 // {min: 5}\n  }\n  GET\n    200 any\n'))
    # documents with one injected rule fault: normally rejected; should a change make one ACCEPTED,
    # the accepted catalog still has to serialise to well-formed JDoc Exchange JSON
    C03 = importlib.import_module("checks.C03")
    for k, (cls, d) in enumerate(C03.fault_docs(rng, 12 if big else 5)):
        cases.append(treecorr.single_file_case("flt%d" % k, d))
    corp = corpus_files()
    for i, f in enumerate(corp if big else rng.sample(corp, 300)):
        d = open(f, "rb").read()
        if b"INCLUDE" not in d:
            cases.append(treecorr.single_file_case("k%d" % i, d))
    for cid, d in scancorr.gen_mutations(rng, corp, 3000 if big else 400):
        if b"INCLUDE" not in d:
            cases.append(treecorr.single_file_case("m_" + cid, d))
    res, crashes = docgen.run_build(cases)
    accepted = 0
    for c in cases:
        r = res.get(c["id"])
        if r is None or r["end"] != "ok":
            continue
        accepted += 1
        files = {n: bytes.fromhex(h) for n, h in c["files"].items()}
        show = {n: d.decode("latin1")[:1500] for n, d in files.items()}
        whys = []
        if "json" not in r:
            whys.append("build succeeded but ToJson fails: %s" % r.get("jsonerr", "")[-160:])
        else:
            if r.get("indent"):
                whys.append(r["indent"])
            whys += jsoninv.jdoc_shape(r["json"])
        for w in whys[:3]:
            out.violations.append({"what": w, "class": classify(files, w), "input": show})
    out.coverage.update({
        "evaluations": len(cases),
        "distinct_nontrivial": accepted,
        "rule": "documents exercising empty/nested arrays and objects, scalars of every kind, type references, allOf/or/enum/optional rules, regex/any/empty notations, unreferenced tags, JSON-RPC params/results; structured documents; corpus files and their mutations; documents with one injected rule fault of each of the classes of C03 (if ever accepted); for every ACCEPTED build: ToJson succeeds, is valid UTF-8, ToJsonIndent agrees up to whitespace (compared by the harness), and the parsed document satisfies the JDoc Exchange shape predicate (lib/jsoninv.py); non-trivial = accepted",
        "samples": [bytes.fromhex(cases[0]["files"]["root.jst"]).decode("latin1")[:300]],
        "exhaustive": False,
    })
    out.assumptions += ["PARTIAL: see Props/C04.v; UTF-8 validity and text-level well-formedness are encoding/json's and are re-checked on every output"]
