"""C17 — OpenAPI export: an error value or a structurally valid OpenAPI 3.0.3 document."""
import random, json, os, re
from common import *
import treecorr, docgen, layout, typedgen, catcorr
N = treecorr.Node
METHODS = {"GET": "get", "POST": "post", "PUT": "put", "PATCH": "patch", "DELETE": "delete"}


def render(roots):
    return layout.render([docgen.node_to_D(n) for n in roots], layout.Layout(random.Random(0)))[0]


def special_docs():
    J = "JSIGHT 0.3\n"
    return [
        J + 'TYPE @cat "empty"\n',                                     # F17 (was a panic)
        J + "TYPE @e empty\nGET /x\n  200 @e\n",
        J + 'TYPE @bbb\n  1 /* {or: [\n     {type: "string"},\n     {type: "enum", enum: [1,2,3]}\n   ]} */\n',   # dependency: Runtime Failure
        J + "TYPE @rx regex\n/[/\nGET /x\n  200 any\n",
        J + "TYPE @a any\nTYPE @r regex\n/a+/\nGET /x/{id}/y/{key}\n  200 @a\n  404 @r\n",
        J + 'GET /r\n  200 // one\n    {"a": 1}\n  200 // two\n    [1]\n  200 any\n  200 regex\n    /x/\n  404 empty\n',
        J + 'GET /s\n  200 empty\n  200 any\n',
        J + 'URL /u/{a}/{b}\n  Path\n    {"a": 1}\n  GET\n    200 any\n  POST\n    Request\n      Headers\n        {"H": "v"}\n      Body\n        {"x": @t | @u}\n    201\n      Headers\n        {"RH": 1}\n      Body @t\nTYPE @t\n{ // {allOf: "@u"}\n  "tt": 1\n}\nTYPE @u\n{"uu": [@t]}\n',
        J + 'GET /q\n  Query "a=1"\n    {"a": 1, "b": @t}\n  200 any\nTYPE @t\n{"k": 1}\n',
        J + 'URL /rpc\n  Protocol json-rpc-2.0\n  Method m\n    Params\n      {"p": 1}\nGET /rpc\n  200 any\n',
        J + 'GET /\n  200 any\nGET /a/\n  200 any\nGET /a\n  200 any\n',
        # the methods of one path declared apart from each other
        J + 'GET /a\n  200 any\nGET /b\n  200 any\nPOST /a\n  Request any\n  201 any\nDELETE /b\n  204 any\nPUT /a\n  Request any\n  200 any\n',
        J + 'URL /a/{id}\n  GET\n    200 any\n  PUT\n    Request any\n    200 any\nGET /other\n  200 any\nDELETE /a/{id}\n  204 any\nURL /other\n  POST\n    Request any\n    201 any\n',
        J + 'GET /x/{p}\n  200 any\nURL /rpc\n  Protocol json-rpc-2.0\n  Method m\n    Params\n      {}\nPATCH /x/{p}\n  Request any\n  200 any\n',
    ]


def multi_param_docs(rng, n):
    """several HTTP paths over a small pool of segments and parameter names, so that two paths of
    one document often share their first parameter, their number of parameters, their set of
    parameter names or a prefix; a Path directive defines all, some or none of the parameters"""
    segs = ["shops", "items", "orders", "v1", "x"]
    names = ["id", "shopId", "itemId", "orderId", "k"]
    docs = []
    for _ in range(n):
        lines = ["JSIGHT 0.3", ""]
        seen = set()
        for _ in range(rng.randint(2, 5)):
            np = rng.randint(1, 3)
            ps = rng.sample(names, np)
            if rng.random() < 0.6:
                ps[0] = names[1]
            ps = list(dict.fromkeys(ps))
            parts = []
            for q in ps:
                parts += [rng.choice(segs), "{%s}" % q]
            if rng.random() < 0.3:
                parts.append(rng.choice(segs))
            path = "/" + "/".join(parts)
            shape = re.sub(r"\{[^}]*\}", "{}", path)
            if shape in seen:
                continue
            seen.add(shape)
            lines.append("%s %s" % (rng.choice(["GET", "POST", "DELETE"]), path))
            defined = [q for q in ps if rng.random() < 0.6]
            if defined:
                lines += ["  Path", "  {"] + ["    \"%s\": %s%s" % (q, rng.choice(["1", "\"a\""]), "," if i < len(defined) - 1 else "")
                                              for i, q in enumerate(defined)] + ["  }"]
            lines += ["  200 any", ""]
        docs.append("\n".join(lines) + "\n")
    return docs


def lazy_docs():
    """objects with a user-type key (@k: value): the dependency converts parts of them only while the
    document is written out (inside MarshalJSON), for every additionalProperties value and or-form,
    placed in a response body, a request body and a TYPE"""
    H = 'JSIGHT 0.3\n\nTYPE @k\n  "abc"\n\n'
    out = []
    aps = ["any", "string", "integer", "float", "decimal", "boolean", "object", "array", "null", "email", "uri", "uuid",
           "date", "datetime", "enum", "mixed", "@k"]
    ors = ['{or: [{type: "integer"}, {type: "string"}]}', '{or: [{type: "enum", enum: [1,2]}, {type: "string"}]}',
           '{or: ["@k", {type: "integer"}]}', '{or: [{type: "mixed"}, {type: "string"}]}', '{type: "mixed", or: ["@k", "integer"]}',
           '{enum: [1, 2]}', '{type: "decimal", precision: 2}', '{optional: true}']
    def place(body, k):
        ind = lambda n: "\n".join(" " * n + l for l in body.split("\n"))
        if k == 0:
            return H + "GET /a\n  200\n" + ind(4) + "\n"
        if k == 1:
            return H + "PUT /a/{id}\n  Request\n" + ind(4) + "\n  200 any\n"
        return H + "TYPE @m\n" + ind(2) + "\n\nGET /a\n  200 @m\n"
    for i, ap in enumerate(aps):
        for k in range(3):
            out.append(place('{ // {additionalProperties: "%s"}\n  @k: 1\n}' % ap, k))
            if k == i % 3:
                out.append(place('{ // {additionalProperties: "%s"}\n  @k: 1,\n  "p": {"q": 2}\n}' % ap, k))
    for i, o in enumerate(ors):
        for k in range(3):
            out.append(place('{\n  @k: 1 // %s\n}' % o, k))
            if k == i % 3:
                out.append(place('{\n  "n": {\n    @k: 1 // %s\n  }\n}' % o, k))
    return out


def refs(v, out):
    if isinstance(v, dict):
        for k, x in v.items():
            if k == "$ref" and isinstance(x, str):
                out.append(x)
            else:
                refs(x, out)
    elif isinstance(v, list):
        for x in v:
            refs(x, out)


def oas_shape(cat, oa):
    """list of what is wrong with the OpenAPI document [oa] of the catalog [cat]"""
    bad = []
    if not isinstance(oa, dict):
        return ["the export is not a JSON object"]
    for k in ("openapi", "info", "paths"):
        if k not in oa:
            bad.append("top-level key %r is missing" % k)
    if bad:
        return bad
    if oa["openapi"] != "3.0.3":
        bad.append("openapi is %r" % oa["openapi"])
    if not isinstance(oa["info"], dict) or "title" not in oa["info"] or "version" not in oa["info"]:
        bad.append("info lacks title/version")
    paths = oa["paths"]
    if not isinstance(paths, dict):
        return bad + ["paths is not an object"]
    comps = ((oa.get("components") or {}).get("schemas")) or {}
    for iid, it in (cat.get("interactions") or {}).items():
        if it.get("protocol") != "http":
            continue
        p, m = it["path"], METHODS.get(it["httpMethod"])
        if p not in paths:
            bad.append("interaction %s: paths has no %r" % (iid, p))
            continue
        if m not in paths[p] or not isinstance(paths[p][m], dict):
            bad.append("interaction %s: paths[%r] has no operation %r" % (iid, p, m))
            continue
        op = paths[p][m]
        declared = {}
        for par in (paths[p].get("parameters") or []) + (op.get("parameters") or []):
            if isinstance(par, dict) and par.get("in") == "path":
                declared[par.get("name")] = par
        # a parameter is a whole path segment in braces (catalog.PathParameters)
        for name in [seg[1:-1] for seg in p.split("/") if len(seg) >= 2 and seg.startswith("{") and seg.endswith("}")]:
            if name not in declared:
                bad.append("interaction %s: path parameter {%s} is not declared" % (iid, name))
            elif declared[name].get("required") is not True:
                bad.append("interaction %s: path parameter {%s} is not required" % (iid, name))
        rs = op.get("responses")
        if not isinstance(rs, dict) or not rs:
            bad.append("interaction %s: operation has no responses object" % iid)
        else:
            for k in rs:
                if not (re.fullmatch(r"[1-5][0-9][0-9]", k) or k == "default"):
                    bad.append("interaction %s: response key %r is neither a status code nor 'default'" % (iid, k))
            want = {r["code"] for r in it.get("responses", [])}
            if want and set(rs) != want:
                bad.append("interaction %s: response keys %s, the catalog has %s" % (iid, sorted(rs), sorted(want)))
    for p, item in paths.items():
        if not isinstance(item, dict):
            bad.append("paths[%r] is not an object" % p)
            continue
        for k in item:
            if k not in ("parameters", "get", "put", "post", "patch", "delete", "summary", "description", "servers", "options", "head", "trace"):
                bad.append("paths[%r] has the unknown member %r" % (p, k))
    for n in (cat.get("userTypes") or {}):
        if n[1:] not in comps:
            bad.append("user type %s is not a component" % n)
    rr = []
    refs(oa, rr)
    for r in rr:
        if not r.startswith("#/components/schemas/") or r[len("#/components/schemas/"):] not in comps:
            bad.append("$ref %r does not resolve" % r)
    return bad


def oas_skeleton(oa):
    """the model's vocabulary: sorted paths with path parameters and operations"""
    out = {"paths": [], "components": sorted(x.encode().hex() for x in ((oa.get("components") or {}).get("schemas") or {}))}
    for p, item in sorted(oa.get("paths", {}).items()):
        params = [x["name"].encode().hex() for x in item.get("parameters") or [] if x.get("in") == "path"]
        ops = []
        for m in ("get", "put", "post", "patch", "delete"):
            if m in item:
                ops.append([m.encode().hex(), sorted(k.encode().hex() for k in item[m].get("responses", {}))])
        out["paths"].append([p.encode().hex(), params, sorted(ops)])
    return out


def model_skeleton(m):
    o = m["oas"]
    return {"paths": sorted([p, ps, sorted([mm, sorted(ks)] for mm, ks in ops)] for p, ps, ops in o["paths"]),
            "components": sorted(o["components"])}


def matches_finding(v, f):
    return v.get("class") == f.get("class")


def run(tier, out, model_ok, proof):
    rng = random.Random(seed())
    big = tier == "thorough"
    docs = [d.encode() for d in special_docs() + lazy_docs()]
    import importlib
    rm = [d for _, d in importlib.import_module("checks.C01").reference_matrix()]
    docs += rm if big else rm[::4]
    docs += [d.encode() for d in multi_param_docs(random.Random(seed() + 17), 600 if big else 120)]
    for i in range(1500 if big else 200):
        docs.append(render(typedgen.gen_typed(rng)))
    for i in range(800 if big else 120):
        docs.append(render(treecorr.gen_structured(rng, with_macros=rng.random() < 0.4)))
    corp = corpus_files()
    docs += [open(f, "rb").read() for f in (corp if big else rng.sample(corp, min(len(corp), 300)))]
    import scancorr
    for cid, data in scancorr.gen_mutations(rng, corp, 1500 if big else 200):
        docs.append(data)
    cases = [treecorr.project_case("d%d" % i, {"root.jst": d}) for i, d in enumerate(docs)]
    lines = []
    for c in cases:
        sc = dict(c)
        sc["mode"] = "hist"
        sc["hist"] = ["O", "J", "OI"]
        sc["full"] = True
        lines.append(json.dumps(sc))
    res, crashes = treecorr.run_isolated(os.path.join(BUILD, "harness"), ["ser"], lines, shards=14)
    ok = accepted = errors = 0
    errs = {}
    shaped = []
    for c in cases:
        cid = c["id"]
        r = res.get(cid)
        show = {"root.jst": bytes.fromhex(c["files"]["root.jst"]).decode("latin1")[:2500]}
        if cid in crashes:
            out.violations.append({"what": "the process died while exporting: %s" % crashes[cid][:100], "class": "crash", "input": show})
            continue
        if r is None or r.get("end") != "ok":
            continue
        accepted += 1
        co = r["calls"][0]
        if co.get("panic"):
            out.violations.append({"what": "ToOpenAPIJson panics: %s (%s)" % (co["panic"][:100], co.get("site", "")), "class": "panic", "input": show})
            continue
        if r["calls"][2].get("panic"):
            out.violations.append({"what": "ToOpenAPIJsonIndent panics: %s" % r["calls"][2]["panic"][:100], "class": "panic", "input": show})
            continue
        if co.get("err"):
            errors += 1
            key = re.sub(r"\(.*", "", co["err"])[:70]
            errs[key] = errs.get(key, 0) + 1
            if not r["calls"][2].get("err"):
                out.violations.append({"what": "ToOpenAPIJson returns an error (%s) but ToOpenAPIJsonIndent a document" % co["err"][:80], "class": "other", "input": show})
            continue
        oa = r.get("first", {}).get("O")
        cat = r.get("first", {}).get("J")
        if oa is None or isinstance(oa, str):
            out.violations.append({"what": "ToOpenAPIJson returned bytes that are not JSON", "class": "not-json", "input": show})
            continue
        if cat is None:
            continue      # ToJson fails on this accepted project (C04's finding F9); nothing to compare with
        bad = oas_shape(cat, oa)
        if bad:
            out.violations.append({"what": "the exported document is not structurally valid: %s" % "; ".join(bad[:3])[:300], "class": "shape", "input": show})
            continue
        ok += 1
        shaped.append((c, oa))
    # correspondence of the skeleton with the extracted model
    mism, nmodel = [], 0
    if model_ok and shaped:
        # the executable model indexes a file as a list: files above 12 KB stay in the implementation-side checks only
        shaped = [(c, oa) for c, oa in shaped if len(c["files"]["root.jst"]) // 2 <= 12000]
        sub = [c for c, _ in shaped]
        lines2 = [json.dumps(c) for c in sub]
        tres, _ = treecorr.run_isolated(os.path.join(BUILD, "harness"), ["tree"], lines2)
        mlines = [treecorr.model_line(c, tres.get(c["id"], {}))[0] for c in sub]
        mres = {}
        for l in run_lines(os.path.join(BUILD, "model"), ["tree"], mlines, shards=12):
            m = json.loads(l)
            mres[m["id"]] = m
        for c, oa in shaped:
            m = mres.get(c["id"])
            if not m or m.get("cat") != "ok":
                continue
            nmodel += 1
            a, b = oas_skeleton(oa), model_skeleton(m)
            if a != b:
                mism.append({"what": "OpenAPI skeleton: implementation and model disagree at %s" % docgen.json_diff(a, b),
                             "detail": {"root.jst": bytes.fromhex(c["files"]["root.jst"]).decode("latin1")[:1500]}})
    for x in mism[:20]:
        out.broken.append(x)
    out.coverage.update({
        "evaluations": len(cases),
        "distinct_nontrivial": ok,
        "rule": "projects = hand-picked (types with notations empty/any/regex, an invalid regex, or-rules the dependency cannot convert, repeated response codes of every notation, headers, path schemas, allOf/or bodies, query objects, JSON-RPC next to HTTP on one path, root and trailing-slash paths; objects with a user-type key under every additionalProperties value and or-form in a response body, a request body and a TYPE, which the dependency converts while the document is written out) + generated type graphs + structured documents + corpus files + mutated corpus files; for every ACCEPTED project ToOpenAPIJson, ToJson, ToOpenAPIJsonIndent are called: a panic reaching the caller is a violation; otherwise the result is an error value (counted per kind) or a document that must satisfy the shape predicate (openapi 3.0.3/info/paths; every HTTP interaction at paths[path][method]; every {parameter} declared in: path, required; response keys = the catalog's codes, each a status code or 'default'; every user type a component; every $ref resolves); the paths/parameters/operations/response-keys/components skeleton is compared with the extracted Coq model (Model/OpenApi.v); non-trivial = exported document passing the predicate",
        "samples": [special_docs()[7][:200]],
        "accepted_projects": accepted, "error_values": errors, "error_value_kinds": errs,
        "traces_validated_against_impl": nmodel,
        "correspondence_mismatches": len(mism),
        "exhaustive": False,
    })
    out.assumptions += ["PARTIAL proof: the schema objects are the dependency's and are not modelled; '$ref resolves' and 'never panics' are decided on the implementation's output only",
                        "structural validity is the property's own list of conditions, not the whole OpenAPI 3.0.3 schema"]
