"""C06 — same project, same result: output and errors are deterministic."""
import copy, random, json, os, importlib
from common import *
import treecorr, docgen, layout, catcorr, typedgen
C03 = importlib.import_module("checks.C03")
C09 = importlib.import_module("checks.C09")
N = treecorr.Node


def render(roots):
    return layout.render([docgen.node_to_D(n) for n in roots], layout.Layout(random.Random(0)))[0]


def multi_fault_docs(rng, n):
    """documents with two or more independent faults of the same phase, and documents with many
    ENUM / TYPE / TAG / SERVER entries: the only way an iteration order can show"""
    out = []
    J = "JSIGHT 0.3\n"
    for i in range(n):
        k = i % 11
        a, b, c = rng.sample(["alpha", "beta", "gamma", "delta", "eps", "zeta"], 3)
        if k == 0:     # several unused parameters in a Path schema (F8)
            doc = J + 'URL /p/{id}\n  Path\n    {"id": 1, "%s": 2, "%s": 3, "%s": 4}\n  GET\n    200 any\n' % (a, b, c)
        elif k == 1:   # several faulty macros
            doc = J + "MACRO @%s\n  PASTE @nosuch1\nMACRO @%s\n  PASTE @nosuch2\nMACRO @%s\n  PASTE @%s\nGET /x\n  200 any\n" % (a, b, c, c)
        elif k == 2:   # several enums, all fine
            doc = J + "".join('ENUM @%s%d\n[%d, "v%d"]\n' % (a, j, j, j) for j in range(rng.randint(2, 6))) + 'GET /x\n  200\n    {"e": 0 // {enum: @%s0}}\n' % a
        elif k == 3:   # several enums, two broken
            doc = J + 'ENUM @%s\n[1, 1]\nENUM @%s\n[2, 2]\nENUM @%s\n[3]\nGET /x\n  200 any\n' % (a, b, c)
        elif k == 4:   # several undefined types in different blocks
            doc = J + 'TYPE @%s\n{"x": @nosuch1}\nTYPE @%s\n{"y": @nosuch2}\nGET /x\n  200 @nosuch3\n' % (a, b)
        elif k == 5:   # duplicate enum names and duplicate type names together
            doc = J + 'ENUM @%s\n[1]\nENUM @%s\n[2]\nTYPE @%s\n1\nTYPE @%s\n2\nGET /x\n  200 any\n' % (a, a, b, b)
        elif k == 6:   # several invalid enum rule uses
            doc = J + 'ENUM @%s\n[1, 2]\nENUM @%s\n["a"]\nTYPE @t1\n{"x": 5 // {enum: @%s}}\nTYPE @t2\n{"y": 5 // {enum: @%s}}\nGET /x\n  200 any\n' % (a, b, a, b)
        elif k == 7:   # several responses with the same code + headers (OpenAPI maps)
            doc = J + 'GET /x\n  200\n    Headers\n      {"%s": "v", "%s": "w"}\n    Body any\n  200\n    Headers\n      {"%s": "v"}\n    Body\n      {"a": 1}\n  404 any\n  500 any\n' % (a, b, c)
        elif k == 9:   # several different path parameters repeated in one path
            doc = J + 'URL /%s/{%s}/%s/{%s}/{%s}/{%s}\n  GET\n    200 any\n' % (a, b, c, c, b, c) if i % 2 else J + 'GET /{%s}/{%s}/x/{%s}/{%s}/{%s}\n  200 any\n' % (a, b, c, a, b)
        elif k == 10:  # several similar paths / duplicated interactions at once
            doc = J + 'GET /%s/{x}\n  200 any\nGET /%s/{y}\n  200 any\nGET /%s/{z}\n  200 any\nPOST /%s/{u}\n  200 any\nPOST /%s/{v}\n  200 any\n' % (a, a, a, b, b)
        else:          # mutually recursive types + allOf + many rules
            doc = J + 'ENUM @e1\n[1]\nENUM @e2\n[2]\nENUM @e3\n[3]\nTYPE @%s\n{"x": @%s, // {optional: true}\n "e": 1 // {enum: @e1}\n}\nTYPE @%s\n{"y": @%s, // {optional: true}\n "e": 2 // {enum: @e2}\n}\nGET /x\n  200\n    { // {allOf: "@%s"}\n      "own": 3 // {enum: @e3}\n    }\n' % (a, b, b, a, a)
        out.append(doc.encode())
    return out


def matches_finding(v, f):
    return v.get("class") == f.get("class")


def run(tier, out, model_ok, proof):
    rng = random.Random(seed())
    big = tier == "thorough"
    cases = []
    def add(files):
        cid = "d%d" % len(cases)
        cases.append(treecorr.project_case(cid, files))
    for d in multi_fault_docs(rng, 180 if big else 45):
        add({"root.jst": d})
    for i in range(400 if big else 60):
        add({"root.jst": render(typedgen.gen_typed(rng))})
    for i in range(400 if big else 60):
        roots = treecorr.gen_structured(rng, with_macros=rng.random() < 0.5)
        if rng.random() < 0.3:
            add(C09.split_project(rng, roots))
        else:
            add({"root.jst": render(roots)})
    # rejected documents: one injected fault (C03's injectors), two injected faults
    lay0 = layout.Layout(random.Random(0))
    names = list(C03.FAULTS)
    for i in range(500 if big else 80):
        roots = treecorr.gen_structured(rng, with_macros=False)
        for _ in range(rng.randint(1, 2)):
            C03.FAULTS[rng.choice(names)](rng, roots)
        try:
            add({"root.jst": C03.directive_lines(roots, lay0)[0]})
        except Exception:
            continue
    corp = corpus_files()
    for f in (corp if big else rng.sample(corp, min(len(corp), 120))):
        add({"root.jst": open(f, "rb").read()})
    nrep = 8 if big else 5
    nproc = 3
    # (1) repeated builds inside one process
    lines = []
    for c in cases:
        sc = dict(c)
        sc["mode"] = "repeat"
        sc["n"] = nrep
        lines.append(json.dumps(sc))
    rres, rcr = treecorr.run_isolated(os.path.join(BUILD, "harness"), ["ser"], lines)
    # (2) fresh processes: the whole batch again, each in new processes with another sharding
    fresh = []
    for k in range(nproc):
        order = list(lines)
        random.Random(k).shuffle(order)
        r, cr = treecorr.run_isolated(os.path.join(BUILD, "harness"), ["ser"], order, shards=6 + 3 * k)
        fresh.append(r)
    # (2b) state left behind by EARLIER builds of OTHER projects in the same process and at the
    # same path: groups of projects are built one after the other in one directory; every result
    # must equal the one the project gets when it is the only build of a fresh process
    C07 = importlib.import_module("checks.C07")
    inc_projects = [
        {"root.jst": b"JSIGHT 0.3\nINCLUDE users.jst\n", "users.jst": b"\n\nINCLUDE common.jst\n", "common.jst": b"INCLUDE pet.jst\n", "pet.jst": b"TYPE @pet\n{\"a\": @undefined}\n"},
        {"root.jst": b"JSIGHT 0.3\n\n\nINCLUDE orders.jst\n", "orders.jst": b"INCLUDE common.jst\n", "common.jst": b"\nINCLUDE pet.jst\n", "pet.jst": b"TYPE @pet\n{\"a\": @undefined}\n"},
        {"root.jst": b"JSIGHT 0.3\nINCLUDE a.jst\n", "a.jst": b"Body any\n"},
        {"root.jst": b"JSIGHT 0.3\n\nTYPE @x any\nINCLUDE a.jst\n", "a.jst": b"\nBody any\n"},
    ]
    for i in range(240 if big else 60):
        roots = treecorr.gen_structured(rng, with_macros=False)
        roots.insert(rng.randint(1, len(roots)), N(rng.choice(C07.FAULTS)))
        inc_projects.append(C09.split_project(rng, roots))
    pcases = [treecorr.project_case("q%d" % i, f) for i, f in enumerate(inc_projects)]
    plines, solo_lines = [], []
    for g0 in range(0, len(pcases), 6):
        grp = pcases[g0:g0 + 6]
        plines.append(json.dumps({"id": "grp%d" % g0, "mode": "prior", "group": grp}))
        if len(grp) > 1:
            plines.append(json.dumps({"id": "rev%d" % g0, "mode": "prior", "group": list(reversed(grp))}))
    for c in pcases:
        solo_lines.append(json.dumps({"id": "solo_" + c["id"], "mode": "prior", "group": [c]}))
    pres, _ = treecorr.run_isolated(os.path.join(BUILD, "harness"), ["ser"], plines, shards=8)
    # one process per project: shards = number of lines
    sres = {}
    def solo_run(line):
        r, _ = treecorr.run_isolated(os.path.join(BUILD, "harness"), ["ser"], [line], shards=1)
        sres.update(r)
    import threading
    sem = threading.Semaphore(12)
    def guarded(line):
        with sem:
            solo_run(line)
    ths = [threading.Thread(target=guarded, args=(l,)) for l in solo_lines]
    for t in ths:
        t.start()
    for t in ths:
        t.join()
    prior_ok = 0
    for gid, r in pres.items():
        if r.get("end") != "ok":
            continue
        g0 = int(gid[3:])
        grp = pcases[g0:g0 + 6]
        if gid.startswith("rev"):
            grp = list(reversed(grp))
        for k, (c, b) in enumerate(zip(grp, r["builds"])):
            s = sres.get("solo_" + c["id"])
            if not s or s.get("end") != "ok":
                continue
            if json.dumps(b, sort_keys=True) != json.dumps(s["builds"][0], sort_keys=True):
                show = {n: bytes.fromhex(h).decode("latin1")[:1200] for n, h in c["files"].items()}
                show["built_before_in_the_same_process"] = [{n: bytes.fromhex(h).decode("latin1")[:400] for n, h in p["files"].items()} for p in grp[:k]][-2:]
                a, bb = s["builds"][0], b
                out.violations.append({"what": "the result of a build depends on the builds made before it in the same process: alone %s, after %d other projects %s" %
                                       ((a.get("full") or a.get("sha") or "")[:150], k, (bb.get("full") or bb.get("sha") or "")[:150]),
                                       "class": "depends-on-prior-builds", "input": show})
                break
        else:
            prior_ok += 1
    ok = accepted = rejected = 0
    for c in cases:
        cid = c["id"]
        r = rres.get(cid)
        if r is None or r.get("end") != "ok":
            continue
        show = {n: bytes.fromhex(h).decode("latin1")[:2000] for n, h in c["files"].items()}
        obs = [json.dumps(b, sort_keys=True) for b in r["builds"]]
        where = ["in-process build #%d" % i for i in range(len(obs))]
        for k, fr in enumerate(fresh):
            q = fr.get(cid)
            if q is not None and q.get("end") == "ok":
                obs += [json.dumps(b, sort_keys=True) for b in q["builds"]]
                where += ["fresh process %d build #%d" % (k, i) for i in range(len(q["builds"]))]
        diff = [i for i in range(1, len(obs)) if obs[i] != obs[0]]
        if diff:
            i = diff[0]
            a, b = json.loads(obs[0]), json.loads(obs[i])
            what = [k for k in set(a) | set(b) if a.get(k) != b.get(k)]
            det = ""
            if "err" in what and a.get("err") and b.get("err"):
                ea, eb = a["err"], b["err"]
                det = "; error %r line %s vs %r line %s" % (bytes.fromhex(ea["msg"]).decode("latin1")[:70], ea["line"],
                                                            bytes.fromhex(eb["msg"]).decode("latin1")[:70], eb["line"])
            out.violations.append({"what": "the same project gives different results (%s differs between %s and %s; %d of %d observations differ)%s" %
                                   (",".join(sorted(what)), where[0], where[i], len(diff), len(obs), det),
                                   "class": "nondeterministic", "input": show})
            continue
        ok += 1
        if r["builds"][0]["end"] == "ok":
            accepted += 1
        else:
            rejected += 1
    # (3) the model (a function) predicts the same skeleton / error for single-file cases
    mism, skipped = [], 0
    if model_ok:
        res, crashes, mres, mism, skipped = catcorr.run_catalog(cases)
    for x in mism[:30]:
        out.broken.append({"what": "catalog model and implementation disagree: " + x["what"],
                           "detail": {n: bytes.fromhex(h).decode("latin1")[:1500] for n, h in x["case"]["files"].items()}})
    out.coverage.update({
        "evaluations": len(cases) * (nrep * (1 + nproc)),
        "distinct_nontrivial": ok,
        "rule": "projects = documents with two or more independent faults of one phase and with many ENUM/TYPE entries (the only way an iteration order can show) + generated documents with random type graphs + structured documents with macros and include trees + valid documents with one or two injected faults + corpus files (accepted and rejected); each project is built %d times inside one process and %d more times in each of %d fresh processes (Go randomises every map iteration and every process has its own hash seed and address layout); compared: sha256 of ToJson and of ToOpenAPIJson bytes (or their error text), or message, file, index, line, column, quote, include trace and the full Error() text; prior builds: include-tree projects with an injected fault are built in groups, one after the other in one process and at one path (and in the reverse order), and every result must equal the project's result as the only build of a fresh process; the same projects are compared with the extracted Coq model, which is a function; non-trivial = all observations identical" % (nrep, nrep, nproc),
        "samples": [bytes.fromhex(cases[0]["files"]["root.jst"]).decode("latin1")[:200]],
        "accepted_projects": accepted, "rejected_projects": rejected,
        "prior_build_groups_equal_to_fresh_process": prior_ok, "prior_build_projects": len(pcases),
        "traces_validated_against_impl": (len(cases) - len(mism) - skipped) if model_ok else 0,
        "correspondence_mismatches": len(mism),
        "exhaustive": False,
    })
    out.assumptions += ["'concurrently with other builds' is checked by C18", "time and addresses: Props/C06.v proves from the regenerated inventory that the code calls no clock or random source and starts no goroutine; %p-style formatting is not inventoried",
                        "PARTIAL proof: the map-iteration sites are classified by review (Spec/MapRanges.v) and the classification is proved complete for the regenerated inventory; the order-insensitivity lemmas are generic (insert-only folds, sorted output), not derived from the Go loop bodies"]
