"""C01 — building a project is total: a catalog or a located error, never a crash or hang."""
import random
from common import *
import treecorr, docgen, layout, scancorr, stress
import importlib
C09 = importlib.import_module("checks.C09")
C14 = importlib.import_module("checks.C14")
N = treecorr.Node

F12_DOC = (b'JSIGHT 0.3\n\nTYPE @testShortRecursion\n{\n  "testShortRecursion": @testShortRecursion, // {optional: true}\n  "testLongRecursion" : @testLongRecursion,\n'
           b'  "testBothRecursions": @testShortRecursion | @t-stLongRecursion\n}\n\nTYPE @testLongRecursion\n{\n  "testShortRecursion": @testShortRecursion // {optional: true}\n}\n')

ONCE_CRASHING = [
    {"root.jst": F12_DOC},
    {"root.jst": b"("},
    {"root.jst": b"JSIGHT 0.3\n)\n("},
    {"root.jst": b"JSIGHT 0.3\nINCLUDE f.jst extra\n", "f.jst": b"TYPE @a any\n"},
    {"root.jst": b"JSIGHT 0.3\nINCLUDE f.jst // note\n", "f.jst": b"TYPE @a any\n"},
    {"root.jst": b'JSIGHT 0.3\nINCLUDE ""\n'},
    {"root.jst": b"JSIGHT 0.3\nGET /a /*/"},
    {"root.jst": b"JSIGHT 0.3\nMACRO @a\n(\nPASTE @b\n)\nMACRO @b\n(\nPASTE @a\n)\nPASTE @a\n"},
    {"root.jst": b"JSIGHT 0.3\nMACRO @a\n(\nPASTE @b\n)\nMACRO @b\n(\nPASTE @c\n)\nMACRO @c\n(\nPASTE @a\n)\nGET /x\n  PASTE @b\n"},
    {"root.jst": b"JSIGHT 0.3\nTYPE @r regex\n/x/\nURL /a/{id}\n  Path @r\n  GET\n    200 any\n"},
    {"root.jst": b"JSIGHT 0.3\nTYPE @r any\nURL /a/{id}\n  Path @r\n  GET\n    200 any\n"},
    {"root.jst": b"JSIGHT 0.3\nTYPE @b\n{\"a\": @a}\nTYPE @a\n1\nENUM @e\n[1,2]\n"},
    {"root.jst": b"JSIGHT 0.3\nURL /a\n(\nINCLUDE e.jst\n)\n", "e.jst": b""},
    {"root.jst": b'JSIGHT 0.3\nTYPE @a any\nURL /x/{id}\n  Path\n  {\n    "id": @a\n  }\n  GET\n    200 any\n'},
    {"root.jst": b'JSIGHT 0.3\nTYPE @e empty\nGET /x/{id}\n  Path\n  {\n    "id": @e\n  }\n  200 any\n'},
    {"root.jst": b""},
    {"root.jst": b"\n\n"},
]


def reference_matrix():
    """every consumer of a type reference x every kind of type it may lead to (directly and through an
    alias): most combinations are faulty documents - each must end with a catalog or a located error"""
    J = "JSIGHT 0.3\n"
    kinds = {
        "obj": 'TYPE @k\n  {"a": 1}\n', "scalar": 'TYPE @k\n  "ab" // {regex: "ab+"}\n', "arr": "TYPE @k\n  [1, 2]\n",
        "int": "TYPE @k\n  12\n", "null": "TYPE @k\n  null\n", "rx": "TYPE @k regex\n  /ab+/\n", "any": "TYPE @k any\n", "empty": "TYPE @k empty\n",
        "or": 'TYPE @k\n  1 // {or: [{type: "integer"}, {type: "string"}]}\n', "self": 'TYPE @k\n  {"me": @k} // {optional: true}\n',
        "enumrule": 'ENUM @en\n  [1, 2]\nTYPE @k\n  1 // {enum: @en}\n', "undefined": "",
    }
    consumers = {
        "reqheaders": "POST /c\n  Request\n    Headers\n      %s\n    Body any\n  200 any\n",
        "respheaders": "GET /c\n  200\n    Headers\n      %s\n    Body any\n",
        "query": 'GET /c\n  Query "a=1"\n    %s\n  200 any\n',
        "path": "GET /c/{id}\n  Path\n    %s\n  200 any\n",
        "pathprop": 'GET /c/{id}\n  Path\n    {"id": %s}\n  200 any\n',
        "params": "URL /r\n  Protocol json-rpc-2.0\n  Method m\n    Params\n      %s\n",
        "result": "URL /r\n  Protocol json-rpc-2.0\n  Method m\n    Result\n      %s\n",
        "reqbody": "POST /c\n  Request %s\n  200 any\n",
        "respbody": "GET /c\n  200 %s\n",
        "allof": 'GET /c\n  200\n    { // {allOf: "%s"}\n      "own": 1\n    }\n',
        "arrayof": "GET /c\n  200 [%s]\n",
        "headerprop": 'GET /c\n  200\n    Headers\n      {"h": %s}\n    Body any\n',
    }
    out = []
    for kn, decl in kinds.items():
        for cn, tmpl in consumers.items():
            for via_alias in (False, True):
                ref = "@al" if via_alias else "@k"
                types = decl + ("TYPE @al\n  @k\n" if via_alias else "")
                for types_first in (True, False):
                    body = tmpl % ref
                    doc = J + (types + body if types_first else body + types)
                    out.append(("%s-%s-%d%d" % (kn, cn, via_alias, types_first), doc.encode()))
    return out


def matches_finding(v, f):
    return v.get("class") == f.get("class") or v.get("class") in f.get("classes", [])


def run(tier, out, model_ok, proof):
    rng = random.Random(seed())
    big = tier == "thorough"
    cases = []
    for i, f in enumerate(ONCE_CRASHING):
        cases.append(treecorr.project_case("k%d" % i, f))
    c = treecorr.project_case("kmissing", {"root.jst": b""})
    c["mode"] = "kit-missing"
    cases.append(c)
    c = treecorr.project_case("kempty", {"root.jst": b""})
    c["mode"] = "kit-file"
    cases.append(c)
    for cid, data in scancorr.gen_random_bytes(rng, 30000 if big else 2500, maxlen=80):
        cases.append(treecorr.single_file_case("b_" + cid, data))
    for cid, data in scancorr.gen_docs(rng, 30000 if big else 2500):
        cases.append(treecorr.single_file_case("d_" + cid, data))
    for cid, data in scancorr.gen_mutations(rng, corpus_files(), 6000 if big else 700):
        cases.append(treecorr.single_file_case("m_" + cid, data))
    for i, d in enumerate(treecorr.gen_token_docs(rng, 20000 if big else 2000, maxlen=10, macro_bias=True)):
        cases.append(treecorr.single_file_case("t%d" % i, treecorr.render_tokens(d)))
    for i in range(6000 if big else 600):
        roots = treecorr.gen_structured(rng, with_macros=rng.random() < 0.4)
        toks = treecorr.flatten_nodes(roots)
        for _ in range(rng.randint(0, 3)):
            toks = treecorr.perturb_tokens(rng, toks)
        if rng.random() < 0.5:
            cases.append(treecorr.project_case("s%d" % i, treecorr.split_includes(rng, toks)))
        else:
            cases.append(treecorr.single_file_case("s%d" % i, treecorr.render_tokens(toks)))
    # NUL and other hostile bytes at every kind of position of valid documents
    for i in range(4000 if big else 500):
        roots = treecorr.gen_structured(rng, with_macros=False)
        d = bytearray(C09.render_nodes(roots))
        for _ in range(rng.randint(1, 2)):
            d.insert(rng.randrange(len(d) + 1), rng.choice([0, 0, 0, 0x80, 0xff, 0x0b, 0x7f]))
        if rng.random() < 0.3:
            d = d[:rng.randrange(len(d) + 1)]
        cases.append(treecorr.single_file_case("z%d" % i, bytes(d)))
    # arbitrary PASTE graphs: chains into cycles, any declaration order, as one file or split
    C10 = importlib.import_module("checks.C10")
    for i in range(4000 if big else 500):
        roots = C10.gen_macro_digraph(rng)
        if rng.random() < 0.25:
            cases.append(treecorr.project_case("mg%d" % i, C09.split_project(rng, roots)))
        else:
            cases.append(treecorr.single_file_case("mg%d" % i, C09.render_nodes(roots)))
    for g in C14.graph_cases(rng, 2000 if big else 250):
        g = dict(g)
        g["id"] = "g_" + g["id"]
        cases.append(g)
    # odd paths: empty, '.', '..' and brace segments in every position, three document shapes
    for name, doc in stress.path_shapes(3 if big else 2) + ([] if big else [x for x in stress.path_shapes(3) if x[0].startswith("m")]):
        cases.append(treecorr.single_file_case("ps_" + name, doc.encode()))
    # the line an error is located on, in every shape: indentation and length around the 200 bytes at
    # which the quote of an error is cut, at the end of the file and in the middle, for errors of the
    # scanner, of the directive layer and of the catalog builder
    ll = []
    for ind in (0, 1, 3, 150, 190, 196, 197, 198, 199, 200, 201, 203, 250, 400, 1000):
        for tail in (0, 40, 150, 190, 197, 200, 250):
            for kind in range(4):
                for pos in range(3):
                    ll.append((ind, tail, kind, pos))
    for i, (ind, tail, kind, pos) in enumerate(ll if big else rng.sample(ll, 400)):
        pad = (b" " if (ind + tail) % 3 else b"\t") * ind
        fill = b"x" * tail
        faulty = [b"FOO" + (b" " + fill if tail else b""),                         # scanner: unknown keyword
                  b"GET /pets" + (b" // " + fill if tail else b""),                # builder: a second GET /pets
                  b"SERVER @prod" + (b" // " + fill if tail else b""),             # builder: a second SERVER @prod
                  b"Body any" + (b" // " + fill if tail else b"")][kind]          # directive layer: Body at the top level
        head = b"JSIGHT 0.3\nSERVER @prod\n  BaseUrl \"https://h/\"\nGET /pets\n  200 any\n"
        doc = head + pad + faulty + [b"", b"\n", b"\n  200 any\nGET /more\n  200 any\n" + b"# filler\n" * 30][pos]
        cases.append(treecorr.single_file_case("ll%d" % i, doc))
        if i % 7 == 0:
            c = treecorr.project_case("lli%d" % i, {"root.jst": head + b"INCLUDE inc.jst\n", "inc.jst": pad + faulty + [b"", b"\n", b"\n# x\n"][pos]})
            cases.append(c)
    for name, doc in reference_matrix():
        cases.append(treecorr.single_file_case("rm_" + name, doc))
    # big inputs: time must stay proportional
    big_doc = b"JSIGHT 0.3\n" + b"".join(b"GET /p%d\n  200 any\n" % i for i in range(3000 if big else 800))
    cases.append(treecorr.single_file_case("big1", big_doc))
    cases.append(treecorr.single_file_case("big2", b"JSIGHT 0.3\n" + b"#" * 200000 + b"\n"))
    cases.append(treecorr.single_file_case("big3", b"JSIGHT 0.3\nGET /a\n  Description\n" + b"  text line\n" * 20000))
    res, crashes = docgen.run_build(cases, timeout=900)
    # dependency-shaped documents, one worker each: a build that does not return in 40 s is a hang;
    # a catalog more than 1000 times the size of the project is an output blow-up
    scases = [treecorr.project_case("st_" + n, f) for n, f in stress.projects(big)]
    sres, scr = docgen.run_build(scases, timeout=40, min_shard=1, shards=16)
    stress_rows = []
    for c in scases:
        fam = stress.family(c["id"][3:])
        size = sum(len(h) // 2 for h in c["files"].values())
        show = {n: bytes.fromhex(h).decode("latin1")[:400] for n, h in c["files"].items()}
        if c["id"] in scr:
            out.violations.append({"what": "building the %d-byte project %s did not return within 40 s (%s)" % (size, c["id"][3:], scr[c["id"]][:40]),
                                   "class": "hang:" + fam, "input": show, "input_hex": dict(c["files"])})
            continue
        r = sres.get(c["id"])
        if r is None:
            continue
        olen = len(json.dumps(r.get("json"))) if r.get("json") is not None else 0
        stress_rows.append({"project": c["id"][3:], "bytes": size, "ms": r.get("ms", 0), "catalog_bytes": olen, "end": r["end"]})
        if r["end"] == "panic":
            out.violations.append({"what": "panic: %s at %s" % (r.get("panic", "")[:100], r.get("site", "?")), "class": "panic@" + r.get("site", "?").split(" (")[0],
                                   "input": show, "input_hex": dict(c["files"])})
        elif olen > 1000 * size:
            out.violations.append({"what": "the %d-byte project %s yields a catalog of %d bytes after %.0f ms" % (size, c["id"][3:], olen, r.get("ms", 0)),
                                   "class": "output-blowup:" + fam, "input": show})
        elif r.get("ms", 0) > 5000 + 2 * size:
            out.violations.append({"what": "building the %d-byte project %s took %.0f ms" % (size, c["id"][3:], r.get("ms", 0)), "class": "slow:" + fam, "input": show})
    byid = {c["id"]: c for c in cases}
    kinds = {}
    slow = []
    for c in cases:
        cid = c["id"]
        r = res.get(cid)
        show = {n: bytes.fromhex(h).decode("latin1")[:600] for n, h in c["files"].items()}
        if cid in crashes:
            kinds["killed"] = kinds.get("killed", 0) + 1
            out.violations.append({"what": "the process died or hung while building: %s" % crashes[cid][:120], "class": "process-death", "input": show,
                                   "input_hex": {n: h for n, h in c["files"].items()}})
            continue
        if r is None:
            continue
        kinds[r["end"]] = kinds.get(r["end"], 0) + 1
        if r["end"] == "panic":
            out.violations.append({"what": "panic: %s at %s" % (r.get("panic", "")[:100], r.get("site", "?")), "class": "panic@" + r.get("site", "?").split(" (")[0],
                                   "input": show, "input_hex": {n: h for n, h in c["files"].items()}})
        elif r["end"] not in ("ok", "err"):
            out.violations.append({"what": "unexpected outcome %s" % r["end"], "class": "other", "input": show})
        size = sum(len(h) // 2 for h in c["files"].values())
        if r.get("ms", 0) > 3000 or (size > 2000 and r.get("ms", 0) / size > 0.5):
            slow.append((cid, size, r.get("ms", 0)))
    for cid, size, ms in slow:
        out.violations.append({"what": "building %d bytes took %.0f ms" % (size, ms), "class": "slow", "input": {"id": cid}})
    mism = []
    if model_ok:
        tc = [c for c in cases if c["id"][0] in "kts" and c.get("mode") is None][: (6000 if big else 1500)]
        g, tcr, mm, mism = treecorr.run_tree(tc)
        for x in mism[:30]:
            out.broken.append({"what": "directive-layer model and implementation disagree: " + x["what"],
                               "detail": {n: bytes.fromhex(h).decode("latin1")[:600] for n, h in x["case"]["files"].items()}})
        treecorr.placed_check(mm, tc, out)
    ms = sorted(r.get("ms", 0) for r in res.values())
    out.coverage.update({
        "evaluations": len(cases),
        "distinct_nontrivial": len(set(json.dumps(c["files"], sort_keys=True) for c in cases)),
        "rule": "every formerly crashing input, a missing and an empty root file through kit.NewJapi, random bytes, directive-like documents, mutated corpus files, random directive sequences, arbitrary MACRO/PASTE graphs (chains into cycles, any declaration order), perturbed structured documents as files and include trees, include graphs with cycles/missing files/directories, rejected documents whose faulty line has every shape of indentation and length around the 200-byte cut of the error quote (end of file / middle / included file; scanner, directive-layer and builder errors), every consumer of a type reference (request/response Headers, Query, Path, Params, Result, bodies, allOf, array items, header and path properties) x every kind of type it may lead to (object, scalar, array, null, regex / any / empty notation, or-type, self-reference, enum rule, undefined; directly and through an alias; declared before or after), every path of up to three segments over {'', '.', '..', 'a', '{id}', '{}', ...} as method path / URL path / JSON-RPC URL, three large inputs, and dependency-shaped projects (chains of 10..40 user types in both orders, allOf/array/macro/include chains, rings, fan-outs, deep JSON; Fibonacci, or- and dense DAGs of types) each in a worker of its own with a 40 s limit; each is built by kit.NewJApiFromFile in a worker whose death is attributed to the case; outcome must be catalog or error; wall time per case is recorded",
        "samples": [{n: bytes.fromhex(h).decode("latin1")[:100] for n, h in c["files"].items()} for c in cases[14:17]],
        "outcomes": kinds,
        "dependency_shaped_projects": stress_rows,
        "time_ms": {"median": ms[len(ms) // 2] if ms else 0, "p99": ms[int(len(ms) * 0.99)] if ms else 0, "max": ms[-1] if ms else 0},
        "traces_validated_against_impl": (len(tc) - len(mism)) if model_ok else 0,
        "correspondence_mismatches": len(mism),
        "exhaustive": False,
    })
    out.assumptions += [
        "PARTIAL: see Props/C01.v; real stack depth and wall time are measured, not proved; panics inside jsight-schema-core are excluded by its own recover wrappers (oracle contract)",
    ]
