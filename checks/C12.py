"""C12 — the scanner reports exactly the lexemes that are in the text."""
import random, re
from common import *
import scancorr, layout

GRAMMAR = re.compile(r"^(?:K P* A? O* [STE]? |O |C )*$".replace(" ", ""))


def wellformed(data, r):
    """property predicate on the implementation's lexeme list -> None | description"""
    n = len(data)
    prev_end = -1
    kinds = []
    for l in r["lex"]:
        k, b, e = l.split(":")
        b, e = int(b), int(e)
        kinds.append(k)
        if b < 0 or e >= n + 1 or (e >= n and n > 0 and e != n - 1 and e > n - 1):
            return "lexeme %s outside the file (size %d)" % (l, n)
        if e > n - 1 and not (n == 0):
            return "lexeme %s ends outside the file (size %d)" % (l, n)
        if b > e + 1:
            return "lexeme %s has begin > end + 1" % l
        if b <= prev_end:
            return "lexeme %s overlaps or precedes the previous one (previous end %d)" % (l, prev_end)
        prev_end = max(prev_end, e)
    if r["end"][0] in ("errU", "err") and not (0 <= r["end"][1] <= n):
        return "error index %d outside the file (size %d)" % (r["end"][1], n)
    seq = "".join(kinds)
    if r["end"][0] == "ok" and not GRAMMAR.match(seq):
        return "lexeme kinds %s are not well-bracketed per directive" % seq
    return None


def classify(data, why):
    if b"/*/" in data and "begin > end + 1" in why and why.startswith("lexeme A"):
        return "annotation-closed-by-its-own-opening-star"
    return "other"


def matches_finding(v, f):
    return v.get("class") == f.get("class")


def run(tier, out, model_ok, proof):
    rng = random.Random(seed())
    big = tier == "thorough"
    cases = []
    cases += scancorr.gen_random_bytes(rng, 20000 if big else 2500, maxlen=60)
    cases += scancorr.gen_docs(rng, 20000 if big else 2500)
    cases += scancorr.gen_mutations(rng, corpus_files(), 3000 if big else 400)
    corp = scancorr.corpus_cases(None if big else 150, rng)
    cases += [c for c in corp if b"\x00" not in c[1]]
    cases.append(("f2", b"GET /a /*/"))
    exact = {}
    for i in range(20000 if big else 2500):
        docs = layout.gen_lexical_doc(rng)
        for d in docs:
            if getattr(d, "regex", False):
                d.bkind = "R"
        data, exp = layout.render(docs, layout.Layout.random(rng))
        cid = "x%d" % i
        cases.append((cid, data))
        exact[cid] = exp
    # type-like parameters that make a directive body-less (any, empty, @type, the array shortcut
    # [@type]), bare and quoted, each followed by further directives that a wrongly expected body
    # would swallow; own random stream, so the cases above stay what they were
    rng2 = random.Random(seed() + 12)
    for i in range(3000 if big else 400):
        docs = []
        for _ in range(rng2.randint(1, 3)):
            docs.append(layout.D(rng2.choice(["200", "404", "Body", "Request"]),
                                 [rng2.choice([b"any", b"empty", b"@t", b"[@t]", b"@a-b_c", b"[@a-b_c]"])],
                                 rng2.choice([None, "note"])))
            docs += layout.gen_lexical_doc(rng2, n=1)
        for d in docs:
            if getattr(d, "regex", False):
                d.bkind = "R"
        data, exp = layout.render(docs, layout.Layout.random(rng2))
        cid = "y%d" % i
        cases.append((cid, data))
        exact[cid] = exp
    cases = [("c%d_%s" % (i, cid), d) for i, (cid, d) in enumerate(cases)]
    if model_ok:
        results, mism = scancorr.run_scan(cases, traj=True)
    else:
        results, mism = scancorr.run_scan_impl_only(cases)
    ends = {}
    oracle_n = 0
    nontrivial = set()
    nexact = 0
    for cid, data in cases:
        r = results.get(cid)
        if r is None:
            continue
        ends[r["end"][0]] = ends.get(r["end"][0], 0) + 1
        oracle_n += r.get("oracle_answers", 0)
        if r.get("oracle_past_eof"):
            out.broken.append({"what": "ORACLE CONTRACT of C12_lexemes_lie_inside_the_file violated: the schema library reported a length that reaches beyond the end of the file: %s" % r["oracle_past_eof"],
                               "detail": data.decode("latin1")[:400]})
        if len(r["lex"]) >= 2:
            nontrivial.add(data)
        why = wellformed(data, r)
        if why:
            out.violations.append({"what": why, "class": classify(data, why), "input": data.decode("latin1"), "input_hex": data.hex()})
        key = cid.split("_", 1)[1]
        if key in exact:
            nexact += 1
            want = ["%s:%d:%d" % (("T" if k == "R" else k), b, e) for k, b, e, v in exact[key]]
            if r["lex"] != want or r["end"][0] != "ok":
                out.violations.append({"what": "rendered document does not scan to the lexemes it was rendered from: expected %s, got %s end=%s" % (want, r["lex"], list(r["end"])),
                                       "class": "other", "input": data.decode("latin1"), "input_hex": data.hex()})
    for m in mism[:50]:
        out.broken.append({"what": "scanner model and implementation disagree (%s) on input %r" % (m["what"], bytes.fromhex(m["data"]).decode("latin1")[:200]),
                           "detail": {k: m[k] for k in ("what", "data")}})
    out.coverage.update({
        "evaluations": len(cases),
        "distinct_nontrivial": len(nontrivial),
        "rule": "random bytes over the scanner's alphabet, random directive-like documents, mutated corpus files, corpus files, and documents rendered from abstract directive lists in random layouts (LF/CRLF/CR, indentation, quoting, // and /* */ annotations, trivia, trailing blanks) whose expected lexeme extents are computed by the renderer, plus a stream of body-less directives with type-like parameters (any, empty, @type, [@type]; bare and quoted) followed by further directives; non-trivial = at least two lexemes; checked: per-Next() configuration equality implementation vs extracted Coq model, the well-formedness predicate on every implementation result, byte-exact extents for rendered documents",
        "samples": [{"input": d.decode("latin1")[:120], "lexemes": results[c]["lex"][:8]} for c, d in cases[:2] + cases[-2:] if c in results],
        "traces_validated_against_impl": len(cases) - len(mism) if model_ok else 0,
        "exactness_cases": nexact,
        "end_kinds": ends,
        "correspondence_mismatches": len(mism),
        "oracle_answers_within_the_file": oracle_n,
        "exhaustive": False,
    })
    out.assumptions += [
        "PARTIAL: proved for all byte strings over the regenerated scanner: lexemes in text order without overlap, inside the file (oracle contract asserted here), never inverted, kinds well bracketed per directive, events well bracketed; the byte-exact equality with the rendered document rests on the per-Next() correspondence (model regenerated from the source) and on the expected extents computed by the renderer",
        "schema/enum body lengths are the dependency's (oracle); a '#' comment directly after a jschema body belongs to the body",
    ]
