"""C09 — INCLUDE is transparent: splitting a document into files does not change it."""
import random
from common import *
import treecorr, docgen, layout, meta

N = treecorr.Node


def render_nodes(nodes, lay=None):
    return layout.render([docgen.node_to_D(n) for n in nodes], lay or layout.Layout(random.Random(0)))[0]


def split_project(rng, roots):
    """cut sibling runs of the node forest into include files (nested, same piece reused for
    equal runs); returns files {name: bytes}"""
    files = {}
    cache = {}
    counter = [0]

    def emit(nodes, depth, prefix, indent):
        out = bytearray()
        i = 0
        while i < len(nodes):
            n = nodes[i]
            if depth < 3 and counter[0] < 6 and rng.random() < 0.22 and not (depth == 0 and i == 0):
                ln = rng.randint(1, min(3, len(nodes) - i))
                run = nodes[i:i + ln]
                key = tuple(render_nodes([r]) for r in run)
                if key in cache and rng.random() < 0.8:
                    name = cache[key]
                else:
                    counter[0] += 1
                    sub = rng.choice(["", "", "inc/"])
                    name = "%sp%d.jst" % (sub, counter[0])
                    body = emit(run, depth + 1, os.path.dirname(os.path.join(prefix, name)), 0)
                    if rng.random() < 0.3 and body.endswith(b"\n"):
                        body = body[:-1]          # included file without a final newline
                    if rng.random() < 0.3:
                        # blank / comment lines before the first directive of the included file, trailing blank lines
                        body = rng.choice([b"\n", b"\n\n", b"   \n", b"\t\n"]) + bytes(body) + rng.choice([b"", b"\n\n", b"\n  \n"])
                    files[os.path.normpath(os.path.join(prefix, name))] = bytes(body)
                    cache[key] = name
                rel = name
                q = '"%s"' % rel if rng.random() < 0.3 else rel
                out.extend(b" " * indent + b"INCLUDE " + q.encode() + b"\n")
                i += ln
                continue
            # the directive itself, then its children (possibly cut further), then ')'
            d = docgen.node_to_D(N(n.text, [], n.explicit))
            d.explicit = False
            head = layout.render([d], layout.Layout(random.Random(0)))[0]
            out.extend(b"".join((b" " * indent + l if l.strip() else l) + b"\n" for l in head.split(b"\n")[:-1]))   # blank lines stay blank
            if n.explicit:
                out.extend(b" " * indent + b"(\n")
            out.extend(emit(n.children, depth + 1, prefix, indent + 2))
            if n.explicit:
                out.extend(b" " * indent + b")\n")
            i += 1
        return out

    files["root.jst"] = bytes(emit(roots, 0, "", 0))
    return files


def paren_depth_at_boundaries(files, root="root.jst"):
    """is an explicit '(' open at an INCLUDE line or at the end of an included file?"""
    hit = [False]

    def walk(name, depth, stack):
        if name in stack or name not in files:
            return depth
        for line in files[name].split(b"\n"):
            s = line.strip()
            if s == b"(":
                depth += 1
            elif s == b")":
                depth -= 1
            elif s.startswith(b"INCLUDE "):
                if depth > 0:
                    hit[0] = True
                t = s[8:].strip().decode("latin1").strip('"')
                d2 = walk(os.path.normpath(os.path.join(os.path.dirname(name), t)), depth, stack + (name,))
                depth = d2
        if stack and depth > 0:
            hit[0] = True
        return depth
    walk(root, 0, ())
    return hit[0]


def special_projects():
    """pieces included from several places, Path under a method inside a twice-included piece,
    cuts right after a directive that still waits for children, files without final newline"""
    out = []
    out.append({"root.jst": b"JSIGHT 0.3\nURL /a/{id}\n  INCLUDE m.jst\nURL /b/{id}\n  INCLUDE m.jst\n",
                "m.jst": b"GET\n  Path\n  {\"id\": 1}\n  200 any\n"})
    out.append({"root.jst": b"JSIGHT 0.3\nGET /a\n  INCLUDE r.jst\nPOST /a\n  INCLUDE r.jst\n  Request any\n",
                "r.jst": b"200 any\n404 any"})
    out.append({"root.jst": b"JSIGHT 0.3\nGET /a\nINCLUDE c.jst\n", "c.jst": b"  200\n  INCLUDE d.jst\n", "d.jst": b"    Body any\n"})
    out.append({"root.jst": b"JSIGHT 0.3\nTAG @a\nINCLUDE inc/x.jst\n", "inc/x.jst": b"GET /x\n  Tags @a\n  200 any\nINCLUDE y.jst\n", "inc/y.jst": b"GET /y\n  Tags @b\n  200 any\n"})
    return out


def padded_fault_projects():
    """a rule fault inside an included file that begins with blank lines / blanks and ends with some
    (positions inside an included file count from ITS first byte, whatever that byte is); nesting 1-2"""
    out = []
    faults = [b"TYPE @dup any\nTYPE @dup any\n", b"GET /same\n  200 any\nGET /same\n  200 any\n", b"TAG @tt\nTAG @tt\n",
              b"GET /q\n  Query \"a=1\"\n    {\"a\": 1}\n  Query \"b=1\"\n    {\"b\": 1}\n  200 any\n", b"SERVER @s\nSERVER @s\n", b"GET /m\n  Tags @nosuchtag\n  200 any\n"]
    pads = [b"\n", b"\n\n\n", b"   \n\t\n", b"  ", b"\n  ", b""]
    for i, f in enumerate(faults):
        for j, pad in enumerate(pads):
            body = pad + f + [b"", b"\n\n", b"  \n"][(i + j) % 3]
            if j % 2 == 0:
                out.append({"root.jst": b"JSIGHT 0.3\nTYPE @first any\nINCLUDE inc/a.jst\nTYPE @last any\n", "inc/a.jst": body})
            else:
                out.append({"root.jst": b"JSIGHT 0.3\nINCLUDE mid.jst\n", "mid.jst": pads[(j + 1) % len(pads)] + b"TYPE @m any\nINCLUDE deep/b.jst\n", "deep/b.jst": body})
    return out


def twin_projects(rng, n):
    """the same WRITTEN include name used from several directories, where it names different
    files with different content (names resolve relative to the including file)"""
    out = []
    for i in range(n):
        k = rng.randint(2, 3)
        files = {"root.jst": b"JSIGHT 0.3\n" + b"".join(b"INCLUDE d%d/api.jst\n" % j for j in range(k))}
        codes = rng.sample([200, 201, 202, 400, 404, 409, 500], k)
        for j in range(k):
            files["d%d/api.jst" % j] = b"GET /r%d\n  INCLUDE parts/resp.jst\n" % j + (b"INCLUDE t.jst\n" if rng.random() < 0.5 else b"")
            files["d%d/parts/resp.jst" % j] = b"%d any // from d%d\n" % (codes[j], j) + (b"404 any\n" if codes[j] != 404 and rng.random() < 0.5 else b"")
            if b"INCLUDE t.jst" in files["d%d/api.jst" % j]:
                files["d%d/t.jst" % j] = b"TYPE @t%d\n  {\"k%d\": %d}\n" % (j, j, j)
        if rng.random() < 0.5:
            files["root.jst"] += b"INCLUDE t.jst\n"
            files["t.jst"] = b"TYPE @troot any\n"
        out.append(files)
    return out


def near_name_projects():
    """includers that are suspended at the same time and whose paths are nearly the same: they differ
    only by letter case (distinct files on this file system), or share their base name in different
    directories; each of them itself contains an INCLUDE.  All of these are legal and acyclic."""
    out = []
    out.append({"root.jst": b"JSIGHT 0.3\nINCLUDE parts/Types.jst\n",
                "parts/Types.jst": b"TYPE @A any\nINCLUDE types.jst\n",
                "parts/types.jst": b"TYPE @b any\nINCLUDE get.jst\n",
                "parts/get.jst": b"GET /x\n  200 @A\n  404 @b\n"})
    out.append({"root.jst": b"JSIGHT 0.3\nINCLUDE A.jst\nGET /y\n  200 @t\n",
                "A.jst": b"INCLUDE a.jst\n", "a.jst": b"INCLUDE A.JST\n", "A.JST": b"TYPE @t any\n"})
    out.append({"root.jst": b"JSIGHT 0.3\nINCLUDE a/inc.jst\nINCLUDE b/inc.jst\n",
                "a/inc.jst": b"GET /a\n  INCLUDE resp.jst\n", "a/resp.jst": b"200 any\n",
                "b/inc.jst": b"GET /b\n  INCLUDE resp.jst\nTYPE @tb any\n", "b/resp.jst": b"201 any\n"})
    out.append({"root.jst": b"JSIGHT 0.3\nINCLUDE a/inc.jst\n",
                "a/inc.jst": b"TYPE @one any\nINCLUDE sub/inc.jst\n",
                "a/sub/inc.jst": b"TYPE @two any\nINCLUDE sub/inc.jst\n",
                "a/sub/sub/inc.jst": b"INCLUDE leaf.jst\n", "a/sub/sub/leaf.jst": b"GET /leaf\n  200 @one\n  404 @two\n"})
    return out


def deep_chain_projects():
    """include chains nested far deeper than any fixture (the language sets no limit): every level
    declares something before and after its INCLUDE, in a directory one level further down; with and
    without a rule fault in the innermost file"""
    out = []
    for depth in (5, 9, 10, 11, 12, 14, 20, 33):
        for faulty in (False, True):
            files = {"root.jst": b"JSIGHT 0.3\nTYPE @r0 any\nINCLUDE l1.jst\nGET /deep%d\n  200 @in\n" % depth}
            for k in range(1, depth + 1):
                d = "sub/" * (k - 1)
                inner = b"TYPE @in any\n" + (b"TYPE @r0 any\n" if faulty else b"") if k == depth else b"INCLUDE sub/l%d.jst\n" % (k + 1)
                files["%sl%d.jst" % (d, k)] = b"TYPE @a%d any\n" % k + inner + (b"TYPE @b%d any\n" % k if k % 2 else b"")
            out.append(files)
    return out


def context_fault_projects(rng, n):
    """a directive that is refused for its CONTEXT (raised when it is attached to the tree, i.e. by
    whatever comes next) as the last directive of its file piece before an INCLUDE: the error must
    stay in the file that holds the directive, whatever the included file begins with"""
    out = []
    faults = [N("Body any"), N('Headers\n{"h": 1}'), N("Protocol json-rpc-2.0"), N("200 any"), N("BaseUrl \"https://h/\""), N("Method m"),
              N("Request any"), N('Query "q=1"\n{"q": 1}')]
    for i in range(n):
        roots = treecorr.gen_structured(rng, with_macros=False)
        k = rng.randint(1, len(roots))
        head, tail = roots[:k], roots[k:]
        f = rng.choice(faults)
        head_text = render_nodes(head + [N(f.text)])
        tails = [render_nodes(tail) if tail else b"", b"# only a comment\n", b"", b"\n\n", b"TAG @late%d\n" % i]
        tail_text = rng.choice(tails[:1] * 3 + tails[1:])
        shape = rng.randrange(4)
        if shape == 0:
            files = {"root.jst": head_text + b"INCLUDE tail.jst\n", "tail.jst": tail_text}
        elif shape == 1:
            files = {"root.jst": head_text + b"INCLUDE tail.jst", "tail.jst": tail_text}       # INCLUDE as the last line, no line end
        elif shape == 2:
            # the faulty piece is itself an included file that goes on to include the rest
            files = {"root.jst": b"JSIGHT 0.3\nINCLUDE sub/bad.jst\n", "sub/bad.jst": (head_text.split(b"\n", 1)[1] if head_text.startswith(b"JSIGHT") else head_text) + b"INCLUDE tail.jst\n",
                     "sub/tail.jst": tail_text}
        else:
            files = {"root.jst": head_text + b"INCLUDE a.jst\nINCLUDE b.jst\n", "a.jst": b"# nothing here\n", "b.jst": tail_text}
        out.append(files)
    return out


def locate(lmap, line):
    return lmap[line - 1] if 1 <= line <= len(lmap) else None


def matches_finding(v, f):
    return v.get("class") == f.get("class")


def run(tier, out, model_ok, proof):
    rng = random.Random(seed())
    big = tier == "thorough"
    projects = special_projects() + padded_fault_projects() + deep_chain_projects() + twin_projects(rng, 300 if big else 40) + context_fault_projects(rng, 400 if big else 60) + near_name_projects()
    for i in range(2500 if big else 300):
        roots = treecorr.gen_structured(rng, with_macros=rng.random() < 0.25)
        if rng.random() < 0.25:
            # a rule fault so that rule-rejected documents are covered too
            roots.append(N(rng.choice(['TYPE @t\n{"dup": 1}', "TAG @tg", "GET /m0\n", "ENUM @e\n[3]", "SERVER @s0"])))
        if rng.random() < 0.4:
            # any contiguous run of directives (not only whole sub-trees): the piece may end with a
            # parent whose children stay in the includer, or climb out of the context it started in
            projects.append(treecorr.split_includes(rng, treecorr.flatten_nodes(roots), max_files=5))
        else:
            projects.append(split_project(rng, roots))
    cases, metas = [], []
    for i, files in enumerate(projects):
        inl = meta.inline_includes(files)
        if inl is None:
            continue
        text = b"\n".join(inl[0]) + b"\n"
        cases.append(treecorr.project_case("p%d" % i, files))
        cases.append(treecorr.single_file_case("u%d" % i, text))
        metas.append((i, files, inl[1]))
    res, crashes = docgen.run_build(cases)
    acc = rej = 0
    for i, files, lmap in metas:
        p, u = res.get("p%d" % i), res.get("u%d" % i)
        show = {n: d.decode("latin1") for n, d in files.items()}
        if p is None or u is None:
            continue
        cls = "include-boundary-inside-explicit-context" if paren_depth_at_boundaries(files) else "other"
        if u["end"] == "panic" or p["end"] == "panic":
            if p["end"] == "panic" and u["end"] != "panic":
                out.violations.append({"what": "the split project crashes, the unsplit document does not: %s" % p.get("panic", "")[:80], "class": cls, "input": show})
            continue
        why = None
        if u["end"] == "ok":
            acc += 1
            if p["end"] != "ok":
                why = "unsplit document accepted, split project rejected: %s" % docgen.err_text(p)[:100]
            elif "json" in u and "json" in p:
                d = docgen.json_diff(docgen.norm_json(u["json"]), docgen.norm_json(p["json"]))
                if d:
                    why = "catalogs differ at " + d
        else:
            rej += 1
            if p["end"] == "ok":
                why = "unsplit document rejected (%s), split project accepted" % docgen.err_text(u)[:80]
            else:
                mu, mp = docgen.err_text(u), docgen.err_text(p)
                if mu != mp:
                    why = "messages differ: unsplit %r, split %r" % (mu[:80], mp[:80])
                else:
                    want = locate(lmap, u["err"]["line"])
                    got = (bytes.fromhex(p["err"]["file"]).decode(), p["err"]["line"])
                    if want is not None and want != got and u["err"]["line"] != 0:
                        why = "error location does not correspond: unsplit line %d is %s:%d, split project reports %s:%d" % (u["err"]["line"], want[0], want[1], got[0], got[1])
        if why:
            out.violations.append({"what": why, "class": cls, "input": show})
    mism = []
    if model_ok:
        tcases = [c for c in cases if c["id"].startswith("p")]
        g, tcr, mm, mism = treecorr.run_tree(tcases)
        treecorr.placed_check(mm, tcases, out)
        for x in mism[:30]:
            out.broken.append({"what": "directive-layer model and implementation disagree: " + x["what"],
                               "detail": {n: bytes.fromhex(h).decode("latin1") for n, h in x["case"]["files"].items()}})
    out.coverage.update({
        "evaluations": len(cases),
        "distinct_nontrivial": sum(1 for _, f, _ in metas if len(f) > 1),
        "rule": "structured documents (some with one injected rule fault) cut at directive boundaries into include trees (whole sibling runs, or any contiguous run of directive lines; nesting <= 3, pieces in sub-directories, equal sibling runs included from the same file, files without a final newline, cuts after directives that still wait for children) + hand-picked projects + rule faults inside included files that begin and end with blank lines or blanks + include chains 5 to 33 levels deep (with and without a rule fault in the innermost file) + documents with a context-refused directive as the last one before an INCLUDE (the included file a continuation, empty, comment-only; INCLUDE without a final line end; nested) + projects in which one written include name is used from several directories and names different files + chains of includers whose paths differ only by letter case or share a base name; each project is built and compared with its textual inlining (lib/meta.py): catalog JSON, or message and corresponding file:line; forests are compared with the extracted Coq model; non-trivial = at least one INCLUDE",
        "samples": [{n: d.decode("latin1")[:200] for n, d in projects[0].items()}],
        "traces_validated_against_impl": (len([c for c in cases if c["id"].startswith("p")]) - len(mism)) if model_ok else 0,
        "accepted_pairs": acc, "rejected_pairs": rej,
        "correspondence_mismatches": len(mism),
        "exhaustive": False,
    })
    out.assumptions += ["PARTIAL: split = unsplit is checked metamorphically, not proved; theorems: preservation of the core state across the file switch, and the round trip (balanced runs keep file and scanner stack; the includer resumes with the configuration it was suspended with; end-of-file finalisation is harmless), for include trees of any depth"]
