"""C11 — directive nesting follows the language's context table, implicit or explicit."""
import random
from common import *
import treecorr, ctxref


def token_lines(tokens):
    """line number (1-based) of each token's first line in render_tokens output"""
    lines, ln = [], 1
    for t in tokens:
        lines.append(ln)
        if t == ")":
            ln += 1
            continue
        text, explicit = t
        ln += text.count("\n") + 1 + (1 if explicit else 0)
    return lines


NO_EXPLICIT = ("Description",)   # '(' after Description starts a bracketed text, not a context


def sanitize(tokens):
    return [t if t == ")" or t[0].split()[0] not in NO_EXPLICIT else (t[0], False) for t in tokens]


CTX_MSG = "incorrect context for the directive"
NOCLOSE_MSG = "nothing to close with this closing parenthesis"
UNCLOSED_MSG = "this opening parenthesis is not closed"


BARE = ("200", "Request")   # without parameters the scanner takes the next line as the body


def judge(tokens, g, crash):
    """implementation verdict against the reference automaton -> None | (what, class)"""
    for i, t in enumerate(tokens):
        if t != ")" and (t[0] in BARE or (len(t[0]) == 3 and t[0].isdigit())):
            nxt = tokens[i + 1] if i + 1 < len(tokens) else None
            if nxt is None or nxt == ")" or nxt[0][0] not in "BHPI" or t[1]:
                return None   # lexically not the token sequence it was rendered from
    verdict, idx, flags, shape = ctxref.ref_build(tokens)
    cls = sorted(flags)[0] if flags else "other"
    lines = token_lines(tokens)
    if crash is not None or g is None:
        return ("implementation crashed on a nesting document", "crash")
    if g["scan"] == "panic":
        return None  # crashes are C01's business; nesting verdict undefined
    if g["scan"] == "err":
        msg = bytes.fromhex(g["err"]["msg"]).decode("utf-8", "replace")
        line = g["err"]["line"]
        if verdict == "ok":
            return ("reference accepts, implementation rejects: %r line %d" % (msg[:60], line), cls)
        if verdict == "context":
            if not msg.startswith(CTX_MSG) or line != lines[idx]:
                return ("expected incorrect-context error on line %d, got %r on line %d" % (lines[idx], msg[:60], line), cls)
        elif verdict == "noclose":
            if not msg.startswith(NOCLOSE_MSG) or line != lines[idx]:
                return ("expected nothing-to-close error on line %d, got %r on line %d" % (lines[idx], msg[:60], line), cls)
        elif verdict == "unclosed":
            if not msg.startswith(UNCLOSED_MSG):
                return ("expected unclosed-parenthesis error, got %r on line %d" % (msg[:60], line), cls)
        return None
    # accepted by the scanning phase
    if verdict != "ok":
        return ("reference rejects (%s at token %d), implementation accepts" % (verdict, idx), cls)
    got = ctxref.parse_forest(g["dirs"])
    if got != shape:
        return ("accepted, but a directive is attached to the wrong parent: expected nesting %s, got %s" % (json.dumps(shape)[:400], json.dumps(got)[:400]), cls)
    return None


def matches_finding(v, f):
    return v.get("class") == f.get("class")


def run(tier, out, model_ok, proof):
    rng = random.Random(seed())
    docs = []
    pairs = list(treecorr.exhaustive_pairs())
    docs += pairs          # all 10^4 (parent, child) renderings x explicit/implicit in both tiers
    docs += list(treecorr.chain_docs())     # every (parent, child) entry at the end of a valid ancestor chain
    stale = list(treecorr.stale_sibling_docs())
    docs += stale
    # triples: sampled (exhaustive is ~10^6)
    items = [(r, x) for k in treecorr.KIND_LIST for r in treecorr.RENDER[k] for x in (False, True)]
    for _ in range(30000 if tier == "thorough" else 3000):
        d = [rng.choice(items) for _ in range(3)]
        for pos in (3, 2, 1):
            if rng.random() < 0.3:
                d.insert(pos, ")")
        docs.append(d)
    docs += treecorr.gen_token_docs(rng, 20000 if tier == "thorough" else 1500, maxlen=12)
    docs += treecorr.gen_token_docs(rng, 5000 if tier == "thorough" else 500, maxlen=10, macro_bias=True)
    for i in range(4000 if tier == "thorough" else 600):
        toks = treecorr.flatten_nodes(treecorr.gen_structured(rng, with_macros=False))
        if rng.random() < 0.5:
            toks = treecorr.perturb_tokens(rng, toks)
        docs.append(toks)
    # the known-finding witness always runs
    docs.append([("MACRO @m", True), ("URL /a", False), ("GET /b", False), ("200 any", False)])
    docs = [sanitize(d) for d in docs]
    cases = [treecorr.single_file_case("d%d" % i, treecorr.render_tokens(d)) for i, d in enumerate(docs)]
    if model_ok:
        g, crashes, m, mism = treecorr.run_tree(cases)
        treecorr.placed_check(m, cases, out)
    else:
        lines = [json.dumps(c) for c in cases]
        g, crashes = treecorr.run_isolated(os.path.join(BUILD, "harness"), ["tree"], lines)
        mism = []
    verdicts = {}
    nontrivial = set()
    replayed = 0
    for c, d in zip(cases, docs):
        r = g.get(c["id"])
        v = ctxref.ref_build(d)[0]
        verdicts[v] = verdicts.get(v, 0) + 1
        if len(d) >= 2:
            nontrivial.add(c["files"]["root.jst"])
        j = judge(d, r, crashes.get(c["id"]))
        if j:
            out.violations.append({"what": j[0], "class": j[1], "input": bytes.fromhex(c["files"]["root.jst"]).decode("latin1")})
        # the second context pass (core/compile_core_paste.go replays the scanned forest while it
        # expands PASTEs) must place every directive where the first one did: without MACRO/PASTE
        # the expanded forest IS the scanned forest
        if r and r.get("p2") == "ok" and not r.get("macros") and "PASTE" not in " ".join(t[0] for t in d if t != ")") \
                and r.get("expanded") != r.get("roots"):
            replayed += 1
            out.violations.append({"what": "a document without MACRO/PASTE: the forest after the PASTE stage differs from the scanned forest (a directive was re-attached by the second context pass)",
                                   "class": "second-pass", "input": bytes.fromhex(c["files"]["root.jst"]).decode("latin1")})
    # every context-capable kind (explicit and implicit) x every child rendering x every kind after it:
    # judged by the reference automaton only (the model is not run on these)
    k2r = lambda k: "200" if k == "RESP" else k
    tdocs = []
    for pk in ctxref.TABLE:
        for p_x in (False, True):
            for k1 in treecorr.KIND_LIST:
                for r1 in treecorr.RENDER[k1]:
                    for x1 in ((False, True) if tier == "thorough" else (False,)):
                        for k2 in treecorr.KIND_LIST:
                            tdocs.append(sanitize([(treecorr.RENDER[k2r(pk)][0], p_x), (r1, x1), (treecorr.RENDER[k2][0], False)]))
    tcases = [treecorr.single_file_case("t%d" % i, treecorr.render_tokens(d)) for i, d in enumerate(tdocs)]
    tg, tcr = treecorr.run_isolated(os.path.join(BUILD, "harness"), ["tree"], [json.dumps(c) for c in tcases], shards=16)
    for c, d in zip(tcases, tdocs):
        j = judge(d, tg.get(c["id"]), tcr.get(c["id"]))
        if j:
            out.violations.append({"what": j[0], "class": j[1], "input": bytes.fromhex(c["files"]["root.jst"]).decode("latin1")})
    # property-directed search around every disagreement between model and implementation
    if mism:
        items2 = [(r, False) for k in treecorr.KIND_LIST for r in treecorr.RENDER[k]] + [")"]
        extra = []
        for x in mism[:12]:
            base = docs[int(x["id"][1:])]
            for cut in range(1, len(base) + 1):
                for it in items2:
                    extra.append(sanitize(base[:cut] + [it]))
        ecases = [treecorr.single_file_case("e%d" % i, treecorr.render_tokens(d)) for i, d in enumerate(extra)]
        lines = [json.dumps(c) for c in ecases]
        eg, ecr = treecorr.run_isolated(os.path.join(BUILD, "harness"), ["tree"], lines)
        for c, d in zip(ecases, extra):
            j = judge(d, eg.get(c["id"]), ecr.get(c["id"]))
            if j:
                out.violations.append({"what": j[0], "class": j[1], "input": bytes.fromhex(c["files"]["root.jst"]).decode("latin1"), "found_by": "search around a model/implementation disagreement"})
    for x in mism[:40]:
        out.broken.append({"what": "directive-layer model and implementation disagree: " + x["what"],
                           "detail": {"input": bytes.fromhex(x["case"]["files"]["root.jst"]).decode("latin1")}})
    out.coverage.update({
        "evaluations": len(cases) + len(tcases),
        "triples_judged_by_reference_only": len(tcases),
        "distinct_nontrivial": len(nontrivial),
        "rule": "sequences of directives over all 31 kinds (x path / no path, x body / no body renderings) x explicit/implicit, with ')' tokens: %s pairs, every (parent, child) pair below a valid chain of ancestors (explicit and implicit), all triples (context kind, child rendering, next kind) judged by the reference, sampled arbitrary triples, random sequences up to 12, structured valid documents and their perturbations, an implicit subtree followed by an explicit sibling followed by every kind (below every valid ancestor chain); non-trivial = at least two tokens; each case: (a) scanner+core forest with every parent link, error class/line compared between implementation and extracted Coq model, (b) implementation verdict judged by an independent reference automaton (lib/ctxref.py), (c) without MACRO/PASTE the forest after the PASTE stage must equal the scanned forest" % "all",
        "samples": [bytes.fromhex(c["files"]["root.jst"]).decode("latin1") for c in cases[:2] + cases[-2:]],
        "traces_validated_against_impl": len(cases) - len(mism) if model_ok else 0,
        "reference_verdicts": verdicts,
        "correspondence_mismatches": len(mism),
        "exhaustive": False,
    })
    out.assumptions += [
        "Core.attach / close_explicit / has_unclosed are hand-written models of core/context_processing.go and core/scan_project.go, tied by the forest correspondence above",
        "Spec/ContextTable.v is a transcription of the JSight API 0.3 context table (official page unreachable offline)",
    ]
