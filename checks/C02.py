"""C02 — the catalog says exactly what the document says (model round-trip)."""
import copy, random
from common import *
import treecorr, docgen, layout, catcorr, expected, meta
import importlib
C09 = importlib.import_module("checks.C09")
C08 = importlib.import_module("checks.C08")
N = treecorr.Node


def special_models():
    b = [N("JSIGHT 0.3"), N("TAG @dogs // Dogs"), N("TAG @cats"), N('TYPE @t\n{"x": 1}')]
    out = []
    out.append(b + [N("URL /pets", [N("Tags @dogs"), N("GET", [N("Tags @cats"), N("200 any")]), N("POST", [N("200 any")])])])
    out.append(b + [N("GET /a", [N("200", [N('Headers\n{"h1": "v"}'), N("Body any")]), N("404", [N('Headers\n{"h2": "v"}'), N("Body @t")])])])
    out.append(b + [N("URL /r", [N("Protocol json-rpc-2.0"), N("Method m", [N('Params\n{"p": 1}'), N("Description\n  after params")])])])
    out.append(b + [N("URL /r2", [N("Protocol json-rpc-2.0"), N("Method first", [N('Result\n{"r": 1}'), N('Params\n{"p": 1}')]),
                                   N("Method second", [N('Result\n[1]'), N("Description\n  between"), N('Params\n[2]')]),
                                   N("Method third", [N('Params\n{"p": 3}'), N('Result\n{"r": 3}')])])])
    out.append(b + [N("SERVER @s1 // only annotation"), N("SERVER @s2", [N('BaseUrl "https://x/"')])])
    out.append(b + [N('GET /q', [N('Query noFormat "a=1"\n{"a": 1}'), N("200 any")])])
    out.append(b + [N("POST /two", [N("Request", [N('Headers\n{"h": "v"}'), N("Body regex\n/ab/")]), N("201 @t // created"), N("400 any // bad")])])
    # a URL-level Tags directive ends with its URL block: the method written after the block has its own tag
    out.append(b + [N("URL /pets", [N("Tags @dogs"), N("GET", [N("200 any")])]), N("GET /owners", [N("200 any")]),
                    N("URL /people", [N("Tags @cats"), N("POST", [N("200 any")])]), N("DELETE /visitors/{id}", [N("200 any")])])
    return out


def matches_finding(v, f):
    return v.get("class") == f.get("class")


def run(tier, out, model_ok, proof):
    rng = random.Random(seed())
    big = tier == "thorough"
    models = special_models()
    for i in range(2500 if big else 350):
        models.append(treecorr.gen_structured(rng, with_macros=rng.random() < 0.35))
    cases, exp, enum_order = [], {}, {}
    nvar = 4 if big else 2
    for i, roots in enumerate(models):
        e = expected.expected(copy.deepcopy(roots))
        if e is None:
            continue
        for v in range(nvar):
            r2 = copy.deepcopy(roots)
            if rng.random() < 0.4:
                C08.toggle_explicit(rng, r2[1:])
            lay = layout.Layout.random(rng) if v else layout.Layout(random.Random(0))
            if rng.random() < 0.35 and v:
                files = C09.split_project(rng, r2)
            else:
                files = {"root.jst": layout.render([docgen.node_to_D(n) for n in r2], lay)[0]}
            cid = "m%d_%d" % (i, v)
            cases.append(treecorr.project_case(cid, files))
            exp[cid] = e
            flat = treecorr_flat(roots)
            if not any(n.text.startswith("MACRO") for n in flat):
                enum_order[cid] = [n.text.split()[1] for n in flat if n.text.startswith("ENUM ")]
    if model_ok:
        res, crashes, mres, mism, skipped = catcorr.run_catalog(cases)
    else:
        res, crashes = docgen.run_build(cases)
        mism, skipped = [], 0
    ok = 0
    for c in cases:
        cid = c["id"]
        r = res.get(cid)
        if r is None:
            continue
        show = {n: bytes.fromhex(h).decode("latin1")[:1500] for n, h in c["files"].items()}
        if r["end"] != "ok":
            cls = "include-boundary-inside-explicit-context" if len(c["files"]) > 1 and C09.paren_depth_at_boundaries({n: bytes.fromhex(h) for n, h in c["files"].items()}) else "other"
            if cls == "other" or r["end"] == "panic":
                out.violations.append({"what": "a document rendered from a valid model is not accepted: %s" % (docgen.err_text(r) or r.get("panic", ""))[:120], "class": cls, "input": show})
            continue
        if "json" not in r:
            continue
        p = catcorr.project(docgen.norm_json(r["json"]))
        for i in p["inters"]:
            del i["_key"]
        d = docgen.json_diff(p, exp[cid])
        # the userEnums section lists the ENUM directives in document order (models without macros: an
        # ENUM inside a MACRO is registered where the macro is declared)
        if not d and cid in enum_order:
            got = list((docgen.norm_json(r["json"]).get("userEnums") or {}).keys()) if isinstance(r["json"], dict) else None
            if got is not None and got != enum_order[cid]:
                d = "userEnums: order %s, the document declares %s" % (got, enum_order[cid])
        if d:
            out.violations.append({"what": "the catalog differs from the model at %s (implementation vs expected)" % d, "class": "other", "input": show})
        else:
            ok += 1
    for x in mism[:30]:
        out.broken.append({"what": "catalog model and implementation disagree: " + x["what"],
                           "detail": {n: bytes.fromhex(h).decode("latin1")[:800] for n, h in x["case"]["files"].items()}})
    out.coverage.update({
        "evaluations": len(cases),
        "distinct_nontrivial": ok,
        "rule": "abstract API models (info, servers, tags, types, enums, URL groups and stand-alone methods with query/request/responses/headers, JSON-RPC, optional macro abstraction) x renderings (layouts of C08, explicit/implicit contexts, include trees); the expected catalog skeleton is computed from the abstract model by lib/expected.py (independent of implementation and Coq model) and compared with the projection of ToJson; the same cases are compared with the extracted Coq catalog model; non-trivial = accepted and equal",
        "samples": [bytes.fromhex(cases[0]["files"]["root.jst"]).decode("latin1")[:300]],
        "traces_validated_against_impl": (len(cases) - len(mism) - skipped) if model_ok else 0,
        "correspondence_mismatches": len(mism),
        "exhaustive": False,
    })
    out.assumptions += ["schema structure is compared only as format/notation (schema content is the dependency's); PARTIAL proof, see Props/C02.v"]


def treecorr_flat(nodes):
    out = []
    for n in nodes:
        out.append(n)
        out.extend(treecorr_flat(n.children))
    return out
