"""C16 — serialising is repeatable and does not change the catalog."""
import copy, random, json, os, itertools, importlib
from common import *
import treecorr, docgen, layout, typedgen
N = treecorr.Node
ACC = ["J", "JI", "O", "OI", "T"]
NAMES = {"J": "ToJson", "JI": "ToJsonIndent", "O": "ToOpenAPIJson", "OI": "ToOpenAPIJsonIndent", "T": "Title"}


def render(roots):
    return layout.render([docgen.node_to_D(n) for n in roots], layout.Layout(random.Random(0)))[0]


def special_docs():
    J = "JSIGHT 0.3\n"
    return [
        # regex user type, regex body, regex type used from jsight schemas
        J + 'INFO\n  Title "Regex"\nTYPE @rx regex\n/ab[0-9]{3}/\nGET /a\n  200 regex\n    /x[a-z]{4}/\nGET /b\n  200\n    {"z": @rx}\nPOST /c\n  Request\n    @rx\n  200 @rx\n',
        # lazily failing schema (finding F9): the Path schema is compiled at the first serialisation
        J + 'URL /a/{id}\n  Path\n  {\n    "id": 1 // {min: 5}\n  }\n  GET\n    200 any\n',
        # allOf: inherited children are copied into the heir at the first serialisation
        J + 'TYPE @base\n{\n  "b": 1 // base property\n}\nTYPE @mid\n{ // {allOf: "@base"}\n  "m": 2\n}\nGET /x\n  200\n    { // {allOf: ["@mid"]}\n      "own": 3\n    }\nGET /y\n  200 @mid\n',
        # repeated response codes with annotated bodies and headers (OpenAPI anyOf)
        J + 'GET /r\n  200 // first\n    Headers\n      {"A": "x"} // ha\n    Body\n      { // body one\n        "a": 1\n      }\n  200 // second\n    Headers\n      {"A": "y", "B": "z"}\n    Body\n      [ // body two\n        1\n      ]\n  200 regex // third\n    /ab/\n  404 any // nf\n',
        # title only / no info
        J + 'INFO\n  Title "Only title"\n',
        J + 'GET /n\n  200 any\n',
        # JSON-RPC, query, path variables, servers, tags
        J + 'SERVER @s // srv\n  BaseUrl "https://x/"\nTAG @t // tag\nURL /rpc\n  Protocol json-rpc-2.0\n  Method m // method\n    Tags @t\n    Params\n      {"p": @ty}\n    Result\n      [@ty]\nTYPE @ty\n{"k": "v"}\nGET /q/{id}\n  Tags @t\n  Query "a=1"\n    {"a": 1}\n  200 @ty\n',
        # slices the serialisers walk: repeated and several tag names (own and URL-level), several servers, path variables
        J + 'TAG @cats\nTAG @pets\nTAG @dogs\nSERVER @s1\n  BaseUrl "https://a/"\nSERVER @s2\n  BaseUrl "https://b/"\nGET /c/{id}/{k}\n  Tags @cats @cats @pets\n  200 any\nURL /u/{x}\n  Tags @dogs @dogs @cats @pets\n  GET\n    200 any\n  POST\n    Tags @pets @cats @cats\n    200 any\n',
        # or-shortcuts, type shortcuts and enum rules: rules the schema library generates and both exporters read
        J + 'TYPE @cat\n{"kind": "cat"}\nTYPE @dog\n{"kind": "dog"}\nENUM @sz\n["s", "m"]\nGET /pets\n  200\n    {\n      "pet": @cat | @dog,\n      "one": @cat,\n      "size": "s", // {enum: @sz}\n      "list": [@cat | @dog]\n    }\nPOST /pets\n  Request\n    @cat | @dog\n  200 any\n',
        # notations any / empty as user types and bodies
        J + 'TYPE @a any\nGET /e\n  200 empty\n  201 any\n',
    ]


def histories(rng, big):
    hs = []
    for n in (1, 2, 3):
        hs += [list(h) for h in itertools.product(ACC, repeat=n)]
    for _ in range(300 if big else 25):
        hs.append([rng.choice(ACC) for _ in range(6)])
    return hs


def matches_finding(v, f):
    return v.get("class") == f.get("class")


def run(tier, out, model_ok, proof):
    rng = random.Random(seed())
    big = tier == "thorough"
    docs = [d.encode() for d in special_docs()]
    for i in range(60 if big else 10):
        docs.append(render(typedgen.gen_typed(rng)))
    for i in range(40 if big else 6):
        docs.append(render(treecorr.gen_structured(rng, with_macros=rng.random() < 0.5)))
    corp = corpus_files()
    for f in rng.sample(corp, min(len(corp), 120 if big else 16)):
        docs.append(open(f, "rb").read())
    # which documents are accepted
    probe = [treecorr.project_case("p%d" % i, {"root.jst": d}) for i, d in enumerate(docs)]
    pres, _ = docgen.run_build(probe)
    accepted = [d for i, d in enumerate(docs) if pres.get("p%d" % i, {}).get("end") == "ok"]
    for i in range(len(special_docs())):
        if pres.get("p%d" % i, {}).get("end") != "ok":
            out.broken.append({"what": "hand-picked document %d is no longer accepted (the generator of this check has drifted from the code)" % i,
                               "detail": docgen.err_text(pres.get("p%d" % i, {})) or ""})
    hs = histories(rng, big)
    lines, meta = [], {}
    for di, d in enumerate(accepted):
        base = treecorr.project_case("x", {"root.jst": d})
        hsel = hs if (di < len(special_docs()) or big) else rng.sample(hs, 60)
        for hi, h in enumerate(hsel):
            sc = dict(base)
            sc["id"] = "d%d_h%d" % (di, hi)
            sc["mode"] = "hist"
            sc["hist"] = h
            lines.append(json.dumps(sc))
            meta[sc["id"]] = (di, h)
    res, crashes = treecorr.run_isolated(os.path.join(BUILD, "harness"), ["ser"], lines, shards=14)
    # for every document and accessor: the set of results over every position of every history
    seen = {}
    for cid, r in res.items():
        di, h = meta[cid]
        if r.get("end") != "ok":
            continue
        for pos, co in enumerate(r.get("calls", [])):
            key = (di, co["acc"])
            val = co.get("sha") or ("panic:" + co["panic"] if co.get("panic") else "err:" + co.get("err", ""))
            seen.setdefault(key, {}).setdefault(val, (h, pos))
    # correspondence with the lazy-state model (Model/Lazy.v, extracted): cells after every call
    # and which result every call returns
    mism = []
    nmodel = 0
    if model_ok:
        kinds = {}
        for cid, r in res.items():
            di, h = meta[cid]
            if r.get("end") != "ok" or di in kinds and h != ["J"]:
                continue
            ks = [l.rsplit(":", 2)[1] for l in r.get("lazy0", [])]
            if h == ["J"]:
                after = r["calls"][0]["lazy"]
                ks = ["F" if (k == "J" and after[i] == "e") else k for i, k in enumerate(ks)]
                kinds[di] = ks
            elif di not in kinds:
                kinds[di] = ks
        mlines = []
        for cid, r in res.items():
            di, h = meta[cid]
            if r.get("end") != "ok" or di not in kinds:
                continue
            mlines.append("%s %s %s" % (cid, "".join(kinds[di]) or ".", ",".join(h)))
        mout = run_lines(os.path.join(BUILD, "model"), ["lazy"], mlines, shards=8)
        for l in mout:
            parts = l.split()
            if not parts:
                continue
            cid, steps = parts[0], parts[1:]
            r = res[cid]
            di, h = meta[cid]
            nmodel += 1
            for pos, (st, co) in enumerate(zip(steps, r["calls"])):
                cells, rs = st.split("=", 1)
                icells = co["lazy"]
                if co.get("panic"):
                    ires = "PANIC"
                elif co.get("err"):
                    ires = "E" if co["acc"] in ("J", "JI") else co["acc"]      # an OpenAPI error value is a result of O (C17)
                else:
                    ires = co["acc"]
                mres_ = "E" if rs.startswith("E") else ("NULL" if rs.startswith("NULL") else rs.split("[")[0])
                if cells != icells or mres_ != ires:
                    mism.append({"what": "lazy-state model and implementation disagree after call %d (%s) of %s: cells %s vs %s, result %s vs %s" %
                                 (pos, co["acc"], "/".join(h), icells, cells, ires, mres_),
                                 "detail": {"root.jst": accepted[di].decode("latin1")[:1500], "schemas": r.get("lazy0")}})
                    break
    for x in mism[:20]:
        out.broken.append(x)
    ok = 0
    per_doc_bad = {}
    for (di, acc), vals in sorted(seen.items()):
        if len(vals) == 1:
            ok += 1
            continue
        if di in per_doc_bad:
            continue
        per_doc_bad[di] = True
        items = sorted(vals.items(), key=lambda kv: (len(kv[1][0]), kv[1][1]))
        (v1, (h1, p1)), (v2, (h2, p2)) = items[0], items[1]
        out.violations.append({
            "what": "%s returns different results depending on what was called before: %s after %s, but %s after %s" %
                    (NAMES[acc], v1[:60], "/".join(h1[:p1]) or "nothing", v2[:60], "/".join(h2[:p2]) or "nothing"),
            "class": "history-dependent",
            "input": {"root.jst": accepted[di].decode("latin1")[:2500], "history_1": h1[:p1 + 1], "history_2": h2[:p2 + 1]}})
    for cid, why in crashes.items():
        di, h = meta[cid]
        out.violations.append({"what": "the process died during the call sequence %s: %s" % ("/".join(h), why[:100]), "class": "crash",
                               "input": {"root.jst": accepted[di].decode("latin1")[:2500], "history": h}})
    hist_len = {}
    for h in hs:
        hist_len[len(h)] = hist_len.get(len(h), 0) + 1
    out.coverage.update({
        "evaluations": len(lines),
        "distinct_nontrivial": ok,
        "rule": "accepted projects = hand-picked (regex user type / regex body / regex type used from JSight schemas, a lazily failing schema, allOf chains, repeated response codes with annotated bodies and headers, JSON-RPC, any/empty) + generated type graphs + structured documents with macros + corpus files; histories = ALL call sequences of length 1..3 over {ToJson, ToJsonIndent, ToOpenAPIJson, ToOpenAPIJsonIndent, Title} (155) plus random sequences of length 6, each on a freshly built catalog; after every call the state of every lazily computed part (hook catalog.VerifLazyState) and the kind of result are compared with the extracted Coq model of the lazy state (Model/Lazy.v); for every project and accessor the result (sha256 of the bytes, or the error text, or the panic text) must be one and the same at every position of every history; non-trivial = (project, accessor) pairs with a single result",
        "samples": [special_docs()[0][:200]],
        "accepted_projects": len(accepted), "histories_by_length": hist_len,
        "traces_validated_against_impl": nmodel,
        "correspondence_mismatches": len(mism),
        "exhaustive": False,
    })
    out.assumptions += ["PARTIAL proof: Props/C16.v proves history-independence for the lazy-field state machine of the model (sync.Once around compilation with a stored outcome, cached regex example, read-only OpenAPI export); that the Go accessors touch no other state is what this search exercises",
                        "the model's per-schema answers (content, example, compile error) are oracles for the schema dependency"]
