"""C19 — banned directives are always rejected and never change anything else."""
import itertools, random
from common import *
import treecorr, docgen, layout, meta, ctxref
import importlib
C09 = importlib.import_module("checks.C09")

KINDS = ["JSIGHT", "INFO", "Title", "Version", "Description", "SERVER", "BaseUrl", "URL", "GET", "POST", "PUT",
         "PATCH", "DELETE", "Body", "Request", "HTTP-response-code", "Path", "Headers", "Query", "TYPE", "ENUM",
         "MACRO", "PASTE", "INCLUDE", "Protocol", "Method", "Params", "Result", "TAG", "Tags", "OperationId"]
NOT_ALLOWED = "the directive is not allowed"


def line_kinds(files):
    """(file, line number, kind) for every directive line written in the project"""
    out = []
    for name, data in files.items():
        for i, line in enumerate(data.split(b"\n")):
            w = line.strip().split()
            if not w:
                continue
            t = w[0].decode("latin1")
            k = ctxref.kind_of(t)
            if k == "RESP":
                out.append((name, i + 1, "HTTP-response-code"))
            elif t in KINDS:
                out.append((name, i + 1, t))
    return out


def classify(files, banned, what):
    """which part of finding F18 explains that a banned kind went unnoticed: INCLUDE, MACRO and
    PASTE are never seen by the ban check; of the other banned kinds, those written only inside
    bodies of macros that are never pasted are never visited"""
    ks = set(k for _, _, k in line_kinds(files))
    hit = ks & set(banned)
    rest = [k for k in banned if k not in ("INCLUDE", "MACRO", "PASTE")]
    if hit and not (hit & set(rest)):
        return "ban-of-include-macro-paste-has-no-effect"
    if hit and banned_only_in_unused_macros(files, rest):
        return "banned-kind-only-in-unused-macro-body"
    return "other"


def matches_finding(v, f):
    return v.get("class") in (f.get("class"), ) or v.get("class") in f.get("classes", [])


def banned_only_in_unused_macros(files, banned):
    """crude but safe: remove the text of every MACRO block whose name is never pasted and
    see whether a banned kind is still written"""
    text = b"\n".join(files[n] for n in sorted(files))
    used = set()
    for line in text.split(b"\n"):
        w = line.strip().split()
        if len(w) >= 2 and w[0] == b"PASTE":
            used.add(w[1].strip(b'"'))
    kept, skip, depth = [], False, 0
    for line in text.split(b"\n"):
        s = line.strip()
        w = s.split()
        if not skip and len(w) >= 2 and w[0] == b"MACRO" and w[1].strip(b'"') not in used:
            skip, depth = True, 0
            continue
        if skip:
            if s == b"(":
                depth += 1
            elif s == b")":
                depth -= 1
                if depth == 0:
                    skip = False
            continue
        kept.append(line)
    ks = set(k for _, _, k in line_kinds({"x": b"\n".join(kept)}))
    return not (ks & set(banned))


def run(tier, out, model_ok, proof):
    rng = random.Random(seed())
    big = tier == "thorough"
    projects = []
    for i in range(400 if big else 60):
        roots = treecorr.gen_structured(rng, with_macros=rng.random() < 0.5)
        if rng.random() < 0.3:
            roots.insert(rng.randint(1, len(roots)), treecorr.Node("MACRO @unused%d" % i, [treecorr.Node(rng.choice(["Request any", "Query q\n{}", "Headers\n{}", "404 any"]))], explicit=True))
        files = C09.split_project(rng, roots) if rng.random() < 0.5 else {"root.jst": C09.render_nodes(roots)}
        projects.append(files)
    # projects that are refused for a reason of their own (no JSIGHT directive, JSIGHT not first, one
    # injected rule fault): a ban of kinds that do not occur must leave exactly that refusal
    C03 = importlib.import_module("checks.C03")
    base = list(projects)
    for i in range(24 if big else 8):
        files = dict(base[i % len(base)])
        root = files["root.jst"].split(b"\n")
        j = next((k for k, l in enumerate(root) if l.startswith(b"JSIGHT")), None)
        if j is None:
            continue
        if i % 2 == 0:
            del root[j]
        else:
            root.insert(j, b"TYPE @early%d any" % i)
        files["root.jst"] = b"\n".join(root)
        projects.append(files)
    for cls, d in C03.fault_docs(rng, 2 if big else 1):
        projects.append({"root.jst": d})
    for d in (b"TYPE @cat any\n", b"URL /cats\n  GET\n    200 any\n", b"INFO\n  Title \"T\"\n", b"MACRO @m\n(\n  TYPE @x any\n)\nPASTE @m\n", b"# nothing\n", b""):
        projects.append({"root.jst": d})
    cases, metas, splits = [], [], []
    pairs = [(k,) for k in KINDS] + ([tuple(p) for p in itertools.combinations(KINDS, 2)] if big else [])
    for i, files in enumerate(projects):
        cases.append(treecorr.project_case("b%d_plain" % i, files))
        sets = pairs if big and i < 40 else [(k,) for k in KINDS] + [tuple(rng.sample(KINDS, 2)) for _ in range(12)] + [("JSIGHT", rng.choice(KINDS[1:]))]
        for j, bs in enumerate(sets):
            c = treecorr.project_case("b%d_%d" % (i, j), files)
            c["banned"] = list(bs)
            cases.append(c)
            metas.append((i, j, bs))
            if len(bs) > 1:
                # the same ban set given as several options, in both orders, must behave like the single option
                for tag, order in (("s", list(bs)), ("r", list(reversed(bs)))):
                    c2 = treecorr.project_case("b%d_%d%s" % (i, j, tag), files)
                    c2["banned"] = order
                    c2["bansplit"] = True
                    cases.append(c2)
                    splits.append(("b%d_%d" % (i, j), c2["id"], bs, i))
    res, crashes = docgen.run_build(cases)
    # Option values that outlive a build: one option per kind, made once per process and handed to
    # several builds IN ONE PROCESS, in an order that is part of the case list - a build with two
    # options, then builds with one of them on projects containing the other's kind, then the first
    # builds again; every build is judged against the build of the same project without options
    seq = []
    sk = ["INFO", "SERVER", "TYPE", "GET", "POST", "TAG", "URL", "ENUM", "Query", "Request", "HTTP-response-code", "Headers"]
    some = [i for i, f in enumerate(projects) if len(f) == 1][:6]
    for rnd in range(3):
        for i in some:
            for a in range(len(sk)):
                bs = [sk[a]] if rnd != 1 else [sk[a], sk[(a + 1 + i) % len(sk)]]
                c = treecorr.project_case("q%d_%d_%d" % (rnd, i, a), projects[i])
                c["banned"] = bs
                c["banreuse"] = True
                seq.append((c, i, bs))
    sres, scr = docgen.run_build([c for c, _, _ in seq], shards=1, min_shard=10 ** 9)
    for c, i, bs in seq:
        plain, r = res.get("b%d_plain" % i), sres.get(c["id"])
        if plain is None or r is None or plain["end"] == "panic" or r["end"] == "panic":
            continue
        present = [(f, l, k) for f, l, k in line_kinds(projects[i]) if k in bs]
        show = {"banned (options reused across the builds of one process)": list(bs), "files": {n: d.decode("latin1")[:1500] for n, d in projects[i].items()}}
        if not present:
            same = plain["end"] == r["end"] and plain.get("json") == r.get("json") and docgen.err_text(plain) == docgen.err_text(r)
            if not same:
                out.violations.append({"what": "no banned directive occurs, yet the result differs from the build without the option when the Option values are reused from earlier builds: %s" % docgen.err_text(r)[:80],
                                       "class": "other", "input": show})
        elif plain["end"] == "ok" and (r["end"] == "ok" or NOT_ALLOWED not in docgen.err_text(r)):
            out.violations.append({"what": "a banned directive occurs but the build with reused options %s" % ("succeeds" if r["end"] == "ok" else "fails with another error"),
                                   "class": classify(projects[i], bs, "present"), "input": show})
    for joint, sid, bs, i in splits:
        a, b = res.get(joint), res.get(sid)
        if a is None or b is None or a["end"] == "panic" or b["end"] == "panic":
            continue
        same = a["end"] == b["end"] and a.get("json") == b.get("json") and docgen.err_text(a) == docgen.err_text(b)
        if a["end"] == "err" and b["end"] == "err" and (a["err"]["line"], a["err"]["file"]) != (b["err"]["line"], b["err"]["file"]):
            same = False
        if not same:
            out.violations.append({"what": "banning %s through several options behaves differently from one option: %s / %s vs %s / %s" % (list(bs), a["end"], docgen.err_text(a)[:60], b["end"], docgen.err_text(b)[:60]),
                                   "class": "other", "input": {"banned": list(bs), "files": {n: d.decode("latin1")[:1500] for n, d in projects[i].items()}}})
    rejected = neutral = 0
    for i, j, bs in metas:
        files = projects[i]
        plain, r = res.get("b%d_plain" % i), res.get("b%d_%d" % (i, j))
        if plain is None or r is None or plain["end"] == "panic" or r["end"] == "panic":
            continue
        show = {"banned": list(bs), "files": {n: d.decode("latin1")[:1500] for n, d in files.items()}}
        lk = line_kinds(files)
        present = [(f, l, k) for f, l, k in lk if k in bs]
        if not present:
            # neutral: identical result
            neutral += 1
            same = plain["end"] == r["end"] and (plain.get("json") == r.get("json")) and docgen.err_text(plain) == docgen.err_text(r)
            if not same:
                out.violations.append({"what": "no banned directive occurs, yet the result differs from the build without the option", "class": "other", "input": show})
            continue
        msg = docgen.err_text(r)
        if r["end"] == "ok" or (plain["end"] == "ok" and NOT_ALLOWED not in msg):
            what = "unused" if banned_only_in_unused_macros(files, bs) else "present"
            out.violations.append({"what": "a banned directive (%s at %s:%d) occurs but the build %s" % (present[0][2], present[0][0], present[0][1],
                                   "succeeds" if r["end"] == "ok" else "fails with another error: " + msg[:60]),
                                   "class": classify(files, bs, what), "input": show})
            continue
        rejected += 1
        if plain["end"] == "ok" and NOT_ALLOWED in msg:
            # located on a banned directive
            loc = (bytes.fromhex(r["err"]["file"]).decode(), r["err"]["line"])
            if loc not in [(f, l) for f, l, k in present]:
                out.violations.append({"what": "the not-allowed error is not located on a banned directive: %s:%d" % loc, "class": "other", "input": show})
    out.coverage.update({
        "evaluations": len(cases),
        "distinct_nontrivial": rejected + neutral,
        "rule": "structured projects (single file, include trees, macro forms, unused macros; also projects refused for a reason of their own: no JSIGHT directive, JSIGHT not first, one injected rule fault of each class, empty file) x ban sets: every single kind of the 31%s; every pair also given as several options in both orders (must equal the single option); Option values kept and reused across 200 builds of one process (single, then paired, then single again); expected verdict computed from the kinds written in the project text (lib: line_kinds): rejected with the not-allowed error on a banned directive if one occurs, otherwise byte-identical to the build without the option" % (", every pair on 40 projects and sampled pairs elsewhere" if big else " and 12 sampled pairs per project"),
        "samples": [{"banned": list(metas[0][2]), "root": projects[0]["root.jst"].decode("latin1")[:200]}],
        "rejected_as_expected": rejected, "neutral_cases": neutral,
        "exhaustive": big,
    })
    out.assumptions += ["PARTIAL: theorems are about the expanded forest the builder walks (Model/Ban.v pre-order check; Proofs/BanBuild.v the whole model build with vs without the option); kinds that never reach it are finding F18; the phases before the builder are compared on the implementation only"]
