"""C18 — independent builds and serialisations do not interfere when run concurrently."""
import random, json, os, re, subprocess, threading, importlib
from common import *
import treecorr, docgen, layout, typedgen
C03 = importlib.import_module("checks.C03")
C09 = importlib.import_module("checks.C09")
N = treecorr.Node
REPO_PKG = "github.com/jsightapi/jsight-api-core/"
DEP_PKG = "github.com/jsightapi/jsight-schema-core"


def render(roots):
    return layout.render([docgen.node_to_D(n) for n in roots], layout.Layout(random.Random(0)))[0]


def parse_races(text):
    """-> list of reports; a report is a list of access stacks; a stack is [(function, file, line)]"""
    out = []
    for rep in text.split("WARNING: DATA RACE")[1:]:
        rep = rep.split("==================")[0]
        blocks = re.split(r"\n(?=(?:Write|Read|Previous write|Previous read|Goroutine \d+) )", rep)
        acc = []
        for b in blocks:
            if not re.match(r"\s*(Write|Read|Previous write|Previous read) at", b):
                continue
            acc.append(re.findall(r"^  (\S+)\(\)\n\s+(\S+?):(\d+)", b, re.M))
        out.append(acc)
    return out


def first_user_frame(frames):
    for fn, file, line in frames:
        if "/src/" in file and ("/go" in file.split("/src/")[0]) and "/pkg/mod/" not in file:
            continue          # standard library / runtime
        return fn, file, line
    return None


def classify(report):
    """'repo' if a racing access is performed by code of this repository, 'dependency' if by the
    schema library (whoever called it), 'harness' otherwise"""
    tops = [first_user_frame(a) for a in report]
    names = [t[0] if t else "?" for t in tops]
    if any(n.startswith(REPO_PKG) and "/verif" not in n for n in names):
        return "repo", names
    if any(DEP_PKG in n for n in names):
        return "dependency", names
    return "harness", names


def run_conc(binary, case, timeout=900):
    env = dict(os.environ, GORACE="halt_on_error=0 exitcode=0")
    p = subprocess.run([binary, "ser"], input=json.dumps(case) + "\n", capture_output=True, text=True, env=env, timeout=timeout)
    res = None
    for l in p.stdout.split("\n"):
        if l.startswith("{"):
            res = json.loads(l)
    return res, p.stderr, p.returncode


def obs(b):
    return json.dumps({k: b.get(k) for k in ("end", "err", "full", "panic", "sha", "jsonerr")}, sort_keys=True)


def matches_finding(v, f):
    return v.get("class") == f.get("class")


def run(tier, out, model_ok, proof):
    rng = random.Random(seed())
    big = tier == "thorough"
    try:
        binary = build_harness(race=True)
    except BrokenTie as bt:
        out.broken.append({"what": "the -race harness does not build: " + bt.what, "detail": bt.detail})
        return
    pool = []
    for i in range(80 if big else 24):
        pool.append({"root.jst": render(typedgen.gen_typed(rng))})
    for i in range(60 if big else 16):
        roots = treecorr.gen_structured(rng, with_macros=rng.random() < 0.5)
        pool.append(C09.split_project(rng, roots) if rng.random() < 0.3 else {"root.jst": render(roots)})
    lay0 = layout.Layout(random.Random(0))
    names = list(C03.FAULTS)
    for i in range(40 if big else 10):
        roots = treecorr.gen_structured(rng, with_macros=False)
        C03.FAULTS[rng.choice(names)](rng, roots)
        try:
            pool.append({"root.jst": C03.directive_lines(roots, lay0)[0]})
        except Exception:
            pass
    corp = corpus_files()
    for f in rng.sample(corp, min(len(corp), 150 if big else 40)):
        pool.append({"root.jst": open(f, "rb").read()})
    # "tenants": different projects that use the SAME names (tags, types, enums, servers, operation ids,
    # paths) with different content - anything keyed by name and shared between catalogs shows here
    tenants = []
    for t in range(12):
        tenants.append({"root.jst": (
            'JSIGHT 0.3\nINFO\n  Title "Tenant %d"\nSERVER @main // server of %d\n  BaseUrl "https://t%d.example/"\n'
            'TAG @orders // Orders of tenant %d\nTAG @users // Users %d\n  Description\n    users of %d\n'
            'TYPE @order\n{"id": %d, "kind": "k%d"}\nENUM @kind\n["a%d", "b%d"]\n'
            'GET /orders/{id}\n  Tags @orders @users\n  OperationId getOrder\n  200 @order // order of %d\n'
            'POST /orders\n  Tags @orders\n  Request @order\n  201\n    {\n      "k": "a%d" // {enum: @kind}\n    }\n'
            % (t, t, t, t, t, t, t, t, t, t, t, t)
            + "".join('GET /t/orders/%d\n  Tags @orders\n  200 any\nPOST /t/users/%d\n  Tags @users @orders\n  201 @order\n' % (i, i) for i in range(25))).encode() if t % 3 else
            ('JSIGHT 0.3\nTYPE @order\n{"n": %d}\nGET /orders\n  200 @order\nGET /users/{u}\n  200 any // t%d\n' % (t, t)).encode()})
    pool += tenants
    tprobe, _ = docgen.run_build([treecorr.project_case("t%d" % i, f) for i, f in enumerate(tenants)])
    for i in range(len(tenants)):
        if tprobe.get("t%d" % i, {}).get("end") != "ok":
            out.broken.append({"what": "hand-written tenant project %d is not accepted (the generator of this check has drifted from the code)" % i,
                               "detail": docgen.err_text(tprobe.get("t%d" % i, {}))[:200]})
    jobs = []
    rounds = 12 if big else 6
    for workers in (8, 32):
        for k in range(3 if big else 2):
            group = [treecorr.project_case("g%d" % i, f) for i, f in enumerate(rng.sample(tenants, 10))]
            jobs.append({"id": "w%d_tenants_%d" % (workers, k), "mode": "conc", "group": group, "workers": workers, "shared": False})
            jobs.append({"id": "w%d_exports_%d" % (workers, k), "mode": "conc", "group": group, "workers": min(workers, 16), "shared": False, "exports": True})
    for workers in (2, 8, 32):
        for shared in (False, True):
            for k in range(rounds):
                group = [treecorr.project_case("g%d" % i, f) for i, f in enumerate(rng.sample(pool, 10 if not shared else 6))]
                jobs.append({"id": "w%d_%s_%d" % (workers, "shared" if shared else "builders", k), "mode": "conc",
                             "group": group, "workers": workers, "shared": shared})
    results = [None] * len(jobs)

    def work(idx):
        try:
            results[idx] = run_conc(binary, jobs[idx])
        except subprocess.TimeoutExpired:
            results[idx] = (None, "timeout", -1)
    sem = threading.Semaphore(4)          # each job already uses many goroutines

    def guarded(idx):
        with sem:
            work(idx)
    ths = [threading.Thread(target=guarded, args=(i,)) for i in range(len(jobs))]
    for t in ths:
        t.start()
    for t in ths:
        t.join()
    ok = 0
    nraces = {"repo": 0, "dependency": 0, "harness": 0}
    compared = 0
    seen_race = set()
    for job, (res, err, rc) in zip(jobs, results):
        show = {"job": job["id"], "workers": job["workers"], "shared_catalog": job["shared"],
                "projects": [{n: bytes.fromhex(h).decode("latin1")[:600] for n, h in g["files"].items()} for g in job["group"][:3]]}
        if res is None:
            out.violations.append({"what": "the concurrent run did not finish (%s)" % (err or "")[:200], "class": "crash", "input": show})
            continue
        if res.get("end") != "ok":
            out.broken.append({"what": "harness: " + str(res.get("end")), "detail": res.get("panic", "")})
            continue
        for rep in parse_races(err):
            cls, names = classify(rep)
            nraces[cls] += 1
            key = (cls, tuple(sorted(set(names))))
            if key in seen_race:
                continue
            seen_race.add(key)
            if cls == "harness":
                out.broken.append({"what": "data race inside the harness itself", "detail": names})
            else:
                out.violations.append({"what": "data race (%s code performs the racing access): %s" % (cls, " <-> ".join(sorted(set(n.split("/")[-1] for n in names)))),
                                       "class": "race-" + cls, "input": show})
        bad = None
        for w, row in enumerate(res["conc"]):
            for i, b in enumerate(row):
                compared += 1
                if obs(b) != obs(res["solo"][i]):
                    bad = bad or (w, i, b, res["solo"][i])
        if bad:
            w, i, b, s = bad
            show["project"] = {n: bytes.fromhex(h).decode("latin1")[:2000] for n, h in job["group"][i]["files"].items()}
            out.violations.append({"what": "goroutine %d obtained a different result for project %d than a sequential run (%s vs %s)" %
                                   (w, i, obs(b)[:120], obs(s)[:120]), "class": "result-differs", "input": show})
        else:
            ok += 1
    out.coverage.update({
        "evaluations": compared,
        "distinct_nontrivial": ok,
        "rule": "a -race build of the harness runs, per job, W goroutines (W in 2, 8, 32): builders - every goroutine builds each of 10 different projects (from a pool of generated type graphs, structured documents with macros and include trees, documents with an injected fault, corpus files) in its own rotation and serialises it with ToJson and ToOpenAPIJson (some jobs use only 'tenant' projects, and in 'exports' jobs every goroutine owns one built catalog per tenant and all export them at once for 12 rounds: the same tag/type/enum/server names and paths with different content); shared - W goroutines call ToJson, ToOpenAPIJson, ToJsonIndent, Title on ONE built catalog at once, for each of 6 projects; every result (sha256 of bytes, or error message/file/index/line/column/trace) is compared with the sequential baseline of the same process; every race report is parsed and attributed to the code performing the racing access (this repository / the schema library / the harness); non-trivial = jobs with all results equal to the baseline",
        "samples": [jobs[0]["id"]],
        "jobs": len(jobs), "race_reports": nraces,
        "traces_validated_against_impl": compared,
        "correspondence_mismatches": 0,
        "exhaustive": False,
    })
    out.assumptions += ["the schedules explored are those the Go scheduler produces on this machine (16 cores); the theorems of Props/C18.v cover every schedule of the model",
                        "PARTIAL proof: memory-level races and the dependency's buffer pools are outside the model and decided by the race detector only"]
