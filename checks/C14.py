"""C14 — INCLUDE only reads inside the project and include cycles are errors."""
import itertools, re, random, shutil, tempfile
from common import *
import treecorr

ALPHA = ["a", "b", ".", "/", "\\", '"', " "]


def name_cases(tier, rng):
    """INCLUDE <string> for every string over the path alphabet up to a length bound"""
    maxlen = 6 if tier == "thorough" else 4
    out = []
    for n in range(1, maxlen + 1):
        for t in itertools.product(ALPHA, repeat=n):
            out.append("".join(t))
    if tier != "thorough":
        for n in (5, 6, 7):
            for _ in range(1500):
                out.append("".join(rng.choice(ALPHA) for _ in range(n)))
    else:
        for _ in range(30000):
            out.append("".join(rng.choice(ALPHA) for _ in range(7)))
    extra = ["..", ".", "../decoy.jst", "/etc/passwd", "a/../../decoy.jst", "b/../a", "./a", "b/./a", "b//a", "b/a/",
             '"../decoy.jst"', '"/etc/passwd"', '".."', '""', "a\\b", '"b/a"', "b/..", "...", "b/...", "..a", "b/..a",
             ".a", "b/.a", "a.", "b/a.", "/", "//", "b/", '"b/"', "~", "C:\\x", "\\\\host\\share",
             # an empty segment in front of a dot segment (the directory before it need not exist)
             "a//..", "b//..", "x//..", "a//../..", "b//../../decoy.jst", "x//../../decoy.jst", "a//../../decoy.jst",
             "b/a//../../../decoy.jst", '"x//../../decoy.jst"', "b//./a", "x//./a", "b///../../decoy.jst", "b/./../../decoy.jst",
             "x//../a", "b//../a", "b/b//../../a", "a/..//../decoy.jst", "b//a/../../../decoy.jst"]
    return out + extra


FS_FILES = {"a": b"TYPE @a any\n", "b/a": b"TYPE @ba any\n", "b/b/a": b"TYPE @bba any\n", ".a": b"TYPE @da any\n",
            "..a": b"TYPE @dda any\n", "a.": b"TYPE @ad any\n", "b/.a": b"TYPE @bda any\n"}
OUTER = {"decoy.jst": b"TYPE @decoy any\n", "a": b"TYPE @outer_a any\n", "b/a": b"TYPE @outer_ba any\n"}


def name_case(cid, name):
    files = {"root.jst": b"JSIGHT 0.3\nINCLUDE " + name.encode("latin1") + b"\n"}
    files.update(FS_FILES)
    c = treecorr.project_case(cid, files)
    c["outer"] = {n: d.hex() for n, d in OUTER.items()}
    return c


def graph_cases(rng, n):
    """include graphs over up to 5 files: cycles, diamonds, repeated includes, missing files, directories"""
    out = []
    pools = [["f0.jst", "f1.jst", "sub/f2.jst", "sub/f3.jst", "sub/deep/f4.jst"],
             # names that differ only in letter case, or where one is a prefix/suffix of another, are different files
             ["Pets.jst", "pets.jst", "sub/PETS.jst", "sub/pets.jst", "sub/deep/Pets.jst"],
             ["a.jst", "A.jst", "sub/a.jst", "sub/a.jst.jst", "sub/deep/a.jst"]]
    for i in range(n):
        names = pools[0] if rng.random() < 0.5 else rng.choice(pools[1:])
        k = rng.randint(1, 5)
        use = names[:k]
        files, edges = {}, {}
        for j, nm in enumerate(use):
            body = [b"TYPE @t%d_%d any" % (i, j)] if False else []
            targets = []
            for _ in range(rng.choice([0, 1, 1, 2, 3])):
                r = rng.random()
                if r < 0.75:
                    targets.append(rng.choice(use + ["root.jst"] if rng.random() < 0.15 else use))
                elif r < 0.85:
                    targets.append("missing%d.jst" % rng.randint(0, 3))
                else:
                    targets.append("sub")
            edges[nm] = targets
            lines = []
            for t in targets:
                rel = os.path.relpath(t, os.path.dirname(nm) or ".")
                if rel.startswith(".."):
                    # not expressible without '..': include by a name relative to this file's dir only
                    continue
                lines.append(b"INCLUDE " + rel.encode())
            lines.append(b"TAG @tag%d_%d" % (i, j) if False else b"# file %d" % j)
            files[nm] = b"\n".join(lines) + b"\n"
        roots = [b"JSIGHT 0.3"]
        for t in rng.sample(use, rng.randint(1, len(use))):
            roots.append(b"INCLUDE " + t.encode())
            if rng.random() < 0.2:
                roots.append(b"INCLUDE " + t.encode())
        files["root.jst"] = b"\n".join(roots) + b"\n"
        c = treecorr.project_case("g%d" % i, files, dirs=["sub"])
        c["outer"] = {n: d.hex() for n, d in OUTER.items()}
        out.append(c)
    return out


def include_graph(case):
    """edges read back from the generated files (INCLUDE lines), names resolved like the property says"""
    g = {}
    for n, h in case["files"].items():
        ts = []
        for line in bytes.fromhex(h).split(b"\n"):
            if line.startswith(b"INCLUDE "):
                t = line[8:].decode("latin1").strip()
                ts.append(os.path.normpath(os.path.join(os.path.dirname(n), t)))
        g[n] = ts
    return g


def reaches_cycle(g, start, files):
    """does following INCLUDEs from start (in order, depth-first, stopping at the first error) re-enter an open file?"""
    def walk(n, stack):
        for t in g.get(n, []):
            if t not in files:
                return "error"          # missing / directory: include error first
            if t in stack:
                return "cycle"
            r = walk(t, stack + [t])
            if r:
                return r
        return None
    return walk(start, [start])


def matches_finding(v, f):
    return v.get("class") == f.get("class")


def run(tier, out, model_ok, proof):
    rng = random.Random(seed())
    names = name_cases(tier, rng)
    cases = [name_case("n%d" % i, nm) for i, nm in enumerate(names)]
    gcs = graph_cases(rng, 3000 if tier == "thorough" else 400)
    cases += gcs
    # the root file handed over under another name (unnamed in-memory file, relative names) with
    # the project directory as working directory: only the accesses are judged for these
    variants = []
    vnames = ["a", "b/a", "../decoy.jst", "b/../a", "./a", "missing.jst", "b", '"a"', "..", "/etc/passwd"] + rng.sample(names, 60 if tier != "thorough" else 600)
    for k, rn in enumerate(["empty", "rel", "dotrel"]):
        for i, nm in enumerate(vnames):
            c = name_case("v%s%d" % (rn, i), nm)
            c["rootname"] = rn
            variants.append(c)
        for i, gc in enumerate(gcs[:40]):
            c = dict(gc)
            c["id"] = "w%s%d" % (rn, i)
            c["rootname"] = rn
            variants.append(c)
    sdir = tempfile.mkdtemp(prefix="verif-strace-")
    try:
        if model_ok:
            g, crashes, m, mism = treecorr.run_tree(cases, shards=8, strace_dir=sdir)
        else:
            lines = [json.dumps(c) for c in cases]
            g, crashes = treecorr.run_isolated(os.path.join(BUILD, "harness"), ["tree"], lines, shards=8, strace_dir=sdir)
            m, mism = {}, []
        vg, vcr = treecorr.run_isolated(os.path.join(BUILD, "harness"), ["tree"], [json.dumps(c) for c in variants], shards=8, strace_dir=sdir)
        acc = {}
        for f in os.listdir(sdir):
            acc.update(treecorr.parse_strace(os.path.join(sdir, f)))
    finally:
        shutil.rmtree(sdir, ignore_errors=True)
    outside, logdiff, verdicts = 0, 0, {}
    byid = {c["id"]: c for c in cases}
    for c in cases:
        cid = c["id"]
        r = g.get(cid)
        a = acc.get(cid)
        if r is None or a is None:
            continue
        # (1) nothing outside the project root is ever touched
        bad = [p for k, p in a if p == ".." or p.startswith("../") or p.startswith("/")]
        if bad:
            outside += 1
            out.violations.append({"what": "a path outside the project was accessed: %s" % bad[:3], "class": "outside-access",
                                   "input": {n: bytes.fromhex(h).decode("latin1") for n, h in c["files"].items() if n == "root.jst" or cid.startswith("g")}})
        # (1b) "absolute paths, any '.' or '..' path segment and backslashes are refused before the
        # file system is consulted": a single INCLUDE whose parameter is written bare (no blank, no
        # quote, so the parameter is the text itself) and is of that kind touches no file at all
        if not cid.startswith("g") and a:
            root = bytes.fromhex(c["files"]["root.jst"]).decode("latin1")
            mm = re.fullmatch(r"JSIGHT 0\.3\nINCLUDE ([^ \t\"\n\r#]+)\n", root)
            if mm:
                nm = mm.group(1)
                if nm.startswith("/") or "\\" in nm or any(sg in (".", "..") for sg in nm.split("/")):
                    out.violations.append({"what": "INCLUDE %s: the name has an absolute path, a dot segment or a backslash, yet the file system was consulted: %s" % (nm, a[:3]),
                                           "class": "unsafe-name-consulted", "input": {"root.jst": root}})
        # (2) the model's access log is what really happened
        mr = m.get(cid)
        if mr is not None and "log" in mr:
            mlog = [(k, bytes.fromhex(p).decode("latin1")) for k, p in mr["log"]][1:]
            if [(k, os.path.normpath(p)) for k, p in mlog] != [(k, os.path.normpath(p)) for k, p in a]:
                logdiff += 1
                out.broken.append({"what": "file accesses differ: model log %s, observed (strace) %s" % (mlog[:6], a[:6]),
                                   "detail": {"root.jst": bytes.fromhex(c["files"]["root.jst"]).decode("latin1")}})
        # (3) graphs: cycles are errors; acyclic graphs over existing files have no include error
        if cid.startswith("g") and r.get("scan") in ("ok", "err"):
            gr = include_graph(c)
            exp = reaches_cycle(gr, "root.jst", set(c["files"]))
            verdicts[str(exp)] = verdicts.get(str(exp), 0) + 1
            msg = bytes.fromhex(r["err"]["msg"]).decode("utf-8", "replace") if r.get("scan") == "err" else ""
            if exp == "cycle" and not ("recursion" in msg or "not allowed in included files" in msg):
                out.violations.append({"what": "an include cycle was not reported as a recursion error (got %r)" % msg[:80], "class": "cycle-missed",
                                       "input": {n: bytes.fromhex(h).decode("latin1") for n, h in c["files"].items()}})
            if exp is None and ("recursion" in msg or "incorrect parameter (Filename)" in msg):
                out.violations.append({"what": "an acyclic include graph over existing files was rejected: %r" % msg[:80], "class": "dag-rejected",
                                       "input": {n: bytes.fromhex(h).decode("latin1") for n, h in c["files"].items()}})
    vtouched = 0
    for c in variants:
        a = acc.get(c["id"])
        if a is None:
            continue
        vtouched += 1 if a else 0
        bad = [p for k, p in a if p == ".." or p.startswith("../") or p.startswith("/")]
        if bad:
            outside += 1
            out.violations.append({"what": "a path outside the project was accessed (root file handed over as %s, working directory = project): %s" % (c["rootname"], bad[:3]),
                                   "class": "outside-access",
                                   "input": {n: bytes.fromhex(h).decode("latin1") for n, h in c["files"].items() if n == "root.jst" or c["id"].startswith("w")}})
        elif vg.get(c["id"], {}).get("scan") == "panic":
            out.violations.append({"what": "panic with the root file handed over as %s: %s" % (c["rootname"], vg[c["id"]].get("panic", "")[:100]), "class": "panic",
                                   "input": {"root.jst": bytes.fromhex(c["files"]["root.jst"]).decode("latin1")}})
    for x in mism[:40]:
        out.broken.append({"what": "directive-layer model and implementation disagree: " + x["what"],
                           "detail": {n: bytes.fromhex(h).decode("latin1") for n, h in x["case"]["files"].items() if n == "root.jst" or x["id"].startswith("g")}})
    touched = sum(1 for c in cases if acc.get(c["id"]))
    out.coverage.update({
        "evaluations": len(cases),
        "distinct_nontrivial": touched,
        "rule": "INCLUDE <s> for every string s over {a b . / \\ \" blank} up to length %d (random beyond, plus a list of classic escapes) against a file system with decoy files outside the project root, and %d random include graphs over up to 5 files (cycles, diamonds, repeats, missing files, directories); the same names and graphs again with the root handed to the library as an unnamed in-memory file, as 'root.jst' and as './root.jst' (working directory = project; accesses only); every file-system call of the build is observed with strace between markers; non-trivial = the build touched the file system" % (6 if tier == "thorough" else 4, len(gcs)),
        "samples": [bytes.fromhex(c["files"]["root.jst"]).decode("latin1") for c in cases[:3] + gcs[:2]],
        "traces_validated_against_impl": len(cases) - len(mism) - logdiff if model_ok else 0,
        "outside_accesses": outside, "root_name_variants": len(variants), "root_name_variants_touching_fs": vtouched,
        "access_log_differences": logdiff,
        "graph_verdicts": verdicts,
        "correspondence_mismatches": len(mism),
        "exhaustive": True,
    })
    out.assumptions += [
        "file identity is name identity: symlinks, hard links and case-insensitive file systems are outside the model",
        "filepath.Join/Dir/Clean and os.Stat/os.ReadFile are modelled by Core.join_dir / fs_lookup; their real behaviour is observed with strace on every case",
    ]
