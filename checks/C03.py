"""C03 — documents with a single known fault are rejected, at the fault."""
import copy, random
from common import *
import treecorr, docgen, layout, catcorr
N = treecorr.Node


def walk(nodes, parent=None):
    for n in nodes:
        yield n, parent
        yield from walk(n.children, n)


def kw(n):
    return n.text.split()[0] if n.text.split() else ""


def methods(roots):
    return [(n, p) for n, p in walk(roots) if kw(n) in ("GET", "POST", "PUT", "PATCH", "DELETE")]


def pick(rng, l):
    return rng.choice(l) if l else None


# each injector returns (offending node, message prefix) or None when it does not apply
def f_dup_interaction(rng, roots):
    ms = [(n, p) for n, p in methods(roots) if p is None]
    m = pick(rng, ms)
    if not m:
        return None
    dup = N(m[0].text.split("//")[0].rstrip(), [N("200 any")])
    roots.append(dup)
    return dup, "this method has already been defined in the resource"


def f_dup_named(kind, text):
    def f(rng, roots):
        have = [n for n in roots if kw(n) == kind]
        n0 = pick(rng, have)
        if not n0:
            return None
        name = n0.text.split()[1]
        dup = N(text % name)
        roots.insert(rng.randint(roots.index(n0) + 1, len(roots)), dup)
        return dup, 'the name "%s" has already been declared before' % name.strip('"')
    return f


def f_dup_macro(rng, roots):
    m1 = N("MACRO @dupm", [N("200 any")], explicit=True)
    m2 = N("MACRO @dupm", [N("404 any")], explicit=True)
    i = rng.randint(1, len(roots))
    roots.insert(i, m1)
    roots.insert(rng.randint(i + 1, len(roots)), m2)
    return m2, 'the name "@dupm" has already been declared before'


def f_dup_opid(rng, roots):
    ms = methods(roots)
    if len(ms) < 2:
        return None
    a, b = rng.sample(ms, 2)
    order = [n for n, _ in walk(roots)]
    if order.index(a[0]) > order.index(b[0]):
        a, b = b, a
    for m in (a[0], b[0]):
        m.children = [c for c in m.children if kw(c) != "OperationId"]
    a[0].children.insert(0, N("OperationId sameop"))
    o2 = N("OperationId sameop")
    b[0].children.insert(rng.randint(0, len(b[0].children)), o2)
    return o2, 'the OperationId "sameop" has already been defined'


def f_similar_paths(rng, roots):
    # the two paths disagree on the NAME of a parameter at the same position; the parameter may
    # be the last one of both paths, of one of them, or of neither
    pa, pb = rng.choice([("/sim/{x}", "/sim/{y}/z"), ("/sim/{x}", "/sim/{y}"), ("/sim/{x}", "/sim/{y}/extra/{deep}"),
                         ("/sim/{x}/friends/{f}", "/sim/{y}"), ("/{lang}/docs/{page}", "/{zz}/extra/{deep}"),
                         ("/sim/{x}/a/{k}", "/sim/{x}/a/{q}/b"), ("/sim/{x}/tail", "/sim/{y}/other/{d}")])
    a = N("GET " + pa, [N("200 any")]) if rng.random() < 0.6 else N("URL " + pa, [N("GET", [N("200 any")])])
    b = N(rng.choice(["GET", "POST"]) + " " + pb, [N("200 any")])
    roots.append(a)
    roots.append(b)
    return b, "the ambiguous paths are not allowed"


def f_dup_rpc_method(rng, roots):
    us = [n for n in roots if kw(n) == "URL" and any(kw(c) == "Protocol" for c in n.children) and any(kw(c) == "Method" for c in n.children)]
    u = pick(rng, us)
    if not u:
        u = N("URL /rpcdup", [N("Protocol json-rpc-2.0"), N("Method same", [N('Params\n{"p": 1}')])])
        roots.append(u)
    m = pick(rng, [c for c in u.children if kw(c) == "Method"])
    dup = N(m.text.split("//")[0].rstrip(), [N('Result\n{"r": 2}')] if rng.random() < 0.5 else [])
    u.children.append(dup)
    return dup, "this method has already been defined in the resource"


def f_param_twice(rng, roots):
    b = N("GET /tw/{p}/x/{p}", [N("200 any")])
    roots.insert(rng.randint(1, len(roots)), b)
    return b, "the parameter of the path is duplicated"


def f_second(child_kw, text, parent_kws):
    def f(rng, roots):
        ps = [n for n, _ in walk(roots) if kw(n) in parent_kws and any(kw(c) == child_kw for c in n.children)]
        p = pick(rng, ps)
        if not p:
            return None
        dup = N(text)
        idx = max(i for i, c in enumerate(p.children) if kw(c) == child_kw)
        p.children.insert(rng.randint(idx + 1, len(p.children)), dup)
        return dup, "the directive has already been defined"
    return f


def f_second_request_body(rng, roots):
    ps = [n for n, _ in walk(roots) if kw(n) == "Request" and any(kw(c) == "Body" for c in n.children)]
    p = pick(rng, ps)
    if not p:
        return None
    dup = N("Body any")
    p.children.append(dup)
    return dup, "the directive has already been defined"


def f_undefined_tag(rng, roots):
    m = pick(rng, methods(roots))
    if not m:
        return None
    m[0].children = [c for c in m[0].children if kw(c) != "Tags"]
    t = N("Tags @nosuchtag")
    m[0].children.insert(rng.randint(0, len(m[0].children)), t)
    return t, 'tag not found "@nosuchtag"'


def f_undefined_macro(rng, roots):
    m = pick(rng, methods(roots))
    if not m:
        return None
    p = N("PASTE @nosuchmacro")
    m[0].children.append(p)
    return p, "macro not found"


def f_missing_param(rng, roots):
    k = rng.choice(["SERVER", "TAG", "OperationId"])
    if k == "OperationId":
        m = pick(rng, methods(roots))
        if not m:
            return None
        m[0].children = [c for c in m[0].children if kw(c) != "OperationId"]
        n = N("OperationId")
        m[0].children.insert(0, n)
        return n, "required parameter(s) not specified"
    n = N(k)
    roots.insert(rng.randint(1, len(roots)), n)
    return n, "required parameter(s) not specified"


def f_missing_body(rng, roots):
    r = rng.random()
    if r < 0.5:
        m = pick(rng, methods(roots))
        if not m:
            return None
        n = N(rng.choice(["201", "418", "599"]), [N('Headers\n{"only": "headers"}')])
        if rng.random() < 0.5:
            m[0].children.append(n)
        else:
            # not the last response of the method
            pos = min([i for i, c in enumerate(m[0].children) if kw(c)[:1].isdigit()] or [len(m[0].children)])
            m[0].children.insert(pos, n)
            if not any(kw(c)[:1].isdigit() for c in m[0].children[pos + 1:]):
                m[0].children.append(N("404 any"))
        return n, "undefined response body for resource"
    m = pick(rng, [x for x in methods(roots) if kw(x[0]) != "GET" and not any(kw(c) == "Request" for c in x[0].children)])
    if not m:
        return None
    n = N("Request", [N('Headers\n{"h": "v"}')])
    m[0].children.append(n)
    return n, "undefined request body for resource"


ANNOTATION_FREE = ["URL", "Title", "Version", "INFO", "OperationId", "Protocol", "BaseUrl", "Query", "Headers", "Params", "Result", "Request", "Body-under-Request"]


def f_forbidden_annotation(rng, roots, want=None):
    """annotate a directive that takes no annotation; [want]: the kind to annotate (every kind is asked
    for in turn by run(), so that none depends on the luck of the draw)"""
    kinds = [k for k in ANNOTATION_FREE if k != "Body-under-Request"]
    cands = [n for n, _ in walk(roots) if kw(n) in kinds and "//" not in n.text and (want is None or kw(n) == want)]
    # a Body directly under a Request (not under a response, where the annotation is the body's)
    if want in (None, "Body-under-Request"):
        cands += [c for n, _ in walk(roots) if kw(n) == "Request" for c in n.children if kw(c) == "Body" and "//" not in c.text]
    n = pick(rng, cands)
    if not n:
        return None
    first, sep, rest = n.text.partition("\n")
    n.text = first + " // not allowed here" + sep + rest
    return n, "the annotation is not allowed for this directive"


def f_jsight_missing(rng, roots):
    del roots[0]
    return roots[0], "The first directive in the document must be JSIGHT"


def f_jsight_repeated(rng, roots):
    n = N("JSIGHT 0.3")
    roots.insert(rng.randint(1, len(roots)), n)
    return n, "The directive JSIGHT has already been specified before"


def f_jsight_not_first(rng, roots):
    j = roots.pop(0)
    roots.insert(rng.randint(1, len(roots)), j)
    return roots[0], "The first directive in the document must be JSIGHT"


FAULTS = {
    "dup-interaction": f_dup_interaction,
    "dup-rpc-method": f_dup_rpc_method,
    "dup-type": f_dup_named("TYPE", 'TYPE %s\n{"dup": 1}'),
    "dup-enum": f_dup_named("ENUM", "ENUM %s\n[7]"),
    "dup-server": f_dup_named("SERVER", "SERVER %s"),
    "dup-tag": f_dup_named("TAG", "TAG %s"),
    "dup-macro": f_dup_macro,
    "dup-operationid": f_dup_opid,
    "similar-paths": f_similar_paths,
    "param-twice": f_param_twice,
    "second-title": f_second("Title", 'Title "again"', ("INFO",)),
    "second-version": f_second("Version", "Version 9", ("INFO",)),
    "second-description": f_second("Description", "Description\n  again", ("INFO", "GET", "POST", "PUT", "PATCH", "DELETE", "Method", "TAG")),
    "second-query": f_second("Query", 'Query "z=1"\n{"z": 1}', ("GET", "POST", "PUT", "PATCH", "DELETE")),
    "second-headers": f_second("Headers", 'Headers\n{"again": "v"}', ("Request", "200", "201", "400", "404", "500")),
    "second-request-body": f_second_request_body,
    "undefined-tag": f_undefined_tag,
    "undefined-macro": f_undefined_macro,
    "missing-parameter": f_missing_param,
    "missing-body": f_missing_body,
    "forbidden-annotation": f_forbidden_annotation,
    "jsight-missing": f_jsight_missing,
    "jsight-repeated": f_jsight_repeated,
    "jsight-not-first": f_jsight_not_first,
}


def fault_docs(rng, per):
    """documents with one injected fault of every class (used by other checks too: if a change
    makes one of them ACCEPTED, the accepted catalog must still satisfy their invariants)"""
    out = []
    lay0 = layout.Layout(random.Random(0))
    for cls, inj in FAULTS.items():
        made = tries = 0
        while made < per and tries < per * 6:
            tries += 1
            roots = treecorr.gen_structured(rng, with_macros=False)
            if inj(rng, roots) is None:
                continue
            try:
                out.append((cls, directive_lines(roots, lay0)[0]))
            except Exception:
                continue
            made += 1
    return out


def directive_lines(roots, lay):
    """render; -> (bytes, {id(node): line})"""
    order = [n for n, _ in walk(roots)]
    data, exp = layout.render([docgen.node_to_D(n) for n in roots], lay)
    ks = [e for e in exp if e[0] == "K"]
    lines = {}
    for n, e in zip(order, ks):
        lines[id(n)] = data[:e[1]].count(b"\n") + 1
    return data, lines


def matches_finding(v, f):
    return v.get("class") == f.get("class")


def run(tier, out, model_ok, proof):
    rng = random.Random(seed())
    big = tier == "thorough"
    cases, metas = [], {}
    per = 60 if big else 9
    lay0 = layout.Layout(random.Random(0))
    for cls, inj in FAULTS.items():
        # a class with variants (the kinds a forbidden annotation may sit on) gets its share of cases
        # for EVERY variant, so that none depends on the luck of the draw
        variants = ANNOTATION_FREE if cls == "forbidden-annotation" else [None]
        share = max(2, per // len(variants)) if variants != [None] else per
        made = 0
        for v in variants:
            got = tries = 0
            while got < share and tries < share * 40:
                tries += 1
                roots = treecorr.gen_structured(rng, with_macros=False)
                r = inj(rng, roots, v) if v is not None else inj(rng, roots)
                if r is None:
                    continue
                node, msg = r
                lay = lay0 if rng.random() < 0.5 else layout.Layout(rng, nl=b"\n", indent=rng.choice([0, 2, 4]), trivia=0.3)
                data, lines = directive_lines(roots, lay)
                cid = "%s_%d" % (cls, made)
                cases.append(treecorr.single_file_case(cid, data))
                metas[cid] = (cls, lines.get(id(node)), msg)
                made += 1
                got += 1
    if model_ok:
        res, crashes, mres, mism, skipped = catcorr.run_catalog(cases)
    else:
        res, crashes = docgen.run_build(cases)
        mism, skipped = [], 0
    hit = {}
    for c in cases:
        cid = c["id"]
        r = res.get(cid)
        cls, line, msg = metas[cid]
        show = {"fault": cls, "root.jst": bytes.fromhex(c["files"]["root.jst"]).decode("latin1")[:2500]}
        if r is None or r["end"] == "panic":
            out.violations.append({"what": "crash on a document with one injected fault (%s)" % cls, "class": "other", "input": show})
            continue
        if r["end"] == "ok":
            out.violations.append({"what": "fault %s (expected %r on line %s) was accepted" % (cls, msg, line), "class": "other", "input": show})
            continue
        got = docgen.err_text(r)
        if not got.startswith(msg):
            out.violations.append({"what": "fault %s: expected message %r, got %r (line %d)" % (cls, msg, got[:90], r["err"]["line"]), "class": "other", "input": show})
        elif line is not None and r["err"]["line"] != line:
            out.violations.append({"what": "fault %s: error reported on line %d, the offending directive is on line %d" % (cls, r["err"]["line"], line), "class": "other", "input": show})
        else:
            hit[cls] = hit.get(cls, 0) + 1
    for x in mism[:30]:
        out.broken.append({"what": "catalog model and implementation disagree: " + x["what"],
                           "detail": {n: bytes.fromhex(h).decode("latin1")[:1200] for n, h in x["case"]["files"].items()}})
    out.coverage.update({
        "evaluations": len(cases),
        "distinct_nontrivial": sum(hit.values()),
        "rule": "%d fault classes x %d random valid documents x a random injection site (and two layouts): duplicate interaction/JSON-RPC method/type/enum/server/tag/macro/OperationId, similar and repeated path parameters, second Title/Version/Description/Query/Headers/Request body, undefined tag/macro, missing parameter/body, forbidden annotation, JSIGHT missing/repeated/not first; the expected message class and the line of the offending directive are computed by the injector; every case is also compared (message, file, index, line, column) with the extracted Coq catalog model; non-trivial = rejected at the fault with the class message" % (len(FAULTS), per),
        "samples": [{"fault": metas[c["id"]][0], "doc": bytes.fromhex(c["files"]["root.jst"]).decode("latin1")[:200]} for c in cases[:2]],
        "rejected_at_fault_per_class": hit,
        "traces_validated_against_impl": (len(cases) - len(mism) - skipped) if model_ok else 0,
        "correspondence_mismatches": len(mism),
        "exhaustive": False,
    })
    out.assumptions += ["'undefined type' faults are the dependency's to detect and are not injected; faults inside INCLUDEd files and MACRO bodies are covered by C09/C10 location checks; PARTIAL proof, see Props/C03.v"]
