"""C05 — catalog cross-references are closed and names are unique."""
import random
from common import *
import treecorr, docgen, catcorr, jsoninv
import importlib
C09 = importlib.import_module("checks.C09")
N = treecorr.Node


def extra_docs():
    b = [N("JSIGHT 0.3"), N("TAG @a"), N("TAG @b // B")]
    out = []
    out.append(b + [N("GET /x", [N("Tags @a @a"), N("200 any")])])                      # F10
    out.append(b + [N("GET /x", [N("Tags @a @b"), N("200 any")]), N("POST /x", [N("Tags @b"), N("200 any")])])
    out.append(b + [N("URL /u/{id}", [N("Tags @a"), N("GET", [N("200 any")]), N("POST", [N("Tags @b"), N("200 any")]),
                                      N("Protocol json-rpc-2.0")][:3])])
    out.append(b + [N("URL /r", [N("Tags @b"), N("Protocol json-rpc-2.0"), N("Method m1", [N('Params\n{"p": 1}')]),
                                 N("Method m2", [N("Tags @a"), N('Result\n{"r": 1}')])])])
    out.append(b + [N("URL /a/{x}", [N("GET", [N("200 any")])]), N("URL /a/{x}/b/{y}", [N('Path\n{"y": 1}'), N("GET", [N("200 any")])]),
                    N("GET /a/{x}/c", [N("200 any")])])
    out.append(b + [N("GET /loc", [N("301", [N('Headers\n{"Location": "x"}')]), N("200 any")])])     # a response without a body
    out.append(b + [N("POST /rq", [N("Request", [N('Headers\n{"h": "v"}')]), N("200 any")])])        # a request without a body
    out.append(b + [N("GET /", [N("200 any")]), N("GET /./x", [N("200 any")]), N("GET /a_b/c", [N("200 any")]), N("GET /{p}", [N("200 any")])])
    # a declared tag whose name is also the implicit path tag of an untagged interaction
    for first in (True, False):
        tagged = [N("GET /dogs", [N("Tags @cats"), N("200 any")]), N("URL /birds", [N("Tags @cats"), N("POST", [N("200 any")])]),
                  N("URL /rpc", [N("Protocol json-rpc-2.0"), N("Method purr", [N("Tags @cats"), N('Params\n{"p": 1}')])])]
        untagged = [N("GET /cats", [N("200 any")]), N("DELETE /cats/{id}", [N("204 any")])]
        out.append([N("JSIGHT 0.3"), N("TAG @cats // All about cats")] + (tagged + untagged if first else untagged + tagged))
        out.append([N("JSIGHT 0.3")] + (tagged[:1] + untagged[:1] if first else untagged[:1] + tagged[:1]) + [N("TAG @cats")])
    # methods with their own path parameters that exist only after PASTE expansion
    out.append(b + [N("MACRO @m", [N("GET /orders/{orderId}/items/{itemId}", [N("200 any")])], explicit=True), N("PASTE @m")])
    out.append(b + [N("MACRO @m", [N("GET /health/{probe}", [N("200 any")])], explicit=True), N("URL /api", [N("PASTE @m"), N("POST", [N("200 any")])])])
    out.append(b + [N("URL /api/{v}", [N("PASTE @m")]), N("MACRO @m", [N("GET", [N("200 any")]), N("DELETE /other/{x}", [N("200 any")])], explicit=True)])
    return out


def matches_finding(v, f):
    return v.get("class") == f.get("class")


def run(tier, out, model_ok, proof):
    rng = random.Random(seed())
    big = tier == "thorough"
    docs = extra_docs()
    for i in range(4000 if big else 500):
        docs.append(treecorr.gen_structured(rng, with_macros=rng.random() < 0.3))
    cases = []
    for i, roots in enumerate(docs):
        files = C09.split_project(rng, roots) if rng.random() < 0.25 else {"root.jst": C09.render_nodes(roots)}
        cases.append(treecorr.project_case("a%d" % i, files))
    # documents with one injected rule fault (duplicate method / JSON-RPC method / names, ...):
    # normally rejected; should a change make one ACCEPTED, its catalog still has to be closed
    C03 = importlib.import_module("checks.C03")
    for k, (cls, d) in enumerate(C03.fault_docs(rng, 12 if big else 3)):
        cases.append(treecorr.single_file_case("flt%d" % k, d))
    # odd paths (empty, '.', '..' segments; braces) as method path, URL path and JSON-RPC URL: when accepted,
    # key = id = protocol/method/path must still hold
    import stress
    for name, doc in stress.path_shapes(2):
        cases.append(treecorr.single_file_case("ps_" + name, doc.encode()))
    for k, doc in enumerate(['JSIGHT 0.3\nGET /a/b\n  200 any\nGET /a//b\n  200 any\n', 'JSIGHT 0.3\nURL /shop//items/{id}\n  GET\n    200 any\n  POST\n    200 any\n',
                             'JSIGHT 0.3\nGET /A/b\n  200 any\nGET /a/B\n  200 any\n', 'JSIGHT 0.3\nGET /a/b/\n  200 any\nGET /a/b\n  200 any\n']):
        cases.append(treecorr.single_file_case("pp%d" % k, doc.encode()))
    corp = corpus_files()
    for i, f in enumerate(corp if big else rng.sample(corp, 250)):
        d = open(f, "rb").read()
        if b"INCLUDE" in d:
            continue
        cases.append(treecorr.single_file_case("k%d" % i, d))
    if model_ok:
        res, crashes, mres, mism, skipped = catcorr.run_catalog(cases)
    else:
        res, crashes = docgen.run_build(cases)
        mism, skipped = [], 0
    accepted = 0
    for c in cases:
        r = res.get(c["id"])
        if r is None or r["end"] != "ok" or "json" not in r:
            continue
        accepted += 1
        for cls, why in jsoninv.cross_refs(r["json"]):
            out.violations.append({"what": why, "class": cls, "input": {n: bytes.fromhex(h).decode("latin1")[:1500] for n, h in c["files"].items()}})
    for x in mism[:30]:
        out.broken.append({"what": "catalog model and implementation disagree: " + x["what"],
                           "detail": {n: bytes.fromhex(h).decode("latin1")[:800] for n, h in x["case"]["files"].items()}})
    out.coverage.update({
        "evaluations": len(cases),
        "distinct_nontrivial": accepted,
        "rule": "structured valid documents (Tags/TAG, URL grouping, MACRO/PASTE, INCLUDE trees, shared path prefixes, JSON-RPC) + hand-picked shapes + corpus files + documents with one injected rule fault of each class of C03 (if ever accepted); for every accepted build the cross-reference invariant is evaluated on the parsed ToJson output (keys = ids = protocol/method/path, tags both ways with multiplicity one, usedUserTypes/usedUserEnums defined, pathVariables = {parameters}, response codes and bodies, jsight 0.3) and the catalog skeleton is compared with the extracted Coq model; non-trivial = accepted",
        "samples": [bytes.fromhex(cases[0]["files"]["root.jst"]).decode("latin1")[:300]],
        "traces_validated_against_impl": (len(cases) - len(mism) - skipped) if model_ok else 0,
        "skipped_unmodelled": skipped,
        "correspondence_mismatches": len(mism),
        "exhaustive": False,
    })
    out.assumptions += ["PARTIAL: see Props/C05.v; schema content (usedUserTypes/usedUserEnums) is the dependency's and is checked on the JSON only"]
