"""The catalog an abstract document describes, written from the property text (C02) and
independent of both the implementation and the Coq model: entities in document order, ids,
annotations, descriptions, parameters, tags, request/response structure."""
import docgen, meta
from catcorr import H


def _first(node):
    first, _, rest = node.text.partition("\n")
    kw, params, annot = docgen.split_first_line(first)
    params = [p[1:-1] if len(p) >= 2 and p[0] == '"' and p[-1] == '"' else p for p in params]
    return kw, params, annot, rest


def descr_text(rest):
    """the text of a Description: parentheses on their own lines are not part of it, the common
    indentation of its lines and the blank lines around it are dropped"""
    lines = rest.split("\n")
    while lines and not lines[0].strip():
        lines.pop(0)
    while lines and not lines[-1].strip():
        lines.pop()
    if len(lines) >= 2 and lines[0].strip() == "(" and lines[-1].strip() == ")":
        lines = lines[1:-1]
        while lines and not lines[0].strip():
            lines.pop(0)
        while lines and not lines[-1].strip():
            lines.pop()
    ind = min((len(l) - len(l.lstrip(" \t")) for l in lines if l.strip()), default=0)
    return "\n".join(l[ind:] if l.strip() else "" for l in lines).strip()


def _fmt(params):
    if "regex" in params:
        return "plainString"
    if "any" in params or "empty" in params:
        return "binary"
    return "json"


def _is_code(kw):
    return len(kw) == 3 and kw.isdigit()


def _child(node, kw):
    for c in node.children:
        if _first(c)[0] == kw:
            return c
    return None


def path_tag(path):
    segs = [s for s in path.split("/")]
    while segs and segs[0] in ("", "."):
        segs = segs[1:]
    title = "/" + segs[0] if segs else "/"
    if title == "/":
        return "@_", "/"
    t = title.replace("/", "@", 1).replace("_", "__")
    out = []
    for ch in t.encode():
        c = chr(ch)
        if c.isalnum() and ch < 128 or c in "-_.~$&+=:@":
            out.append(c)
        else:
            out.append("_%02X" % ch)
    return "".join(out), title


def expected(roots):
    """-> skeleton dict (same vocabulary as catcorr.project), or None if the document is outside
    what this oracle covers"""
    roots = meta.inline_macros(roots)
    if roots is None:
        return None
    sk = {"jsight": H(""), "info": None, "servers": [], "tags": [], "types": [], "inters": []}
    tags = []          # [name, title, descr, http ids, rpc ids]

    def tag_entry(name):
        for t in tags:
            if t[0] == name:
                return t
        return None

    for n in roots:
        kw, ps, annot, body = _first(n)
        if kw == "TAG":
            d = _child(n, "Description")
            tags.append([ps[0], annot if annot else ps[0], descr_text(_first(d)[3]) if d else None, [], []])
    for n in roots:
        kw, ps, annot, body = _first(n)
        if kw == "JSIGHT":
            sk["jsight"] = H(ps[0])
        elif kw == "INFO":
            t, v, d = _child(n, "Title"), _child(n, "Version"), _child(n, "Description")
            sk["info"] = {"title": H(_first(t)[1][0]) if t else H(""), "version": H(_first(v)[1][0]) if v else H(""),
                          "descr": H(descr_text(_first(d)[3])) if d else None}
        elif kw == "SERVER":
            b = _child(n, "BaseUrl")
            sk["servers"].append([H(ps[0]), H(annot or ""), H(_first(b)[1][0]) if b else H("")])
        elif kw == "TYPE":
            notation = "jsight"
            for p in ps[1:]:
                if p in ("regex", "any", "empty", "jsight"):
                    notation = p
            sk["types"].append([H(ps[0]), H(annot or ""), H(notation)])

    def tag_names(node, url_node, http, iid, path):
        td = _child(node, "Tags") or (_child(url_node, "Tags") if url_node is not None else None)
        if td is not None:
            names = _first(td)[1]
        else:
            name, title = path_tag(path)
            if tag_entry(name) is None:
                tags.append([name, title, None, [], []])
            names = [name]
        for nm in names:
            tag_entry(nm)[3 if http else 4].append(iid)
        return names

    def http_method(node, url_node, url_path):
        kw, ps, annot, _ = _first(node)
        path = ps[0] if ps else url_path
        iid = "http %s %s" % (kw, path)
        names = tag_names(node, url_node, True, iid, path)
        d = _child(node, "Description")
        q = _child(node, "Query")
        rq = _child(node, "Request")
        i = {"k": "http", "id": H(iid), "method": H(kw), "path": H(path), "annot": H(annot or ""),
             "descr": H(descr_text(_first(d)[3])) if d else None, "tags": [H(x) for x in names],
             "query": None, "request": None, "responses": []}
        if q:
            qk, qps, _, _ = _first(q)
            f = [p for p in qps if p in ("htmlFormEncoded", "noFormat")]
            ex = [p for p in qps if p not in ("htmlFormEncoded", "noFormat")]
            i["query"] = [H(f[0] if f else "htmlFormEncoded"), H(ex[0] if ex else "")]
        if rq:
            _, rps, _, rbody = _first(rq)
            hb = _child(rq, "Headers")
            bb = _child(rq, "Body")
            fmt = None
            if rps or rbody:
                fmt = _fmt(rps)
            elif bb:
                fmt = _fmt(_first(bb)[1])
            i["request"] = {"headers": hb is not None, "body": fmt}
        for c in node.children:
            ck, cps, cannot, cbody = _first(c)
            if _is_code(ck):
                hb, bb = _child(c, "Headers"), _child(c, "Body")
                fmt = None
                if cps or cbody:
                    fmt = _fmt(cps)
                elif bb:
                    fmt = _fmt(_first(bb)[1])
                i["responses"].append([H(ck), H(cannot or ""), hb is not None, fmt])
        sk["inters"].append(i)

    for n in roots:
        kw, ps, annot, body = _first(n)
        if kw == "URL":
            for c in n.children:
                ck, cps, cannot, _ = _first(c)
                if ck in ("GET", "POST", "PUT", "PATCH", "DELETE"):
                    http_method(c, n, ps[0])
                elif ck == "Method":
                    iid = "json-rpc-2.0 %s %s" % (cps[0], ps[0])
                    names = tag_names(c, n, False, iid, ps[0])
                    d = _child(c, "Description")
                    sk["inters"].append({"k": "rpc", "id": H(iid), "method": H(cps[0]), "path": H(ps[0]), "annot": H(cannot or ""),
                                         "descr": H(descr_text(_first(d)[3])) if d else None, "tags": [H(x) for x in names],
                                         "params": _child(c, "Params") is not None, "result": _child(c, "Result") is not None})
        elif kw in ("GET", "POST", "PUT", "PATCH", "DELETE"):
            http_method(n, None, None)
    sk["tags"] = [[H(t[0]), H(t[1]), H(t[2]) if t[2] is not None else None, [H(x) for x in t[3]], [H(x) for x in t[4]]] for t in tags]
    return sk
