"""Life-cycle of a check (DESIGN.md section 6): regenerate, prove, correspond, search,
known findings, evidence, verdict."""
import importlib, json, os, re, sys, time, traceback
from common import *

PROOF_KW = re.compile(r"^\s*(Lemma|Theorem|Example|Corollary|Fact|Proposition)\s+([A-Za-z0-9_']+)", re.M)
REQ = re.compile(r"^\s*From JS Require (?:Import |Export )?([^.]*)\.", re.M)
FORBIDDEN = re.compile(r"\b(Admitted|admit|Axiom|Parameter|Conjecture|Unset Guard|bypass_check|Admit Obligations|type-in-type|impredicative-set)\b")
ALLOWED_AXIOMS = ()  # the development is closed under the global context


def find_v(mod):
    for d in ("Model", "Gen", "Proofs", "Props", "Spec"):
        p = os.path.join(COQ, d, mod + ".v")
        if os.path.exists(p):
            return p
    return None


def cone(prop_file):
    seen, todo = {}, [prop_file]
    while todo:
        p = todo.pop()
        if p in seen:
            continue
        src = open(p).read()
        seen[p] = src
        for m in REQ.finditer(src):
            for name in m.group(1).split():
                q = find_v(name)
                if q:
                    todo.append(q)
    return seen


def strip_comments(src):
    out, depth, i = [], 0, 0
    while i < len(src):
        if src.startswith("(*", i):
            depth += 1
            i += 2
        elif src.startswith("*)", i) and depth:
            depth -= 1
            i += 2
        else:
            if not depth:
                out.append(src[i])
            i += 1
    return "".join(out)


def coqchk(pid):
    """Re-check the compiled property file and everything it depends on with the independent
    checker; returns (ok, summary, seconds)."""
    t0 = time.time()
    try:
        p = run(["coqchk", "-silent", "-o", "-Q", ".", "JS", "JS.Props." + pid], cwd=COQ, timeout=5400)
    except Exception as e:           # timeout
        return False, "coqchk did not finish: %s" % e, time.time() - t0
    out = p.stdout
    m = re.search(r"\* Axioms:(.*?)\n\s*\n", out, re.S)
    axioms = " ".join(m.group(1).split()) if m else "?"
    bad = []
    for key in ("type-in-type", "unsafe (co)fixpoints", "positivity is assumed"):
        mm = re.search(re.escape(key) + r":(.*?)\n\s*\n", out, re.S)
        if mm and "<none>" not in mm.group(1):
            bad.append(key + ": " + " ".join(mm.group(1).split()))
    ok = p.returncode == 0 and axioms == "<none>" and not bad
    return ok, "axioms: %s%s" % (axioms, ("; " + "; ".join(bad)) if bad else ""), time.time() - t0


def prove(pid):
    """Build Props/<pid>.vo (full .vo) and audit the cone. Returns a dict."""
    target = "Props/%s.vo" % pid
    files = cone(os.path.join(COQ, "Props", pid + ".v"))
    obligations = []
    forbidden = []
    for p, src in files.items():
        code = strip_comments(src)
        for m in PROOF_KW.finditer(code):
            obligations.append((os.path.relpath(p, COQ), m.group(2)))
        for m in FORBIDDEN.finditer(code):
            forbidden.append("%s: %s" % (os.path.relpath(p, COQ), m.group(1)))
    ok, log = coq_make([target])
    res = {"target": target, "ok": ok, "log": log, "obligations": obligations, "forbidden": forbidden,
           "files": sorted(os.path.relpath(p, COQ) for p in files)}
    # which obligations are discharged: all of a file whose .vo is up to date
    done = 0
    for p in files:
        vo = p[:-2] + ".vo"
        if os.path.exists(vo) and os.path.getmtime(vo) >= os.path.getmtime(p):
            done += len(PROOF_KW.findall(strip_comments(files[p])))
    res["discharged"] = done if not ok else len(obligations)
    # Print Assumptions output of the property file
    assumptions = []
    if ok:
        p = run(["coqc", "-Q", ".", "JS", "-w", "-notation-overridden,-deprecated-hint-without-locality,-deprecated-syntactic-definition",
                 os.path.join("Props", pid + ".v")], cwd=COQ, timeout=1800)
        out = p.stdout
        closed = out.count("Closed under the global context")
        axioms = re.findall(r"^Axioms:\n((?:.+\n)+)", out, re.M)
        res["print_assumptions_closed"] = closed
        res["axioms"] = [a.strip() for blk in axioms for a in blk.split("\n") if a.strip()]
        if p.returncode != 0:
            res["ok"] = False
            res["log"] += out
    if not res["ok"]:
        m = re.search(r'File "\./([^"]+)", line (\d+)', res["log"])
        res["failed_at"] = "%s:%s" % (m.group(1), m.group(2)) if m else "unknown"
        # name the lemma being proved at that line
        if m:
            try:
                lines = open(os.path.join(COQ, m.group(1))).read().split("\n")
                for i in range(int(m.group(2)) - 1, -1, -1):
                    mm = PROOF_KW.match(lines[i])
                    if mm:
                        res["failed_lemma"] = mm.group(2)
                        break
            except OSError:
                pass
    return res


class Outcome:
    def __init__(self):
        self.violations = []      # [{"what":..., "input":...}] implementation breaks the property
        self.broken = []          # [{"what":..., "detail":...}] proof or correspondence no longer checks
        self.known = []           # printed KNOWN-FINDING lines
        self.coverage = {}
        self.assumptions = []


def main():
    if len(sys.argv) < 3:
        print("usage: check <ID> <quick|thorough> [--replay file]")
        sys.exit(2)
    pid, tier = sys.argv[1], sys.argv[2]
    replay = None
    if "--replay" in sys.argv:
        # a replay re-runs the (deterministic, seeded) check and says which of the recorded
        # violations reproduce on the current tree
        try:
            replay = json.load(open(sys.argv[sys.argv.index("--replay") + 1]))
        except (OSError, ValueError, IndexError):
            print("cannot read the replay file")
            sys.exit(2)
    os.environ["VERIF_TIER"] = tier
    t0 = time.time()
    lock()
    for tag in ("violation", "broken"):
        try:
            os.remove(replay_path(pid, tag))
        except OSError:
            pass
    out = Outcome()
    mod = importlib.import_module("checks." + pid)
    proof = None
    try:
        regenerate()
        proof = prove(pid)
        if tier == "thorough" and proof["ok"]:
            ck_ok, ck_sum, ck_s = coqchk(pid)
            proof["coqchk"] = {"ok": ck_ok, "summary": ck_sum, "seconds": round(ck_s, 1)}
            if not ck_ok:
                out.broken.append({"what": "coqchk does not accept the compiled property file: " + ck_sum, "detail": ck_sum})
        if proof["forbidden"]:
            out.broken.append({"what": "forbidden construct in the development", "detail": proof["forbidden"]})
        if not proof["ok"]:
            out.broken.append({"what": "proof obligation no longer checks: %s (%s)" % (proof.get("failed_lemma", "?"), proof.get("failed_at", "?")),
                               "detail": proof["log"][-3000:]})
        elif proof.get("axioms"):
            out.broken.append({"what": "theorem depends on axioms", "detail": proof["axioms"]})
        build_harness()
        try:
            build_model()
            model_ok = True
        except BrokenTie as bt:
            model_ok = False
            out.broken.append({"what": bt.what, "detail": bt.detail})
        mod.run(tier, out, model_ok, proof)
    except BrokenTie as bt:
        out.broken.append({"what": bt.what, "detail": bt.detail})
        try:
            build_harness()
            mod.run(tier, out, False, proof)
        except BrokenTie as bt2:
            out.broken.append({"what": bt2.what, "detail": bt2.detail})
        except Exception:
            out.broken.append({"what": "search crashed", "detail": traceback.format_exc()})
    # known findings
    kf = known_findings(pid)
    unlisted = []
    for v in out.violations:
        hit = None
        for f in kf:
            if mod.matches_finding(v, f):
                hit = f
                break
        if hit is None:
            unlisted.append(v)
        else:
            hit["_seen"] = True
    for f in kf:
        if f.get("_seen"):
            print("KNOWN-FINDING: property=%s %s" % (pid, f["what"]))
        else:
            out.broken.append({"what": "known finding %s no longer reproduces (model and code have drifted)" % f["id"], "detail": f})
    if replay is not None:
        now = {v["what"] for v in out.violations} | {b["what"] for b in out.broken}
        old = [v["what"] for v in replay.get("violations", [])] + [b["what"] for b in replay.get("broken", [])]
        hit = [w for w in old if w in now]
        print("REPLAY: %d of %d recorded violations reproduce on the current tree" % (len(hit), len(old)))
        for w in hit[:10]:
            print("REPLAY reproduced: " + w[:200])
    level = "proof"
    cov = dict(out.coverage)
    if proof:
        cov.update({
            "obligations": len(proof["obligations"]),
            "discharged": proof["discharged"],
            "checker_cmd": "cd /verif/coq && make -j16 %s (full .vo build via coq_makefile; coqc 8.16.1) then coqc Props/%s.v for Print Assumptions" % (proof["target"], pid),
            "trusted_base": TRUSTED_BASE,
            "print_assumptions_closed": proof.get("print_assumptions_closed", 0),
            "axioms": proof.get("axioms", []),
            "cone_files": proof["files"],
            "theorems": [n for f, n in proof["obligations"] if f.startswith("Props/")],
        })
        if proof.get("coqchk"):
            cov["coqchk"] = proof["coqchk"]
    else:
        cov.update({"obligations": 1, "discharged": 0, "checker_cmd": "go2coq failed before coqc", "trusted_base": TRUSTED_BASE})
    nviol = len(unlisted) + (1 if (out.broken and not unlisted) else 0)
    write_evidence(pid, tier, level, cov, out.assumptions, time.time() - t0, nviol)
    if unlisted:
        rp = replay_path(pid, "violation")
        json.dump({"property": pid, "violations": unlisted[:20], "broken": out.broken,
                   "replay_cmd": "./check %s %s --replay %s" % (pid, tier, rp)}, open(rp, "w"), indent=1)
        print("VIOLATION property=%s replay=%s" % (pid, rp))
        sys.exit(1)
    if out.broken:
        rp = replay_path(pid, "broken")
        json.dump({"property": pid, "no_failing_input_found": True, "broken": out.broken}, open(rp, "w"), indent=1)
        print("VIOLATION property=%s replay=%s no-failing-input-found" % (pid, rp))
        sys.exit(1)
    print("OK property=%s tier=%s wall=%.1fs" % (pid, tier, time.time() - t0))
    sys.exit(0)
