"""Rendering of abstract directive lists into bytes under a layout, with the lexeme stream
(kind, begin, end) and lexeme values the rendering is expected to scan to (S6 of DESIGN.md).
Written from the language description, independent of the scanner model."""
import random


class D:
    """one directive: keyword, parameters, annotation, explicit flag, body, children"""
    def __init__(self, kw, params=(), annot=None, body=None, bkind=None, explicit=False, children=()):
        self.kw, self.params, self.annot = kw, list(params), annot
        self.body, self.bkind, self.explicit = body, bkind, explicit
        self.children = list(children)


class Layout:
    def __init__(self, rng=None, nl=b"\n", indent=2, quote=0.0, annot_style="//", trivia=0.0, trail=0.0):
        self.rng = rng or random.Random(0)
        self.nl, self.indent, self.quote, self.annot_style, self.trivia, self.trail = nl, indent, quote, annot_style, trivia, trail

    @staticmethod
    def random(rng):
        return Layout(rng, nl=rng.choice([b"\n", b"\r\n", b"\r"]), indent=rng.choice([0, 1, 2, 4, 7]),
                      quote=rng.choice([0.0, 0.5, 1.0]), annot_style=rng.choice(["//", "/*"]),
                      trivia=rng.choice([0.0, 0.3, 0.7]), trail=rng.choice([0.0, 0.5]))


def can_quote(p):
    return not any(c in p for c in b'"\\') and all(0x20 <= c < 0x7f for c in p) and len(p) > 0


def render(dirs, lay):
    """-> (bytes, expected lexemes [(kind, begin, end, value)])"""
    out = bytearray()
    exp = []
    rng = lay.rng

    state = {"after_schema": False}

    def trivia(depth):
        # only between directives; a '#' comment directly after a jschema body belongs to that
        # body (the dependency's length scan absorbs it), so none is put there
        if state["after_schema"]:
            return
        while rng.random() < lay.trivia:
            r = rng.random()
            pad = b" " * rng.randint(0, 3)
            if r < 0.3:
                out.extend(pad + lay.nl)
            elif r < 0.55:
                out.extend(pad + b"# comment " + bytes([rng.randint(0x41, 0x5a)]) + lay.nl)
            elif r < 0.7:
                # the text of a line comment is arbitrary: comment signs, keywords, parentheses
                out.extend(pad + rng.choice([b"# see #12 and #13", b"## double", b"##", b"## ", b"#\t", b"# a ### b", b"#a#b#c", b"# GET /x ( )", b"#", b"# tail #",
                                             b"# \"quoted\" // not an annotation", b"# caf\xc3\xa9"]) + lay.nl)
            else:
                out.extend(pad + rng.choice([b"###" + lay.nl + b" block " + lay.nl + b"###", b"### one line ###", b"###" + lay.nl + b"# inner # signs ## x" + lay.nl + b"###",
                                             b"###" + lay.nl + b"GET /not-a-directive" + lay.nl + b"###"]) + lay.nl)

    def emit(d, depth):
        trivia(depth)
        state["after_schema"] = False
        ind = b" " * (lay.indent * depth)
        out.extend(ind)
        kw = d.kw.encode()
        exp.append(("K", len(out), len(out) + len(kw) - 1, kw))
        out.extend(kw)
        for p in d.params:
            p = p if isinstance(p, bytes) else p.encode()
            out.extend(rng.choice([b" ", b"  ", b"\t"]))
            raw = p
            if can_quote(p) and not p.startswith(b'"') and rng.random() < lay.quote:
                raw = b'"' + p + b'"'
            exp.append(("P", len(out), len(out) + len(raw) - 1, raw))
            out.extend(raw)
        if d.annot is not None:
            a = d.annot if isinstance(d.annot, bytes) else d.annot.encode()
            out.extend(b" ")
            if lay.annot_style == "//":
                out.extend(b"//")
                txt = b" " + a
                exp.append(("A", len(out), len(out) + len(txt) - 1, txt))
                out.extend(txt)
            else:
                out.extend(b"/*")
                # padded, or tight (the text may then end in asterisks right before the closing */)
                txt = (b" " + a + b" ") if (rng.random() < 0.6 or not a) else a
                exp.append(("A", len(out), len(out) + len(txt) - 1, txt))
                out.extend(txt)
                out.extend(b"*/")
                # what may follow a closed annotation on its line: blanks, a '#' comment, a '###' block
                # (not after Body and TYPE, whose body state hands a '#' to the schema library: notes/comment-before-body.md)
                if d.kw not in ("Body", "TYPE") and rng.random() < lay.trivia * 0.6:
                    out.extend(rng.choice([b" # after the annotation", b"#glued", b" ### block ###", b"\t# tab", b"  "]))
        elif rng.random() < lay.trail:
            out.extend(rng.choice([b" ", b"  ", b"\t"]))
        kwline_end = len(out)   # position of the first line-end byte of the keyword line
        out.extend(lay.nl)
        if d.explicit:
            out.extend(ind)
            exp.append(("O", len(out), len(out), b"("))
            out.extend(b"(")
            if rng.random() < lay.trail:
                out.extend(b" ")
            out.extend(lay.nl)
        if d.body is not None and d.bkind != "T" and not d.explicit and d.kw not in ("Body", "TYPE"):
            # comments between the keyword line and the body: skipped by the scanner for every body
            # directive except Body and TYPE, where the schema library takes them as part of the schema
            while rng.random() < lay.trivia * 0.5:
                pad = b" " * rng.randint(0, 5)
                out.extend(pad + rng.choice([b"# before the body", b"#", b"## d", b"###" + lay.nl + b" block " + lay.nl + b"###", b"### one line ###", b""]) + lay.nl)
        if d.body is not None:
            body = d.body if isinstance(d.body, bytes) else d.body.encode()
            body = body.replace(b"\n", lay.nl)
            out.extend(ind + b" " * lay.indent if d.bkind != "T" else b"")
            if d.bkind == "T":
                # Description: the text lexeme starts on the first byte of the line after the keyword line
                start = kwline_end + 1   # right after the first line-end byte (CRLF: the LF is part of the text)
                if body.lstrip(b" \t").startswith(b"("):
                    # parenthesised text: the lexeme ends with the closing parenthesis (on its own line)
                    base = len(out) + len(ind) + 2
                    out.extend(ind + b"  " + body + lay.nl)
                    end = base + body.rindex(b")")
                    exp.append(("T", start, end, bytes(out[start:end + 1])))
                    state["after_schema"] = False
                else:
                    out.extend(ind + b"  " + body + lay.nl)
                    state["after_schema"] = True   # everything up to the next directive is description text
                    exp.append(("T", start, None, None))   # end fixed up later: up to the byte before the next keyword
            else:
                exp.append((d.bkind, len(out), len(out) + len(body) - 1, body))
                out.extend(body)
                if rng.random() < lay.trail:
                    out.extend(rng.choice([b" ", b"\t", b"  "]))
                out.extend(lay.nl)
                state["after_schema"] = d.bkind == "S"
        for c in d.children:
            emit(c, depth + 1)
        if d.explicit:
            trivia(depth)
            state["after_schema"] = False
            out.extend(ind)
            exp.append(("C", len(out), len(out), b")"))
            out.extend(b")")
            out.extend(lay.nl)

    for d in dirs:
        emit(d, 0)
    data = bytes(out)
    # fix up Description text extents: they run to the byte before the next lexeme (or end of data)
    fixed = []
    for i, e in enumerate(exp):
        if e[0] == "T" and e[2] is None:
            nxt = exp[i + 1][1] if i + 1 < len(exp) else len(data)
            end = nxt - 1
            fixed.append(("T", e[1], end, data[e[1]:end + 1]))
        else:
            fixed.append(e)
    return data, fixed


# ------------------------------------------------------------------------------------------
# abstract documents for lexical tests (need not be semantically valid)

def gen_lexical_doc(rng, n=None):
    kws_nobody = ["URL", "GET", "POST", "INFO", "SERVER", "MACRO", "PASTE", "TAG", "Tags", "Title", "Version",
                  "BaseUrl", "Protocol", "Method", "OperationId", "JSIGHT", "PUT", "PATCH", "DELETE"]
    params = [b"/a", b"/a/{id}", b"@t", b"x", b"0.3", b"json-rpc-2.0", b"a-b_c", b"@tag1", b"/p/q.r", b"q=1&r=2", b"any"]
    annots = [None, None, "note", "a b  c", "x # not a comment?", "slash / inside", "star * inside",
              "note *", "*", "**", "* boxed *", "a ** b", "x*", "/ y", "é ü 漢"]
    dirs = []
    for _ in range(n or rng.randint(1, 6)):
        r = rng.random()
        annot = rng.choice(annots)
        if annot and "#" in annot:
            annot = "note"   # '#' ends a // annotation: keep the expectation simple
        if r < 0.45:
            kw = rng.choice(kws_nobody)
            ps = [rng.choice(params) for _ in range(rng.choice([0, 1, 1, 2]))]
            dirs.append(D(kw, ps, annot, explicit=rng.random() < 0.2))
        elif r < 0.6:
            dirs.append(D(rng.choice(["200", "404", "Body", "Request"]), [b"any"], annot))
        elif r < 0.8:
            kw = rng.choice(["Headers", "Query", "Path", "Params", "Result", "TYPE", "200", "Body", "Request"])
            ps = [b"@t"] if kw == "TYPE" else []
            body = rng.choice([b'{}', b'{"a": 1}', b'{\n  "a": 1,\n  "b": [1, 2]\n}', b'@t', b'"str"'])
            if kw in ("Headers", "Path", "Params", "Result", "Query") and not body.startswith(b"{") and not body.startswith(b"@"):
                body = b"{}"
            dirs.append(D(kw, ps, annot, body=body, bkind="S", explicit=rng.random() < 0.15))
        elif r < 0.88:
            dirs.append(D("ENUM", [b"@e"], annot, body=rng.choice([b"[1, 2]", b'["a", "b"]', b"[\n 1,\n 2\n]"]), bkind="E"))
        elif r < 0.94:
            dirs.append(D(rng.choice(["Body", "TYPE", "200"]), ([b"@r"] if False else []) + [b"regex"], None, body=rng.choice([b"/ab+/", b"/a\\/b/", b"/[a-z]{2}/"]), bkind="T"))
            dirs[-1].regex = True
        else:
            dirs.append(D("Description", [], None, body=rng.choice([b"some text", b"line one", b"x",
                b"(\n  in parentheses\n)", b"(\n  one blank line before the end\n\n)", b"(\n  two\n\n\n)", b"(\n  blanks on the empty line\n   \n)",
                b"(\n  first\n\n  second\n)", b"(\n x\n\t\n)"]), bkind="T"))
    return dirs
