"""Predicates on the implementation's catalog JSON, written from the property texts:
cross-reference invariant (C05) and JDoc Exchange shape (C04)."""
import json, re


def path_params(path):
    return [s[1:-1] for s in path.strip("/").split("/") if s and s[0] == "{" and s[-1] == "}"]


def schema_used(node, acc_types, acc_enums):
    if isinstance(node, dict):
        for k, v in node.items():
            if k == "usedUserTypes" and isinstance(v, list):
                acc_types.update(v)
            elif k == "usedUserEnums" and isinstance(v, list):
                acc_enums.update(v)
            else:
                schema_used(v, acc_types, acc_enums)
    elif isinstance(node, list):
        for v in node:
            schema_used(v, acc_types, acc_enums)


def cross_refs(j):
    """-> list of (class, description) violations of the C05 invariant"""
    out = []
    inters = j.get("interactions") or {}
    tags = j.get("tags") or {}
    types = j.get("userTypes") or {}
    enums = j.get("userEnums") or {}
    if inters or tags or types or enums or j.get("info") or j.get("servers"):
        if j.get("jsight") != "0.3":
            out.append(("other", "jsight version is %r" % j.get("jsight")))
    for key, i in inters.items():
        proto = i.get("protocol")
        meth = i.get("httpMethod") if proto == "http" else i.get("method")
        want = "%s %s %s" % (proto, meth, i.get("path"))
        if key != i.get("id") or key != want:
            out.append(("other", "interaction key %r, id %r, fields %r" % (key, i.get("id"), want)))
        seen = set()
        for t in i.get("tags", []):
            if t in seen:
                out.append(("tag-named-twice-in-tags-directive", "interaction %r names tag %r twice" % (key, t)))
            seen.add(t)
            if t not in tags:
                out.append(("other", "interaction %r names undefined tag %r" % (key, t)))
                continue
            groups = [g for g in tags[t].get("interactionGroups", []) if g.get("protocol") == proto]
            n = sum(g.get("interactions", []).count(key) for g in groups)
            if n != 1:
                out.append(("tag-named-twice-in-tags-directive" if n == 2 and i.get("tags", []).count(t) == 2 else "other",
                            "tag %r lists interaction %r %d times under %s" % (t, key, n, proto)))
        if proto == "http":
            pv = i.get("pathVariables")
            have = []
            if pv:
                ch = (pv.get("schema") or {}).get("content", {}).get("children") or []
                have = [c.get("key") for c in ch]
            if sorted(have) != sorted(path_params(i.get("path", ""))):
                out.append(("other", "pathVariables %r of %r are not the parameters of its path" % (have, key)))
            for r in i.get("responses", []):
                c = r.get("code", "")
                if not (len(c) == 3 and c.isdigit() and 100 <= int(c) <= 599):
                    out.append(("other", "response code %r of %r" % (c, key)))
                if not r.get("body"):
                    out.append(("other", "response %s of %r has no body" % (c, key)))
    for tn, t in tags.items():
        if t.get("name") != tn:
            out.append(("other", "tag key %r vs name %r" % (tn, t.get("name"))))
        for g in t.get("interactionGroups", []):
            for iid in g.get("interactions", []):
                if iid not in inters:
                    out.append(("other", "tag %r lists unknown interaction %r" % (tn, iid)))
                elif inters[iid].get("protocol") != g.get("protocol"):
                    out.append(("other", "tag %r lists %r under the wrong protocol" % (tn, iid)))
                elif tn not in inters[iid].get("tags", []):
                    out.append(("other", "tag %r lists %r, which does not name that tag" % (tn, iid)))
    ut, ue = set(), set()
    schema_used(j, ut, ue)
    for t in ut:
        if t not in types:
            out.append(("other", "usedUserTypes names undefined type %r" % t))
    for e in ue:
        if e not in enums:
            out.append(("other", "usedUserEnums names undefined enum %r" % e))
    return out


# ------------------------------------------------------------------------------- C04 shape

TOP_KEYS = {"tags", "info", "servers", "userTypes", "userEnums", "interactions", "jsight", "jdocExchangeVersion"}
TOP_REQUIRED = {"tags", "interactions", "jsight", "jdocExchangeVersion"}


def content_shape(node, path, out):
    if not isinstance(node, dict):
        out.append("%s: schema node is not an object" % path)
        return
    tt = node.get("tokenType")
    if tt in ("object", "array"):
        if "children" not in node:
            out.append("%s: %s node without children" % (path, tt))
        if "scalarValue" in node:
            out.append("%s: %s node with scalarValue" % (path, tt))
        for k, c in enumerate(node.get("children") or []):
            # a child of an object is a property: it carries its key (which may be the empty string)
            if tt == "object" and isinstance(c, dict) and not isinstance(c.get("key"), str):
                out.append("%s/%d: a property of an object node is emitted without its key" % (path, k))
            content_shape(c, "%s/%d" % (path, k), out)
    else:
        if "children" in node:
            out.append("%s: scalar node (%s) with children" % (path, tt))
        if "scalarValue" not in node:
            out.append("%s: scalar node (%s) without scalarValue" % (path, tt))
    if "tokenType" not in node or "type" not in node:
        out.append("%s: schema node without tokenType/type" % path)


def schema_shape(s, path, out):
    if not isinstance(s, dict) or "notation" not in s:
        out.append("%s: schema without notation" % path)
        return
    if s["notation"] == "jsight":
        if "content" not in s or s["content"] is None:
            out.append("%s: jsight schema without content" % path)
        else:
            content_shape(s["content"], path + "/content", out)
    elif s["notation"] == "regex":
        if "content" not in s:
            out.append("%s: regex schema without content" % path)


def jdoc_shape(j):
    out = []
    if not isinstance(j, dict):
        return ["top level is not an object"]
    for k in j:
        if k not in TOP_KEYS:
            out.append("unknown top-level key %r" % k)
    for k in TOP_REQUIRED:
        if k not in j:
            out.append("missing top-level key %r" % k)
    if j.get("jdocExchangeVersion") != "2.0.0":
        out.append("jdocExchangeVersion %r" % j.get("jdocExchangeVersion"))
    for n, t in (j.get("tags") or {}).items():
        for f in ("name", "title", "interactionGroups"):
            if f not in t:
                out.append("tag %r without %s" % (n, f))
        for g in t.get("interactionGroups") or []:
            if "protocol" not in g or "interactions" not in g:
                out.append("tag %r: group without protocol/interactions" % n)
    for n, s in (j.get("servers") or {}).items():
        if "baseUrl" not in s:
            out.append("server %r without baseUrl" % n)
    for n, t in (j.get("userTypes") or {}).items():
        if "schema" not in t:
            out.append("user type %r without schema" % n)
        else:
            schema_shape(t["schema"], "userTypes/" + n, out)
    for n, e in (j.get("userEnums") or {}).items():
        if "value" not in e and "schema" not in e and "content" not in e:
            pass
    for k, i in (j.get("interactions") or {}).items():
        req = ("id", "protocol", "httpMethod", "path", "tags") if i.get("protocol") == "http" else ("id", "protocol", "method", "path", "tags")
        for f in req:
            if f not in i:
                out.append("interaction %r without %s" % (k, f))
        if i.get("protocol") == "http":
            if i.get("query"):
                if "format" not in i["query"] or "schema" not in i["query"]:
                    out.append("interaction %r: query without format/schema" % k)
                else:
                    schema_shape(i["query"]["schema"], k + "/query", out)
            rq = i.get("request")
            if rq:
                if "body" in rq and not isinstance(rq["body"], dict):
                    out.append("interaction %r: the required body of the request is %s" % (k, json.dumps(rq["body"])))
                if rq.get("body"):
                    if "format" not in rq["body"] or "schema" not in rq["body"]:
                        out.append("interaction %r: request body without format/schema" % k)
                    else:
                        schema_shape(rq["body"]["schema"], k + "/request/body", out)
                if rq.get("headers"):
                    schema_shape(rq["headers"].get("schema"), k + "/request/headers", out)
            for r in i.get("responses") or []:
                if "code" not in r or "body" not in r:
                    out.append("interaction %r: response without code/body" % k)
                elif not isinstance(r["body"], dict):
                    out.append("interaction %r: the required body of response %s is %s" % (k, r.get("code"), json.dumps(r["body"])))
                elif r["body"]:
                    if "format" not in r["body"] or "schema" not in r["body"]:
                        out.append("interaction %r: response body without format/schema" % k)
                    else:
                        schema_shape(r["body"]["schema"], k + "/responses/" + r["code"], out)
                if r.get("headers"):
                    schema_shape(r["headers"].get("schema"), k + "/responses/headers", out)
            if i.get("pathVariables"):
                schema_shape(i["pathVariables"].get("schema"), k + "/pathVariables", out)
        else:
            for f in ("params", "result"):
                if i.get(f):
                    schema_shape(i[f].get("schema"), k + "/" + f, out)
    return out
