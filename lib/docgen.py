"""Bridges the structured document generator (treecorr.Node) to the layout renderer
(layout.D), runs builds through the harness, and compares catalogs."""
import json, os, re, shlex
from common import *
import treecorr, layout


def split_first_line(line):
    """keyword, raw parameter strings, annotation (or None)"""
    annot = None
    m = re.search(r"\s//\s?(.*)$", line)
    if m:
        annot = m.group(1)
        line = line[:m.start()]
    toks = []
    cur, inq = "", False
    for ch in line:
        if ch == '"':
            inq = not inq
            cur += ch
        elif ch in " \t" and not inq:
            if cur:
                toks.append(cur)
                cur = ""
        else:
            cur += ch
    if cur:
        toks.append(cur)
    return toks[0], toks[1:], annot


def node_to_D(n):
    first, _, rest = n.text.partition("\n")
    kw, params, annot = split_first_line(first)
    body, bkind = None, None
    if rest:
        body = rest.strip(" \t").encode()
        if kw == "ENUM":
            bkind = "E"
        elif kw == "Description":
            bkind = "T"
        elif "regex" in params:
            bkind = "R"
        else:
            bkind = "S"
    ps = []
    for p in params:
        pb = p.encode()
        if pb.startswith(b'"') and pb.endswith(b'"') and len(pb) >= 2 and layout.can_quote(pb[1:-1]) and b" " not in pb:
            pb = pb[1:-1]     # let the layout decide about quoting
        ps.append(pb)
    return layout.D(kw, ps, annot, body=body, bkind=bkind, explicit=n.explicit,
                    children=[node_to_D(c) for c in n.children])


def run_build(cases, shards=12, timeout=600, min_shard=20):
    lines = [json.dumps(c) for c in cases]
    return treecorr.run_isolated(os.path.join(BUILD, "harness"), ["build"], lines, shards=shards, timeout=timeout, min_shard=min_shard)


def norm_json(v):
    """string values with CR normalised, as the property prescribes"""
    if isinstance(v, str):
        return v.replace("\r\n", "\n").replace("\r", "\n")
    if isinstance(v, list):
        return [norm_json(x) for x in v]
    if isinstance(v, dict):
        return {k: norm_json(x) for k, x in v.items()}
    return v


def ordered(v):
    """JSON value with object key order retained (lists of pairs)"""
    return v


def json_diff(a, b, path=""):
    """first difference between two JSON values (objects compared with key order), or None"""
    if type(a) != type(b):
        return "%s: %r vs %r" % (path, a if not isinstance(a, (dict, list)) else type(a).__name__, b if not isinstance(b, (dict, list)) else type(b).__name__)
    if isinstance(a, dict):
        if list(a.keys()) != list(b.keys()):
            return "%s: keys %s vs %s" % (path, list(a.keys())[:8], list(b.keys())[:8])
        for k in a:
            d = json_diff(a[k], b[k], path + "/" + k)
            if d:
                return d
        return None
    if isinstance(a, list):
        if len(a) != len(b):
            return "%s: length %d vs %d" % (path, len(a), len(b))
        for i, (x, y) in enumerate(zip(a, b)):
            d = json_diff(x, y, "%s[%d]" % (path, i))
            if d:
                return d
        return None
    return None if a == b else "%s: %r vs %r" % (path, a, b)


def err_text(r):
    return bytes.fromhex(r["err"]["msg"]).decode("utf-8", "replace") if r.get("err") else ""


def err_class(msg):
    """message with the quoted offending character / names removed"""
    msg = re.sub(r"invalid character '(?:\\.[^']*|[^'\\])'", "invalid character", msg)
    return msg
