"""Catalog-layer correspondence: the skeleton of the implementation's catalog JSON (entities,
keys, order, annotations, descriptions, tags both ways, request/response structure) and rule
errors, against the extracted Coq model (Model/Catalog.v)."""
import json, os
from common import *
import treecorr, docgen


def H(s):
    return s.encode("utf-8").hex() if isinstance(s, str) else s


def project(j):
    """skeleton of a catalog JSON, in the model's vocabulary (all strings hex)"""
    out = {"jsight": H(j.get("jsight", "")), "info": None, "servers": [], "tags": [], "types": [], "inters": []}
    if "info" in j and j["info"] is not None:
        i = j["info"]
        out["info"] = {"title": H(i.get("title", "")), "version": H(i.get("version", "")),
                       "descr": H(i["description"]) if "description" in i else None}
    for n, s in (j.get("servers") or {}).items():
        out["servers"].append([H(n), H(s.get("annotation", "")), H(s.get("baseUrl", ""))])
    for n, t in (j.get("tags") or {}).items():
        http, rpc = [], []
        for g in t.get("interactionGroups", []):
            (http if g["protocol"] == "http" else rpc).extend(H(x) for x in g["interactions"])
        out["tags"].append([H(t["name"]), H(t["title"]), H(t["description"]) if "description" in t else None, http, rpc])
    for n, t in (j.get("userTypes") or {}).items():
        out["types"].append([H(n), H(t.get("annotation", "")), H(t["schema"].get("notation", ""))])
    for k, i in (j.get("interactions") or {}).items():
        if i["protocol"] == "http":
            q = i.get("query")
            rq = i.get("request")
            out["inters"].append({
                "k": "http", "id": H(i["id"]), "method": H(i["httpMethod"]), "path": H(i["path"]),
                "annot": H(i.get("annotation", "")), "descr": H(i["description"]) if "description" in i else None,
                "tags": [H(x) for x in i.get("tags", [])],
                "query": [H(q["format"]), H(q.get("example", ""))] if q else None,
                "request": {"headers": "headers" in rq, "body": rq["body"]["format"] if rq.get("body") else None} if rq else None,
                "responses": [[H(r["code"]), H(r.get("annotation", "")), "headers" in r, r["body"]["format"] if r.get("body") else None]
                              for r in i.get("responses", [])],
                "_key": H(k)})
        else:
            out["inters"].append({
                "k": "rpc", "id": H(i["id"]), "method": H(i["method"]), "path": H(i["path"]),
                "annot": H(i.get("annotation", "")), "descr": H(i["description"]) if "description" in i else None,
                "tags": [H(x) for x in i.get("tags", [])], "params": "params" in i, "result": "result" in i, "_key": H(k)})
    return out


MODELLED_CONSTS = ["RequiredParameterNotSpecified", "UnsupportedVersion", "AnnotationIsForbiddenForTheDirective",
    "DirectiveJSIGHTGottaBeOnlyOneTime", "DirectiveINFOGottaBeOnlyOneTime", "ParametersAreForbiddenForTheDirective",
    "NotUniqueDirective", "DescriptionIsEmpty", "DuplicateNames", "ServerNotFound", "DirectiveBaseURLAlreadyDefined",
    "NotUniquePath", "MethodIsAlreadyDefinedInResource", "BodyIsEmpty", "HTTPResourceNotFound", "RequestIsEmpty",
    "ResponsesIsEmpty", "IncorrectDirectiveContext", "ProtocolParameterErr", "ProtocolNotFound", "JsonRpcResourceNotFound",
    "NotUniqueOperationID", "TagNotFound", "WrongDescriptionContext", "CannotUseTheTypeAndSchemaNotationParametersTogether",
    "IncorrectRequest", "DirectiveJSIGHTShouldBeTheFirst", "InfoIsEmpty", "UndefinedRequestBodyForResource",
    "PathEmptyParameter", "PathParameterIsDuplicatedInThePath", "PathsAreSimilar", "IncorrectPath", "PathNotFound",
    "DirectiveNotAllowed", "ApartFromTheOpeningParenthesis", "ParentNotFound", "HTTPMethodNotFound", "JsonRpcMethodNotFound"]
EXTRA_MODELLED = ["undefined response body for resource", "cannot be within the same URL directive",
                  "You cannot specify User Type in the response directive"]
_rx = None


def modelled(msg):
    """is this message one the catalog model can produce?"""
    global _rx
    if _rx is None:
        import re
        consts = {}
        for m in re.finditer(r'^Definition jerr_(\w+) : string := "((?:[^"]|"")*)"\.$', open(os.path.join(COQ, "Gen", "ErrConsts.v")).read(), re.M):
            consts[m.group(1)] = m.group(2).replace('""', '"')
        pats = []
        for n in MODELLED_CONSTS:
            v = consts.get(n)
            if v:
                pats.append(re.sub(r"%[sq]", "\x00", v).split("\x00")[0])
        _rx = [p for p in pats if p] + EXTRA_MODELLED
    return any(msg.startswith(p) or (p in EXTRA_MODELLED and p in msg) for p in _rx)


def unmodelled(msg):
    return not modelled(msg)


def run_catalog(cases, shards=12):
    """-> (build results, crashes, model results, mismatches, skipped)"""
    bres, bcr = docgen.run_build(cases, shards=shards)
    # oracle tables for the model come from the tree harness
    lines = [json.dumps(c) for c in cases]
    tres, tcr = treecorr.run_isolated(os.path.join(BUILD, "harness"), ["tree"], lines, shards=shards)
    mlines, msgs = [], {}
    big = set()
    for c in cases:
        # the executable model indexes the file as a list: scanning is quadratic in the file size;
        # files above 12 KB are left to the scanner-level checks
        if sum(len(h) // 2 for h in c["files"].values()) > 12000:
            big.add(c["id"])
            continue
        ml, ms = treecorr.model_line(c, tres.get(c["id"], {}))
        for b in c.get("banned", []):
            ml += " B:%s" % b.encode().hex()
        mlines.append(ml)
        msgs[c["id"]] = ms
    mout = run_lines(os.path.join(BUILD, "model"), ["tree"], mlines, shards=shards)
    mres = {}
    for l in mout:
        r = json.loads(l)
        mres[r["id"]] = r
    mism, skipped = [], len(big)
    for c in cases:
        cid = c["id"]
        b, m = bres.get(cid), mres.get(cid)
        if b is None or m is None or cid in bcr:
            continue
        if m.get("scan") != "ok" or m.get("p2") != "ok":
            continue      # earlier phases are compared by treecorr
        if b["end"] == "panic":
            mism.append({"id": cid, "what": "implementation panics (%s), model: %s" % (b.get("panic", "")[:60], m.get("cat")), "case": c})
            continue
        if m["cat"] == "ok":
            if b["end"] == "err":
                msg = docgen.err_text(b)
                if unmodelled(msg):
                    skipped += 1
                    continue
                mism.append({"id": cid, "what": "implementation rejects (%s), model accepts" % msg[:90], "case": c})
                continue
            if "json" not in b:
                skipped += 1
                continue
            p = project(b["json"])
            for i in p["inters"]:
                if i["_key"] != i["id"]:
                    mism.append({"id": cid, "what": "interaction key differs from its id", "case": c})
                del i["_key"]
            d = docgen.json_diff(p, m["catalog"])
            if d:
                mism.append({"id": cid, "what": "catalog skeleton differs at %s (impl vs model)" % d, "case": c})
        elif m["cat"] == "err":
            if b["end"] != "err":
                mism.append({"id": cid, "what": "model rejects (%s), implementation accepts" % bytes.fromhex(m["caterr"]["fmt"]).decode(), "case": c})
                continue
            msg = docgen.err_text(b)
            why = treecorr.err_matches(b["err"], m["caterr"], msgs[cid])
            if why:
                if unmodelled(msg):
                    skipped += 1
                    continue
                mism.append({"id": cid, "what": "rule error differs: " + why, "case": c})
        else:
            mism.append({"id": cid, "what": "model outcome %s" % m["cat"], "case": c})
    return bres, bcr, mres, mism, skipped
