"""Reference transformations written from the property texts (independent of the model):
inlining of macros on the abstract document, textual inlining of INCLUDEs, the set of
directive kinds written in a project."""
import copy, os
import treecorr


def macro_table(roots):
    t = {}
    for n in roots:
        w = n.text.split()
        if w and w[0] == "MACRO" and len(w) > 1:
            t.setdefault(w[1].strip('"'), n)
    return t


def inline_macros(roots, depth=0):
    """replace every PASTE by the (recursively inlined) children of its MACRO and drop the MACRO
    definitions; returns None when a macro is undefined or the nesting is cyclic"""
    table = macro_table(roots)

    def inl(nodes, open_):
        out = []
        for n in nodes:
            w = n.text.split()
            if w and w[0] == "MACRO":
                continue
            if w and w[0] == "PASTE":
                name = w[1].strip('"') if len(w) > 1 else ""
                if name not in table or name in open_:
                    raise KeyError(name)
                out.extend(inl(copy.deepcopy(table[name].children), open_ | {name}))
                continue
            m = copy.copy(n)
            m.children = inl(n.children, open_)
            out.append(m)
        return out

    try:
        return inl(roots, frozenset())
    except KeyError:
        return None


def macro_graph(roots):
    """macro name -> names it pastes (anywhere in its body)"""
    table = macro_table(roots)

    def pastes(nodes):
        out = []
        for n in nodes:
            w = n.text.split()
            if w and w[0] == "PASTE" and len(w) > 1:
                out.append(w[1].strip('"'))
            out.extend(pastes(n.children))
        return out
    return {k: pastes(v.children) for k, v in table.items()}


def used_macros(roots):
    """macros reachable from a PASTE outside macro bodies"""
    g = macro_graph(roots)

    def pastes_outside(nodes):
        out = []
        for n in nodes:
            w = n.text.split()
            if w and w[0] == "MACRO":
                continue
            if w and w[0] == "PASTE" and len(w) > 1:
                out.append(w[1].strip('"'))
            out.extend(pastes_outside(n.children))
        return out
    seen, todo = set(), pastes_outside(roots)
    while todo:
        m = todo.pop()
        if m in seen:
            continue
        seen.add(m)
        todo.extend(g.get(m, []))
    return seen, g


def has_cycle_reachable(roots):
    used, g = used_macros(roots)
    state = {}

    def dfs(m):
        if state.get(m) == 1:
            return True
        if state.get(m) == 2:
            return False
        state[m] = 1
        for t in g.get(m, []):
            if t in g and dfs(t):
                return True
        state[m] = 2
        return False
    return any(dfs(m) for m in used if m in g)


def has_cycle_anywhere(roots):
    """a PASTE cycle among the declared macros, used or not; also True when a declared macro
    pastes an undeclared one (the checker visits every macro body)"""
    g = macro_graph(roots)
    state = {}

    def dfs(m):
        if state.get(m) == 1:
            return True
        if state.get(m) == 2:
            return False
        state[m] = 1
        for t in g.get(m, []):
            if t not in g or dfs(t):
                return True
        state[m] = 2
        return False
    return any(dfs(m) for m in g)


# ---------------------------------------------------------------------------- includes

def inline_includes(files, root="root.jst", depth=0, stack=()):
    """textual inlining: every line `INCLUDE name` is replaced by the content of that file
    (resolved relative to the including file); returns (bytes, line map) or None when a file
    is missing or the graph is cyclic.  line map: list of (file, line) for every output line."""
    if root in stack or depth > 20 or root not in files:
        return None
    out, lmap = [], []
    data = files[root]
    lines = data.split(b"\n")
    if lines and lines[-1] == b"":
        lines = lines[:-1]
    for i, line in enumerate(lines):
        s = line.strip()
        if s.startswith(b"INCLUDE "):
            name = s[8:].strip().decode("latin1").strip('"')
            target = os.path.normpath(os.path.join(os.path.dirname(root), name))
            sub = inline_includes(files, target, depth + 1, stack + (root,))
            if sub is None:
                return None
            out.extend(sub[0])
            lmap.extend(sub[1])
        else:
            out.append(line)
            lmap.append((root, i + 1))
    return out, lmap


def kinds_written(files):
    """directive kinds (keyword strings; response codes as HTTP-response-code) written anywhere"""
    import ctxref
    ks = set()
    for data in files.values():
        for line in data.split(b"\n"):
            w = line.strip().split()
            if not w:
                continue
            k = ctxref.kind_of(w[0].decode("latin1"))
            if k == "RESP":
                ks.add("HTTP-response-code")
            elif w[0].decode("latin1") in treecorr.RENDER or k in ("INCLUDE", "MACRO", "PASTE"):
                ks.add(k)
    return ks
