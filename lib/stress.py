"""Dependency-shaped stress documents: small projects whose build time must stay proportional to
their size (C01) - long chains and dense DAGs of user types, allOf chains, macro chains, include
chains, deep JSON.  Every one is accepted (or rejected) by the unchanged builder in milliseconds."""
J = "JSIGHT 0.3\n"


def type_chain(n, reverse=False, field='"x": @t%d'):
    blocks = ['TYPE @t%d\n{\n  %s\n}\n' % (i, field % (i + 1)) for i in range(n)] + ['TYPE @t%d\n{"leaf": 1}\n' % n]
    if reverse:
        blocks.reverse()
    return J + "".join(blocks) + "GET /x\n  200 @t0\n"


def type_fib(n):
    blocks = ['TYPE @t%d\n{\n  "a": @t%d,\n  "b": @t%d\n}\n' % (i, i + 1, i + 2) for i in range(n)]
    blocks += ['TYPE @t%d\n{"leaf": 1}\n' % n, 'TYPE @t%d\n{"leaf": 2}\n' % (n + 1)]
    return J + "".join(blocks) + "GET /x\n  200 @t0\n"


def type_dense(n):
    """every type uses every later one"""
    blocks = []
    for i in range(n):
        fields = ",\n".join('  "f%d": @t%d' % (j, j) for j in range(i + 1, n + 1))
        blocks.append('TYPE @t%d\n{\n%s\n}\n' % (i, fields))
    blocks.append('TYPE @t%d\n{"leaf": 1}\n' % n)
    return J + "".join(blocks) + "GET /x\n  200 @t0\n"


def allof_chain(n):
    blocks = ['TYPE @t%d\n{ // {allOf: "@t%d"}\n  "f%d": %d\n}\n' % (i, i + 1, i, i) for i in range(n)]
    blocks.append('TYPE @t%d\n{"leaf": 1}\n' % n)
    return J + "".join(blocks) + "GET /x\n  200 @t0\n"


def or_chain(n):
    blocks = ['TYPE @t%d\n{\n  "x": @t%d | @u%d\n}\nTYPE @u%d\n{\n  "y": @t%d\n}\n' % (i, i + 1, i, i, i + 1) for i in range(n)]
    blocks.append('TYPE @t%d\n{"leaf": 1}\n' % n)
    return J + "".join(blocks) + "GET /x\n  200 @t0\n"


def array_chain(n):
    blocks = ['TYPE @t%d\n[@t%d]\n' % (i, i + 1) for i in range(n)]
    blocks.append('TYPE @t%d\n{"leaf": 1}\n' % n)
    return J + "".join(blocks) + "GET /x\n  200 [@t0]\n"


def recursive_ring(n):
    blocks = ['TYPE @t%d\n{\n  "x": @t%d // {optional: true}\n}\n' % (i, (i + 1) % n) for i in range(n)]
    return J + "".join(blocks) + "GET /x\n  200 @t0\n"


def macro_chain(n):
    blocks = ['MACRO @m%d\n(\n  PASTE @m%d\n)\n' % (i, i + 1) for i in range(n)]
    blocks.append('MACRO @m%d\n(\n  200 any\n)\n' % n)
    return J + "".join(blocks) + "GET /x\n  PASTE @m0\n"


def macro_fanout(depth):
    blocks = ['MACRO @m%d\n(\n  Query\n  {"q%d": 1}\n)\n' % (depth, depth)]
    return J + "".join('MACRO @m%d\n(\n  PASTE @m%d\n)\n' % (i, i + 1) for i in range(depth)) + blocks[0] + \
        "".join("GET /x%d\n  PASTE @m0\n  200 any\n" % k for k in range(40))


def enum_users(n):
    return J + 'ENUM @e\n[1, 2, 3]\n' + "".join('TYPE @t%d\n{\n  "v": 1, // {enum: @e}\n  "n": @t%d // {optional: true}\n}\n' % (i, (i + 1) % n) for i in range(n)) + "GET /x\n  200 @t0\n"


def deep_json(n):
    return J + "GET /x\n  200\n    " + "[" * n + "1" + "]" * n + "\n"


def deep_object(n):
    s = "1"
    for i in range(n):
        s = '{"k%d": %s}' % (i, s)
    return J + "GET /x\n  200\n    " + s + "\n"


def many_paths(n):
    return J + "".join("GET /a%d/{p%d}/b\n  200 any\n" % (i, i) for i in range(n))


def include_chain(n):
    files = {"root.jst": (J + "INCLUDE f0.jst\n").encode()}
    for i in range(n):
        files["f%d.jst" % i] = ("TYPE @t%d any\nINCLUDE f%d.jst\n" % (i, i + 1)).encode()
    files["f%d.jst" % n] = b"GET /x\n  200 any\n"
    return files


CHAINS = ["type-chain", "type-chain-rev", "type-chain-opt", "allof-chain", "array-chain", "recursive-ring", "macro-chain",
          "enum-users", "include-chain", "macro-fanout", "deep-json", "deep-object", "many-paths"]
DAGS = ["type-fib", "or-chain", "type-dense"]


def family(name):
    return name.rsplit("-", 1)[0]


def projects(big=False):
    """(name, files): linear shapes up to 40 (80) levels - one path to every node - and DAG shapes,
    where a type is reachable over exponentially many paths, up to 20 levels"""
    out = []
    def one(name, doc):
        out.append((name, doc if isinstance(doc, dict) else {"root.jst": doc.encode()}))
    for n in (10, 20, 40) + ((80,) if big else ()):
        one("type-chain-%d" % n, type_chain(n))
        one("type-chain-rev-%d" % n, type_chain(n, reverse=True))
        one("type-chain-opt-%d" % n, type_chain(n, field='"x": @t%d // {optional: true}'))
        one("allof-chain-%d" % n, allof_chain(n))
        one("array-chain-%d" % n, array_chain(n))
        one("recursive-ring-%d" % n, recursive_ring(n))
        one("macro-chain-%d" % n, macro_chain(n))
        one("enum-users-%d" % n, enum_users(n))
        one("include-chain-%d" % n, include_chain(n))
        one("macro-fanout-%d" % n, macro_fanout(n))
    for n in (10, 16, 20) + ((24,) if big else ()):
        one("type-fib-%d" % n, type_fib(n))
        one("or-chain-%d" % n, or_chain(n))
    for n in (8, 12, 16):
        one("type-dense-%d" % n, type_dense(n))
    for n in (50, 200):
        one("deep-json-%d" % n, deep_json(n))
        one("deep-object-%d" % n, deep_object(n))
        one("many-paths-%d" % n, many_paths(n))
    return out


def path_shapes(maxseg=3):
    """(name, document): every path of up to maxseg segments over a small alphabet of odd segments,
    in three document shapes (method with its own path, URL + method, URL + JSON-RPC method)"""
    import itertools
    atoms = ["", ".", "..", "a", "{id}", "{}", "a.b", "%20"]
    out = []
    for n in range(1, maxseg + 1):
        for segs in itertools.product(atoms, repeat=n):
            p = "/" + "/".join(segs)
            key = p.replace("/", "_")
            out.append(("m" + key, J + "GET %s\n  200 any\n" % p))
            out.append(("u" + key, J + "URL %s\n  POST\n    200 any\n" % p))
            if n < 3:
                out.append(("r" + key, J + 'URL %s\n  Protocol json-rpc-2.0\n  Method go\n    Params\n      {"p": 1}\n' % p))
    for p in ["/", "//", "a", "a/b", "/a/", "/{", "/}", "/{a}{b}", "/{a}/{a}", "/a?x=1", "/a#f", "/a b", '"/quoted path"', "/%zz", "/\u00e9", "/a/../..", "/."]:
        out.append(("x" + str(len(out)), J + "GET %s\n  200 any\n" % p))
    return out
